"""Symbolic reading of the set-up part of main() (src/main.cpp) for Gen_Scaling.v / Gen_ScalingZ.v.

main() computes its derived quantities (angle, e1, dt, revolutionpart, slip factors, spacing_bins,
padded lengths, fmax ...) in straight-line code with a few `if`s.  This module executes that code
symbolically, top-level statement by top-level statement, over a small *typed* expression IR and
records what reaches the **sinks**: the constructor calls of the maps / fields / results file and
makeImpedance().  Quantities are therefore found by *where they are used* (parameter names of the
callee, read from the callee's own declaration), not by the names of main's locals: renaming a
local, introducing or removing a temporary, re-associating a product or re-ordering independent
statements leaves the result unchanged or changes it only up to `ring`/`field`.

IR (tuples; `ty` in f64 f32 u8 u32 u64 i32 i64 bool):
  ('lit', Fraction, ty) ('blit', bool) ('leaf', name, ty) ('cast', ty, e) ('bin', op, ty, a, b)
  ('neg', ty, a) ('call', fname, ty, args) ('cmp', op, a, b) ('isclass', cls, a) ('not', a)
  ('and', a, b) ('or', a, b) ('ite', ty, c, a, b) ('vec', ty, elems) ('opaque', text, ty)
Leaves: O_<getter> (option read through ProgramOptions), N_<getter> (size() of a vector option),
C_<name> (physcons constant / two_pi), V_<local> (cut variable, discrete file only),
S_<local> (a variable the enclosing statement itself assigns: loop state).
Anything not understood becomes ('opaque', ...); an opaque value that reaches an emitted sink is a
TranslateError (fail loudly)."""
import json, os, re, sys
from fractions import Fraction
sys.path.insert(0, os.path.dirname(os.path.abspath(__file__)))
from cxx_ast import *

TYMAP = {"double": "f64", "float": "f32", "unsigned int": "u32", "int": "i32", "unsigned long": "u64",
         "long": "i64", "bool": "bool", "unsigned char": "u8", "_Bool": "bool", "unsigned long long": "u64",
         "long long": "i64"}
INT_TYS = ("u8", "u32", "u64", "i32", "i64")
FLT_TYS = ("f32", "f64")
VALUE_CASTS = ("IntegralToFloating", "FloatingCast", "FloatingToIntegral", "IntegralCast", "IntegralToBoolean",
               "FloatingToBoolean", "BooleanToSignedIntegral")
PASS_KINDS = ("ImplicitCastExpr", "ParenExpr", "CXXFunctionalCastExpr", "CStyleCastExpr", "CXXStaticCastExpr",
              "ExprWithCleanups", "MaterializeTemporaryExpr", "CXXBindTemporaryExpr", "ConstantExpr")
LIBM = {"sqrt": "sqrt", "pow": "pow", "round": "round", "ceil": "ceil", "floor": "floor", "fabs": "fabs", "abs": "fabs",
        "tan": "tan", "sin": "sin", "cos": "cos", "asin": "asin", "exp": "exp", "log": "log", "cbrt": "cbrt"}
MUTATORS_OK = ("size", "empty", "back", "front", "at", "operator[]", "cbegin", "cend")
SINK_CLASSES = ("RFKickMap", "DynamicRFKickMap", "DriftMap", "FokkerPlanckMap", "ElectricField", "HDF5File", "PhaseSpace")
CLASS_SRC = {"RFKickMap": "src/SM/RFKickMap.cpp", "DynamicRFKickMap": "src/SM/DynamicRFKickMap.cpp",
             "DriftMap": "src/SM/DriftMap.cpp", "FokkerPlanckMap": "src/SM/FokkerPlanckMap.cpp",
             "ElectricField": "src/PS/ElectricField.cpp", "HDF5File": "src/IO/HDF5File.cpp",
             "PhaseSpace": "src/PS/PhaseSpace.cpp"}
# AST filter per class (default: the class name); PhaseSpace: its constructors only (the whole class is large)
CLASS_FILTER = {"PhaseSpace": "PhaseSpace::PhaseSpace"}
# factory functions that build the first grid from a file: they receive main()'s axis extents as well
PS_FACTORIES = ("makePSFromHDF5", "makePSFromTXT", "makePSFromPNG")


class Unknown(Exception):
    pass


def walk(n):
    yield n
    for c in kids(n):
        yield from walk(c)


def ctype(n):
    t = n.get("type") or {}
    q = t.get("desugaredQualType") or t.get("qualType") or ""
    q = re.sub(r"\b(const|volatile)\b", "", q).replace("&", "").strip()
    return TYMAP.get(q, "other:" + q)


def typeof(e):
    k = e[0]
    if k in ("lit", "leaf", "opaque"):
        return e[2]
    if k == "fpclass":
        return "i32"
    if k in ("blit", "cmp", "isclass", "not", "and", "or"):
        return "bool"
    if k == "cast":
        return e[1]
    if k in ("bin", "call"):
        return e[2]
    if k in ("neg", "ite", "vec"):
        return e[1]
    raise ValueError(e)


def subterms(e):
    yield e
    for x in e[1:]:
        if isinstance(x, tuple) and x and isinstance(x[0], str) and x[0] in (
                "lit", "blit", "leaf", "cast", "bin", "neg", "call", "cmp", "isclass", "not", "and", "or", "ite", "vec", "opaque",
                "trunc", "fpclass"):
            yield from subterms(x)
        elif isinstance(x, tuple):
            for y in x:
                if isinstance(y, tuple) and y and isinstance(y[0], str):
                    yield from subterms(y)


def leaves_of(e):
    return sorted({(t[1], t[2]) for t in subterms(e) if t[0] == "leaf"})


def opaques_of(e):
    return [t[1] for t in subterms(e) if t[0] == "opaque"]


def callee_name(n):
    """name of the function a CallExpr calls (first child), or None"""
    ks = kids(n)
    if not ks:
        return None
    for m in walk(ks[0]):
        if m.get("kind") == "DeclRefExpr" and "referencedDecl" in m:
            return m["referencedDecl"].get("name")
        if m.get("kind") == "UnresolvedLookupExpr":
            return m.get("name")
    return None


def base_var(me):
    """variable a MemberExpr / operator call is applied to (through casts and smart-pointer operator->)"""
    names = [m["referencedDecl"]["name"] for m in walk(me) if m.get("kind") == "DeclRefExpr" and "referencedDecl" in m
             and m["referencedDecl"].get("kind") in ("VarDecl", "ParmVarDecl")]
    return names[0] if len(names) == 1 else None


# --------------------------------------------------------------------------------------------
# declarations of the callees (parameter names)

def ctor_param_sets(cls):
    """[(names, signature)] of the constructors of vfps::<cls>; declaration and definition of one constructor
    (same signature) may name a parameter differently: `names` is then a list of tuples of alternatives"""
    docs = ast_of(CLASS_SRC[cls], CLASS_FILTER.get(cls, cls))
    by_sig = {}

    def visit(d):
        if d.get("kind") == "CXXConstructorDecl" and d.get("name") == cls and not d.get("isImplicit"):
            ps = [c for c in kids(d) if c.get("kind") == "ParmVarDecl"]
            names = [p.get("name") for p in ps]
            sig = (d.get("type") or {}).get("qualType", "")
            if names and all(names):
                cur = by_sig.setdefault(sig, [set() for _ in names])
                for st, nm in zip(cur, names):
                    st.add(nm)
        for c in kids(d):
            if c.get("kind") in ("CXXConstructorDecl", "CXXRecordDecl"):
                visit(c)
    for d in docs:
        visit(d)
    if not by_sig:
        raise TranslateError("no constructor declaration of %s found" % cls)
    return [([tuple(sorted(st)) for st in alts], sig) for sig, alts in by_sig.items()]


def func_params(src, fname):
    docs = ast_of(src, fname)
    for d in docs:
        if d.get("kind") == "FunctionDecl" and d.get("name") == fname:
            ps = [c.get("name") for c in kids(d) if c.get("kind") == "ParmVarDecl"]
            if ps and all(ps):
                return ps
    raise TranslateError("declaration of %s not found" % fname)


# --------------------------------------------------------------------------------------------

class Sink:
    def __init__(self, target, args, params, line, var, stmt_index):
        self.target, self.args, self.params, self.line, self.var, self.stmt_index = target, args, params, line, var, stmt_index
        self.argvars = []

    def has(self, pname):
        return any(pname == p or (isinstance(p, tuple) and pname in p) for p in self.params)

    def pos(self, pname):
        for i, p in enumerate(self.params):
            if pname == p or (isinstance(p, tuple) and pname in p):
                return i
        raise TranslateError("%s has no parameter `%s` any more (parameters: %s)" % (self.target, pname, self.params))

    def arg(self, pname):
        a = self.args[self.pos(pname)]
        if a is None:
            raise TranslateError("argument `%s` of %s (main.cpp:%s) is not an expression this translator understands" % (pname, self.target, self.line))
        return a


def mk_ite(ty, c, a, b):
    """conditional value; `!c ? a : b` is written `c ? b : a` (negated tests with swapped branches give the same term)"""
    while isinstance(c, tuple) and c and c[0] == "not":
        c, a, b = c[1], b, a
    return ("ite", ty, c, a, b)


class SymExec:
    """symbolic execution of main()'s top-level statements"""

    def __init__(self, cut_rule=None):
        self.env = {}
        self.full = {}          # local -> fully inlined IR even when the local is a cut variable
        self.decl_line = {}
        self.sinks = []
        self.cut_rule = cut_rule
        self.cuts = {}          # cut variable name -> (leaf, full IR)
        self.notes = []
        self.lambdas = {}       # id -> (LambdaExpr node, environment at its definition)

    # ------------------------------------------------------------------ expressions
    def ex(self, n):
        k = n.get("kind")
        if k in PASS_KINDS:
            ks = kids(n)
            if len(ks) != 1:
                raise Unknown("wrapper %s with %d children" % (k, len(ks)))
            inner = self.ex(ks[0])
            ck = n.get("castKind")
            if ck in VALUE_CASTS:
                ty = ctype(n)
                if ty.startswith("other"):
                    raise Unknown("cast to %s" % ty)
                if typeof(inner) == ty:
                    return inner
                return ("cast", ty, inner)
            if ck in (None, "NoOp", "LValueToRValue", "FunctionToPointerDecay", "ConstructorConversion", "UserDefinedConversion"):
                return inner
            raise Unknown("cast kind %s" % ck)
        if k == "IntegerLiteral":
            return ("lit", Fraction(int(n["value"])), ctype(n))
        if k == "FloatingLiteral":
            return ("lit", Fraction(n["value"]), ctype(n))
        if k == "CXXBoolLiteralExpr":
            return ("blit", bool(n["value"]))
        if k == "DeclRefExpr":
            rd = n.get("referencedDecl") or {}
            nm = rd.get("name")
            if nm in self.env:
                return self.env[nm]
            if rd.get("kind") == "VarDecl" and ctype(n) in FLT_TYS + INT_TYS:
                return ("leaf", "C_" + nm, ctype(n))       # namespace-scope constant (physcons::c ...)
            raise Unknown("reference to %s" % nm)
        if k == "UnaryOperator":
            op = n.get("opcode")
            a = self.ex(kids(n)[0])
            if op == "-":
                return ("neg", ctype(n), a)
            if op == "+":
                return a
            if op == "!":
                return ("not", a)
            raise Unknown("unary %s" % op)
        if k == "BinaryOperator":
            op = n.get("opcode")
            a, b = [self.ex(c) for c in kids(n)]
            if op in ("+", "-", "*", "/"):
                ty = ctype(n)
                if ty.startswith("other"):
                    raise Unknown("arithmetic in type %s" % ty)
                return ("bin", op, ty, a, b)
            if op in ("<", "<=", "==", "!="):
                return self.cmp(op, a, b)
            if op == ">":
                return self.cmp("<", b, a)
            if op == ">=":
                return self.cmp("<=", b, a)
            if op == "&&":
                return ("and", a, b)
            if op == "||":
                return ("or", a, b)
            raise Unknown("binary %s" % op)
        if k == "ConditionalOperator":
            c, a, b = [self.ex(x) for x in kids(n)]
            ty = ctype(n)
            if ty.startswith("other"):
                raise Unknown("conditional of type %s" % ty)
            return mk_ite(ty, c, a, b)
        if k == "CXXMemberCallExpr":
            me = kids(n)[0]
            if me.get("kind") != "MemberExpr":
                raise Unknown("member call shape")
            meth = me.get("name")
            obj = kids(me)[0] if kids(me) else None
            ov = base_var(me)
            if ov is not None and self.is_options(ov):
                ty = ctype(n)
                if ty.startswith("other"):
                    if "vector" in ty:
                        return ("leaf", "O_" + meth, "vec")
                    raise Unknown("option of type %s" % ty)
                return ("leaf", "O_" + meth, ty)
            if meth == "size" and obj is not None:
                try:
                    v = self.ex(obj)
                except Unknown:
                    v = None
                if v and v[0] == "leaf" and v[2] == "vec" and v[1].startswith("O_"):
                    return ("leaf", "N_" + v[1][2:], ctype(n))
                if v and v[0] == "vec":
                    return ("lit", Fraction(len(v[2])), ctype(n))
            raise Unknown("member call %s" % meth)
        if k == "CXXOperatorCallExpr":
            ks = kids(n)
            op = callee_name(n)
            if op == "operator()" and len(ks) >= 2:
                try:
                    f = self.ex(ks[1])
                except Unknown:
                    f = None
                if f and f[0] == "lambda":
                    return self.call_lambda(f[1], [self.ex(a) for a in ks[2:] if a.get("kind") != "CXXDefaultArgExpr"])
            if op == "operator[]" and len(ks) == 3:
                v, i = self.ex(ks[1]), self.ex(ks[2])
                while i[0] == "cast":
                    i = i[2]
                if v[0] == "vec" and i[0] == "lit" and 0 <= i[1] < len(v[2]):
                    return v[2][int(i[1])]
            raise Unknown("operator call %s" % op)
        if k == "CallExpr":
            fn = callee_name(n)
            args = kids(n)[1:]
            ty = ctype(n)
            if fn == "two_pi" and not args:
                return ("leaf", "C_two_pi", "f64")
            if fn == "fpclassify" and len(args) == 1:
                return ("fpclass", self.ex(args[0]))       # only meaningful inside a comparison, see cmp()
            if fn in ("max", "min") and len(args) == 2 and not ty.startswith("other"):
                return ("call", fn, ty, (self.ex(args[0]), self.ex(args[1])))
            if fn == "sign" and len(args) == 1:
                return ("call", "sign", ty if not ty.startswith("other") else "i32", (self.ex(args[0]),))
            if fn == "upper_power_of_two" and len(args) == 1:
                return ("call", "upow2", ty, (self.ex(args[0]),))
            if fn in LIBM and not ty.startswith("other"):
                return ("call", LIBM[fn], ty, tuple(self.ex(a) for a in args))
            raise Unknown("call of %s" % fn)
        if k in ("CXXConstructExpr", "CXXStdInitializerListExpr"):
            # std::vector<T>{{a, b, c}} and copies of a vector
            il = [m for m in walk(n) if m.get("kind") == "InitListExpr"]
            if il:
                inner = il[-1]
                elems = tuple(self.ex(c) for c in kids(inner))
                tys = {typeof(e) for e in elems}
                if len(tys) == 1 and not list(tys)[0].startswith("other"):
                    return ("vec", list(tys)[0], elems)
                raise Unknown("initializer list of mixed types")
            ks = [c for c in kids(n) if c.get("kind") != "CXXDefaultArgExpr"]
            if len(ks) == 1:
                return self.ex(ks[0])
            raise Unknown("constructor expression")
        if k == "InitListExpr":
            elems = tuple(self.ex(c) for c in kids(n))
            tys = {typeof(e) for e in elems}
            if len(tys) == 1:
                return ("vec", list(tys)[0], elems)
            raise Unknown("initializer list")
        raise Unknown("expression kind %s" % k)

    # ------------------------------------------------------------------ local lambdas
    def call_lambda(self, lid, args):
        """value of a call of a local lambda: parameters bound to the arguments (converted to the parameter types), the
        body executed as straight-line code with `if (c) return a; ... return b;` becoming a conditional value.  Everything
        the body reads from the enclosing function must have the value it had when the lambda was defined (so that capture by
        copy and by reference cannot differ)."""
        node, env_def = self.lambdas[lid]
        meth = None
        for m in walk(node):
            if m.get("kind") == "CXXMethodDecl" and m.get("name") == "operator()":
                meth = m
                break
        if meth is None:
            raise Unknown("lambda without a call operator")
        params = [c for c in kids(meth) if c.get("kind") == "ParmVarDecl"]
        body = [c for c in kids(meth) if c.get("kind") == "CompoundStmt"]
        if len(params) != len(args) or len(body) != 1:
            raise Unknown("lambda call with %d arguments for %d parameters" % (len(args), len(params)))
        saved = self.env
        local = dict(saved)
        for nm, v in env_def.items():
            if nm in saved and saved[nm] != v and v[0] != "lambda":
                # a variable changed since the definition: only harmful if the body reads it
                if any(m.get("kind") == "DeclRefExpr" and (m.get("referencedDecl") or {}).get("name") == nm for m in walk(body[0])):
                    raise Unknown("lambda reads %s, which changed after the lambda was defined" % nm)
        for p_, a in zip(params, args):
            ty = ctype(p_)
            if ty.startswith("other"):
                raise Unknown("lambda parameter of type %s" % ty)
            local[p_.get("name")] = a if typeof(a) == ty else ("cast", ty, a)
        self.env = local
        try:
            rty = ctype(node) if False else None
            val = self.lambda_stmts(kids(body[0]))
        finally:
            self.env = saved
        q = (meth.get("type") or {}).get("qualType") or ""
        return val

    def lambda_stmts(self, stmts):
        if not stmts:
            raise Unknown("lambda body falls off its end")
        s, rest = stmts[0], stmts[1:]
        k = s.get("kind")
        if k == "NullStmt":
            return self.lambda_stmts(rest)
        if k == "CompoundStmt":
            return self.lambda_stmts(kids(s) + rest)
        if k == "ReturnStmt":
            return self.ex(kids(s)[0])
        if k == "DeclStmt":
            for v in kids(s):
                if v.get("kind") != "VarDecl" or not kids(v):
                    raise Unknown("declaration inside a lambda")
                val = self.ex(kids(v)[-1])
                ty = ctype(v)
                if ty.startswith("other"):
                    raise Unknown("lambda local of type %s" % ty)
                self.env[v.get("name")] = val if typeof(val) == ty else ("cast", ty, val)
            return self.lambda_stmts(rest)
        if k == "IfStmt":
            ks = kids(s)
            cond = self.ex(ks[0])
            e0 = dict(self.env)
            a = self.lambda_stmts([ks[1]] + rest)
            self.env = dict(e0)
            b = self.lambda_stmts(([ks[2]] if len(ks) > 2 else []) + rest)
            self.env = e0
            ta, tb = typeof(a), typeof(b)
            if ta != tb:
                raise Unknown("lambda returns values of different types")
            return a if a == b else mk_ite(ta, cond, a, b)
        raise Unknown("statement of kind %s inside a lambda" % k)

    def cmp(self, op, a, b):
        # fpclassify(x) == FP_ZERO / FP_NORMAL (glibc: FP_ZERO = 2, FP_NORMAL = 4), either order
        for x, y in ((a, b), (b, a)):
            if x[0] == "fpclass" and y[0] == "lit" and op in ("==", "!="):
                cls = {2: "zero", 4: "normal", 0: "nan", 1: "inf", 3: "subnormal"}.get(int(y[1]))
                if cls is None:
                    raise Unknown("fpclassify compared with %s" % y[1])
                r = ("isclass", cls, x[1])
                return r if op == "==" else ("not", r)
        return ("cmp", op, a, b)

    def is_options(self, var):
        return self.env.get(var) == ("options",)

    # fpclassify needs a look-ahead: evaluate the call into a pseudo node consumed by cmp()
    def ex_top(self, n):
        return self._fix_fpclass(n)

    def _fix_fpclass(self, n):
        return self.ex(n)

    # ------------------------------------------------------------------ statements
    def assigned_vars(self, s):
        """locals a statement may change (assignment, ++/--, compound assignment, address taken, mutating member call)"""
        res = set()
        for m in walk(s):
            k = m.get("kind")
            if k in ("BinaryOperator", "CompoundAssignOperator") and (m.get("opcode") or "").endswith("=") and \
                    m.get("opcode") not in ("==", "!=", "<=", ">="):
                v = base_var(kids(m)[0])
                if v:
                    res.add(v)
            elif k == "UnaryOperator" and m.get("opcode") in ("++", "--", "&"):
                v = base_var(kids(m)[0])
                if v:
                    res.add(v)
            elif k == "CXXOperatorCallExpr":
                op = callee_name(m)
                if op and op.endswith("=") and op not in ("operator==", "operator!=", "operator<=", "operator>=") and len(kids(m)) >= 2:
                    v = base_var(kids(m)[1])
                    if v:
                        res.add(v)
            elif k == "CXXMemberCallExpr":
                me = kids(m)[0]
                if me.get("kind") == "MemberExpr" and me.get("name") not in MUTATORS_OK:
                    v = base_var(me)
                    if v and isinstance(self.env.get(v), tuple) and self.env[v] and self.env[v][0] in ("vec",):
                        res.add(v)
                    elif v and self.env.get(v, (None,))[0] == "leaf" and self.env[v][2] == "vec" and me.get("name") not in ("begin", "end"):
                        res.add(v)
        return {v for v in res if v in self.env and self.env[v] != ("options",)}

    def bind(self, name, val, n):
        """bind a local; in discrete mode a floating local computed with a division or a libm call is a cut variable"""
        self.full[name] = self.inline_full(val)
        if self.cut_rule and self.cut_rule(val):
            leaf = ("leaf", "V_" + name, typeof(val))
            self.cuts[name] = (leaf, self.full[name])
            self.env[name] = leaf
        else:
            self.env[name] = val

    def inline_full(self, e):
        """replace cut leaves by their full definitions"""
        if not isinstance(e, tuple):
            return e
        if e and e[0] == "leaf" and e[1].startswith("V_") and e[1][2:] in self.cuts:
            return self.cuts[e[1][2:]][1]
        return tuple(self.inline_full(x) if isinstance(x, tuple) else x for x in e)

    def exec_decl(self, v):
        name = v.get("name")
        self.decl_line[name] = (v.get("loc") or {}).get("line") or (v.get("range", {}).get("begin", {}) or {}).get("line")
        q = (v.get("type") or {}).get("desugaredQualType") or (v.get("type") or {}).get("qualType") or ""
        if "ProgramOptions" in q and "*" not in q:
            self.env[name] = ("options",)
            return
        ks = [c for c in kids(v) if c.get("kind") not in ("FullComment",)]
        if not ks:
            # `T x;` followed by `x = ...;` : the local exists (a later assignment binds it); reading it before is opaque,
            # never a namespace-scope constant
            ty = ctype(v)
            if ty in FLT_TYS + INT_TYS + ("bool",):
                self.env[name] = ("opaque", "%s (declared without a value)" % name, ty)
            return
        lam = [m for m in walk(ks[-1]) if m.get("kind") == "LambdaExpr"]
        if lam:
            # a local helper `const auto f = [..](T a, ..) -> R { if (c) return x; return y; };` is inlined at every call
            self.env[name] = ("lambda", id(lam[0]))
            self.lambdas[id(lam[0])] = (lam[0], dict(self.env))
            return
        try:
            val = self.ex(ks[-1])
        except Unknown as e:
            ty = ctype(v)
            if ty in FLT_TYS + INT_TYS + ("bool",) or "vector" in ty:
                self.env[name] = ("opaque", "%s (%s)" % (name, e), ty if not ty.startswith("other") else "vec")
            return
        ty = ctype(v)
        if val[0] not in ("vec",) and not (val[0] == "leaf" and val[2] == "vec"):
            if ty.startswith("other"):
                return
            if typeof(val) != ty:
                val = ("cast", ty, val)
        self.bind(name, val, v)

    def exec_assign(self, m):
        """`x = expr;` at statement level -> True when handled"""
        if m.get("kind") in PASS_KINDS and len(kids(m)) == 1:
            return self.exec_assign(kids(m)[0])
        if m.get("kind") == "BinaryOperator" and m.get("opcode") == "=":
            lhs, rhs = kids(m)
            if lhs.get("kind") == "DeclRefExpr":
                nm = lhs["referencedDecl"]["name"]
                if nm in self.env and self.env[nm] != ("options",):
                    try:
                        val = self.ex(rhs)
                    except Unknown as e:
                        self.env[nm] = ("opaque", "%s (%s)" % (nm, e), typeof(self.env[nm]) if self.env[nm][0] != "options" else "other")
                        return True
                    ty = ctype(lhs)
                    if not ty.startswith("other") and typeof(val) != ty:
                        val = ("cast", ty, val)
                    self.bind(nm, val, m)
                    return True
        return False

    def exec_block(self, stmts):
        for s in stmts:
            self.exec_stmt(s)

    def exec_stmt(self, s):
        k = s.get("kind")
        if k == "DeclStmt":
            for v in kids(s):
                if v.get("kind") == "VarDecl":
                    self.exec_decl(v)
            return
        if k == "CompoundStmt":
            # a nested block: declarations inside are local to it; assignments to outer variables are kept
            outer = set(self.env)
            self.exec_block(kids(s))
            for nm in list(self.env):
                if nm not in outer:
                    del self.env[nm]
            return
        if k == "IfStmt":
            ks = kids(s)
            cond_n, then_n = ks[0], ks[1]
            else_n = ks[2] if len(ks) > 2 else None
            try:
                cond = self.ex(cond_n)
            except Unknown as e:
                cond = None
                why = str(e)
            e0 = dict(self.env)
            self.exec_stmt(then_n)
            e1 = self.env
            self.env = dict(e0)
            if else_n is not None:
                self.exec_stmt(else_n)
            e2 = self.env
            merged = dict(e0)
            for nm in e0:
                a, b = e1.get(nm, e0[nm]), e2.get(nm, e0[nm])
                if a == b:
                    merged[nm] = a
                elif cond is None or a[0] in ("options", "vec") or b[0] in ("options", "vec"):
                    merged[nm] = ("opaque", "%s (assigned under a condition not understood)" % nm, "other")
                else:
                    ta, tb = typeof(a), typeof(b)
                    if ta != tb:
                        merged[nm] = ("opaque", "%s (branches of different type)" % nm, "other")
                    else:
                        merged[nm] = mk_ite(ta, cond, a, b)
                        self.full[nm] = self.inline_full(merged[nm])
            self.env = merged
            return
        if self.exec_assign(s):
            return
        # anything else: variables it may change become opaque
        for v in self.assigned_vars(s):
            old = self.env[v]
            ty = typeof(old) if old[0] not in ("options",) else "other"
            if ty in FLT_TYS + INT_TYS + ("bool",):
                self.env[v] = ("leaf", "S_" + v, ty)       # program state (loop counter ...)
            else:
                self.env[v] = ("opaque", "%s (changed by a statement at main.cpp:%s that is not straight-line code)" %
                               (v, (s.get("range", {}).get("begin", {}) or {}).get("line")), ty)

    # ------------------------------------------------------------------ sinks
    def collect_sinks(self, s, idx):
        """constructor calls of the sink classes and makeImpedance calls anywhere inside statement s, evaluated in
        the environment at the *entry* of s; variables s itself assigns are state leaves S_<name>"""
        nodes = []
        for m in walk(s):
            k = m.get("kind")
            if k in ("CXXConstructExpr", "CXXTemporaryObjectExpr"):
                q = (m.get("type") or {}).get("desugaredQualType") or (m.get("type") or {}).get("qualType") or ""
                q = q.replace("const ", "").strip()
                for c in SINK_CLASSES:
                    if q == "vfps::" + c:
                        nodes.append((c, m, kids(m)))
            elif k == "CXXMemberCallExpr":
                me = kids(m)[0]
                # results file: append(const PhaseSpace&, const timeaxis_t t, AppendType)
                if me.get("kind") == "MemberExpr" and me.get("name") == "append" and len(kids(m)) == 4 and \
                        "HDF5File" in ((kids(me)[0].get("type") or {}).get("qualType") or ""):
                    nodes.append(("HDF5File::append", m, kids(m)[1:]))
            elif k == "CallExpr":
                fn = callee_name(m)
                if fn == "makeImpedance":
                    nodes.append(("makeImpedance", m, kids(m)[1:]))
                elif fn in PS_FACTORIES:
                    nodes.append((fn, m, kids(m)[1:]))
                elif fn == "setSize" and len(kids(m)) == 3:
                    nodes.append(("PhaseSpace::setSize", m, kids(m)[1:]))
                elif fn in ("make_unique", "make_shared"):
                    q = (m.get("type") or {}).get("desugaredQualType") or (m.get("type") or {}).get("qualType") or ""
                    for c in SINK_CLASSES:
                        if "<vfps::%s>" % c in q or "<vfps::%s," % c in q:
                            nodes.append((c, m, kids(m)[1:]))
        if not nodes:
            return
        saved = dict(self.env)
        for v in self.assigned_vars(s):
            old = self.env[v]
            if old[0] not in ("options", "vec") and not typeof(old).startswith("other"):
                self.env[v] = ("leaf", "S_" + v, typeof(old))
        # declarations inside s that precede the sink are visible to it: execute a copy of s up to the sink?  The
        # sinks of interest take main's top-level locals only; nested declarations are evaluated on demand.
        for target, m, args in nodes:
            line = (m.get("range", {}).get("begin", {}) or {}).get("line")
            if target == "makeImpedance":
                params = func_params("src/Z/ImpedanceFactory.cpp", "makeImpedance")
            elif target == "HDF5File::append":
                params = ["ps", "t", "at"]
            elif target in PS_FACTORIES:
                params = func_params("src/PS/PhaseSpaceFactory.cpp", target)
            elif target == "PhaseSpace::setSize":
                params = ["x", "b"]
            else:
                sets = ctor_param_sets(target)
                cand = [p for p, sig in sets if len(p) == len(args)]
                if len(cand) > 1:
                    ct = (m.get("ctorType") or {}).get("qualType")
                    cand2 = [p for p, sig in sets if len(p) == len(args) and sig == ct]
                    cand = cand2 or cand
                if len(cand) != 1:
                    # copy/move constructions of the class itself (e.g. returning by value) are not sinks
                    if len(args) <= 1:
                        continue
                    raise TranslateError("cannot match the %d-argument construction of %s at main.cpp:%s with a declared constructor" %
                                         (len(args), target, line))
                params = cand[0]
            vals, argvars = [], []
            for a in args[:len(params)]:
                if a.get("kind") == "CXXDefaultArgExpr":
                    vals.append(("opaque", "default argument", "other"))
                    argvars.append(None)
                    continue
                try:
                    vals.append(self.ex(a))
                except Unknown:
                    vals.append(None)
                argvars.append(base_var(a))
            while len(vals) < len(params):
                vals.append(("opaque", "default argument", "other"))
                argvars.append(None)
            sk = Sink(target, vals, params, line, None, idx)
            sk.argvars = argvars
            sk.node = m
            self.sinks.append(sk)
        self.env = saved

    def run(self, body):
        for i, s in enumerate(kids(body)):
            self.collect_sinks(s, i)
            # which variable does a top-level declaration with a sink inside initialise?
            if s.get("kind") == "DeclStmt":
                for v in kids(s):
                    if v.get("kind") == "VarDecl":
                        for sk in self.sinks:
                            if sk.stmt_index == i and any(m is sk.node for m in walk(v)):
                                sk.var = v.get("name")
            else:
                # `x = new T(..)` / `x.reset(new T(..))` inside: remember the assigned variable
                for m in walk(s):
                    if m.get("kind") == "BinaryOperator" and m.get("opcode") == "=":
                        lv = base_var(kids(m)[0])
                        for sk in self.sinks:
                            if sk.stmt_index == i and sk.var is None and any(x is sk.node for x in walk(kids(m)[1])):
                                sk.var = lv
            self.exec_stmt(s)


def run_main(cut_rule=None):
    docs = ast_of("src/main.cpp", "main")
    decl, body = body_of(docs, "main")
    se = SymExec(cut_rule)
    se.run(body)
    return se


# --------------------------------------------------------------------------------------------
# roles: which sink argument is which quantity

def find_sinks(se, target, nparams=None, has=None):
    res = [s for s in se.sinks if s.target == target and (nparams is None or len(s.params) == nparams)
           and (has is None or all(s.has(h) for h in has))]
    return res


def nocast(e):
    """the expression with every conversion removed (its value in exact arithmetic)"""
    if not isinstance(e, tuple):
        return e
    if e and e[0] == "cast":
        return nocast(e[2])
    return tuple(nocast(x) if isinstance(x, tuple) else x for x in e)


def same_everywhere(vals, what):
    vals = [v for v in vals]
    if not vals:
        raise TranslateError("no use of %s found in main()" % what)
    for v in vals[1:]:
        if nocast(v) != nocast(vals[0]):
            raise TranslateError("%s is not the same expression at every use in main()" % what)
    return vals[0]


def strip_casts(e):
    while e[0] == "cast":
        e = e[2]
    return e


def roles(se):
    """the quantities of interest, each as the IR that reaches its sink"""
    R = {}
    # linear RF maps (static and dynamic): parameter `angle`
    lin = find_sinks(se, "RFKickMap", has=("angle",)) + find_sinks(se, "DynamicRFKickMap", has=("angle",))
    R["angle"] = same_everywhere([s.arg("angle") for s in lin], "the `angle` argument of the linear RF maps")
    # drift map: the slip vector
    dr = find_sinks(se, "DriftMap", has=("slip",))
    R["slip"] = same_everywhere([s.arg("slip") for s in dr], "the `slip` argument of DriftMap")
    if R["slip"][0] != "vec":
        raise TranslateError("the slip argument of DriftMap is not an initializer list of expressions any more")
    # Fokker-Planck decrement
    fp = find_sinks(se, "FokkerPlanckMap", has=("e1",))
    R["e1"] = same_everywhere([s.arg("e1") for s in fp], "the `e1` argument of FokkerPlanckMap")
    # the two fields: the one with (Ib, E0, sigma_delta, dt) is the wake field, the other the radiation field
    wf = find_sinks(se, "ElectricField", has=("Ib", "dt"))
    rf = [s for s in find_sinks(se, "ElectricField") if not s.has("Ib")]
    if len(wf) != 1 or len(rf) != 1:
        raise TranslateError("expected one wake field and one radiation field construction in main(), found %d and %d" % (len(wf), len(rf)))
    wf, rf = wf[0], rf[0]
    for nm in ("spacing_bins", "f_rev", "revolutionpart", "Ib", "E0", "sigma_delta", "dt"):
        R["wake_" + nm] = wf.arg(nm)
    R["rdtn_spacing_bins"] = rf.arg("spacing_bins")
    R["rdtn_f_rev"] = rf.arg("f_rev")
    R["rdtn_revolutionpart"] = rf.arg("revolutionpart")
    # impedances: matched to the fields through the variable passed as `impedance`
    mi = find_sinks(se, "makeImpedance")
    wv = wf.argvars[wf.pos("impedance")]
    rv = rf.argvars[rf.pos("impedance")]
    wi = [s for s in mi if s.var == wv]
    ri = [s for s in mi if s.var == rv]
    if len(wi) != 1 or len(ri) != 1 or wv is None or rv is None:
        raise TranslateError("cannot match the makeImpedance calls with the impedance arguments of the two fields")
    wi, ri = wi[0], ri[0]
    for nm in ("nfreqs", "fmax", "R_bend", "frev", "gap"):
        R["wakeimp_" + nm] = wi.arg(nm)
        R["rdtnimp_" + nm] = ri.arg(nm)
    # results file
    h5 = find_sinks(se, "HDF5File")
    if h5:
        for nm in ("t_sync", "f_rev"):
            if h5[0].has(nm):
                R["h5_" + nm] = same_everywhere([s.arg(nm) for s in h5], "the `%s` argument of HDF5File" % nm)
    ap = find_sinks(se, "HDF5File::append")
    ts = [s.arg("t") for s in ap if s.args[1] is not None]
    ts = [t for t in ts if any(l[0].startswith("S_") for l in leaves_of(t))]      # a literal 0 before the loop is not the time axis
    if ts:
        R["h5_time"] = same_everywhere(ts, "the time argument of HDF5File::append inside and after the loop")
    # sinusoidal RF maps
    sn = find_sinks(se, "RFKickMap", has=("V_RF",)) + find_sinks(se, "DynamicRFKickMap", has=("V_RF",))
    if sn:
        for nm in ("revolutionpart", "V_RF", "f_RF", "V0"):
            if all(s.has(nm) for s in sn):
                R["sinrf_" + nm] = same_everywhere([s.arg(nm) for s in sn], "the `%s` argument of the sinusoidal RF maps" % nm)
    R["linrf_f_RF"] = same_everywhere([s.arg("f_RF") for s in lin], "the `f_RF` argument of the linear RF maps")
    dyn = find_sinks(se, "DynamicRFKickMap", has=("angle", "revolutionpart"))
    if dyn:
        R["dynrf_revolutionpart"] = same_everywhere([s.arg("revolutionpart") for s in dyn], "the `revolutionpart` argument of the dynamic RF map")
    R["drift_E0"] = same_everywhere([s.arg("E0") for s in dr], "the `E0` argument of DriftMap")
    # axis extents of the first grid: the PhaseSpace constructor that takes (qmin, qmax, .., pmin, pmax, ..) and the factory
    # functions that build the grid from a file; every one of them must receive the same four expressions
    ax = find_sinks(se, "PhaseSpace", has=("qmin", "qmax", "pmin", "pmax"))
    if not ax:
        raise TranslateError("main() no longer constructs a PhaseSpace from (qmin, qmax, .., pmin, pmax, ..)")
    for fn in PS_FACTORIES:
        ax += find_sinks(se, fn, has=("qmin", "qmax", "pmin", "pmax"))
    for nm in ("qmin", "qmax", "pmin", "pmax"):
        R["axis_" + nm] = same_everywhere([s.arg(nm) for s in ax], "the `%s` argument of the PhaseSpace constructor / factories" % nm)
    R["axis_sinks"] = ("lit", Fraction(len(ax)), "u32")
    # number of grid points per axis: first argument of PhaseSpace::setSize (Ruler's `steps` is PhaseSpace::nx / ny)
    sz = find_sinks(se, "PhaseSpace::setSize")
    if len(sz) != 1 or sz[0].args[0] is None:
        raise TranslateError("expected one PhaseSpace::setSize(<grid size>, <bunches>) call in main(), found %d" % len(sz))
    R["axis_steps"] = sz[0].args[0]
    # (st2h5) unit scales of the first grid: the constructor parameters PhaseSpace stores as the "Meter" scale of axis 0
    # and the "ElectronVolt" scale of axis 1 (HDF5File reads them back with getScale(0,"Meter") / getScale(1,"ElectronVolt")
    # and writes them as the attributes of the axes), and what main() passes for them - the natural bunch length and the
    # absolute energy spread; the factories that build the grid from a file must receive the same two expressions
    sc = ps_scale_params()
    pq = find_sinks(se, "PhaseSpace", has=(sc["Meter"], sc["ElectronVolt"]))
    if not pq:
        raise TranslateError("main() no longer constructs a PhaseSpace with the scale parameters (%s, %s)" % (sc["Meter"], sc["ElectronVolt"]))
    mv, ev = [s.arg(sc["Meter"]) for s in pq], [s.arg(sc["ElectronVolt"]) for s in pq]
    for fn in PS_FACTORIES:
        for s in find_sinks(se, fn):
            qs = [p for p in s.params if isinstance(p, str) and re.fullmatch(r"[qx]scale", p)]
            es = [p for p in s.params if isinstance(p, str) and re.fullmatch(r"[py]scale", p)]
            if len(qs) != 1 or len(es) != 1:
                raise TranslateError("%s no longer has one length-scale and one energy-scale parameter ([qx]scale, [py]scale): %s" % (fn, s.params))
            mv.append(s.arg(qs[0]))
            ev.append(s.arg(es[0]))
    R["ps_scale_Meter"] = same_everywhere(mv, "the length scale (\"Meter\") handed to the PhaseSpace constructor / factories")
    R["ps_scale_ElectronVolt"] = same_everywhere(ev, "the energy scale (\"ElectronVolt\") handed to the PhaseSpace constructor / factories")
    return R


def ps_scale_params():
    """{"Meter": <parameter name>, "ElectronVolt": <parameter name>} of the PhaseSpace constructor that builds its own
    Rulers: the delegating initialiser must construct axis 0 as Ruler(.., {{"Meter", <param>}}) and axis 1 as
    Ruler(.., {{"ElectronVolt", <param>}}) - one named scale per axis, each a plain constructor parameter."""
    docs = ast_of(CLASS_SRC["PhaseSpace"], CLASS_FILTER.get("PhaseSpace", "PhaseSpace"))
    found = []

    def visit(d):
        if d.get("kind") == "CXXConstructorDecl" and any(c.get("kind") == "CompoundStmt" for c in kids(d)):
            params = [c.get("name") for c in kids(d) if c.get("kind") == "ParmVarDecl"]
            rulers = []
            for ini in [c for c in kids(d) if c.get("kind") == "CXXCtorInitializer"]:
                for m in walk(ini):
                    if m.get("kind") == "CXXConstructExpr" and re.match(r"(const )?(vfps::)?Ruler<", (m.get("type") or {}).get("qualType") or ""):
                        pairs = []
                        for x in walk(m):
                            if x.get("kind") == "CXXConstructExpr" and "pair<" in ((x.get("type") or {}).get("qualType") or ""):
                                ks = kids(x)
                                lit = [y for y in walk(ks[0])] if ks else []
                                strs = [y.get("value") for y in lit if y.get("kind") == "StringLiteral"]
                                refs = [(y.get("referencedDecl") or {}) for k_ in ks[1:] for y in walk(k_) if y.get("kind") == "DeclRefExpr"]
                                if len(ks) != 2 or len(strs) != 1 or len(refs) != 1 or refs[0].get("kind") != "ParmVarDecl" \
                                        or refs[0].get("name") not in params:
                                    raise TranslateError("a scale of a PhaseSpace axis is no longer {\"<unit>\", <constructor parameter>}")
                                pairs.append((strs[0].strip('"'), refs[0]["name"]))
                        rulers.append(pairs)
            if rulers:
                found.append(rulers)
        for c in kids(d):
            if c.get("kind") in ("CXXConstructorDecl", "CXXRecordDecl"):
                visit(c)
    for d in docs:
        visit(d)
    if len(found) != 1 or len(found[0]) != 2:
        raise TranslateError("expected exactly one PhaseSpace constructor that builds its two Rulers itself, found %s" % found)
    a0, a1 = found[0]
    if [u for u, _ in a0] != ["Meter"] or [u for u, _ in a1] != ["ElectronVolt"]:
        raise TranslateError("the PhaseSpace constructor no longer gives axis 0 the scale \"Meter\" and axis 1 the scale "
                             "\"ElectronVolt\" (found %s, %s)" % (a0, a1))
    return {"Meter": a0[0][1], "ElectronVolt": a1[0][1]}


# --------------------------------------------------------------------------------------------
# JSON form of the IR (for the double-precision evaluator lib/scaling_eval.py)

def ir_json(e):
    if isinstance(e, Fraction):
        return {"q": "%d/%d" % (e.numerator, e.denominator)}
    if isinstance(e, tuple):
        return [ir_json(x) for x in e]
    return e


def ir_unjson(x):
    if isinstance(x, dict):
        return Fraction(x["q"])
    if isinstance(x, list):
        return tuple(ir_unjson(y) for y in x)
    return x


# --------------------------------------------------------------------------------------------
# simplifications shared by both emitters

def lit_value(v, ty):
    """the value a literal has in its type (decimal floating literals denote the nearest binary value)"""
    import struct
    if ty == "f64":
        return Fraction(float(v))
    if ty == "f32":
        return Fraction(struct.unpack("f", struct.pack("f", float(v)))[0])
    return Fraction(v)


def fold(e):
    """literal folding: casts of literals, negated literals"""
    if not isinstance(e, tuple) or not e:
        return e
    e = tuple(fold(x) if isinstance(x, tuple) else x for x in e)
    if e[0] == "lit":
        return ("lit", lit_value(e[1], e[2]), e[2])
    if e[0] == "neg" and e[2][0] == "lit" and e[1] in ("i32", "i64", "f32", "f64"):
        return ("lit", -e[2][1], e[1])
    if e[0] == "cast" and e[2][0] == "lit":
        v, ty = e[2][1], e[1]
        if ty in FLT_TYS:
            w = lit_value(v, ty)
            if w == v:
                return ("lit", v, ty)
        elif ty in INT_TYS and v.denominator == 1:
            lo, hi = {"u8": (0, 2 ** 8), "u32": (0, 2 ** 32), "u64": (0, 2 ** 64), "i32": (-2 ** 31, 2 ** 31), "i64": (-2 ** 63, 2 ** 63)}[ty]
            if lo <= v < hi:
                return ("lit", v, ty)
    return e


def size(e):
    return sum(1 for _ in subterms(e))


# --------------------------------------------------------------------------------------------
# emitter 1: exact arithmetic over a generic field (Gen_Scaling.v)

class EmitK:
    """Gallina over K : Fld with O : Ops K, L : leaf -> K, B : bleaf -> bool"""

    def __init__(self):
        self.leaves, self.bleaves = set(), set()

    def term(self, e):
        from collections import Counter
        e = nocast_keep_trunc(fold(e))
        cnt = Counter(subterms(e))
        names, lets = {}, []

        def go(t):
            if t in names:
                return names[t]
            s = self.node(t, go)
            if cnt[t] >= 2 and size(t) >= 4 and t[0] not in ("lit", "leaf", "blit"):
                nm = "x%d" % (len(lets) + 1)
                lets.append((nm, s))
                names[t] = nm
                return nm
            return s
        body = go(e)
        return "".join("let %s := %s in\n    " % l for l in lets) + body

    def node(self, t, go):
        k = t[0]
        if k == "lit":
            return num_coq(t[1])
        if k == "blit":
            return "true" if t[1] else "false"
        if k == "leaf":
            if t[2] == "bool":
                self.bleaves.add(t[1])
                return "(B %s)" % t[1]
            if t[2] == "vec":
                raise TranslateError("a vector option (%s) is used as a number" % t[1])
            self.leaves.add(t[1])
            return "(L %s)" % t[1]
        if k == "opaque":
            raise TranslateError("a value this translator does not understand reaches a generated quantity: %s" % t[1])
        if k == "trunc":
            return "(o_trunc O %s)" % go(t[2])
        if k == "bin":
            op, ty, a, b = t[1], t[2], t[3], t[4]
            if op == "/" and ty in INT_TYS:
                return "(o_idiv O %s %s)" % (go(a), go(b))
            return "(%s %s %s)" % (go(a), op, go(b))
        if k == "neg":
            return "(- %s)" % go(t[2])
        if k == "call":
            fn, args = t[1], t[3]
            if fn in ("max", "min"):
                a, b = go(args[0]), go(args[1])
                return "(if o_lt O %s %s then %s else %s)" % ((a, b, b, a) if fn == "max" else (b, a, b, a))
            if fn == "pow" and args[1][0] == "lit" and args[1][1].denominator == 1 and 0 <= args[1][1] <= 8:
                n = int(args[1][1])
                if n == 0:
                    return "1"
                a = go(args[0])
                s = a
                for _ in range(n - 1):
                    s = "(%s * %s)" % (a, s)
                return s
            if fn == "pow":
                return "(o_pow O %s %s)" % (go(args[0]), go(args[1]))
            if fn in ("sqrt", "sign", "round", "ceil", "floor", "upow2"):
                return "(o_%s O %s)" % (fn, go(args[0]))
            if fn == "fabs":
                return "(o_abs O %s)" % go(args[0])
            raise TranslateError("library function %s reaches a generated quantity" % fn)
        if k == "cmp":
            op, a, b = t[1], go(t[2]), go(t[3])
            return {"<": "(o_lt O %s %s)" % (a, b), "<=": "(negb (o_lt O %s %s))" % (b, a),
                    "==": "(o_eq O %s %s)" % (a, b), "!=": "(negb (o_eq O %s %s))" % (a, b)}[op]
        if k == "isclass":
            if t[1] == "zero":
                return "(o_is0 O %s)" % go(t[2])
            if t[1] == "normal":
                return "(o_isnormal O %s)" % go(t[2])
            raise TranslateError("fpclassify class %s" % t[1])
        if k == "not":
            return "(negb %s)" % go(t[1])
        if k == "and":
            return "(%s && %s)" % (go(t[1]), go(t[2]))
        if k == "or":
            return "(%s || %s)" % (go(t[1]), go(t[2]))
        if k == "ite":
            return "(if %s then %s else %s)" % (go(t[2]), go(t[3]), go(t[4]))
        if k == "vec":
            return "[" + "; ".join(go(x) for x in t[2]) + "]"
        raise TranslateError("IR node %s" % k)


def nocast_keep_trunc(e):
    """exact arithmetic: conversions are identities, except float -> integer (truncation) and narrowing integer
    conversions, which are kept as ('trunc', ty, e) / rejected"""
    if not isinstance(e, tuple):
        return e
    if e and e[0] == "cast":
        inner = nocast_keep_trunc(e[2])
        src, dst = typeof(e[2]), e[1]
        if src in FLT_TYS and dst in INT_TYS:
            return ("trunc", dst, inner)
        return inner
    return tuple(nocast_keep_trunc(x) if isinstance(x, tuple) else x for x in e)


# --------------------------------------------------------------------------------------------
# emitter 2: the code's own arithmetic (binary64/binary32 rounding, unsigned wrap-around, conversions with their
# undefined domain) over Qc / Z / bool  (Gen_ScalingZ.v)

BITS = {"u8": 8, "u32": 32, "u64": 64, "i32": 32, "i64": 64}


class EmitZ:
    def __init__(self):
        self.zleaves, self.qleaves, self.bleaves = set(), set(), set()

    def definition(self, e):
        """-> Gallina term of type conv (integer result)"""
        e = fold(e)
        self.binds, self.memo = [], {}
        body = self.t(e)
        s = "Val %s" % body
        for nm, bits, q in reversed(self.binds):
            s = "conv_bind (f2u %d %s) (fun %s =>\n    %s)" % (bits, q, nm, s)
        return s

    def rnd(self, ty, s):
        return "(rnd53 %s)" % s if ty == "f64" else "(rnd32 %s)" % s

    def wrap(self, ty, s):
        if ty == "u32":
            return "(wrap32 %s)" % s
        if ty == "u64":
            return "(w64 %s)" % s
        if ty == "u8":
            return "(%s mod 256)" % s
        return s        # signed: overflow is undefined behaviour, assumed absent

    def t(self, e):
        k = e[0]
        if k == "lit":
            v, ty = e[1], e[2]
            if ty in INT_TYS:
                return "(%d)" % int(v) if v < 0 else "%d" % int(v)
            if v.denominator == 1:
                return "(Qcz %s)" % ("(%d)" % int(v) if v < 0 else "%d" % int(v))
            return "(Q2Qc (%d # %d))" % (v.numerator, v.denominator)
        if k == "blit":
            return "true" if e[1] else "false"
        if k == "leaf":
            ty = e[2]
            if ty in INT_TYS:
                self.zleaves.add(e[1])
                return "(LZ %s)" % e[1]
            if ty in FLT_TYS:
                self.qleaves.add(e[1])
                return "(LQ %s)" % e[1]
            if ty == "bool":
                self.bleaves.add(e[1])
                return "(LB %s)" % e[1]
            raise TranslateError("leaf %s of type %s in an integer size" % (e[1], ty))
        if k == "opaque":
            raise TranslateError("a value this translator does not understand reaches a generated size: %s" % e[1])
        if k == "cast":
            dst, src = e[1], typeof(e[2])
            if src in FLT_TYS and dst in INT_TYS:
                if dst not in ("u32", "u64", "u8"):
                    raise TranslateError("conversion of a floating value to the signed type %s" % dst)
                if e in self.memo:
                    return self.memo[e]
                q = self.t(e[2])
                nm = "v%d" % (len(self.binds) + 1)
                self.binds.append((nm, BITS[dst], q))
                self.memo[e] = nm
                return nm
            x = self.t(e[2])
            if src in INT_TYS and dst in FLT_TYS:
                exact = BITS[src] <= (53 if dst == "f64" else 24)
                return "(Qcz %s)" % x if exact else self.rnd(dst, "(Qcz %s)" % x)
            if src in FLT_TYS and dst in FLT_TYS:
                return self.rnd("f32", x) if (src, dst) == ("f64", "f32") else x
            if src in INT_TYS and dst in INT_TYS:
                if dst.startswith("u"):
                    widening = src.startswith("u") and BITS[src] <= BITS[dst]
                    return x if widening else self.wrap(dst, x)
                if BITS[src] < BITS[dst] or (src == dst):
                    return x
                raise TranslateError("conversion %s -> %s" % (src, dst))
            if src == "bool" and dst in INT_TYS:
                return "(if %s then 1 else 0)" % x
            if dst == "bool" and src in INT_TYS:
                return "(negb (%s =? 0))" % x
            raise TranslateError("conversion %s -> %s" % (src, dst))
        if k == "bin":
            op, ty, a, b = e[1], e[2], self.t(e[3]), self.t(e[4])
            if ty in FLT_TYS:
                return self.rnd(ty, "(%s %s %s)%%Qc" % (a, op, b))
            if op == "/":
                return "(%s / %s)" % (a, b)
            return self.wrap(ty, "(%s %s %s)" % (a, op, b))
        if k == "neg":
            a = self.t(e[2])
            return "(- %s)%%Qc" % a if e[1] in FLT_TYS else self.wrap(e[1], "(- %s)" % a)
        if k == "call":
            fn, ty, args = e[1], e[2], e[3]
            xs = [self.t(a) for a in args]
            if fn in ("round", "ceil", "floor") and ty in FLT_TYS:
                return "(Qcz (%s %s))" % ({"round": "Qcround", "ceil": "Qcceil", "floor": "Qcfloor"}[fn], xs[0])
            if fn in ("max", "min"):
                if ty in FLT_TYS:
                    return "(%s %s %s)" % ("Qcmax" if fn == "max" else "Qcmin", xs[0], xs[1])
                return "(Z.%s %s %s)" % (fn, xs[0], xs[1])
            if fn == "upow2":
                return "(upper_power_of_two %s)" % xs[0]
            raise TranslateError("library function %s is evaluated on the way to an integer size (no cut variable above it)" % fn)
        if k == "cmp":
            op, a, b = e[1], e[2], e[3]
            ta = typeof(a)
            x, y = self.t(a), self.t(b)
            if ta in FLT_TYS:
                return {"<": "(qlt %s %s)", "<=": "(qle %s %s)", "==": "(qeq %s %s)", "!=": "(negb (qeq %s %s))"}[op] % (x, y)
            if ta == "bool":
                return {"==": "(Bool.eqb %s %s)", "!=": "(negb (Bool.eqb %s %s))"}[op] % (x, y)
            return {"<": "(%s <? %s)", "<=": "(%s <=? %s)", "==": "(%s =? %s)", "!=": "(negb (%s =? %s))"}[op] % (x, y)
        if k == "isclass":
            if e[1] == "zero":
                return "(qeq %s (Qcz 0))" % self.t(e[2])
            raise TranslateError("fpclassify class %s on the way to an integer size" % e[1])
        if k == "not":
            return "(negb %s)" % self.t(e[1])
        if k == "and":
            return "(%s && %s)" % (self.t(e[1]), self.t(e[2]))
        if k == "or":
            return "(%s || %s)" % (self.t(e[1]), self.t(e[2]))
        if k == "ite":
            return "(if %s then %s else %s)" % (self.t(e[2]), self.t(e[3]), self.t(e[4]))
        raise TranslateError("IR node %s in an integer size" % k)


def default_cut_rule(val):
    """a floating local computed with a division or a libm call is not re-evaluated by the integer-size model: it is
    an input (cut variable) whose value the check takes from a double-precision evaluation of its full expression"""
    if not isinstance(val, tuple) or val[0] in ("vec", "options") or (val[0] == "leaf" and val[2] == "vec"):
        return False
    if typeof(val) not in FLT_TYS:
        return False
    for t in subterms(val):
        if t[0] == "bin" and t[1] == "/" and t[2] in FLT_TYS:
            return True
        if t[0] == "call" and t[1] in ("sqrt", "pow", "tan", "sin", "cos", "asin", "exp", "log", "cbrt"):
            return True
    return False
