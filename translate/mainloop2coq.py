#!/usr/bin/env python3
# GEN: Gen_MainLoop
"""Gen_MainLoop.v from main() in src/main.cpp (DESIGN 2.2, used by C10 C11 C12 C14).

Walks the statements of main() from the one after `Display::printText("Starting the simulation.")`
to `return` in clang's JSON AST and emits them as a term of the statement language of
coq/Model/Driver.v: `main_prog = {| p_pre; p_body; p_post |}` (prologue, body of the one
`while (simulationstep<laststep && !Display::abort)`, final block).

Every statement has to be recognised (table CALLS / GUARDS below, matched on a canonical
rendering of the expression with casts, temporaries and default arguments dropped); anything
else is a TranslateError (a failed translation is never silently ignored).  Consequences:
  * every reference to Display::abort in the translated region is either the loop condition or
    a GAbort guard of the emitted program (anything else would not be recognised);
  * VERIF_POINT("label") (hook, inc/VerifHooks.hpp) becomes `Point i`; `point_names` lists i -> label.
Also emitted (information for C12/C14, checked by the property files where stated):
  * abort_refs : every reference to Display::abort in the whole of main() as (line, is_write, in translated region)
  * nondet_sources : every textual use of random_device / system_clock under src/ and inc/ (file, line)
Skipped on purpose (no effect on the modelled state): declarations of `updatetime`, `h5save`
(= opts.getSavePhaseSpace()), `outstepnr = 0`, `simulationstep = 0` (checked to be literal 0 and to
precede the loop), the `at` declaration (folded into `Append (AGrid AtIfSave)`).  Opaque: the arguments
of the status line (`status_string(grid_t1, t, rotations)`: [Print MStatus]).
`delete wake_field; delete wm; delete fpm;` are [Free] calls.  Local `const` variables with a pure
initialiser (no call, no assignment, no reference to Display::abort) are let-bindings: every use is
replaced by the initialiser; a use after a step counter the initialiser reads has changed fails.
Conditions are matched on a canonical text (parentheses only where the tree needs them, `0 < x` = `x > 0`,
`!(a % b)` = `a % b == 0`, `if (!c) A else B` = `if (c) B else A`, `p` = `p != nullptr`).
The set-up (from the statement after `signal(SIGINT, ..)` to the marker) becomes `main_setup`, a control
skeleton in the language of coq/Model/Setup.v (class SetupTr): hook points, `return`s, try/catch,
`Display::abort = true`, `if (renormalize >= 0) { updateXProjection(); normalize(); }`; every other
statement / condition must not mention Display::abort, a hook point or a return and is opaque.
Read off the source, not translated: `wkm != nullptr` iff `wake_field != nullptr` (both are set in
the same branch of the set-up, src/main.cpp "if (wake_impedance != nullptr)"): both become GWake."""
import sys, os, re, glob
sys.path.insert(0, os.path.dirname(os.path.abspath(__file__)))
from cxx_ast import *

DROP = ("ImplicitCastExpr", "ParenExpr", "ExprWithCleanups", "MaterializeTemporaryExpr",
        "CXXBindTemporaryExpr", "CXXFunctionalCastExpr", "CXXStaticCastExpr", "CStyleCastExpr",
        "ConstantExpr")


# C++ operator precedence (higher binds tighter); used to print parentheses exactly where the
# expression tree needs them, so that the canonical text determines the tree
PREC = {"*": 13, "/": 13, "%": 13, "+": 12, "-": 12, "<<": 11, ">>": 11, "<": 9, "<=": 9, ">": 9, ">=": 9,
        "==": 8, "!=": 8, "&": 7, "^": 6, "|": 5, "&&": 4, "||": 3}
FLIP = {"<": ">", ">": "<", "<=": ">=", ">=": "<="}
LITERALS = ("IntegerLiteral", "FloatingLiteral", "CXXNullPtrLiteralExpr", "CXXBoolLiteralExpr")
# local `const` variables of the translated part whose initialiser is a pure expression: name -> AST of the
# initialiser; a reference to such a variable is rendered as its initialiser (set by Tr)
LOCALS = {}
ON_LOCAL_USE = [None]     # callback(name): staleness check of the translator


def unwrap(n):
    while n.get("kind") in DROP:
        ks = kids(n)
        if len(ks) != 1:
            raise TranslateError("wrapper %s with %d children" % (n.get("kind"), len(ks)))
        n = ks[0]
    if n.get("kind") == "CXXConstructExpr":
        args = [c for c in kids(n) if c.get("kind") != "CXXDefaultArgExpr"]
        if len(args) == 1:
            return unwrap(args[0])
    if n.get("kind") == "DeclRefExpr" and n["referencedDecl"].get("name") in LOCALS:
        nm = n["referencedDecl"]["name"]
        if ON_LOCAL_USE[0]:
            ON_LOCAL_USE[0](nm)
        return unwrap(LOCALS[nm])
    return n


def render(n):
    return rp(n, 0)[0]


def par(tp, minprec):
    return "(" + tp[0] + ")" if tp[1] < minprec else tp[0]


def rp(n, _unused=0):
    """(canonical text, precedence) of an expression: casts, temporaries and default arguments dropped, local
    pure constants replaced by their initialisers, `0 < x` written `x > 0`, `nullptr != p` written
    `p != nullptr`, `!(a % b)` written `a % b == 0`; parentheses only where the tree needs them"""
    n = unwrap(n)
    k = n.get("kind")
    ks = kids(n)
    if k == "CXXConstructExpr":
        args = [c for c in ks if c.get("kind") != "CXXDefaultArgExpr"]
        return "ctor(" + ", ".join(render(c) for c in args) + ")", 16
    if k == "DeclRefExpr":
        return n["referencedDecl"].get("name", "?"), 17
    if k == "MemberExpr":
        base = par(rp(ks[0]), 16) if ks else "this"
        return base + ("->" if n.get("isArrow") else ".") + n.get("name", "?"), 16
    if k == "CXXOperatorCallExpr":
        op = render(ks[0])
        if op == "operator->":
            return rp(ks[1])
        if op == "operator*" and len(ks) == 2:
            return "*" + par(rp(ks[1]), 15), 15
        if op in ("operator!=", "operator==") and len(ks) == 3:
            a, b = ks[1], ks[2]
            if unwrap(a).get("kind") in LITERALS and unwrap(b).get("kind") not in LITERALS:
                a, b = b, a
            return "%s %s %s" % (par(rp(a), 8), op[8:], par(rp(b), 9)), 8
        return op + "(" + ", ".join(render(c) for c in ks[1:]) + ")", 16
    if k == "CXXMemberCallExpr":
        callee = render(ks[0])
        if callee.endswith("operator bool") or re.search(r"(->|\.)operator bool$", callee):
            return re.sub(r"(->|\.)operator bool$", "", callee), 16
        args = [c for c in ks[1:] if c.get("kind") != "CXXDefaultArgExpr"]
        return callee + "(" + ", ".join(render(c) for c in args) + ")", 16
    if k == "CallExpr":
        args = [c for c in ks[1:] if c.get("kind") != "CXXDefaultArgExpr"]
        return par(rp(ks[0]), 16) + "(" + ", ".join(render(c) for c in args) + ")", 16
    if k == "BinaryOperator":
        op = n["opcode"]
        a, b = ks
        if op in FLIP and unwrap(a).get("kind") in LITERALS and unwrap(b).get("kind") not in LITERALS:
            a, b, op = b, a, FLIP[op]
        if op in ("==", "!=") and unwrap(a).get("kind") in LITERALS and unwrap(b).get("kind") not in LITERALS:
            a, b = b, a
        p = PREC.get(op, 2)
        if p == 2:      # assignment and compound assignment: right associative
            return "%s %s %s" % (par(rp(a), 3), op, par(rp(b), 2)), 2
        return "%s %s %s" % (par(rp(a), p), op, par(rp(b), p + 1)), p
    if k == "UnaryOperator":
        op = n["opcode"]
        if n.get("isPostfix"):
            return par(rp(ks[0]), 16) + op, 16
        inner = unwrap(ks[0])
        if op == "!" and inner.get("kind") == "BinaryOperator" and inner.get("opcode") == "%":
            return "%s == 0" % par(rp(inner), 9), 8
        return op + par(rp(ks[0]), 15), 15
    if k == "ConditionalOperator":
        c, a, b = ks
        return "%s ? %s : %s" % (par(rp(c), 3), par(rp(a), 2), par(rp(b), 2)), 2
    if k == "IntegerLiteral":
        return str(int(n["value"])), 17
    if k == "FloatingLiteral":
        return str(n["value"]), 17
    if k == "StringLiteral":
        return n["value"], 17
    if k == "CXXNullPtrLiteralExpr":
        return "nullptr", 17
    if k == "CXXBoolLiteralExpr":
        return ("true" if n.get("value") else "false"), 17
    if k == "CXXDeleteExpr":
        return "delete " + par(rp(ks[0]), 15), 15
    raise TranslateError("expression kind %s not understood" % k)


IMPURE_KINDS = ("CallExpr", "CXXMemberCallExpr", "CXXOperatorCallExpr", "CXXNewExpr", "CXXDeleteExpr", "CXXConstructExpr",
                "CXXThrowExpr", "LambdaExpr", "CompoundAssignOperator", "StmtExpr")


def impure_reason(n):
    """None when the expression has no side effect and does not read Display::abort (only literals, variables,
    arithmetic/comparison/logical operators, ?:, casts); otherwise why not"""
    k = n.get("kind")
    if k in IMPURE_KINDS:
        return "contains a %s" % k
    if k == "BinaryOperator" and (n.get("opcode") == "," or "=" in n.get("opcode", "") and n.get("opcode") not in ("==", "!=", "<=", ">=")):
        return "contains the operator %s" % n.get("opcode")
    if k == "UnaryOperator" and n.get("opcode") in ("++", "--", "*", "&"):
        return "contains the operator %s" % n.get("opcode")
    if k == "DeclRefExpr":
        rd = n["referencedDecl"]
        if rd.get("name") == "abort":
            return "reads Display::abort"
        if rd.get("kind") not in ("VarDecl", "ParmVarDecl", "EnumConstantDecl"):
            return "refers to a %s" % rd.get("kind")
    if k == "MemberExpr":
        return "contains a member access"
    for c in kids(n):
        r = impure_reason(c)
        if r:
            return r
    return None


def names_in(n, acc):
    if n.get("kind") == "DeclRefExpr":
        acc.add(n["referencedDecl"].get("name"))
    for c in kids(n):
        names_in(c, acc)
    return acc


CALLS = {
    "grid_t1->updateXProjection()": "UpdateXProj",
    "grid_t1->integrate()": "Integrate",
    "grid_t1->integrateAndNormalize()": "IntegrateAndNormalize",
    "grid_t1->variance(0)": "(Variance false)",
    "grid_t1->variance(1)": "(Variance true)",
    "grid_t1->updateYProjection()": "UpdateYProj",
    "wkm->update()": "WkmUpdate",
    "wake_field->wakePotential()": "WakePotential",
    "rdtn_field.updateCSR(fc)": "UpdateCSR",
    "hdf_file->append(*grid_t1, 0, PhaseSpace)": "(Append (AGrid AtPS))",
    "hdf_file->append(*grid_t1, simulationstep / steps, All)": "(Append (AGrid AtAll))",
    "hdf_file->append(*grid_t1, simulationstep / steps, Defaults)": "(Append (AGrid AtDefaults))",
    "hdf_file->append(*grid_t1, simulationstep / steps, at)": "(Append (AGrid AtIfSave))",
    "hdf_file->append(&rdtn_field)": "(Append ACsr)",
    "hdf_file->append(wkm)": "(Append AWake)",
    "hdf_file->appendTracks(trackme)": "(Append ATracks)",
    "hdf_file->appendRFKicks(drfm->getPastModulation())": "(Append ARFKicks)",
    "hdf_file->appendPadded(wake_field)": "(Append APadded)",
    "wm->apply()": "(Apply MWake)", "wm->applyToAll(trackme)": "(Track MWake)",
    "rfm->apply()": "(Apply MRF)", "rfm->applyToAll(trackme)": "(Track MRF)",
    "drm->apply()": "(Apply MDrift)", "drm->applyToAll(trackme)": "(Track MDrift)",
    "fpm->apply()": "(Apply MFP)", "fpm->applyToAll(trackme)": "(Track MFP)",
    "outstepnr++": "IncOutNr", "simulationstep++": "IncStep", "++outstepnr": "IncOutNr", "++simulationstep": "IncStep",
    "outstepnr += 1": "IncOutNr", "simulationstep += 1": "IncStep",
    "outstepnr = outstepnr + 1": "IncOutNr", "simulationstep = simulationstep + 1": "IncStep",
    "delete wake_field": "(Free OWakeField)", "delete wm": "(Free OWm)", "delete fpm": "(Free OFpm)",
    'printText("Aborted.")': "(Print MAborted)", 'printText("Finished.")': "(Print MFinished)",
}
STATUS = [re.compile(r"^printText\(status_string\(grid_t1, (0|simulationstep / steps), rotations\)(, false(, updatetime)?)?\)$")]
GUARDS = {
    "hdf_file != nullptr": "GHdf", "hdf_file": "GHdf",
    "wake_field != nullptr": "GWake", "wkm != nullptr": "GWake", "wake_field": "GWake", "wkm": "GWake",
    "h5save == 0": "GSave0",
    "renormalize > 0 && simulationstep % renormalize == 0": "GRenorm",
    "outstep > 0 && simulationstep % outstep == 0": "GOut",
    "drfm": "GDynRF", "drfm != nullptr": "GDynRF", "abort": "GAbort",
}
# --- conditions in negation normal form -------------------------------------------------------------------
# A condition is a formula over atoms (comparisons, pointer / flag tests) built with && and || - ORDER KEPT, because
# `renormalize > 0 && step % renormalize == 0` guards its second operand by its first.  Negations are pushed to the atoms
# (De Morgan keeps the evaluation order and the short-circuit behaviour; a comparison of integers or pointers is negated by
# its opposite operator, anything else stays `!(..)`).  `if (c) A else B` and `if (!c) B else A` get the same guard.
NEGOP = {"<": ">=", ">=": "<", ">": "<=", "<=": ">", "==": "!=", "!=": "=="}
PTRS = ("hdf_file", "wake_field", "wkm", "drfm")


def _integral(n):
    ty = ((unwrap(n).get("type") or {}).get("desugaredQualType") or (unwrap(n).get("type") or {}).get("qualType") or "")
    ty = ty.replace("const ", "").strip()
    if ty.endswith("*") or ty == "std::nullptr_t" or ty == "nullptr_t":
        return True
    return bool(re.match(r"^(bool|char|short|int|long|long long|unsigned|unsigned (char|short|int|long|long long)|"
                         r"u?int(_fast|_least)?(8|16|32|64)_t|size_t|std::size_t|vfps::meshindex_t|meshindex_t)$", ty))


def _atom(n, neg):
    m = unwrap(n)
    if m.get("kind") == "BinaryOperator" and m.get("opcode") in NEGOP:
        if not neg:
            return render(m)
        a, b = kids(m)
        if _integral(a) and _integral(b):
            return render(dict(m, opcode=NEGOP[m["opcode"]]))
        return "!(" + render(m) + ")"
    if m.get("kind") == "CXXOperatorCallExpr" and render(kids(m)[0]) in ("operator!=", "operator==") and len(kids(m)) == 3:
        txt = render(m)          # smart pointer against nullptr
        if not neg:
            return txt
        return txt.replace(" != ", " == ") if " != " in txt else txt.replace(" == ", " != ")
    txt = render(m)
    if txt in PTRS:
        return txt + (" == nullptr" if neg else " != nullptr")
    if m.get("kind") == "BinaryOperator" and m.get("opcode") == "%" and _integral(m):
        return "%s %s 0" % (par(rp(m), 9), "==" if neg else "!=")
    return ("!" + par(rp(m), 15)) if neg else txt


def nnf(n, neg=False):
    m = unwrap(n)
    if m.get("kind") == "UnaryOperator" and m.get("opcode") == "!":
        return nnf(kids(m)[0], not neg)
    if m.get("kind") == "BinaryOperator" and m.get("opcode") in ("&&", "||"):
        op = m["opcode"]
        if neg:
            op = "||" if op == "&&" else "&&"
        parts = []
        for c in kids(m):
            r = nnf(c, neg)
            if isinstance(r, tuple) and r[0] == op:
                parts += list(r[1])
            else:
                parts.append(r)
        return (op, tuple(parts))
    return _atom(m, neg)


def _gform(txt):
    if " && " in txt:
        return ("&&", tuple(_gform(x) for x in txt.split(" && ")))
    return txt + " != nullptr" if txt in PTRS else txt


GUARD_FORMS = [(_gform(k), v) for k, v in GUARDS.items()]
AT_FORM = ("&&", ("h5save > 0", "outstepnr % h5save == 0"))


def guard_of(cond):
    """(guard constructor, negated?) of a condition of the translated part"""
    f, fn = nnf(cond, False), nnf(cond, True)
    for form, name in GUARD_FORMS:
        if f == form:
            return name, False
    for form, name in GUARD_FORMS:
        if fn == form:
            return name, True
    raise TranslateError("condition not understood: if (%s)" % render(cond))


# variables the translated part changes (IncStep / IncOutNr): a local constant that reads one of them may only be
# used before the next change
MUTABLE = ("simulationstep", "outstepnr")
WHILE = "simulationstep < laststep && !abort"
AT_EXPR = "h5save > 0 && outstepnr % h5save == 0 ? All : Defaults"
SKIP_DECL = {"updatetime": None, "h5save": "opts.getSavePhaseSpace()", "outstepnr": "0", "simulationstep": "0"}


class Tr:
    def __init__(self):
        self.points = []      # labels in order of appearance
        self.skipped = []
        self.at_declared = False
        self.at_epoch = None
        self.inlined = []     # local constants replaced by their initialisers
        self.epoch = 0        # number of changes of a MUTABLE variable (and loop boundaries) passed so far
        self.local_epoch = {}
        # (family st2c12) observer-guarded statements of the simulation part: dict(line, cond, where, effects); they are NOT part
        # of main_prog (the driver model has no verbosity) - Proofs/ObserversMainP.v demands that each one is pure
        self.observers = []
        self.report_locals = []   # locals whose every use only reports (declared in the simulation part; skipped)
        self.where = "pre"
        LOCALS.clear()
        ON_LOCAL_USE[0] = self.local_used

    def status_line(self, s):
        """`Display::printText(status_string(grid_t1, t, rotations) [+ report-only locals / string literals] [, false [, updatetime]])`"""
        n = unwrap(s)
        if n.get("kind") != "CallExpr" or callee_name(kids(n)[0]) != "printText":
            return False
        args = [c for c in kids(n)[1:] if c.get("kind") != "CXXDefaultArgExpr"]
        if not args or [render(a) for a in args[1:]] not in ([], ["false"], ["false", "updatetime"]):
            return False
        leaves = []

        def flat(e):
            e = unwrap(e)
            if e.get("kind") == "CXXOperatorCallExpr" and callee_name(kids(e)[0]) == "operator+" and len(kids(e)) == 3:
                flat(kids(e)[1])
                flat(kids(e)[2])
            else:
                leaves.append(e)
        flat(args[0])
        nstat = 0
        for e in leaves:
            if e.get("kind") == "StringLiteral":
                continue
            if e.get("kind") == "DeclRefExpr" and e["referencedDecl"].get("name") in self.report_locals:
                continue
            if re.match(r"^status_string\(grid_t1, (0|simulationstep / steps), rotations\)$", text_of(e) or ""):
                nstat += 1
                continue
            return False
        return nstat == 1

    def local_used(self, nm):
        if self.local_epoch.get(nm) is not None and self.local_epoch[nm] != self.epoch:
            raise TranslateError("local constant %s reads a step counter and is used after the counter changed" % nm)

    def boundary(self):
        """loop entry / exit: what was computed from the step counters before is stale afterwards"""
        self.epoch += 1

    def stmt_list(self, stmts):
        """list of AST statements -> list of ('call', txt) | ('cond', g, t, e)"""
        out = []
        for s in stmts:
            out += self.stmt(s)
        return out

    def block(self, n):
        if n.get("kind") == "CompoundStmt":
            return self.stmt_list(kids(n))
        return self.stmt(n)

    def stmt(self, s):
        k = s.get("kind")
        if k == "NullStmt":
            return []
        if k == "CompoundStmt":
            return self.stmt_list(kids(s))
        if k == "DeclStmt":
            for v in kids(s):
                if v.get("kind") != "VarDecl":
                    raise TranslateError("declaration %s in the simulation part" % v.get("kind"))
                nm = v.get("name")
                ini = kids(v)[0] if kids(v) else None
                if nm == "at":
                    init = render(ini) if ini is not None else None
                    if init in ("Defaults", "All") and ini is not None:
                        # two-statement form: `at = Defaults; if (c) at = All;` (or mirrored); completed by the if below
                        self.at_pending = init
                        self.at_epoch = self.epoch
                        continue
                    ok = init == AT_EXPR
                    if not ok and ini is not None and unwrap(ini).get("kind") == "ConditionalOperator":
                        c, a, b = kids(unwrap(ini))      # the same choice with a negated / De Morgan condition
                        ok = (nnf(c) == AT_FORM and (render(a), render(b)) == ("All", "Defaults")) or \
                             (nnf(c, True) == AT_FORM and (render(a), render(b)) == ("Defaults", "All"))
                    if not ok:
                        raise TranslateError("`at` is no longer %s but %s" % (AT_EXPR, init))
                    self.at_declared = True
                    self.at_epoch = self.epoch
                elif nm in SKIP_DECL:
                    init = render(ini) if ini is not None else None
                    want = SKIP_DECL[nm]
                    if want is not None and init != want:
                        raise TranslateError("initialiser of %s is %s, expected %s" % (nm, init, want))
                    self.skipped.append("%s = %s" % (nm, init))
                elif not reads_observer(v) and not _interesting(v, False) and _std_type(v) and "*" not in v.get("type", {}).get("qualType", "") \
                        and "&" not in v.get("type", {}).get("qualType", "") and v.get("storageClass") != "static" \
                        and not obs_effects(s, set(), []) and nm not in MUTABLE and report_only(nm):
                    # (family st2c12) a local that only reports (every use inside an observer-guarded statement or a log
                    # statement), declared without any effect: not part of the model
                    self.report_locals.append(nm)
                    self.skipped.append("%s (report-only local)" % nm)
                else:
                    # a local constant with a pure initialiser is carried as a let-binding: every use is
                    # replaced by the initialiser (same value: no variable it reads changes in between)
                    qt = v.get("type", {}).get("qualType", "")
                    why = None
                    if ini is None:
                        why = "it has no initialiser"
                    elif not (qt.startswith("const ") or " const" in qt) or "*" in qt or "&" in qt:
                        why = "its type `%s` is not a const value type" % qt
                    elif v.get("storageClass") == "static":
                        why = "it is static"
                    else:
                        why = impure_reason(ini)
                    if why:
                        try:
                            init = render(ini) if ini is not None else None
                        except TranslateError:
                            init = "?"
                        raise TranslateError("unexpected declaration of %s = %s (%s)" % (nm, init, why))
                    if nm in LOCALS or nm in MUTABLE or nm in ("hdf_file", "wake_field", "wkm", "drfm", "h5save", "outstep", "renormalize", "abort", "steps", "laststep", "at"):
                        raise TranslateError("local constant %s shadows a name of the driver" % nm)
                    init = render(ini)
                    reads = names_in(ini, set())
                    for other in list(reads):
                        if other in LOCALS:
                            reads |= names_in(LOCALS[other], set())
                    LOCALS[nm] = ini
                    self.local_epoch[nm] = self.epoch if (reads & set(MUTABLE)) else None
                    self.inlined.append("%s = %s" % (nm, init))
            return []
        if k == "IfStmt":
            ks = kids(s)
            if s.get("hasInit") or s.get("hasVar"):
                raise TranslateError("if with init/variable")
            if reads_observer(ks[0]):
                # (family st2c12) a statement guarded by an observer option: classified, never part of the program of the model
                ce = obs_effects(ks[0], set(), [])
                if impure(ce):
                    raise TranslateError("observer-guarded statement at line %s: its condition has an effect: if (%s): %s" % (
                        line_of_node(s), text_of(ks[0]), "; ".join(show_oeff(x) for x in impure(ce))))
                effs = list(ce)
                loc = set()
                for b in ks[1:]:
                    obs_effects(b, loc, effs)
                self.observers.append(dict(line=line_of_node(s) or 0, cond=text_of(ks[0]) or "?", where=self.where, effects=effs))
                return []
            if getattr(self, "at_pending", None) and len(ks) == 2:
                body = ks[1]
                while body.get("kind") == "CompoundStmt" and len(kids(body)) == 1:
                    body = kids(body)[0]
                try:
                    btxt = render(body)
                except TranslateError:
                    btxt = ""
                want = {"Defaults": ("at = All", False), "All": ("at = Defaults", True)}[self.at_pending]
                if btxt == want[0]:
                    if nnf(ks[0], want[1]) != AT_FORM:
                        raise TranslateError("`at` is assigned under the condition %s, expected %s" % (render(ks[0]), AT_EXPR))
                    if self.at_epoch != self.epoch:
                        raise TranslateError("`at`: a step counter changed between its declaration and its assignment")
                    self.at_pending = None
                    self.at_declared = True
                    return []
            gname, neg = guard_of(ks[0])     # normal form: De Morgan / negated comparisons with swapped branches
            t = self.block(ks[1])
            e = self.block(ks[2]) if len(ks) > 2 else []
            if neg:                          # if (!c) A else B  ==  if (c) B else A
                t, e = e, t
            return [("cond", gname, t, e)]
        if k == "ReturnStmt":
            v = render(kids(s)[0])
            if v != "0":
                raise TranslateError("return %s" % v)
            return [("call", "Exit")]
        if k in ("WhileStmt", "ForStmt", "DoStmt", "SwitchStmt", "CXXTryStmt", "BreakStmt", "ContinueStmt", "GotoStmt"):
            raise TranslateError("control statement %s inside a block" % k)
        txt = render(s)
        m = re.match(r'^point\((.*)\)$', txt)
        if m:
            lab = m.group(1).strip('"')
            if lab in self.points:
                raise TranslateError("label %s used twice" % lab)
            self.points.append(lab)
            return [("call", "(Point %d)" % (len(self.points) - 1))]
        if txt in CALLS:
            if txt.endswith(", at)"):
                if getattr(self, "at_pending", None):
                    raise TranslateError("append(.., at): `at` was declared %s and never chosen by the save cadence" % self.at_pending)
                if not self.at_declared:
                    raise TranslateError("append(.., at) without the `at` declaration")
                if self.at_epoch != self.epoch:
                    raise TranslateError("append(.., at): a step counter changed since `at` was computed")
            if CALLS[txt] in ("IncOutNr", "IncStep"):
                self.epoch += 1
            return [("call", CALLS[txt])]
        if any(r.match(txt) for r in STATUS) or self.status_line(s):
            return [("call", "(Print MStatus)")]
        if txt.startswith("delete "):
            self.skipped.append(txt)
            return []
        raise TranslateError("statement not understood: %s" % txt[:200])



# ---------------------------------------------------------------------------------------------------------
# the set-up (from the installation of the SIGINT handler to "Starting the simulation."): control skeleton
# in the language of coq/Model/Setup.v

SETUP_CALLS = {"grid_t1->updateXProjection()": "UpdateXProj", "grid_t1->normalize()": "Normalize"}
SETUP_GUARDS = {"renormalize >= 0": "GRenorm0"}


def refs_abort(n):
    if n.get("kind") == "DeclRefExpr" and n["referencedDecl"].get("name") == "abort" and n["referencedDecl"].get("kind") == "VarDecl":
        return True
    return any(refs_abort(c) for c in kids(n))


def is_point(n):
    if n.get("kind") == "CallExpr":
        try:
            return re.match(r'^point\((.*)\)$', render(n)) is not None
        except TranslateError:
            return False
    return False


def text_of(n):
    try:
        return render(n)
    except TranslateError:
        return None


def interesting(n):
    """does the subtree hold something the skeleton keeps: the flag, a return, a hook point, a PhaseSpace call of SETUP_CALLS"""
    return _interesting(n, False)


def _interesting(n, in_lambda, obs=True):
    """a `return` inside the body of a lambda expression returns from the lambda, not from main(); hook points, the flag
    and the modelled PhaseSpace calls are kept interesting there too (the lambda may be called anywhere later)"""
    k = n.get("kind")
    if (k == "ReturnStmt" and not in_lambda) or is_point(n):
        return True
    if k == "DeclRefExpr" and n["referencedDecl"].get("name") == "abort" and n["referencedDecl"].get("kind") == "VarDecl":
        return True
    if k == "CXXMemberCallExpr" and text_of(n) in SETUP_CALLS:
        return True
    if obs and is_observer_ref(n):       # (family st2c12) verbosity: the statement stays visible in the skeleton
        return True
    return any(_interesting(c, in_lambda or k == "LambdaExpr", obs) for c in kids(n))


def line_of_node(n):
    b = n.get("range", {}).get("begin", {})
    off = b.get("offset", b.get("expansionLoc", {}).get("offset", b.get("spellingLoc", {}).get("offset")))
    return _line_of(off)


def strings_in(n, acc):
    if n.get("kind") == "StringLiteral":
        acc.append(n.get("value", "").strip('"'))
    for c in kids(n):
        strings_in(c, acc)
    return acc


# ---------------------------------------------------------------------------------------------------------
# (family st2c12; seeds F3-I, F6-J) statements guarded by an OBSERVER option.
# An observer option changes what is reported, never what is simulated (C12: "independent of how verbose the log is").
# Verbosity is read through `opts.getVerbosity()`; a local variable initialised by exactly that call is an observer
# variable.  Every `if` whose condition reads one is an observer-guarded statement: both branches are classified
# statement by statement into the effects of coq/Model/Observers.v:
#   OConst obj m      a const member function of an object declared outside (the implicit object argument is const-qualified)
#   OModel c          a call the driver model knows (CALLS / SETUP_CALLS: updateXProjection(), integrate(), ...)
#   OGetPast obj      `obj->getPastModulation()` (its effect is what Gen_DynQueue's dq_getpast_ops say)
#   ONonConst obj m   any other non-const member function of an object declared outside the guarded statement
#   OAssign v         assignment / increment of a variable declared outside that is not report-only
#   OOther what       a loop, return, throw, new/delete, lambda, address-of, a function that is not in PURE_FUNCS, ...
# Pure = only OConst effects.  Allowed without an effect: writing to a log sink (`sstream`, std::cout/cerr: `<<`, `.str("")`,
# Display::printText), declaring and changing block-local variables, calling the functions of PURE_FUNCS, and assigning a
# REPORT-ONLY variable: one whose every use in main() is inside an observer-guarded statement, a log statement,
# `addParameterToGroup("/Info", ..)` or the initialisation / assignment of another report-only variable (today: `shield`).
OBS_GETTERS = ("getVerbosity",)
OBS_VARS = set()
LOG_SINKS = ("sstream", "cout", "cerr", "clog")
PURE_FUNCS = ("printText", "status_string", "fpclassify", "sqrt", "pow", "abs", "fabs", "exp", "log", "log10", "log2", "sin", "cos", "tan",
              "asin", "acos", "atan", "atan2", "floor", "ceil", "round", "lround", "min", "max", "isnan", "isinf", "isfinite", "sign",
              "to_string", "setprecision", "setw", "setfill", "two_pi", "move", "get", "size", "empty")
STREAM_OPS = ("operator<<",)
ASSIGN_OPS = ("operator=", "operator+=", "operator-=", "operator*=", "operator/=", "operator%=", "operator|=", "operator&=", "operator^=",
              "operator<<=", "operator>>=", "operator++", "operator--")
READ_OPS = ("operator->", "operator*", "operator[]", "operator==", "operator!=", "operator<", "operator>", "operator<=", "operator>=",
            "operator+", "operator-", "operator/", "operator!", "operator bool", "operator&&", "operator||")
NEUTRAL_KINDS = DROP + LITERALS + ("DeclRefExpr", "MemberExpr", "ConditionalOperator", "ArraySubscriptExpr", "StringLiteral", "CharacterLiteral",
                                   "CXXDefaultArgExpr", "ImplicitValueInitExpr", "InitListExpr", "CXXStdInitializerListExpr", "CXXScalarValueInitExpr",
                                   "UnaryExprOrTypeTraitExpr", "SubstNonTypeTemplateParmExpr", "OpaqueValueExpr", "CXXTemporaryObjectExpr",
                                   "CXXConstructExpr", "VarDecl", "NullStmt", "CompoundStmt", "IfStmt", "DeclStmt")
BAD_KINDS = {"ForStmt": "a loop", "WhileStmt": "a loop", "DoStmt": "a loop", "CXXForRangeStmt": "a loop", "SwitchStmt": "a switch",
             "ReturnStmt": "a return", "BreakStmt": "a break", "ContinueStmt": "a continue", "GotoStmt": "a goto", "CXXTryStmt": "a try block",
             "CXXThrowExpr": "a throw", "CXXNewExpr": "a new-expression", "CXXDeleteExpr": "a delete-expression", "LambdaExpr": "a lambda",
             "StmtExpr": "a statement expression", "AsmStmt": "inline assembly", "GCCAsmStmt": "inline assembly"}
MAIN_BODY = [None]        # body of main(), set by translate()
_USES = [None]
REPORT_ONLY = {}          # name -> True/False (memo of report_only)


def is_observer_ref(n):
    """the node itself is a read of an observer option: a reference to an observer variable or `opts.getVerbosity()`"""
    k = n.get("kind")
    if k == "DeclRefExpr" and n["referencedDecl"].get("kind") == "VarDecl" and n["referencedDecl"].get("name") in OBS_VARS:
        return True
    if k == "MemberExpr" and n.get("name") in OBS_GETTERS:
        return True
    return False


def reads_observer(n):
    return is_observer_ref(n) or any(reads_observer(c) for c in kids(n))


def observer_decl(s):
    """name of the variable when the statement is `[const] T v = opts.<observer getter>();`, else None"""
    if s.get("kind") != "DeclStmt" or len(kids(s)) != 1 or kids(s)[0].get("kind") != "VarDecl" or not kids(kids(s)[0]):
        return None
    ini = unwrap(kids(kids(s)[0])[0])
    if ini.get("kind") == "CXXMemberCallExpr" and len(kids(ini)) == 1 and kids(ini)[0].get("kind") == "MemberExpr" \
            and kids(ini)[0].get("name") in OBS_GETTERS:
        return kids(s)[0].get("name")
    return None


def root_var(n):
    """the variable an lvalue / object expression is rooted in (through casts, ->, *, [], .member), else None"""
    while True:
        k = n.get("kind")
        ks = kids(n)
        if k == "DeclRefExpr":
            return n["referencedDecl"].get("name")
        if k in DROP or k in ("MemberExpr", "ArraySubscriptExpr") or (k == "UnaryOperator" and n.get("opcode") in ("*", "&")):
            if not ks:
                return None
            n = ks[0]
        elif k == "CXXOperatorCallExpr" and len(ks) >= 2:
            n = ks[1]
        elif k in ("CXXMemberCallExpr", "CallExpr") and ks:
            n = ks[0]
        else:
            return None


def callee_name(n):
    c = n
    while c.get("kind") in DROP and kids(c):
        c = kids(c)[0]
    if c.get("kind") == "DeclRefExpr":
        return c["referencedDecl"].get("name")
    if c.get("kind") == "MemberExpr":
        return c.get("name")
    return None


def _const_object(obj, arrow):
    qt = (obj.get("type") or {}).get("qualType", "")
    return bool(re.match(r"^const [^*]*\*", qt)) if arrow else qt.startswith("const ")


def _std_type(n):
    qt = (n.get("type") or {}).get("qualType", "").replace("const ", "")
    return qt.startswith(("std::", "basic_string", "basic_ostream", "__gnu_cxx::")) or _integral(n) or qt in ("float", "double", "long double") \
        or qt.startswith("vfps::") and qt.endswith("_t")


def _assign_target(tgt, loc, acc):
    r = root_var(tgt)
    if r is None:
        acc.append(("other", "assignment to an expression that is not rooted in a variable"))
    elif r in loc or r in LOG_SINKS or report_only(r):
        pass
    else:
        acc.append(("assign", r))


def obs_effects(n, loc, acc):
    """appends the effects (see above) of the statement / expression n to acc; loc: variables declared inside the guarded statement"""
    k = n.get("kind")
    ks = kids(n)
    if k in BAD_KINDS:
        acc.append(("other", BAD_KINDS[k]))
        return acc
    if k == "DeclStmt":
        for v in ks:
            if v.get("kind") != "VarDecl" or v.get("storageClass") == "static":
                acc.append(("other", "declaration of a %s%s" % ("static " if v.get("storageClass") == "static" else "", v.get("kind"))))
                continue
            loc.add(v.get("name"))
            for c in kids(v):
                obs_effects(c, loc, acc)
        return acc
    if k == "IfStmt" and (n.get("hasInit") or n.get("hasVar")):
        acc.append(("other", "an if with init/variable"))
        return acc
    if k == "CXXMemberCallExpr":
        callee = ks[0]
        if callee.get("kind") != "MemberExpr" or not kids(callee):
            acc.append(("other", "a member call through a pointer to member"))
            return acc
        obj, name = kids(callee)[0], callee.get("name")
        root = root_var(obj) or "?"
        txt = text_of(n)
        if txt in SETUP_CALLS or txt in CALLS:
            acc.append(("model", SETUP_CALLS.get(txt) or CALLS[txt]))
        elif name == "getPastModulation":
            acc.append(("getpast", root))
        elif root in LOG_SINKS or root in loc or name in OBS_GETTERS:
            pass
        elif _const_object(obj, callee.get("isArrow")):
            acc.append(("const", root, name))
        else:
            acc.append(("nonconst", root, name))
        obs_effects(obj, loc, acc)
        for c in ks[1:]:
            obs_effects(c, loc, acc)
        return acc
    if k == "CXXOperatorCallExpr":
        op = callee_name(ks[0]) or "?"
        args = ks[1:]
        if op in STREAM_OPS:
            r = root_var(n)
            if not (r in LOG_SINKS or r in loc):
                acc.append(("other", "%s on `%s`, which is not a log sink" % (op, r)))
        elif op in ASSIGN_OPS:
            _assign_target(args[0], loc, acc)
        elif op not in READ_OPS:
            acc.append(("other", "the overloaded %s" % op))
        for c in args:
            obs_effects(c, loc, acc)
        return acc
    if k == "CallExpr":
        f = callee_name(ks[0])
        if f not in PURE_FUNCS:
            acc.append(("other", "a call of %s (not known to be pure)" % (f or "a computed function")))
        for c in ks[1:]:
            obs_effects(c, loc, acc)
        return acc
    if k in ("BinaryOperator", "CompoundAssignOperator"):
        op = n.get("opcode", "")
        if k == "CompoundAssignOperator" or op == "=" or (op.endswith("=") and op not in ("==", "!=", "<=", ">=")):
            _assign_target(ks[0], loc, acc)
        elif op == ",":
            pass
    elif k == "UnaryOperator":
        op = n.get("opcode")
        if op in ("++", "--"):
            _assign_target(ks[0], loc, acc)
        elif op == "&" and root_var(ks[0]) not in loc:
            acc.append(("other", "the address of `%s` is taken" % root_var(ks[0])))
    elif k in ("CXXConstructExpr", "CXXTemporaryObjectExpr"):
        if not _std_type(n):
            acc.append(("other", "construction of a %s" % (n.get("type") or {}).get("qualType", "?")))
    elif k not in NEUTRAL_KINDS:
        acc.append(("other", "a %s" % k))
        return acc
    for c in ks:
        obs_effects(c, loc, acc)
    return acc


def impure(effs):
    return [e for e in effs if e[0] != "const"]


def _is_log_stmt(st):
    """`sstream << ..`, `sstream.str(..)`, `std::cout << ..`, `Display::printText(..)`"""
    n = st
    while n.get("kind") in DROP and len(kids(n)) == 1:
        n = kids(n)[0]
    k = n.get("kind")
    if k == "CXXOperatorCallExpr" and callee_name(kids(n)[0]) in STREAM_OPS:
        return root_var(n) in LOG_SINKS
    if k == "CXXMemberCallExpr":
        c = kids(n)[0]
        return c.get("kind") == "MemberExpr" and bool(kids(c)) and root_var(kids(c)[0]) in LOG_SINKS
    if k == "CallExpr":
        return callee_name(kids(n)[0]) == "printText"
    return False


def _is_info_attribute(st):
    n = st
    while n.get("kind") in DROP and len(kids(n)) == 1:
        n = kids(n)[0]
    if n.get("kind") != "CXXMemberCallExpr" or kids(n)[0].get("name") != "addParameterToGroup" or len(kids(n)) < 2:
        return False
    a = unwrap(kids(n)[1])
    return a.get("kind") == "StringLiteral" and a.get("value", "").strip('"') == "/Info"


def _uses():
    """name -> [(role, statement, inside an observer-guarded statement)] for every variable reference in main(); role `cond`: the
    reference is in the header of an if / loop / switch, `stmt`: in a simple statement"""
    if _USES[0] is not None:
        return _USES[0]
    idx = {}

    def simple(st, in_obs, role):
        for nm in names_in(st, set()):
            idx.setdefault(nm, []).append((role, st, in_obs))

    def walk(st, in_obs):
        k = st.get("kind")
        ks = kids(st)
        if k == "CompoundStmt":
            for c in ks:
                walk(c, in_obs)
        elif k == "IfStmt":
            simple(ks[0], in_obs, "cond")
            o = in_obs or reads_observer(ks[0])
            for c in ks[1:]:
                walk(c, o)
        elif k in ("ForStmt", "WhileStmt", "DoStmt", "CXXForRangeStmt", "SwitchStmt", "CaseStmt", "DefaultStmt", "LabelStmt", "CXXTryStmt", "CXXCatchStmt"):
            for c in ks:
                if c.get("kind", "").endswith("Stmt") and c.get("kind") != "DeclStmt":
                    walk(c, in_obs)
                elif c.get("kind") != "VarDecl" or kids(c):
                    simple(c, in_obs, "cond")
        else:
            simple(st, in_obs, "stmt")
    if MAIN_BODY[0] is not None:
        walk(MAIN_BODY[0], False)
    _USES[0] = idx
    return idx


def report_only(var, seen=None):
    """every use of the variable in main() only reports: inside an observer-guarded statement, in a log statement, as an /Info
    attribute of the results file, or in the initialisation / assignment of itself or of another report-only variable"""
    if var in REPORT_ONLY:
        return REPORT_ONLY[var]
    seen = seen or set()
    if var in seen:
        return True
    seen = seen | {var}
    uses = _uses().get(var)
    ok = bool(uses)
    for role, st, in_obs in (uses or []):
        if in_obs:
            continue
        if role == "cond":
            ok = False
            break
        n = st
        while n.get("kind") in DROP and len(kids(n)) == 1:
            n = kids(n)[0]
        k = n.get("kind")
        if k == "DeclStmt":
            for v in kids(n):
                if v.get("kind") == "VarDecl" and v.get("name") != var and var in names_in(v, set()) and not report_only(v.get("name"), seen):
                    ok = False
        elif (k == "BinaryOperator" and n.get("opcode") == "=") or k == "CompoundAssignOperator" or \
                (k == "CXXOperatorCallExpr" and callee_name(kids(n)[0]) in ASSIGN_OPS):
            tgt = kids(n)[1] if k == "CXXOperatorCallExpr" else kids(n)[0]
            t = root_var(tgt)
            if t != var and not (t is not None and report_only(t, seen)):
                ok = False
        elif _is_log_stmt(n) or _is_info_attribute(n):
            pass
        else:
            ok = False
        if not ok:
            break
    if len(seen) == 1:
        REPORT_ONLY[var] = ok
    return ok


def observer_reads_elsewhere():
    """textual scan of src/ and inc/ for reads of the observer option outside main.cpp (translated) and ProgramOptions (its
    definition): none may exist, or verbosity reaches code this translator does not see"""
    res = []
    for p in sorted(glob.glob(os.path.join(REPO, "src", "**", "*.cpp"), recursive=True) +
                    glob.glob(os.path.join(REPO, "inc", "**", "*.hpp"), recursive=True)):
        rel = os.path.relpath(p, REPO)
        if rel == os.path.join("src", "main.cpp") or "ProgramOptions" in rel:
            continue
        for i, line in enumerate(open(p, errors="replace"), 1):
            code = line.split("//")[0]
            if re.search(r"\b(%s)\b" % "|".join(OBS_GETTERS), code):
                raise TranslateError("%s:%d reads an observer option (%s): %s" % (rel, i, "/".join(OBS_GETTERS), code.strip()[:100]))
    return res


def coq_oeff(e):
    q = lambda t: '"%s"%%string' % str(t).replace('"', "'").replace("\\", "/")[:100]
    if e[0] == "const":
        return "OConst %s %s" % (q(e[1]), q(e[2]))
    if e[0] == "model":
        return "OModel %s" % e[1]
    if e[0] == "getpast":
        return "OGetPast %s" % q(e[1])
    if e[0] == "nonconst":
        return "ONonConst %s %s" % (q(e[1]), q(e[2]))
    if e[0] == "assign":
        return "OAssign %s" % q(e[1])
    return "OOther %s" % q(e[1])


def show_oeff(e):
    return {"const": "calls the const %s of %s", "nonconst": "calls %s of %s, which is not a const member function",
            "getpast": "calls getPastModulation() of %s%s (moves the pending records out)"}.get(e[0], "%s%s") % (
        (e[2], e[1]) if e[0] in ("const", "nonconst") else ((e[1], "") if e[0] == "getpast" else
        ({"model": "calls the model's ", "assign": "assigns ", "other": "contains "}[e[0]], e[1])))



class SetupTr:
    def __init__(self):
        self.points = []          # labels in source order; point i is `Point (-(i+1))`
        self.opaque = {}          # n (source line of the first statement) -> number of statements merged
        self.conds = {}           # n -> dict(text, then_labels, else_labels, then_strings, else_strings)
        # (family st2c12) observer-guarded statements: see "statements guarded by an OBSERVER option" above
        self.in_obs = False       # inside a branch of an `if` whose condition reads an observer option
        self.obs_conds = []       # ids of the conditions that read an observer option
        self.pure = set()         # ids of opaque statements / conditions without any effect but OConst
        self.effects = {}         # id -> effects of a statement / condition under an observer guard (for the report)

    def fresh(self, n, table):
        ln = line_of_node(n) or 0
        while ln in self.opaque or ln in self.conds:
            ln += 100000          # two statements on one line
        return ln

    def stmt_list(self, stmts):
        out = []
        for s in stmts:
            for it in self.stmt(s):
                if it[0] == "opq" and out and out[-1][0] == "opq" and not self.in_obs and it[1] not in self.pure and out[-1][1] not in self.pure:
                    self.opaque[out[-1][1]] += 1        # a run of opaque statements is one opaque statement
                    del self.opaque[it[1]]
                else:
                    out.append(it)
        return out

    def block(self, n):
        if n.get("kind") == "CompoundStmt":
            return self.stmt_list(kids(n))
        return self.stmt_list([n])

    def labels_of(self, items, acc):
        for it in items:
            if it[0] == "call" and it[1].startswith("(Point"):
                acc.append(self.points[-int(re.search(r"-?\d+", it[1]).group(0)) - 1])
            elif it[0] == "if":
                self.labels_of(it[2], acc)
                self.labels_of(it[3], acc)
            elif it[0] == "try":
                self.labels_of(it[1], acc)
                self.labels_of(it[2], acc)
        return acc

    def opq(self, s):
        n = self.fresh(s, self.opaque)
        self.opaque[n] = 1
        if self.in_obs:           # under an observer guard every statement is classified on its own
            effs = obs_effects(s, self.obs_locals, [])
            self.effects[n] = effs
            if not impure(effs):
                self.pure.add(n)
        return [("opq", n)]

    def stmt(self, s):
        k = s.get("kind")
        if k == "NullStmt":
            return []
        if k == "CompoundStmt":
            return self.stmt_list(kids(s))
        if observer_decl(s):      # `const bool verbose = opts.getVerbosity();`
            OBS_VARS.add(observer_decl(s))
            it = self.opq(s)
            self.pure.add(it[0][1])
            return it
        if not interesting(s):
            return self.opq(s)
        if is_point(s):
            lab = re.match(r'^point\((.*)\)$', render(s)).group(1).strip('"')
            if lab in self.points:
                raise TranslateError("label %s used twice" % lab)
            self.points.append(lab)
            return [("call", "(Point (%d))" % (-len(self.points)))]
        if k == "ReturnStmt":
            v = render(kids(s)[0]) if kids(s) else "?"
            if not re.match(r"^\d+$", v):
                raise TranslateError("set-up: return %s" % v)
            return [("return", int(v))]
        if k == "IfStmt":
            ks = kids(s)
            if s.get("hasInit") or s.get("hasVar"):
                raise TranslateError("set-up: if with init/variable")
            if refs_abort(ks[0]):
                raise TranslateError("set-up: the condition `%s` reads Display::abort" % (text_of(ks[0]) or "?"))
            if _interesting(ks[0], False, obs=False):
                raise TranslateError("set-up: hook point or return inside a condition")
            g = text_of(ks[0])
            obs = reads_observer(ks[0])
            was = self.in_obs
            if obs and not was:
                self.in_obs, self.obs_locals = True, set()
            t = self.block(ks[1])
            e = self.block(ks[2]) if len(ks) > 2 else []
            self.in_obs = was
            if g in SETUP_GUARDS:
                return [("if", "(CGuard %s)" % SETUP_GUARDS[g], t, e)]
            n = self.fresh(s, self.conds)
            if obs:
                self.obs_conds.append(n)
            if obs or was:        # the condition itself is evaluated under / as an observer test: it has to be pure as well
                effs = obs_effects(ks[0], set(), [])
                self.effects[n] = effs
                if not impure(effs):
                    self.pure.add(n)
            self.conds[n] = dict(text=(g or "?")[:120], then_labels=self.labels_of(t, []), else_labels=self.labels_of(e, []),
                                 then_strings=strings_in(ks[1], []), else_strings=strings_in(ks[2], []) if len(ks) > 2 else [])
            return [("if", "(COpq %d)" % n, t, e)]
        if k == "CXXTryStmt":
            ks = kids(s)
            catches = [c for c in ks if c.get("kind") == "CXXCatchStmt"]
            if len(catches) != 1 or ks[0].get("kind") != "CompoundStmt":
                raise TranslateError("set-up: try statement with %d handlers" % len(catches))
            hk = [c for c in kids(catches[0]) if c.get("kind") == "CompoundStmt"]
            if len(hk) != 1:
                raise TranslateError("set-up: catch handler without a body")
            return [("try", self.block(ks[0]), self.block(hk[0]))]
        txt = text_of(s)
        if txt == "abort = true":
            return [("setabort",)]
        if txt in SETUP_CALLS:
            if self.in_obs:       # a call of the model under an observer guard: stays an SCall (the checker refuses it); for the report
                self.effects[self.fresh(s, self.effects)] = [("model", SETUP_CALLS[txt])]
            return [("call", SETUP_CALLS[txt])]
        if refs_abort(s):
            raise TranslateError("set-up: Display::abort is accessed by `%s` (only `Display::abort = true;` is understood)" % (txt or k)[:160])
        if reads_observer(s):
            raise TranslateError("set-up: an observer option (verbosity) is read outside the condition of an `if`: %s %s" % (k, (txt or "")[:120]))
        raise TranslateError("set-up: %s holds a hook point, a return or a PhaseSpace call of the model and is not an if/try/block: %s" % (k, (txt or "")[:120]))


def coq_sblk(items, ind="  "):
    if not items:
        return "SDone"
    it = items[0]
    if it[0] == "return":
        return "SReturn %d" % it[1]          # what follows a return is dead code
    rest = coq_sblk(items[1:], ind)
    if it[0] == "call":
        return "SCall %s\n%s(%s)" % (it[1], ind, rest)
    if it[0] == "setabort":
        return "SSetAbort\n%s(%s)" % (ind, rest)
    if it[0] == "opq":
        return "SOpq %d\n%s(%s)" % (it[1], ind, rest)
    if it[0] == "if":
        _, c, t, e = it
        return "SIf %s\n%s  (%s)\n%s  (%s)\n%s(%s)" % (c, ind, coq_sblk(t, ind + "  "), ind, coq_sblk(e, ind + "  "), ind, rest)
    _, t, h = it
    return "STry\n%s  (%s)\n%s  (%s)\n%s(%s)" % (ind, coq_sblk(t, ind + "  "), ind, coq_sblk(h, ind + "  "), ind, rest)


def handler_index(st):
    """index of the top-level statement that installs the SIGINT handler (`signal(SIGINT, ...)` or `sigaction(SIGINT, ...)`)"""
    idx = []
    for i, s in enumerate(st):
        if s.get("kind") == "CallExpr":
            t = text_of(s) or ""
            # SIGINT is 2 (the macro is expanded in the AST); a handler installed for another signal is not this statement
            if re.match(r"^(signal|sigaction)\(2,", t) and "SIGINT_handler" in t or re.match(r"^sigaction\(2,", t):
                idx.append(i)
    return idx


def coq_blk(items, ind="  "):
    """nested Seq/Cond term"""
    if not items:
        return "Done"
    it = items[0]
    rest = coq_blk(items[1:], ind)
    if it[0] == "call":
        return "Seq %s\n%s(%s)" % (it[1], ind, rest)
    _, g, t, e = it
    return "Cond %s\n%s  (%s)\n%s  (%s)\n%s(%s)" % (g, ind, coq_blk(t, ind + "  "), ind, coq_blk(e, ind + "  "), ind, rest)


def find_abort_refs(n, acc, write=False):
    k = n.get("kind")
    if k == "DeclRefExpr" and n["referencedDecl"].get("name") == "abort" and n["referencedDecl"].get("kind") == "VarDecl":
        b = n.get("range", {}).get("begin", {})
        off = b.get("offset", b.get("expansionLoc", {}).get("offset"))
        acc.append((_line_of(off), write))
        return
    if k == "BinaryOperator" and n.get("opcode") == "=":
        a, b = kids(n)
        find_abort_refs(a, acc, True)
        find_abort_refs(b, acc, False)
        return
    for c in kids(n):
        find_abort_refs(c, acc, False)


_SRC = None


def _line_of(off):
    global _SRC
    if off is None:
        return 0
    if _SRC is None:
        _SRC = open(os.path.join(REPO, "src", "main.cpp"), "rb").read()
    return _SRC[:off].count(b"\n") + 1


def has_str(n, txt):
    if n.get("kind") == "StringLiteral" and txt in n.get("value", ""):
        return True
    return any(has_str(c, txt) for c in kids(n))


def nondet_sources():
    res = []
    for p in sorted(glob.glob(os.path.join(REPO, "src", "**", "*.cpp"), recursive=True) +
                    glob.glob(os.path.join(REPO, "inc", "**", "*.hpp"), recursive=True)):
        for i, line in enumerate(open(p, errors="replace"), 1):
            for w in ("random_device", "system_clock"):
                if w in line:
                    res.append((os.path.relpath(p, REPO), i, w))
    return res


def abort_writes_elsewhere():
    """textual scan of src/ and inc/ (main.cpp excluded: it is translated) for writes of Display::abort; anything but
    `abort = true` (signal handler, window close button) or the definition `abort(false)` fails the translation"""
    res = []
    for p in sorted(glob.glob(os.path.join(REPO, "src", "**", "*.cpp"), recursive=True) +
                    glob.glob(os.path.join(REPO, "inc", "**", "*.hpp"), recursive=True)):
        rel = os.path.relpath(p, REPO)
        if rel == os.path.join("src", "main.cpp"):
            continue
        for i, line in enumerate(open(p, errors="replace"), 1):
            code = line.split("//")[0]
            if re.search(r"\babort\b\s*(=[^=]|\+=|-=|\|=|&=|\^=)", code) or re.search(r"&\s*(Display::)?abort\b", code):
                if not re.search(r"\babort\s*=\s*true\s*;", code):
                    raise TranslateError("%s:%d writes Display::abort other than `= true`: %s" % (rel, i, code.strip()[:100]))
                res.append((rel, i))
    return res


def translate():
    docs = ast_of("src/main.cpp", "main")
    mains = [x for x in docs if x.get("kind") == "FunctionDecl" and x.get("name") == "main"]
    if len(mains) != 1:
        raise TranslateError("%d definitions of main" % len(mains))
    _, body = body_of(mains, "main")
    st = kids(body)
    idx = [i for i, s in enumerate(st) if has_str(s, "Starting the simulation")]
    if len(idx) != 1:
        raise TranslateError("marker statement 'Starting the simulation.' found %d times at top level" % len(idx))
    LOCALS.clear()
    OBS_VARS.clear()
    REPORT_ONLY.clear()
    _USES[0] = None
    MAIN_BODY[0] = body
    hi = handler_index(st)
    if len(hi) != 1 or hi[0] >= idx[0]:
        raise TranslateError("statement installing the SIGINT handler found %d times at top level before the marker" % len(hi))
    su = SetupTr()
    setup_items = su.stmt_list(st[hi[0] + 1:idx[0] + 1])
    sim = st[idx[0] + 1:]
    wl = [i for i, s in enumerate(sim) if s.get("kind") == "WhileStmt"]
    if len(wl) != 1:
        raise TranslateError("%d while loops at top level of the simulation part" % len(wl))
    w = sim[wl[0]]
    cond, wbody = kids(w)[0], kids(w)[-1]
    if render(cond) != WHILE:
        raise TranslateError("loop condition is no longer `%s` but `%s`" % (WHILE, render(cond)))
    tr = Tr()
    pre = tr.stmt_list(sim[:wl[0]])
    tr.boundary()
    tr.where = "body"
    if "simulationstep = 0" not in tr.skipped or "outstepnr = 0" not in tr.skipped:
        raise TranslateError("step counters are not initialised to 0 before the loop: %s" % tr.skipped)
    bodyb = tr.block(wbody)
    tr.boundary()
    tr.where = "post"
    post = tr.stmt_list(sim[wl[0] + 1:])
    if not post or post[-1] != ("call", "Exit"):
        raise TranslateError("the simulation part does not end in return")
    # set-up points (before the marker): count labels so that the harness knows the first index
    setup_pts = []

    def collect(n):
        if n.get("kind") == "CallExpr":
            try:
                t = render(n)
            except TranslateError:
                t = ""
            m = re.match(r'^point\((.*)\)$', t)
            if m:
                setup_pts.append(m.group(1).strip('"'))
                return
        for c in kids(n):
            collect(c)
    for s in st[:idx[0] + 1]:
        collect(s)
    if setup_pts != su.points:
        raise TranslateError("hook points of the set-up outside the translated region: %s" % [l for l in setup_pts if l not in su.points])
    refs = []
    for i, s in enumerate(st):
        acc = []
        find_abort_refs(s, acc)
        refs += [(ln, wr, i > idx[0]) for (ln, wr) in acc]
    nd = nondet_sources()
    aw = abort_writes_elsewhere()
    observer_reads_elsewhere()
    if not OBS_VARS:
        raise TranslateError("no variable of main() is initialised by opts.%s(): the observer analysis has nothing to follow" % OBS_GETTERS[0])
    out = []
    out.append("(* GENERATED on every run by translate/mainloop2coq.py from src/main.cpp (main, from")
    out.append("   \"Starting the simulation.\" to return). Do not edit.")
    out.append("   skipped (no effect on the modelled state): %s" % "; ".join(tr.skipped))
    out.append("   local constants replaced by their (pure) initialisers: %s *)" % ("; ".join(tr.inlined) or "none"))
    out.append("From Coq Require Import List ZArith String.")
    out.append("From Inovesa Require Import Model.Driver Model.Setup Model.Observers.")
    out.append("Import ListNotations.")
    out.append("Local Open Scope Z_scope.")
    out.append("Definition main_pre : blk :=\n  %s." % coq_blk(pre))
    out.append("Definition main_body : blk :=\n  %s." % coq_blk(bodyb))
    out.append("Definition main_post : blk :=\n  %s." % coq_blk(post))
    out.append("Definition main_prog : prog := mkprog main_pre main_body main_post.")
    out.append("(* the set-up, from the statement after the installation of the SIGINT handler to \"Starting the simulation.\":")
    out.append("   control skeleton (Model/Setup.v); hook point i of setup_point_names is `Point (-(i+1))`; SOpq n / COpq n: n = source")
    out.append("   line of the (first) statement *)")
    out.append("Definition main_setup : sblk :=\n  %s." % coq_sblk(setup_items))
    out.append("(* opaque conditions of the set-up: (n, text) *)")
    out.append("Definition setup_conds : list (Z * string) :=\n  [%s]." %
               ";\n   ".join('(%d, "%s"%%string)' % (n, c["text"].replace('"', "'").replace("\\", "/")) for n, c in sorted(su.conds.items())))
    out.append("(* opaque statements of the set-up: (n, number of consecutive statements merged into it) *)")
    out.append("Definition setup_opaque : list (Z * Z) :=\n  [%s]." % "; ".join("(%d, %d)" % x for x in sorted(su.opaque.items())))
    q = lambda t: '"%s"%%string' % str(t).replace('"', "'").replace("\\", "/")[:100]
    out.append("(* observer options (verbosity): variables of main() initialised by opts.%s() *)" % "/".join(OBS_GETTERS))
    out.append("Definition observer_vars : list string :=\n  [%s]." % "; ".join(q(v) for v in sorted(OBS_VARS)))
    out.append("(* opaque conditions of the set-up that read an observer option *)")
    out.append("Definition setup_observer_conds : list Z :=\n  [%s]." % "; ".join(str(n) for n in sorted(su.obs_conds)))
    out.append("(* opaque statements / conditions of the set-up the translator found pure (only const member functions of objects declared outside,")
    out.append("   writes to log sinks, block-local and report-only variables): everything under an observer guard has to be in this list *)")
    out.append("Definition setup_pure_opaque : list Z :=\n  [%s]." % "; ".join(str(n) for n in sorted(su.pure)))
    out.append("(* what the statements / conditions under an observer guard of the set-up do: (n, effects) *)")
    out.append("Definition setup_observed_effects : list (Z * list oeff) :=\n  [%s]." %
               ";\n   ".join("(%d, [%s])" % (n, "; ".join(coq_oeff(e) for e in effs)) for n, effs in sorted(su.effects.items())))
    out.append("(* variables assigned under an observer guard whose every use only reports (log, /Info attribute, other such variables) *)")
    out.append("Definition report_only_vars : list string :=\n  [%s]." % "; ".join(q(v) for v in sorted(v for v, ok in REPORT_ONLY.items() if ok)))
    out.append("(* observer-guarded statements of the simulation part (NOT part of main_prog): line, condition, effects *)")
    out.append("Definition loop_observers : list ostmt :=\n  [%s]." %
               ";\n   ".join("mkostmt %d %s [%s]" % (o["line"], q(o["where"] + ": if (" + o["cond"] + ")"), "; ".join(coq_oeff(e) for e in o["effects"]))
                              for o in tr.observers))
    out.append("(* VERIF_POINT labels of the translated part, index = argument of Point *)")
    out.append("Definition point_names : list (Z * string) :=\n  [%s]." %
               ";\n   ".join('(%d, "%s"%%string)' % (i, l) for i, l in enumerate(tr.points)))
    out.append("(* VERIF_POINT labels of the set-up, in source order (not all are executed in every run) *)")
    out.append("Definition setup_point_names : list string :=\n  [%s]." % "; ".join('"%s"%%string' % l for l in setup_pts))
    out.append("(* every reference to Display::abort in main(): (source line, is a write, lies in the translated part) *)")
    out.append("Definition abort_refs : list (Z * bool * bool) :=\n  [%s]." %
               "; ".join("(%s, %s, %s)" % (ln or 0, "true" if wr else "false", "true" if sim_ else "false") for ln, wr, sim_ in refs))
    out.append("(* every write of Display::abort outside main.cpp (each one is `abort = true`; anything else fails the translation) *)")
    out.append("Definition abort_writes_elsewhere : list (string * Z) :=\n  [%s]." % "; ".join('("%s"%%string, %d)' % x for x in aw))
    out.append("(* every textual use of random_device / system_clock under src/ and inc/ *)")
    out.append("Definition nondet_sources : list (string * Z * string) :=\n  [%s]." %
               ";\n   ".join('("%s"%%string, %d, "%s"%%string)' % x for x in nd))
    return "\n".join(out) + "\n", dict(points=tr.points, setup_points=setup_pts, pre=pre, body=bodyb, post=post,
                                       abort_refs=refs, nondet=nd, setup=setup_items, setup_conds=su.conds, setup_opaque=su.opaque,
                                       observer_vars=sorted(OBS_VARS), setup_observer_conds=sorted(su.obs_conds), setup_pure=sorted(su.pure),
                                       setup_effects=su.effects, loop_observers=tr.observers,
                                       report_only=sorted(v for v, ok in REPORT_ONLY.items() if ok))


if __name__ == "__main__":
    dst = sys.argv[1] if len(sys.argv) > 1 else os.path.join(VERIF, "coq", "Gen", "Gen_MainLoop.v")
    try:
        text, _ = translate()
    except TranslateError as e:
        print("TRANSLATE-ERROR Gen_MainLoop: %s" % e)
        sys.exit(2)
    ch = write_if_changed(dst, text)
    print("Gen_MainLoop.v %s" % ("regenerated" if ch else "unchanged"))
