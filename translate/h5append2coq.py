#!/usr/bin/env python3
# GEN: Gen_H5Append
"""Gen_H5Append.v: the control flow of every method of HDF5File that calls `_appendData` (src/IO/HDF5File.cpp), read from the
clang JSON AST of the working tree on every run (C14; strengthening driven by seed F4-J: a guard on a remembered time that
returned from the whole of append(ps,t,at)).

Gen_H5Index.v (C10/C11) EVALUATES the conditions of the append overloads for each value of the AppendType / fullspectrum
parameter and lists the calls in order; it refuses everything else.  This translator keeps the control flow instead: each
body becomes a block of Model/H5Append.v -

    _appendData(member, src [, n]);    AApp (TDs <dataset of the member>) (SLit n)       (n a literal; default 1)
    _appendData(_dynamicRFKick, v.data(), v.size())    AApp TRFKicks SArgLen              (v a parameter)
    if (c) A else B                    ACond c A B
    return;                            ARet
    { ... }                            flattened
    anything else                      skipped - after checking that it holds no `_appendData` call, no return/throw/goto/
                                       break out of the function and no call of another HDF5File method (declarations, loops
                                       that gather data, calls on the arguments)

 conditions:  at == AppendType::X, at != X (either order)   CAtIn [X] / CNot
              a bool parameter                              CPar i
              !, &&, ||, true/false, a `const bool` local   structure / the local's initialiser
              ANYTHING else                                 COpq n   - n indexes `gen_append_opaque` (source text, members of the
                                                            object it reads): its value is unknown to the model, which
                                                            quantifies over it (history of the object, contents of arguments)
 a `switch (at)` with `break`-terminated cases becomes a chain of ACond.

The `_appendData` template itself becomes `gen_appenddata_shape`: one entry per statement (DExtend for the one that calls
`.extend`, DWrite for `.write`, DBranch/DReturn/DLoop for any control flow, DOther otherwise); its index arithmetic is C10's
(Gen_H5Index: `gen_ad_extent`, `gen_ad_dims_after` = old extent + size).

Which member is which dataset is read from the constructor's mem-initialisers (`_makeDatasetInfo<..>("/path", ..)`).
Also emitted: `gen_append_member_writes` (method, member) for every assignment to a member of the object inside these
methods (a member that REMEMBERS earlier calls; informational: remembering is harmless until a condition reads it, and
then the condition is opaque).

Fails loudly (TranslateError): a method other than the six known ones calls `_appendData`; `_appendData` inside a loop, a
lambda, an expression; a record count that is neither a literal nor `v.size()` of a parameter; a dataset member the
constructor does not create; throw/goto/labels; `return` with a value.  What the bodies must satisfy is NOT decided here
but by `appends_ok` (Model/H5Append.v; per-run obligation Proofs/H5AppendMainP.v, theorem C14_append_records_all_or_nothing)."""
import sys, os, re
sys.path.insert(0, os.path.dirname(os.path.abspath(__file__)))
from cxx_ast import *

SRC = "src/IO/HDF5File.cpp"
PATHS = {"/Info/AxisValues_t": "DT", "/PhaseSpace/axis0": "DPSAxis", "/BunchProfile/data": "DProfile",
         "/BunchLength/data": "DLength", "/BunchPosition/data": "DPosition", "/EnergyProfile/data": "DEProfile",
         "/EnergySpread/data": "DESpread", "/EnergyAverage/data": "DEAverage", "/BunchPopulation/data": "DPopulation",
         "/CSR/Spectrum/data": "DCsrSpectrum", "/CSR/Intensity/data": "DCsrIntensity", "/WakePotential/data": "DWake",
         "/Particles/data": "DParticles", "/PhaseSpace/data": "DPSData", "/BunchProfile/padded": "DPadProfile",
         "/WakePotential/padded": "DPadPotential"}
RFPATH = "/RFKicks/data"
ENUM = {"All": "AtAll", "Defaults": "AtDefaults", "PhaseSpace": "AtPhaseSpace"}
WRAP = ("ImplicitCastExpr", "ParenExpr", "ExprWithCleanups", "MaterializeTemporaryExpr", "CXXBindTemporaryExpr", "ConstantExpr",
        "CXXFunctionalCastExpr", "CStyleCastExpr", "CXXStaticCastExpr")
_TEXT = {}


def unwrap(n):
    while n.get("kind") in WRAP and len(kids(n)) == 1:
        n = kids(n)[0]
    return n


def walk(n, into_lambda=True):
    yield n
    if n.get("kind") == "LambdaExpr" and not into_lambda:
        return
    for c in kids(n):
        yield from walk(c, into_lambda)


def off(loc):
    if "offset" in loc:
        return loc["offset"], loc.get("tokLen", 1)
    for k in ("expansionLoc", "spellingLoc"):
        if k in loc and "offset" in loc[k]:
            return loc[k]["offset"], loc[k].get("tokLen", 1)
    return None, 0


def src_text(n):
    """source text of a node (bytes of the file between the first and the last token)"""
    if SRC not in _TEXT:
        _TEXT[SRC] = open(os.path.join(REPO, SRC), "rb").read()
    r = n.get("range", {})
    b, _ = off(r.get("begin", {}))
    e, l = off(r.get("end", {}))
    if b is None or e is None:
        return n.get("kind", "?")
    return re.sub(r"\s+", " ", _TEXT[SRC][b:e + l].decode("latin-1")).strip()


def line_of(n):
    if SRC not in _TEXT:
        _TEXT[SRC] = open(os.path.join(REPO, SRC), "rb").read()
    b, _ = off(n.get("range", {}).get("begin", {}))
    return 0 if b is None else _TEXT[SRC][:b].count(b"\n") + 1


def this_member(n):
    """name of the member of the object an lvalue expression is rooted in (`_m`, `_m.dims[0]`, `_m->x`), else None"""
    n = unwrap(n)
    while True:
        k = n.get("kind")
        if k == "MemberExpr":
            ks = kids(n)
            if ks and unwrap(ks[0]).get("kind") == "CXXThisExpr":
                return n.get("name")
            if not ks:
                return None
            n = unwrap(ks[0])
        elif k == "ArraySubscriptExpr":
            n = unwrap(kids(n)[0])
        elif k == "CXXOperatorCallExpr" and len(kids(n)) >= 2:
            n = unwrap(kids(n)[1])          # operator[] / operator-> / operator* on a member
        elif k == "UnaryOperator" and n.get("opcode") == "*":
            n = unwrap(kids(n)[0])
        elif k == "CXXMemberCallExpr" and kids(n) and kids(kids(n)[0]):
            n = unwrap(kids(kids(n)[0])[0])  # _m.at(0), _m.get()
        else:
            return None


def members_read(n):
    res = []
    for x in walk(n):
        if x.get("kind") == "MemberExpr" and kids(x) and unwrap(kids(x)[0]).get("kind") == "CXXThisExpr":
            nm = x.get("name")
            if nm and nm not in res and "bound member function" not in ((x.get("type") or {}).get("qualType") or ""):
                res.append(nm)
    return res


def member_writes(n):
    res = []
    for x in walk(n):
        k = x.get("kind")
        lhs = None
        if (k == "BinaryOperator" and x.get("opcode") == "=") or k == "CompoundAssignOperator":
            lhs = kids(x)[0]
        elif k == "UnaryOperator" and x.get("opcode") in ("++", "--"):
            lhs = kids(x)[0]
        elif k == "CXXOperatorCallExpr" and len(kids(x)) >= 2:
            c = unwrap(kids(x)[0])
            nm = (c.get("referencedDecl") or {}).get("name", "")
            if re.match(r"^operator(=|\+=|-=|\*=|/=|\|=|&=|\^=|<<=|>>=|\+\+|--)$", nm):
                lhs = kids(x)[1]
        if lhs is not None:
            m = this_member(lhs)
            if m and m not in res:
                res.append(m)
    return res


def is_append_call(n):
    return n.get("kind") == "CXXMemberCallExpr" and kids(n) and kids(n)[0].get("kind") == "MemberExpr" and \
        kids(n)[0].get("name") == "_appendData"


def dataset_members(docs):
    """member name -> dataset path, from the mem-initialisers of the constructor"""
    ctor = None
    for d in docs:
        if d.get("kind") == "CXXConstructorDecl" and any(c.get("kind") == "CompoundStmt" for c in d.get("inner", [])) and \
                any(c.get("kind") == "CXXCtorInitializer" for c in d.get("inner", [])):
            ctor = d
    if ctor is None:
        raise TranslateError("HDF5File constructor not found")
    res = {}
    for c in ctor.get("inner", []):
        if c.get("kind") != "CXXCtorInitializer" or not c.get("anyInit"):
            continue
        calls = [x for x in walk(c) if x.get("kind") == "CXXMemberCallExpr" and kids(x) and kids(x)[0].get("name") == "_makeDatasetInfo"]
        if not calls:
            continue
        if len(calls) != 1:
            raise TranslateError("constructor: several _makeDatasetInfo calls in one initialiser")
        args = kids(calls[0])[1:]
        strs = [x.get("value", "").strip('"') for x in walk(args[0]) if x.get("kind") == "StringLiteral"] if args else []
        if len(strs) != 1:
            raise TranslateError("constructor: the path of dataset member %s is not a string literal" % c["anyInit"].get("name"))
        res[c["anyInit"]["name"]] = strs[0]
    return res


def appenddata_shape(docs):
    """the statements of the `_appendData` template (pattern and every instantiation clang lists must agree): DExtend / DWrite for
    the statement that calls `.extend(..)` / `.write(..)`, DBranch / DReturn / DLoop for control flow at any depth, DOther else"""
    shapes = []
    for d in docs:
        if d.get("kind") != "FunctionTemplateDecl" or d.get("name") != "_appendData":
            continue
        for c in d.get("inner", []):
            if c.get("kind") != "CXXMethodDecl":
                continue
            body = [x for x in c.get("inner", []) if x.get("kind") == "CompoundStmt"]
            if not body:
                continue
            items = []

            def callee_names(n):
                res = []
                for x in walk(n):
                    if x.get("kind") in ("CXXMemberCallExpr", "CallExpr") and kids(x):
                        c0 = unwrap(kids(x)[0])
                        if c0.get("kind") in ("MemberExpr", "CXXDependentScopeMemberExpr"):
                            res.append(c0.get("member") or c0.get("name"))
                return res

            def go(st):
                k = st.get("kind")
                if k == "CompoundStmt":
                    for y in kids(st):
                        go(y)
                    return
                if k == "NullStmt":
                    return
                kinds = [x.get("kind") for x in walk(st, into_lambda=False)]
                if any(q in kinds for q in ("IfStmt", "SwitchStmt", "CXXTryStmt", "CXXThrowExpr", "GotoStmt")):
                    items.append("DBranch")
                    return
                if "ReturnStmt" in kinds:
                    items.append("DReturn")
                    return
                if any(q in kinds for q in ("ForStmt", "WhileStmt", "DoStmt", "CXXForRangeStmt")):
                    items.append("DLoop")
                    return
                names = callee_names(st)
                if "extend" in names and "write" in names:
                    raise TranslateError("_appendData: extend and write in one statement")
                items.append("DExtend" if "extend" in names else "DWrite" if "write" in names else "DOther")
            go(body[0])
            shapes.append(items)
    if not shapes:
        raise TranslateError("no definition of the _appendData template with a body found")
    if any(sh != shapes[0] for sh in shapes):
        raise TranslateError("_appendData: the template pattern and its instantiations have different statement shapes")
    return shapes[0]


class Body:
    def __init__(self, name, decl, members, opaque, writes):
        self.name, self.members, self.opaque, self.writes = name, members, opaque, writes
        self.params = [c for c in decl.get("inner", []) if c.get("kind") == "ParmVarDecl"]
        self.pid = {p_["id"]: i for i, p_ in enumerate(self.params)}
        self.locals = {}          # decl id of a `const bool` local -> acond

    # ------------------------------------------------------------------ conditions
    def opq(self, n):
        for x in walk(n):
            if is_append_call(x):
                raise TranslateError("%s: _appendData inside a condition" % self.name)
        txt = src_text(n)
        key = (self.name, txt)
        # every OCCURRENCE gets its own index: the object's state may change between two evaluations of the same text
        self.opaque.append((key, txt, members_read(n), line_of(n)))
        for m in member_writes(n):
            self.writes.append((self.name, m))
        return "(COpq %d)" % (len(self.opaque) - 1)

    def enum_cmp(self, n):
        """`at OP AppendType::X` (either order) -> (op, X) or None"""
        a, b = [unwrap(x) for x in kids(n)]
        for x, y in ((a, b), (b, a)):
            rx, ry = x.get("referencedDecl") or {}, y.get("referencedDecl") or {}
            if x.get("kind") == "DeclRefExpr" and rx.get("kind") == "ParmVarDecl" and rx.get("id") in self.pid and \
                    "AppendType" in ((self.params[self.pid[rx["id"]]].get("type") or {}).get("qualType") or "") and \
                    y.get("kind") == "DeclRefExpr" and ry.get("kind") == "EnumConstantDecl":
                if ry.get("name") not in ENUM:
                    raise TranslateError("%s: unknown AppendType enumerator %s" % (self.name, ry.get("name")))
                return n.get("opcode"), ENUM[ry["name"]]
        return None

    def cond(self, n):
        n = unwrap(n)
        k = n.get("kind")
        if k == "BinaryOperator" and n.get("opcode") in ("&&", "||"):
            a, b = kids(n)
            return "(%s %s %s)" % ("CAnd" if n["opcode"] == "&&" else "COr", self.cond(a), self.cond(b))
        if k == "UnaryOperator" and n.get("opcode") == "!":
            return "(CNot %s)" % self.cond(kids(n)[0])
        if k == "CXXBoolLiteralExpr":
            return "(CConst %s)" % ("true" if n.get("value") in (True, "true", "True") else "false")
        if k == "BinaryOperator" and n.get("opcode") in ("==", "!="):
            ec = self.enum_cmp(n)
            if ec:
                return "(CAtIn [%s])" % ec[1] if ec[0] == "==" else "(CNot (CAtIn [%s]))" % ec[1]
        if k == "DeclRefExpr":
            rd = n.get("referencedDecl") or {}
            if rd.get("kind") == "ParmVarDecl" and rd.get("id") in self.pid:
                t = ((self.params[self.pid[rd["id"]]].get("type") or {}).get("qualType") or "").replace("const ", "").strip()
                if t in ("bool", "_Bool"):
                    return "(CPar %d)" % self.pid[rd["id"]]
            if rd.get("id") in self.locals:
                return self.locals[rd["id"]]
        return self.opq(n)

    # ------------------------------------------------------------------ statements
    def append_call(self, s):
        args = kids(s)[1:]
        if unwrap(kids(kids(s)[0])[0]).get("kind") != "CXXThisExpr":
            raise TranslateError("%s: _appendData called on another object" % self.name)
        if len(args) < 2:
            raise TranslateError("%s: _appendData with %d arguments" % (self.name, len(args)))
        m = unwrap(args[0])
        if m.get("kind") != "MemberExpr" or unwrap(kids(m)[0]).get("kind") != "CXXThisExpr":
            raise TranslateError("%s: the first argument of _appendData is not a member of the object: %s" % (self.name, src_text(args[0])))
        path = self.members.get(m.get("name"))
        if path is None:
            raise TranslateError("%s: _appendData on %s, which the constructor does not create" % (self.name, m.get("name")))
        if path == RFPATH:
            tgt = "TRFKicks"
        elif path in PATHS:
            tgt = "(TDs %s)" % PATHS[path]
        else:
            raise TranslateError("%s: _appendData on %s (%s): not a dataset of the model" % (self.name, m.get("name"), path))
        size = "(SLit 1)"
        if len(args) > 2 and args[2].get("kind") != "CXXDefaultArgExpr":
            z = unwrap(args[2])
            if z.get("kind") == "IntegerLiteral":
                size = "(SLit %d)" % int(z["value"])
            elif z.get("kind") == "CXXMemberCallExpr" and kids(z)[0].get("name") == "size" and \
                    (unwrap(kids(kids(z)[0])[0]).get("referencedDecl") or {}).get("kind") == "ParmVarDecl":
                size = "SArgLen"
            else:
                raise TranslateError("%s: record count `%s` of %s is neither a literal nor v.size() of a parameter" % (
                    self.name, src_text(args[2]), m.get("name")))
        for a in args[1:]:
            for x in walk(a):
                if is_append_call(x):
                    raise TranslateError("%s: nested _appendData" % self.name)
            for w in member_writes(a):
                self.writes.append((self.name, w))
        return ("app", tgt, size)

    def inert(self, s, what):
        """a statement the model skips: it must not append, leave the function or call another method of the object"""
        for x in walk(s):
            k = x.get("kind")
            if is_append_call(x):
                raise TranslateError("%s: _appendData inside %s (line %d)" % (self.name, what, line_of(s)))
            if k in ("CXXThrowExpr", "GotoStmt", "LabelStmt", "IndirectGotoStmt", "CoreturnStmt"):
                raise TranslateError("%s: %s inside %s (line %d)" % (self.name, k, what, line_of(s)))
            if k == "CXXMemberCallExpr" and kids(x) and kids(x)[0].get("kind") == "MemberExpr" and kids(kids(x)[0]) and \
                    unwrap(kids(kids(x)[0])[0]).get("kind") == "CXXThisExpr":
                raise TranslateError("%s: call of the object's method %s inside %s (line %d): not translated" % (
                    self.name, kids(x)[0].get("name"), what, line_of(s)))
        for x in walk(s, into_lambda=False):
            if x.get("kind") == "ReturnStmt":
                raise TranslateError("%s: return inside %s (line %d)" % (self.name, what, line_of(s)))
        for w in member_writes(s):
            self.writes.append((self.name, w))

    def stmts(self, s):
        """statement -> list of items: ('app', tgt, size) | ('ret',) | ('if', cond, [items], [items])"""
        k = s.get("kind")
        if k == "CompoundStmt":
            res = []
            for c in kids(s):
                res += self.stmts(c)
            return res
        if k in WRAP and len(kids(s)) == 1:
            return self.stmts(kids(s)[0])
        if k == "NullStmt":
            return []
        if k == "ReturnStmt":
            if kids(s):
                raise TranslateError("%s: return with a value" % self.name)
            return [("ret",)]
        if k == "IfStmt":
            if s.get("hasInit") or s.get("hasVar"):
                raise TranslateError("%s: if statement with an initialiser or a declaration" % self.name)
            ks = [c for c in s.get("inner", []) if c]
            c = self.cond(ks[0])
            return [("if", c, self.stmts(ks[1]), self.stmts(ks[2]) if len(ks) > 2 else [])]
        if k == "SwitchStmt":
            return self.switch(s)
        if is_append_call(s):
            return [self.append_call(s)]
        if k == "DeclStmt":
            for vd in kids(s):
                if vd.get("kind") == "VarDecl" and kids(vd):
                    t = ((vd.get("type") or {}).get("qualType") or "").strip()
                    if t in ("const bool", "const _Bool"):
                        self.locals[vd["id"]] = self.cond(kids(vd)[0])
                        continue
                self.inert(vd, "a declaration")
            return []
        if k in ("ForStmt", "CXXForRangeStmt", "WhileStmt", "DoStmt"):
            self.inert(s, "a loop")
            return []
        if k in ("CXXTryStmt", "CXXCatchStmt", "LabelStmt", "GotoStmt", "CXXThrowExpr"):
            raise TranslateError("%s: statement of kind %s" % (self.name, k))
        if k in ("BreakStmt", "ContinueStmt"):
            raise TranslateError("%s: %s outside a loop or switch" % (self.name, k))
        self.inert(s, "an expression statement")
        return []

    def switch(self, s):
        ks = kids(s)
        c = unwrap(ks[0])
        rd = c.get("referencedDecl") or {}
        if not (c.get("kind") == "DeclRefExpr" and rd.get("kind") == "ParmVarDecl" and rd.get("id") in self.pid and
                "AppendType" in ((self.params[self.pid[rd["id"]]].get("type") or {}).get("qualType") or "")):
            raise TranslateError("%s: switch on something else than the AppendType parameter" % self.name)
        if ks[1].get("kind") != "CompoundStmt":
            raise TranslateError("%s: switch body is not a block" % self.name)
        groups = []            # (labels or None for default, [stmts])
        cur = None
        stack = list(kids(ks[1]))
        while stack:
            st = stack.pop(0)
            if st.get("kind") in ("CaseStmt", "DefaultStmt"):
                if cur is not None and cur[1] and not cur[2]:
                    raise TranslateError("%s: fall-through between non-empty switch cases" % self.name)
                if cur is None or cur[1] or cur[2]:
                    cur = [[], [], False]
                    groups.append(cur)
                cks = kids(st)
                if st.get("kind") == "CaseStmt":
                    v = unwrap(cks[0])
                    while v.get("kind") != "DeclRefExpr" and kids(v):
                        v = unwrap(kids(v)[0])
                    nm = (v.get("referencedDecl") or {}).get("name")
                    if nm not in ENUM:
                        raise TranslateError("%s: case label %s" % (self.name, src_text(cks[0])))
                    cur[0].append(ENUM[nm])
                    rest = cks[1:]
                else:
                    cur[0].append(None)
                    rest = cks
                stack = rest + stack
                continue
            if cur is None:
                raise TranslateError("%s: statement before the first case label" % self.name)
            if cur[2]:
                raise TranslateError("%s: statement after break/return in a switch case" % self.name)
            if st.get("kind") == "BreakStmt":
                cur[2] = True
                continue
            cur[1].append(st)
            if st.get("kind") == "ReturnStmt":
                cur[2] = True
        seen = [l for g in groups for l in g[0] if l]
        items = []
        dflt = []
        for labels, body, _ in groups:
            its = []
            for b in body:
                its += self.stmts(b)
            if None in labels:
                rest = [l for l in ENUM.values() if l not in seen] + [l for l in labels if l]
                dflt = [(rest, its)]
            else:
                items.append((labels, its))
        chain = []
        for labels, its in reversed(items + dflt):
            chain = [("if", "(CAtIn [%s])" % "; ".join(labels), its, chain)]
        return chain


def coq_blk(items, ind="  "):
    if not items:
        return "ADone"
    it = items[0]
    if it[0] == "ret":
        return "ARet"            # statements after a return are unreachable
    rest = coq_blk(items[1:], ind)
    if it[0] == "app":
        return "AApp %s %s\n%s(%s)" % (it[1], it[2], ind, rest)
    _, c, t, e = it
    return "ACond %s\n%s  (%s)\n%s  (%s)\n%s(%s)" % (c, ind, coq_blk(t, ind + "  "), ind, coq_blk(e, ind + "  "), ind, rest)


def cs(s):
    return '"%s"' % s.replace("\\", "/").replace('"', "'")


KNOWN = ("ps", "ef", "wake", "padded", "tracks", "rfkicks")


def method_key(d):
    ps = [((p_.get("type") or {}).get("qualType") or "") for p_ in d.get("inner", []) if p_.get("kind") == "ParmVarDecl"]
    nm = d.get("name")
    if nm == "append":
        if ps and "PhaseSpace" in ps[0] and "AppendType" not in ps[0]:
            return "ps"
        if ps and "ElectricField" in ps[0]:
            return "ef"
        if ps and "WakeKickMap" in ps[0]:
            return "wake"
        return None
    return {"appendPadded": "padded", "appendTracks": "tracks", "appendRFKicks": "rfkicks"}.get(nm)


def translate():
    docs = ast_of(SRC, "vfps::HDF5File::")
    members = dataset_members(docs)
    opaque, writes = [], []
    bodies = {}
    for d in docs:
        if d.get("kind") != "CXXMethodDecl":
            continue
        body = [c for c in d.get("inner", []) if c.get("kind") == "CompoundStmt"]
        if not body:
            continue
        if d.get("name") == "_appendData":
            continue
        if not any(is_append_call(x) for x in walk(body[0])):
            continue
        key = method_key(d)
        if key is None:
            raise TranslateError("method %s (line %d) calls _appendData: not one of the append overloads the model knows" % (
                d.get("name"), line_of(d)))
        if key in bodies:
            raise TranslateError("two definitions of the append overload `%s`" % key)
        name = "%s(%s)" % (d.get("name"), key)
        b = Body(name, d, members, opaque, writes)
        bodies[key] = (coq_blk(b.stmts(body[0])), d.get("name"), line_of(d))
    for k in KNOWN:
        if k not in bodies:
            raise TranslateError("append overload `%s` not found (or it no longer calls _appendData)" % k)
    out = ["(* GENERATED on every run by translate/h5append2coq.py from src/IO/HDF5File.cpp: every path through the methods of",
           "   HDF5File that call _appendData. Do not edit. *)",
           "From Coq Require Import List ZArith String Bool.",
           "From Inovesa Require Import Base.FieldKit Model.Records Model.H5Append.",
           "Import ListNotations.", "Local Open Scope Z_scope."]
    for k in KNOWN:
        blk, nm, ln = bodies[k]
        out.append("(* HDF5File::%s *)" % nm)
        out.append("Definition gen_body_%s : ablk :=\n  %s." % (k, blk))
    out.append("(* the statements of the _appendData template: the dataset is extended once and written once, no control flow *)")
    out.append("Definition gen_appenddata_shape : list adstmt := [%s]." % "; ".join(appenddata_shape(docs)))
    out.append("(* the conditions the translator cannot evaluate from the AppendType / bool parameters: (n, method, source text, members of")
    out.append("   the object they read) - their values are quantified over (C14_append_records_all_or_nothing) *)")
    out.append("Definition gen_append_opaque : list (Z * string * string * list string) :=\n  [%s]." % ";\n   ".join(
        "(%d, %s%%string, %s%%string, [%s])" % (i, cs(key[0]), cs(txt[:160]), "; ".join(cs(m) + "%string" for m in mem))
        for i, (key, txt, mem, _) in enumerate(opaque)))
    uniq = []
    for w in writes:
        if w not in uniq:
            uniq.append(w)
    out.append("(* members of the object these methods assign to (what the object remembers from one call to the next) *)")
    out.append("Definition gen_append_member_writes : list (string * string) :=\n  [%s]." % "; ".join(
        "(%s%%string, %s%%string)" % (cs(a), cs(b)) for a, b in uniq))
    info = dict(opaque=[dict(n=i, method=key[0], text=txt, members=mem, line=ln) for i, (key, txt, mem, ln) in enumerate(opaque)],
                writes=uniq, bodies={k: bodies[k][0] for k in KNOWN})
    return "\n".join(out) + "\n", info


if __name__ == "__main__":
    dst = sys.argv[1] if len(sys.argv) > 1 else os.path.join(VERIF, "coq", "Gen", "Gen_H5Append.v")
    try:
        text, _ = translate()
    except TranslateError as e:
        print("TRANSLATE-ERROR Gen_H5Append: %s" % e)
        sys.exit(2)
    ch = write_if_changed(dst, text)
    print("Gen_H5Append.v %s" % ("regenerated" if ch else "unchanged"))
