#!/usr/bin/env python3
# GEN: Gen_CoeffsFl
"""Gen_CoeffsFl.v from SourceMap::calcCoefficiants (src/SM/SourceMap.cpp): the TYPED expression trees.

Same statement idiom as coeffs2coq.py (its recogniser is reused), but the right-hand sides are kept
with what the exact-arithmetic translation erases: the precision every operation is performed in
(the clang type of the BinaryOperator: float or double), every conversion (`interpol_t(-1./6.)` is a
binary64 quotient narrowed to binary32: FCast P32 (FOp P64 FDiv ...)) and every literal with the type
it has (a literal is `FCast p (FLit q)`: the value of the decimal/integer constant q in precision p;
the Coq side decides whether q is representable).  The trees are Model/FExpr.v terms; the rounding
theorems (Proofs/CoeffsRoundP.v) are about them, and `trees_exact` there re-proves on every run that
erasing the types gives Gen_Coeffs.coeffs.

Fails loudly (TranslateError) on: a type other than float/double on an arithmetic node, operands of
different precision without an explicit or implicit cast node, integer arithmetic, calls, any
value-changing cast other than int-literal -> floating and float <-> double."""
import sys, os
sys.path.insert(0, os.path.dirname(os.path.abspath(__file__)))
from cxx_ast import *
import coeffs2coq

TRANSPARENT = ("ParenExpr", "ExprWithCleanups", "MaterializeTemporaryExpr", "CXXBindTemporaryExpr", "ConstantExpr")
CASTS = ("ImplicitCastExpr", "CXXFunctionalCastExpr", "CStyleCastExpr", "CXXStaticCastExpr")


def prec_of(n):
    t = n.get("type", {})
    q = t.get("desugaredQualType", t.get("qualType", ""))
    q = q.replace("const", "").replace("volatile", "").strip()
    if q == "float":
        return 32
    if q == "double":
        return 64
    raise TranslateError("arithmetic in a type that is neither float nor double: %r" % t)


def int_value(n):
    """integer literal, possibly negated / parenthesised; None otherwise"""
    while n.get("kind") in TRANSPARENT or (n.get("kind") in CASTS and n.get("castKind") in ("NoOp", "IntegralCast")):
        ks = kids(n)
        if len(ks) != 1:
            return None
        n = ks[0]
    if n.get("kind") == "IntegerLiteral":
        return int(n["value"])
    if n.get("kind") == "UnaryOperator" and n.get("opcode") in ("-", "+"):
        v = int_value(kids(n)[0])
        if v is None:
            return None
        return -v if n["opcode"] == "-" else v
    return None


def to_fl(n, env=None):
    """clang expression -> (tree, precision); tree = ('var',) ('lit', Fraction) ('neg', a) ('op', p, o, a, b) ('cast', p, a)"""
    k = n.get("kind")
    if k in TRANSPARENT:
        ks = kids(n)
        if len(ks) != 1:
            raise TranslateError("wrapper with %d children: %s" % (len(ks), k))
        return to_fl(ks[0])
    if k in CASTS:
        ck = n.get("castKind")
        ks = kids(n)
        if len(ks) != 1:
            raise TranslateError("cast with %d children" % len(ks))
        if ck in ("NoOp", "LValueToRValue"):
            return to_fl(ks[0])
        if ck == "IntegralToFloating":
            v = int_value(ks[0])
            if v is None:
                raise TranslateError("integer -> floating conversion of something that is not an integer literal")
            p = prec_of(n)
            return ("cast", p, ("lit", Fraction(v))), p
        if ck == "FloatingCast":
            a, pa = to_fl(ks[0])
            p = prec_of(n)
            if p == pa:
                return a, p
            return ("cast", p, a), p
        raise TranslateError("cast %s" % ck)
    if k == "FloatingLiteral":
        p = prec_of(n)
        return ("cast", p, ("lit", Fraction(n["value"]))), p
    if k == "IntegerLiteral":
        raise TranslateError("integer literal used without conversion to a floating type")
    if k == "DeclRefExpr":
        nm = n["referencedDecl"]["name"]
        if nm != "f":
            raise TranslateError("unknown variable %s" % nm)
        return ("var",), prec_of(n)
    if k == "UnaryOperator":
        a, p = to_fl(kids(n)[0])
        if n["opcode"] == "-":
            if prec_of(n) != p:
                raise TranslateError("negation changes the precision")
            return ("neg", a), p
        if n["opcode"] == "+":
            return a, p
        raise TranslateError("unary %s" % n["opcode"])
    if k == "BinaryOperator":
        op = {"+": "FAdd", "-": "FSub", "*": "FMul", "/": "FDiv"}.get(n["opcode"])
        if not op:
            raise TranslateError("binary %s" % n["opcode"])
        ka, kb = kids(n)
        (a, pa), (b, pb) = to_fl(ka), to_fl(kb)
        p = prec_of(n)
        if pa != p or pb != p:
            raise TranslateError("operands of precision %d/%d in an operation of precision %d" % (pa, pb, p))
        return ("op", p, op, a, b), p
    raise TranslateError("expression kind %s" % k)


def conv(n, env):
    t, p = to_fl(n)
    if p != 32:
        # the assignment to interpol_t narrows; clang shows that as an ImplicitCastExpr, so this cannot happen
        raise TranslateError("right-hand side of precision %d assigned to ic[]" % p)
    return t


def q_coq(q):
    if q.denominator == 1:
        return "(%d # 1)" % q.numerator if q.numerator >= 0 else "((%d) # 1)" % q.numerator
    return "((%d) # %d)" % (q.numerator, q.denominator)


def fl_coq(t):
    k = t[0]
    if k == "var":
        return "FVar"
    if k == "lit":
        return "(FLit %s)" % q_coq(t[1])
    if k == "neg":
        return "(FNeg %s)" % fl_coq(t[1])
    if k == "cast":
        return "(FCast P%d %s)" % (t[1], fl_coq(t[2]))
    return "(FOp P%d %s %s %s)" % (t[1], t[2], fl_coq(t[3]), fl_coq(t[4]))


def erase(t):
    """the exact-arithmetic IR of cxx_ast (types and casts dropped), to cross-check against coeffs2coq"""
    k = t[0]
    if k == "var":
        return ("var", "f")
    if k == "lit":
        return ("num", t[1])
    if k == "neg":
        return ("neg", erase(t[1]))
    if k == "cast":
        return erase(t[2])
    return ({"FAdd": "add", "FSub": "sub", "FMul": "mul", "FDiv": "div"}[t[2]], erase(t[3]), erase(t[4]))


def translate():
    cases = coeffs2coq.parse_cases(conv)
    exact = coeffs2coq.parse_cases()
    out = []
    out.append("(* GENERATED on every run by translate/coeffsfl2coq.py from src/SM/SourceMap.cpp")
    out.append("   (SourceMap::calcCoefficiants): typed expression trees. Do not edit. *)")
    out.append("From Coq Require Import List ZArith QArith.")
    out.append("From Inovesa Require Import Model.FExpr.")
    out.append("Import ListNotations.")
    out.append("Definition coeff_trees (it : Z) : list fexpr :=")
    for cv in sorted(cases):
        m = cases[cv]
        if sorted(m) != list(range(len(m))) or len(m) != cv:
            raise TranslateError("case %d does not fill ic[0..%d]" % (cv, cv - 1))
        for j in m:
            if erase(m[j]) != exact[cv][j]:
                raise TranslateError("typed and exact translation of ic[%d], case %d, differ" % (j, cv))
        out.append("  if (it =? %d)%%Z then [%s] else" % (cv, ";\n    ".join(fl_coq(m[j]) for j in range(len(m)))))
    out.append("  [].")
    return "\n".join(out) + "\n", cases


if __name__ == "__main__":
    dst = sys.argv[1] if len(sys.argv) > 1 else os.path.join(VERIF, "coq", "Gen", "Gen_CoeffsFl.v")
    try:
        text, _ = translate()
    except TranslateError as e:
        print("TRANSLATE-ERROR Gen_CoeffsFl: %s" % e)
        sys.exit(2)
    ch = write_if_changed(dst, text)
    print("Gen_CoeffsFl.v %s" % ("regenerated" if ch else "unchanged"))
