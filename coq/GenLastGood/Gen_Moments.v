(* GENERATED on every run by translate/moments2coq.py from src/PS/PhaseSpace.cpp and inc/PS/PhaseSpace.hpp.
   Do not edit.  Closed forms of the loops (see translate/symloops.py for the summarisation rules):
   every written member is a total function of the cell coordinates c0 c1 c2.  `_rms` is not modelled. *)
From Coq Require Import List ZArith Bool.
From Inovesa Require Import Base.FieldKit Base.Sums Model.MomentsIR.
Import ListNotations.
(* extents of the member arrays (constructor mem-initialisers; boost::multi_array is row-major) *)
Definition gen_extents_data (nb nx ny : Z) : list Z := [nb; nx; ny]%Z.
Definition gen_extents_projection (nb nx ny : Z) : list Z := [2; nb; nx]%Z.
Definition gen_extents_moment (nb nx ny : Z) : list Z := [2; 4; nb]%Z.
Definition gen_extents_rms (nb nx ny : Z) : list Z := [2; nb]%Z.
Definition gen_extents_filling (nb nx ny : Z) : list Z := [nb]%Z.
Section Gen.
  Variable K : Fld.
  Local Open Scope F_scope.
  (* simpsonWeights(): the returned vector, as a function of the index (0 outside what is written) *)
  Definition gen_simpsonWeights (E : env K) : Z -> K :=
    (fun c0 : Z => if ((c0 =? ((e_nx E) - 1)%Z)%Z)%bool then ((e_delta E 0) / (1+(1+1))) else if (inr 1 ((e_nx E) - 1)%Z c0)%bool then (((e_delta E 0) / (1+(1+1))) * ((1+(1+1)) + (giter K (c0 - 1)%Z (fun s1 : K => (- (s1))) 1))) else if ((c0 =? 0)%Z)%bool then ((e_delta E 0) / (1+(1+1))) else (fun _ : Z => 0) c0).
  (* the constructor's mem-initialiser of _ws *)
  Definition gen_ctor_ws (E : env K) : Z -> K := gen_simpsonWeights E.
  Definition gen_updateXProjection (E : env K) (st0 : mst K) : mst K :=
    let st1 := set_proj K (fun c0 c1 c2 : Z => if ((c0 =? 0)%Z && inr 0 (e_nb E) c1 && inr 0 (e_nx E) c2)%bool then (0 + (gsum K 0 (e_ny E) (fun k1 : Z => ((m_data st0 c1 c2 k1) * (e_ws E k1))))) else m_proj st0 c0 c1 c2) st0 in
    st1.
  Definition gen_updateYProjection (E : env K) (st0 : mst K) : mst K :=
    let st1 := set_proj K (fun c0 c1 c2 : Z => if ((c0 =? 1)%Z && inr 0 (e_nb E) c1 && inr 0 (e_ny E) c2)%bool then (0 + (gsum K 0 (e_nx E) (fun k1 : Z => ((m_data st0 c1 k1 c2) * (e_ws E k1))))) else m_proj st0 c0 c1 c2) st0 in
    st1.
  Definition gen_integrate (E : env K) (st0 : mst K) : mst K :=
    let st1 := set_fill K (fun c0 : Z => if (inr 0 (e_nb E) c0)%bool then (0 + (gsum K 0 (e_nx E) (fun k1 : Z => ((m_proj st0 0 c0 k1) * (e_ws E k1))))) else m_fill st0 c0) st0 in
    let st2 := set_int K ((0 + (gsum K 0 (e_nb E) (fun k1 : Z => (m_fill st1 k1))))) st1 in
    st2.
  Definition gen_normalize (E : env K) (st0 : mst K) : mst K :=
    let st1 := set_data K (fun c0 c1 c2 : Z => if (inr 0 (e_nb E) c0 && inr 0 (e_nx E) c1 && inr 0 (e_ny E) c2)%bool then (if (e_pos E (e_fset E c0)) then ((m_data st0 c0 c1 c2) * ((e_fset E c0) / (m_fill st0 c0))) else 0) else m_data st0 c0 c1 c2) st0 in
    st1.
  Definition gen_average (E : env K) (axis : Z) (st0 : mst K) : mst K :=
    let st1 := set_mom K (fun c0 c1 c2 : Z => if ((c0 =? axis)%Z && (c1 =? 0)%Z && inr 0 (e_nb E) c2)%bool then (if (e_pos E (e_fset E c2)) then ((0 + (gsum K 0 (if (axis =? 0)%Z then (e_nx E) else (e_ny E)) (fun k1 : Z => ((m_proj st0 axis c2 k1) * (e_qp E axis k1))))) * ((e_delta E axis) / (m_fill st0 c2))) else 0) else m_mom st0 c0 c1 c2) st0 in
    st1.
  Definition gen_variance (E : env K) (axis : Z) (st0 : mst K) : mst K :=
    let st1 := gen_average E axis st0 in
    let st2 := set_mom K (fun c0 c1 c2 : Z => if ((c0 =? axis)%Z && (c1 =? 1)%Z && inr 0 (e_nb E) c2)%bool then (if (e_pos E (e_fset E c2)) then ((0 + (gsum K 0 (if (axis =? 0)%Z then (e_nx E) else (e_ny E)) (fun k1 : Z => ((m_proj st1 axis c2 k1) * (((e_qp E axis k1) - (m_mom st1 axis 0 c2)) * ((e_qp E axis k1) - (m_mom st1 axis 0 c2))))))) * ((e_delta E axis) / (m_fill st1 c2))) else 0) else m_mom st1 c0 c1 c2) st1 in
    st2.
  Definition gen_integrateAndNormalize (E : env K) (st0 : mst K) : mst K :=
    let st1 := gen_integrate E st0 in
    let st2 := gen_normalize E st1 in
    st2.
  Definition gen_createFromProjections (E : env K) (st0 : mst K) : mst K :=
    let st1 := set_data K (fun c0 c1 c2 : Z => if (inr 0 (e_nb E) c0 && inr 0 (e_nx E) c1 && inr 0 (e_ny E) c2)%bool then ((m_proj st0 0 c0 c1) * (m_proj st0 1 c0 c2)) else m_data st0 c0 c1 c2) st0 in
    let st2 := gen_updateXProjection E st1 in
    let st3 := gen_integrate E st2 in
    let st4 := gen_normalize E st3 in
    st4.
  (* member calls that are direct statements of the principal constructor's body, in order *)
  Definition gen_ctor_refresh (E : env K) (st : mst K) : mst K := gen_integrate E (gen_updateYProjection E (gen_updateXProjection E st)).
  (* member calls that are direct statements of the operator='s body, in order *)
  Definition gen_assign_refresh (E : env K) (st : mst K) : mst K := gen_integrate E (gen_updateYProjection E (gen_updateXProjection E st)).
  (* the principal constructor called without start data (data == nullptr), once the projections are set: the member
     calls of that branch, then the refresh sequence *)
  Definition gen_ctor_fresh (E : env K) (st : mst K) : mst K := gen_integrate E (gen_updateYProjection E (gen_updateXProjection E (gen_createFromProjections E st))).
End Gen.
