(* GENERATED on every run by translate/rfdrift2coq.py from src/SM/RFKickMap.cpp (both constructors, _calcKick),
   inc/SM/RFKickMap.hpp (default arguments), src/SM/DriftMap.cpp (constructor) and the SourceMap / KickMap
   constructors (src/SM/SourceMap.cpp, src/SM/KickMap.cpp). Do not edit.
   A0, A1: the axes in->getAxis(0), in->getAxis(1) of the source grid (SourceMap: _axis[k] = in->getAxis(0|1));
   M: the data members of RFKickMap; ftan, fsin, fasin: std::tan, std::sin, std::asin; c, two_pi: physcons::c, two_pi<double>(). *)
From Coq Require Import List ZArith Bool.
From Inovesa Require Import Base.FieldKit Model.RF Model.RFDriftKit.
Import ListNotations.
Local Open Scope Z_scope.
(* SourceMap / KickMap constructors: kdx = (kd == Axis::x); _offset is resized to rfd_offset_size zeros *)
Definition rfd_xsize (kdx : bool) (nx ny nb : Z) : Z := (if kdx then 1 else nx).
Definition rfd_ysize (kdx : bool) (nx ny nb : Z) : Z := (if kdx then ny else 1).
Definition rfd_offset_size (kdx : bool) (nx ny nb : Z) : Z := ((if kdx then ny else nx) * nb).
(* the Axis the constructors hand to KickMap *)
Definition rfk_kick_is_x : bool := false.
Definition dm_kick_is_x : bool := true.
(* RFKickMap::_calcKick(phase, ampl): top-level statements in program order (RDFill = the `if (_linear)` with its two loop nests) *)
Definition rfk_calc_prog : list rfd_stmt := [RDFill; RDUpdateSM].
(* linear branch: bounds of the outer and the inner loop; the element written by iteration (n, x) *)
Definition rfk_lin_outer (nb xsize ysize : Z) : Z := (nb)%Z.
Definition rfk_lin_inner (nb xsize ysize : Z) : Z := (xsize)%Z.
Definition rfk_lin_index (nb xsize ysize n x : Z) : Z := (((n * xsize) + x))%Z.
(* sinusoidal branch: bounds of the outer and the inner loop; the element written by iteration (n, x) *)
Definition rfk_sin_outer (nb xsize ysize : Z) : Z := (nb)%Z.
Definition rfk_sin_inner (nb xsize ysize : Z) : Z := (xsize)%Z.
Definition rfk_sin_index (nb xsize ysize n x : Z) : Z := (((n * xsize) + x))%Z.
(* DriftMap constructor: body statements in program order; the loop over the energy axis *)
Definition dm_prog : list rfd_stmt := [RDFill; RDUpdateSM].
Definition dm_bound (nb xsize ysize : Z) : Z := (ysize)%Z.
Definition dm_index (nb xsize ysize y : Z) : Z := (y)%Z.
(* constructor bodies of RFKickMap *)
Definition rfk_ctor_lin_body : list rfk_cstmt := [RCCalcKick].
Definition rfk_ctor_sin_body : list rfk_cstmt := [RCCalcKick].

Local Open Scope F_scope.
(* the value _calcKick leaves in the element written by iteration (n, x) *)
(* the argument of std::sin in the sinusoidal branch *)
Definition rfk_sin_arg (K : Fld) (ftan fsin fasin : K -> K) (A0 A1 : axfacts K) (M : rfk_members K) (phase ampl : K) (nb xsize ysize n x : Z) : K :=
  (((ax_at A0 (x)%Z) * (m_bl2phase M)) + phase).
Definition rfk_lin_value (K : Fld) (ftan fsin fasin : K -> K) (A0 A1 : axfacts K) (M : rfk_members K) (phase ampl : K) (nb xsize ysize n x : Z) : K :=
  ((((ftan (m_angle M)) * ((ax_zerobin A0) - (fz (x)%Z))) + ((((ftan (m_angle M)) * ((m_syncphase M) - phase)) / (m_bl2phase M)) / (ax_delta A0))) * ampl).
Definition rfk_sin_value (K : Fld) (ftan fsin fasin : K -> K) (A0 A1 : axfacts K) (M : rfk_members K) (phase ampl : K) (nb xsize ysize n x : Z) : K :=
  ((((m_revolutionpart M) * ((((- ampl) * (m_V_RF M)) * (fsin (rfk_sin_arg K ftan fsin fasin A0 A1 M phase ampl nb xsize ysize n x))) + (m_V0 M))) / (ax_delta A1)) / (ax_scale A1 U_ElectronVolt)).
(* linear constructor: the members after the mem-initialisers (declaration order), the arguments of its _calcKick call *)
Definition rfk_ctor_lin_members (K : Fld) (ftan fsin fasin : K -> K) (A0 A1 : axfacts K) (c two_pi : K) (angle f_RF : K) : rfk_members K :=
  mkRFK true
    angle
    0
    0
    f_RF
    0
    0
    ((((ax_scale A0 U_Meter) / c) * f_RF) * two_pi).
Definition rfk_ctor_lin_phase (K : Fld) (ftan fsin fasin : K -> K) (A0 A1 : axfacts K) (M : rfk_members K) (angle f_RF : K) : K := (m_syncphase M).
Definition rfk_ctor_lin_ampl (K : Fld) (ftan fsin fasin : K -> K) (A0 A1 : axfacts K) (M : rfk_members K) (angle f_RF : K) : K := 1.
(* sinusoidal constructor: the members after the mem-initialisers (declaration order), the arguments of its _calcKick call *)
Definition rfk_ctor_sin_members (K : Fld) (ftan fsin fasin : K -> K) (A0 A1 : axfacts K) (c two_pi : K) (revolutionpart V_RF f_RF V0 : K) : rfk_members K :=
  mkRFK false
    0
    revolutionpart
    V_RF
    f_RF
    V0
    (fasin (V0 / V_RF))
    ((((ax_scale A0 U_Meter) / c) * f_RF) * two_pi).
Definition rfk_ctor_sin_phase (K : Fld) (ftan fsin fasin : K -> K) (A0 A1 : axfacts K) (M : rfk_members K) (revolutionpart V_RF f_RF V0 : K) : K := (m_syncphase M).
Definition rfk_ctor_sin_ampl (K : Fld) (ftan fsin fasin : K -> K) (A0 A1 : axfacts K) (M : rfk_members K) (revolutionpart V_RF f_RF V0 : K) : K := 1.
(* DriftMap constructor: the value left in the element written by iteration y *)
Definition dm_value (K : Fld) (ftan fsin fasin : K -> K) (A0 A1 : axfacts K) (slip : list K) (E0 : K) (nb xsize ysize y : Z) : K :=
  ((acc_loop ((zlen slip))%Z (fun (acc : K) (i : Z) => (acc + (((nthK slip (i)%Z) * (ax_at A1 (y)%Z)) * (kpow (((ax_at A1 (y)%Z) * (ax_scale A1 U_ElectronVolt)) / E0) (Z.to_nat (i)%Z))))) 0) / (ax_delta A0)).
