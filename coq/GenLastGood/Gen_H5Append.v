(* GENERATED on every run by translate/h5append2coq.py from src/IO/HDF5File.cpp: every path through the methods of
   HDF5File that call _appendData. Do not edit. *)
From Coq Require Import List ZArith String Bool.
From Inovesa Require Import Base.FieldKit Model.Records Model.H5Append.
Import ListNotations.
Local Open Scope Z_scope.
(* HDF5File::append *)
Definition gen_body_ps : ablk :=
  ACond (COr (CAtIn [AtAll]) (CAtIn [AtPhaseSpace]))
    (AApp (TDs DPSAxis) (SLit 1)
    (AApp (TDs DPSData) (SLit 1)
    (ADone)))
    (ADone)
  (ACond (CNot (CAtIn [AtPhaseSpace]))
    (AApp (TDs DT) (SLit 1)
    (AApp (TDs DProfile) (SLit 1)
    (AApp (TDs DLength) (SLit 1)
    (AApp (TDs DPosition) (SLit 1)
    (AApp (TDs DEProfile) (SLit 1)
    (AApp (TDs DESpread) (SLit 1)
    (AApp (TDs DEAverage) (SLit 1)
    (AApp (TDs DPopulation) (SLit 1)
    (ADone)))))))))
    (ADone)
  (ADone)).
(* HDF5File::append *)
Definition gen_body_ef : ablk :=
  ACond (CPar 1)
    (AApp (TDs DCsrSpectrum) (SLit 1)
    (ADone))
    (ADone)
  (AApp (TDs DCsrIntensity) (SLit 1)
  (ADone)).
(* HDF5File::append *)
Definition gen_body_wake : ablk :=
  AApp (TDs DWake) (SLit 1)
  (ADone).
(* HDF5File::appendPadded *)
Definition gen_body_padded : ablk :=
  AApp (TDs DPadProfile) (SLit 1)
  (AApp (TDs DPadPotential) (SLit 1)
  (ADone)).
(* HDF5File::appendTracks *)
Definition gen_body_tracks : ablk :=
  AApp (TDs DParticles) (SLit 1)
  (ADone).
(* HDF5File::appendRFKicks *)
Definition gen_body_rfkicks : ablk :=
  AApp TRFKicks SArgLen
  (ADone).
(* the statements of the _appendData template: the dataset is extended once and written once, no control flow *)
Definition gen_appenddata_shape : list adstmt := [DOther; DOther; DOther; DOther; DExtend; DOther; DOther; DOther; DWrite].
(* the conditions the translator cannot evaluate from the AppendType / bool parameters: (n, method, source text, members of
   the object they read) - their values are quantified over (C14_append_records_all_or_nothing) *)
Definition gen_append_opaque : list (Z * string * string * list string) :=
  [].
(* members of the object these methods assign to (what the object remembers from one call to the next) *)
Definition gen_append_member_writes : list (string * string) :=
  [].
