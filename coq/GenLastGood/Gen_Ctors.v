(* GENERATED on every run by translate/ctors2coq.py from src/SM/RFKickMap.cpp and
   src/SM/DynamicRFKickMap.cpp (constructor mem-initialiser lists). Do not edit. *)
From Coq Require Import List String ZArith.
From Inovesa Require Import Base.FieldKit Model.Ctors.
Import ListNotations.
Local Open Scope string_scope.

Definition rfkick_ctors : list base_ctor :=
  [  mkBase ["in"; "out"; "angle"; "f_RF"; "it"; "interpol_clamp"; "oclh"]
    [("KickMap#0", IParam "in");
     ("KickMap#1", IParam "out");
     ("KickMap#2", IParam "it");
     ("KickMap#3", IParam "interpol_clamp");
     ("KickMap#4", IOther);
     ("KickMap#5", IParam "oclh");
     ("_linear", IBool true);
     ("_angle", IParam "angle");
     ("_revolutionpart", INum (0));
     ("_V_RF", INum (0));
     ("_f_RF", IParam "f_RF");
     ("_V0", INum (0));
     ("_syncphase", INum (0));
     ("_bl2phase", IOther)];
    mkBase ["in"; "out"; "revolutionpart"; "V_RF"; "f_RF"; "V0"; "it"; "interpol_clamp"; "oclh"]
    [("KickMap#0", IParam "in");
     ("KickMap#1", IParam "out");
     ("KickMap#2", IParam "it");
     ("KickMap#3", IParam "interpol_clamp");
     ("KickMap#4", IOther);
     ("KickMap#5", IParam "oclh");
     ("_linear", IBool false);
     ("_angle", INum (0));
     ("_revolutionpart", IParam "revolutionpart");
     ("_V_RF", IParam "V_RF");
     ("_f_RF", IParam "f_RF");
     ("_V0", IParam "V0");
     ("_syncphase", IOther);
     ("_bl2phase", IOther)]].

Definition dyn_linear : dyn_ctor :=
  mkDyn ["in"; "out"; "xsize"; "ysize"; "angle"; "revolutionpart"; "f_RF"; "phasespread"; "amplspread"; "modampl"; "modtimeincrement"; "steps"; "it"; "interpol_clamp"; "oclh"]
    ["in"; "out"; "angle"; "f_RF"; "it"; "interpol_clamp"; "oclh"]
    0.
(* value-changing implicit conversions clang inserted at the forwarded arguments *)
Definition dyn_linear_casts : list (string * string) := [].

Definition dyn_sinusoidal : dyn_ctor :=
  mkDyn ["in"; "out"; "xsize"; "ysize"; "revolutionpart"; "V_RF"; "f_RF"; "V0"; "phasespread"; "amplspread"; "modampl"; "modtimeincrement"; "steps"; "it"; "interpol_clamp"; "oclh"]
    ["in"; "out"; "revolutionpart"; "V_RF"; "f_RF"; "V0"; "it"; "interpol_clamp"; "oclh"]
    1.
(* value-changing implicit conversions clang inserted at the forwarded arguments *)
Definition dyn_sinusoidal_casts : list (string * string) := [].

Section GenArith.
  Variable K : Fld.
  Variable fsqrt : K -> K.
  Variable two_pi : K.
  Local Open Scope F_scope.
  Definition dyn_linear_phasenoise (env : string -> K) : K := ((env "phasespread") / (fsqrt (env "revolutionpart"))).
  Definition dyn_linear_amplnoise (env : string -> K) : K := ((env "amplspread") / (fsqrt (env "revolutionpart"))).
  Definition dyn_linear_modampl (env : string -> K) : K := (env "modampl").
  Definition dyn_linear_modtimedelta (env : string -> K) : K := (two_pi * (env "modtimeincrement")).
  Definition dyn_sinusoidal_phasenoise (env : string -> K) : K := ((env "phasespread") / (fsqrt (env "revolutionpart"))).
  Definition dyn_sinusoidal_amplnoise (env : string -> K) : K := ((env "amplspread") / (fsqrt (env "revolutionpart"))).
  Definition dyn_sinusoidal_modampl (env : string -> K) : K := (env "modampl").
  Definition dyn_sinusoidal_modtimedelta (env : string -> K) : K := (two_pi * (env "modtimeincrement")).
End GenArith.
