(* GENERATED on every run by translate/h5index2coq.py from src/IO/HDF5File.cpp, PhaseSpace::setSize and main().
   Do not edit. *)
From Coq Require Import List ZArith Bool.
From Inovesa Require Import Base.FieldKit Model.Records Model.H5Slab.
Import ListNotations.
Local Open Scope Z_scope.
(* _appendData(ds, data, size): what reaches the library, from ds.dims before the call *)
Definition gen_ad_start (dims : list Z) (size : Z) : list Z := hd 0 dims :: map (fun _ : Z => 0) (tl dims).
Definition gen_ad_count (dims : list Z) (size : Z) : list Z := size :: tl dims.
Definition gen_ad_extent (dims : list Z) (size : Z) : list Z := (hd 0 dims + size) :: tl dims.
Definition gen_ad_mem (dims : list Z) (size : Z) : list Z := size :: tl dims.
Definition gen_ad_dims_after (dims : list Z) (size : Z) : list Z := (hd 0 dims + size) :: tl dims.
(* extend(); getSpace(); selectHyperslab(); write() in this order *)
Definition gen_ad_order_ok : bool := true.
(* the constructor: initial extents of every growing dataset (size members followed to their initialisers) *)
Definition gen_ds_dims (has_ef has_imp : bool) (nb nx ny nmax nfreqs np : Z) (d : dset) : list Z :=
  match d with
  | DT => [0]
  | DProfile => [0; nb; nx]
  | DLength => [0; nb]
  | DPosition => [0; nb]
  | DEProfile => [0; nb; nx]
  | DESpread => [0; nb]
  | DEAverage => [0; nb]
  | DPopulation => [0; nb]
  | DCsrSpectrum => [0; nb; (if has_ef then (nmax / 2) else 0)]
  | DCsrIntensity => [0; nb]
  | DWake => [0; nb; nx]
  | DParticles => [0; np; 2]
  | DPSAxis => [0]
  | DPSData => [0; nb; nx; ny]
  | DPadProfile => [0; (if has_imp then (nfreqs / 2) else 0)]
  | DPadPotential => [0; (if has_imp then (nfreqs / 2) else 0)]
  end.
(* the append overloads: (dataset, source, records) in call order *)
Definition gen_append_ps (a : atype) : list (dset * psrc * Z) :=
  match a with
  | AtAll => [(DPSAxis, SrcTime, 1); (DPSData, SrcData, 1); (DT, SrcTime, 1); (DProfile, (SrcProj 0), 1); (DLength, (SrcRms 0), 1); (DPosition, (SrcMoment 0 0), 1); (DEProfile, (SrcProj 1), 1); (DESpread, (SrcRms 1), 1); (DEAverage, (SrcMoment 1 0), 1); (DPopulation, SrcFilling, 1)]
  | AtDefaults => [(DT, SrcTime, 1); (DProfile, (SrcProj 0), 1); (DLength, (SrcRms 0), 1); (DPosition, (SrcMoment 0 0), 1); (DEProfile, (SrcProj 1), 1); (DESpread, (SrcRms 1), 1); (DEAverage, (SrcMoment 1 0), 1); (DPopulation, SrcFilling, 1)]
  | AtPhaseSpace => [(DPSAxis, SrcTime, 1); (DPSData, SrcData, 1)]
  end.
Definition gen_append_ef (fullspectrum : bool) : list (dset * psrc * Z) :=
  if fullspectrum then [(DCsrSpectrum, SrcCsrRows, 1); (DCsrIntensity, SrcCsrPower, 1)] else [(DCsrIntensity, SrcCsrPower, 1)].
Definition gen_append_wake : list (dset * psrc * Z) := [(DWake, SrcForce, 1)].
Definition gen_append_tracks : list (dset * psrc * Z) := [(DParticles, SrcParticles, 1)].
Definition gen_append_padded : list (dset * psrc * Z) := [(DPadProfile, SrcPadProfile, 1); (DPadPotential, SrcPadPotential, 1)].
(* readPhaseSpace: record selection in hsize_t (unsigned 64 bit) arithmetic; dims = extents of /PhaseSpace/data *)
Definition gen_use_step (dims : list Z) (step : Z) : Z := (((nth 0 dims 0 + (step mod 2 ^ 64)) mod 2 ^ 64) mod nth 0 dims 0).
Definition gen_r3_start (dims : list Z) (u : Z) : list Z := [(u mod 2 ^ 64); 0; 0].
Definition gen_r3_count (dims : list Z) (u : Z) : list Z := [1; nth 1 dims 0; nth 1 dims 0].
Definition gen_r3_mem (dims : list Z) (u : Z) : list Z := [1; nth 1 dims 0; nth 1 dims 0].
Definition gen_r3_setsize (dims : list Z) (u : Z) : Z * Z := (nth 1 dims 0, 1).
Definition gen_r4_start (dims : list Z) (u : Z) : list Z := [(u mod 2 ^ 64); 0; 0; 0].
Definition gen_r4_count (dims : list Z) (u : Z) : list Z := [1; nth 1 dims 0; nth 2 dims 0; nth 2 dims 0].
Definition gen_r4_mem (dims : list Z) (u : Z) : list Z := [1; nth 1 dims 0; nth 2 dims 0; nth 2 dims 0].
Definition gen_r4_setsize (dims : list Z) (u : Z) : Z * Z := (nth 2 dims 0, 1).
(* the data are read iff *)
Definition gen_accept (nxyb npoints : Z) : bool := (nxyb =? npoints).
(* PhaseSpace::setSize(x, b): nx, ny, nb, nxyb *)
Definition gen_setsize (x b : Z) : Z * Z * Z * Z := (x, x, b, ((x * x) * b)).
(* main(): the program quits before the simulation when *)
Definition gen_main_refuses_gridsize (nx gridsize : Z) : bool := (negb (nx =? gridsize)).
(* readPhaseSpace: the object the record is read into is constructed with start data? other member calls on it? *)
Definition gen_read_ctor_passes_data : bool := false.
Definition gen_read_object_other_calls : Z := 0.
