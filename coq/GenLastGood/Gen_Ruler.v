(* GENERATED on every run by translate/ruler2coq.py from the constructor of Ruler<meshaxis_t> (inc/PS/Ruler.hpp,
   as instantiated in src/PS/PhaseSpace.cpp). Do not edit. *)
From Coq Require Import List ZArith.
From Inovesa Require Import Base.FieldKit.
Local Open Scope F_scope.
(* steps, mn, mx: the constructor's parameters; delta: the member _delta; i: the grid index *)
Definition gen_ruler_delta (K : Fld) (steps mn mx : K) : K := ((mx - mn) / (steps - 1)).
Definition gen_ruler_zerobin (K : Fld) (steps mn mx : K) : K := (((((mn + mx) / (mn - mx)) + 1) * (steps - 1)) / (1+1)).
Definition gen_ruler_at (K : Fld) (mn delta i : K) : K := (mn + (i * delta)).
