(* GENERATED on every run by translate/kickindex2coq.py from KickMap::apply (src/SM/KickMap.cpp) and
   FokkerPlanckMap::apply (src/SM/FokkerPlanckMap.cpp). Do not edit.
   kx_* : kick along x (drift), ky_* : kick along y (RF kick, wake kick), fp_* : Fokker-Planck step.
   kd/pd: mesh size along / perpendicular to the kick; b: bunch; j: stencil point; hindex: h.index;
   src: the source cell after its conversion to uint32. *)
From Coq Require Import ZArith.
Local Open Scope Z_scope.
Definition kx_hinfo (kd pd ip lastbunch b x y j : Z) : Z := ((y * ip) + j).
Definition kx_src (kd pd ip lastbunch b x y j hindex : Z) : Z := ((x + hindex) - (pd / 2)).
Definition kx_bound (kd pd ip lastbunch b x y j : Z) : Z := pd.
Definition kx_read (kd pd ip lastbunch b x y j src : Z) : Z := ((((b * kd) * pd) + (src * pd)) + y).
Definition kx_write (kd pd ip lastbunch b x y j : Z) : Z := ((((b * kd) * pd) + (x * pd)) + y).
Definition ky_hinfo (kd pd ip lastbunch b x y j : Z) : Z := (((((Z.min b lastbunch) * pd) + x) * ip) + j).
Definition ky_src (kd pd ip lastbunch b x y j hindex : Z) : Z := ((y + hindex) - (kd / 2)).
Definition ky_bound (kd pd ip lastbunch b x y j : Z) : Z := pd.
Definition ky_read (kd pd ip lastbunch b x y j src : Z) : Z := ((((b * kd) * pd) + (x * kd)) + src).
Definition ky_write (kd pd ip lastbunch b x y j : Z) : Z := ((((b * kd) * pd) + (x * kd)) + y).
Definition fpg_hinfo (n xs ip b x y j : Z) : Z := ((y * ip) + j).
Definition fpg_read (n xs ip b x y j hindex : Z) : Z := ((((b * xs) * n) + (x * n)) + hindex).
Definition fpg_write (n xs ip b x y j : Z) : Z := ((((b * xs) * n) + (x * n)) + y).
