(* GENERATED on every run by translate/identity2coq.py from Identity::apply (inc/SM/Identity.hpp). Do not edit.
   nxy = nx*ny cells per bunch, nxyb = nb*nx*ny (PhaseSpace's static sizes). *)
From Coq Require Import ZArith.
Local Open Scope Z_scope.
Definition id_count (nb nx ny nxy nxyb : Z) : Z := (nb * nxy).
Definition id_src_idx (nb nx ny nxy nxyb i : Z) : Z := i.
Definition id_dst_idx (nb nx ny nxy nxyb i : Z) : Z := i.
