(* GENERATED on every run by translate/scalingz2coq.py from main() of src/main.cpp (symbolic execution of the
   set-up code; each size is the expression that reaches the named parameter of ElectricField / makeImpedance).
   Do not edit. *)
From Coq Require Import List ZArith QArith Qcanon Bool.
From Inovesa Require Import Base.FieldKit Base.Float32 Model.Kick Model.Bounds Model.ScalingOps.
Import ListNotations.
(* leaves: O_<getter> = option read through ProgramOptions::<getter>(); N_<getter> = size() of a vector option;
   V_<local> = cut variable (a floating local of main() computed with a division or a libm call) *)
Inductive zleaf := N_getBunchCurrents | O_getGridSize | Z_unused.
Inductive qleaf := O_getPadding | V_spacing_ps | Q_unused.
Inductive zbleaf := O_getRoundPadding | ZB_unused.
Definition zleaf_index (l : zleaf) : nat := match l with N_getBunchCurrents => 0 | O_getGridSize => 1 | Z_unused => 2 end.
Definition qleaf_index (l : qleaf) : nat := match l with O_getPadding => 0 | V_spacing_ps => 1 | Q_unused => 2 end.
Definition zbleaf_index (l : zbleaf) : nat := match l with O_getRoundPadding => 0 | ZB_unused => 1 end.
Local Open Scope Z_scope.
Local Open Scope bool_scope.

Definition gen_spacing_bins (LZ : zleaf -> Z) (LQ : qleaf -> Qc) (LB : zbleaf -> bool) : conv :=
    conv_bind (f2u 32 (Qcz (Qcround (rnd53 ((Qcz (LZ O_getGridSize)) * (LQ V_spacing_ps))%Qc)))) (fun v1 =>
    Val v1).
Definition gen_wake_nfreqs (LZ : zleaf -> Z) (LQ : qleaf -> Qc) (LB : zbleaf -> bool) : conv :=
    conv_bind (f2u 64 (Qcz (Qcceil (rnd53 ((Qcz (wrap32 ((LZ O_getGridSize) * (wrap32 (LZ N_getBunchCurrents))))) * (LQ V_spacing_ps))%Qc)))) (fun v1 =>
    conv_bind (f2u 32 (Qcz (Qcround (rnd53 ((Qcz (LZ O_getGridSize)) * (LQ V_spacing_ps))%Qc)))) (fun v2 =>
    conv_bind (f2u 64 (Qcz (Qcceil (rnd53 ((Qcz (LZ O_getGridSize)) * (Qcmax (LQ O_getPadding) (Qcz 1)))%Qc)))) (fun v3 =>
    Val (if (1 <? (LZ N_getBunchCurrents)) then (if (LB O_getRoundPadding) then (upper_power_of_two (Z.max v1 (w64 ((w64 ((wrap32 ((wrap32 (LZ N_getBunchCurrents)) - 1)) * v2)) + (LZ O_getGridSize))))) else (Z.max v1 (w64 ((w64 ((wrap32 ((wrap32 (LZ N_getBunchCurrents)) - 1)) * v2)) + (LZ O_getGridSize))))) else (if (LB O_getRoundPadding) then (upper_power_of_two v3) else v3))))).
Definition gen_rdtn_spacing_bins (LZ : zleaf -> Z) (LQ : qleaf -> Qc) (LB : zbleaf -> bool) : conv :=
    Val 0.
Definition gen_rdtn_nfreqs (LZ : zleaf -> Z) (LQ : qleaf -> Qc) (LB : zbleaf -> bool) : conv :=
    conv_bind (f2u 64 (Qcz (Qcceil (rnd53 ((Qcz (LZ O_getGridSize)) * (Qcmax (LQ O_getPadding) (Qcz 1)))%Qc)))) (fun v1 =>
    Val (if (LB O_getRoundPadding) then (upper_power_of_two v1) else v1)).

(* front-end for the extracted driver: values in the order of the *_index functions *)
Definition gen_sizes_list (zs : list Z) (qs : list Qc) (bs : list bool) : list Z :=
  let LZ := env_of zleaf_index 0 zs in let LQ := env_of qleaf_index (Qcz 0) qs in let LB := env_of zbleaf_index false bs in
  [conv_code (gen_spacing_bins LZ LQ LB); conv_code (gen_rdtn_nfreqs LZ LQ LB);
   conv_code (gen_wake_nfreqs LZ LQ LB); conv_code (gen_rdtn_spacing_bins LZ LQ LB)].
