(* GENERATED on every run by translate/coeffsfl2coq.py from src/SM/SourceMap.cpp
   (SourceMap::calcCoefficiants): typed expression trees. Do not edit. *)
From Coq Require Import List ZArith QArith.
From Inovesa Require Import Model.FExpr.
Import ListNotations.
Definition coeff_trees (it : Z) : list fexpr :=
  if (it =? 1)%Z then [(FCast P32 (FLit (1 # 1)))] else
  if (it =? 2)%Z then [(FOp P32 FSub (FCast P32 (FLit (1 # 1))) FVar);
    FVar] else
  if (it =? 3)%Z then [(FOp P32 FDiv (FOp P32 FMul FVar (FOp P32 FSub FVar (FCast P32 (FLit (1 # 1))))) (FCast P32 (FLit (2 # 1))));
    (FOp P32 FSub (FCast P32 (FLit (1 # 1))) (FOp P32 FMul FVar FVar));
    (FOp P32 FDiv (FOp P32 FMul FVar (FOp P32 FAdd FVar (FCast P32 (FLit (1 # 1))))) (FCast P32 (FLit (2 # 1))))] else
  if (it =? 4)%Z then [(FOp P32 FMul (FOp P32 FMul (FOp P32 FMul (FOp P32 FSub FVar (FCast P32 (FLit (1 # 1)))) (FOp P32 FSub FVar (FCast P32 (FLit (2 # 1))))) FVar) (FCast P32 (FOp P64 FDiv (FNeg (FCast P64 (FLit (1 # 1)))) (FCast P64 (FLit (6 # 1))))));
    (FOp P32 FDiv (FOp P32 FMul (FOp P32 FMul (FOp P32 FAdd FVar (FCast P32 (FLit (1 # 1)))) (FOp P32 FSub FVar (FCast P32 (FLit (1 # 1))))) (FOp P32 FSub FVar (FCast P32 (FLit (2 # 1))))) (FCast P32 (FLit (2 # 1))));
    (FOp P32 FDiv (FOp P32 FMul (FOp P32 FMul (FOp P32 FSub (FCast P32 (FLit (2 # 1))) FVar) FVar) (FOp P32 FAdd FVar (FCast P32 (FLit (1 # 1))))) (FCast P32 (FLit (2 # 1))));
    (FOp P32 FMul (FOp P32 FMul (FOp P32 FMul FVar (FOp P32 FAdd FVar (FCast P32 (FLit (1 # 1))))) (FOp P32 FSub FVar (FCast P32 (FLit (1 # 1))))) (FCast P32 (FOp P64 FDiv (FCast P64 (FLit (1 # 1))) (FCast P64 (FLit (6 # 1))))))] else
  [].
