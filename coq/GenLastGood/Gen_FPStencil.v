(* GENERATED on every run by translate/stencil2coq.py from src/SM/FokkerPlanckMap.cpp
   (FokkerPlanckMap constructor). Do not edit. *)
From Coq Require Import List ZArith Bool.
From Inovesa Require Import Base.FieldKit.
Import ListNotations.
Definition u32 (z : Z) : Z := (z mod 2 ^ 32)%Z.
Definition fpt_none : Z := 0%Z.
Definition fpt_damping_only : Z := 1%Z.
Definition fpt_diffusion_only : Z := 2%Z.
Definition fpt_full : Z := 3%Z.
Definition has_damp (v : Z) : bool := (negb (v =? fpt_none) && negb (v =? fpt_diffusion_only))%Z.
Definition has_diff (v : Z) : bool := (negb (v =? fpt_none) && negb (v =? fpt_damping_only))%Z.
Definition fp3_first : Z := 1%Z.
Definition fp3_last_off : Z := 1%Z.
Definition fp4_first : Z := 2%Z.
Definition fp4_last_off : Z := 2%Z.
Section Gen.
  Variable K : Fld.
  Local Open Scope F_scope.
  Variables (e1 delta : K).
  Definition opt (b : bool) (x : K) : K := if b then x else 0.
  Definition e1_2d : K := (e1 / ((1+1) * delta)).
  Definition e1_6d : K := (e1 / (((1+1)*(1+(1+1))) * delta)).
  Definition e1_d2 : K := (e1 / (delta * delta)).
  Definition row3 (dmp dif : bool) (j : Z) (pos : K) : list (Z * K) :=
    [(u32 (j - 1), 0 + opt dmp ((- (e1_2d)) * pos) + opt dif (e1_d2));
     (j, 1 + opt dmp (e1) + opt dif ((- ((1+1))) * e1_d2));
     ((j + 1)%Z, 0 + opt dmp (e1_2d * pos) + opt dif (e1_d2))].
  Definition row4lo (dmp dif : bool) (j : Z) (pos : K) : list (Z * K) :=
    [(u32 (j - 2), 0 + opt dmp ((e1_6d * 1) * pos));
     (u32 (j - 1), 0 + opt dmp ((e1_6d * (- (((1+1)*(1+(1+1)))))) * pos) + opt dif (e1_d2));
     (j, 1 + opt dmp (e1 + ((e1_6d * (1+(1+1))) * pos)) + opt dif ((- ((1+1))) * e1_d2));
     ((j + 1)%Z, 0 + opt dmp ((e1_6d * (1+1)) * pos) + opt dif (e1_d2))].
  Definition row4hi (dmp dif : bool) (j : Z) (pos : K) : list (Z * K) :=
    [(u32 (j - 1), 0 + opt dmp ((e1_6d * (- ((1+1)))) * pos) + opt dif (e1_d2));
     (j, 1 + opt dmp (e1 + ((e1_6d * (- ((1+(1+1))))) * pos)) + opt dif ((- ((1+1))) * e1_d2));
     ((j + 1)%Z, 0 + opt dmp ((e1_6d * ((1+1)*(1+(1+1)))) * pos) + opt dif (e1_d2));
     ((j + 2)%Z, 0 + opt dmp ((e1_6d * (- (1))) * pos))].
End Gen.
Arguments opt {_}. Arguments e1_2d {_}. Arguments e1_6d {_}. Arguments e1_d2 {_}.
Arguments row3 {_}. Arguments row4lo {_}. Arguments row4hi {_}.
