(* GENERATED on every run by translate/dynqueue2coq.py from src/SM/DynamicRFKickMap.cpp. Do not edit.
   loop variable of __calcModulation: uint32_t; parameters: steps *)
From Coq Require Import List ZArith String.
From Inovesa Require Import Base.FieldKit Model.DynQueue.
Import ListNotations.
Local Open Scope string_scope.
(* for (i = 0; i < bound; i += 1) *)
Definition dq_for : forhdr := mkfor (0)%Z (BParam "steps") (1)%Z.
Section DQEntry.
  Variable K : Fld.
  Variable sin : K -> K.
  Local Open Scope F_scope.
  (* the pair emplaced in the iteration with loop variable i; d0, d1: the first and second `_dist(_prng)` of the iteration *)
  Definition dq_entry (_syncphase _phasenoise _amplnoise _modampl _modtimedelta d0 d1 i : K) : K * K :=
    (((_syncphase + (d0 * _phasenoise)) + (_modampl * (sin (_modtimedelta * i)))),
     (1 + (d1 * _amplnoise))).
End DQEntry.
(* the argument each constructor hands to __calcModulation in the initialiser of _next_modulation *)
Definition dq_ctor_queue_arg : list (string * bound) :=
  [("linear", BParam "steps"); ("sinusoidal", BParam "steps")].
(* RFKickMap::_calcKick(_next_modulation.front()[a0], _next_modulation.front()[a1]) *)
Definition dq_calckick_args : list Z := [0; 1]%Z.
Definition dq_apply_ops : list aop := [ACalcKick; AKickApply; APushFrontToPast; APop].
Definition dq_getpast_ops : list gop := [GMoveOut; GClear; GReturnRv].
(* every use of the member _next_modulation: (function, use) *)
Definition dq_queue_refs : list (string * string) :=
  [("constructor", "init"); ("constructor", "init"); ("_calcKick", "front"); ("_calcKick", "front"); ("apply", "front"); ("apply", "pop")].
