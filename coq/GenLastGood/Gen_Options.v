(* GENERATED on every run by translate/options2coq.py from src/IO/ProgramOptions.cpp
   (constructor, parse, save(std::string)). Do not edit. *)
From Coq Require Import List String ZArith.
From Coq Require Ascii.
From Inovesa Require Import Model.OptionsTypes.
From Inovesa Require Model.CfgText.
Import ListNotations.
Local Open Scope string_scope.

(* merged option table in std::map<std::string> (byte) order of the names *)
Definition gen_table : list opt := [
  mkOpt "AcceleratingVoltage" (Some "V") "V_RF" TDouble true true (Some (-1)%Z) (Some (-1)%Z) false KCanon;
  mkOpt "BeamEnergy" (Some "E") "E_0" TDouble true true (Some (-2)%Z) (Some (-2)%Z) false KCanon;
  mkOpt "BeamEnergySpread" (Some "e") "s_E" TDouble true true (Some (-3)%Z) (Some (-3)%Z) false KCanon;
  mkOpt "BendingRadius" (Some "R") "r_bend" TDouble true true (Some (-4)%Z) (Some (-4)%Z) false KCanon;
  mkOpt "BunchCurrent" (Some "I") "I_b" TVecFloat true true None None false KCanon;
  mkOpt "CollimatorRadius" None "collimator" TDouble true true (Some (-5)%Z) (Some (-5)%Z) false KCanon;
  mkOpt "CutoffFreq" None "f_c" TFloat true true (Some (-6)%Z) (Some (-6)%Z) false KCanon;
  mkOpt "DampingTime" (Some "d") "t_d" TDouble true true (Some (-4)%Z) (Some (-4)%Z) false KCanon;
  mkOpt "FPTrack" None "fptrack" TU32 true true (Some (-7)%Z) (Some (-7)%Z) false KCanon;
  mkOpt "FPType" None "fptype" TU32 true true (Some (-7)%Z) (Some (-7)%Z) false KCanon;
  mkOpt "ForceOpenGLVersion" None "_glversion" TUChar true true (Some (-8)%Z) (Some (-8)%Z) false KCanon;
  mkOpt "GridSize" (Some "s") "meshsize" TU32 true true (Some (-9)%Z) (Some (-9)%Z) false KCanon;
  mkOpt "HaissinskiIterations" None "_hi" TU32 false true None (Some (-10)%Z) false KIgnored;
  mkOpt "HarmonicNumber" (Some "H") "H" TFloat true true (Some (-11)%Z) (Some (-11)%Z) false KCanon;
  mkOpt "Impedance" (Some "Z") "_impedancefile" TString true true None None false KCanon;
  mkOpt "InitialDistFile" (Some "i") "_startdistfile" TString true true None None false KCanon;
  mkOpt "InitialDistParam" None "_hi" TU32 false true None (Some (-10)%Z) false KIgnored;
  mkOpt "InitialDistStep" None "_startdiststep" TI64 true true (Some (-12)%Z) (Some (-12)%Z) false KCanon;
  mkOpt "InitialDistZoom" None "zoom" TDouble true true (Some (-13)%Z) (Some (-13)%Z) false KCanon;
  mkOpt "InterpolateClamped" None "interpol_clamp" TBool true true (Some (-14)%Z) (Some (-14)%Z) false KCanon;
  mkOpt "InterpolationPoints" None "interpol_type" TU32 true true (Some (-15)%Z) (Some (-15)%Z) false KCanon;
  mkOpt "LinearRF" None "linearRF" TBool true true (Some (-16)%Z) (Some (-16)%Z) false KCanon;
  mkOpt "PhaseSpaceShiftX" None "meshshiftx" TFloat true true (Some (-17)%Z) (Some (-17)%Z) false KCanon;
  mkOpt "PhaseSpaceShiftY" None "meshshifty" TFloat true true (Some (-17)%Z) (Some (-17)%Z) false KCanon;
  mkOpt "PhaseSpaceSize" (Some "P") "pq_size" TFloat true true (Some (-18)%Z) (Some (-18)%Z) false KCanon;
  mkOpt "RFAmplitudeSpread" None "rf_amplitude_spread" TDouble true true (Some (-5)%Z) (Some (-5)%Z) false KCanon;
  mkOpt "RFPhaseModAmplitude" None "rf_phase_mod_amplitude" TDouble true true (Some (-5)%Z) (Some (-5)%Z) false KCanon;
  mkOpt "RFPhaseModFrequency" None "rf_phase_mod_frequency" TDouble true true (Some (-5)%Z) (Some (-5)%Z) false KCanon;
  mkOpt "RFPhaseSpread" None "rf_phase_spread" TDouble true true (Some (-5)%Z) (Some (-5)%Z) false KCanon;
  mkOpt "RFVoltage" None "V_RF" TDouble false true None None false (KAlias "AcceleratingVoltage");
  mkOpt "RenormalizeCharge" None "renormalize" TI32 true true (Some (-19)%Z) (Some (-19)%Z) false KCanon;
  mkOpt "RevolutionFrequency" (Some "F") "f0" TFloat true true (Some (-20)%Z) (Some (-20)%Z) false KCanon;
  mkOpt "RotationType" None "rotationtype" TU32 false true None None false KIgnored;
  mkOpt "RoundPadding" None "roundpadding" TBool true true (Some (-16)%Z) (Some (-16)%Z) false KCanon;
  mkOpt "SavePhaseSpace" None "_savephasespace" TU32 true true (Some (-10)%Z) (Some (-10)%Z) false KCanon;
  mkOpt "SaveSourceMap" None "_savesourcemap" TBool false true None None false KIgnored;
  mkOpt "StepsPerRevolution" None "steps_per_Trev" TDouble true true (Some (-5)%Z) (Some (-5)%Z) false KCanon;
  mkOpt "StepsPerTs" (Some "N") "steps_per_Ts" TU32 true true (Some (-21)%Z) (Some (-21)%Z) false KCanon;
  mkOpt "SyncFreq" None "f_s" TFloat false true None None false (KAlias "SynchrotronFrequency");
  mkOpt "SynchrotronFrequency" (Some "f") "f_s" TFloat true true (Some (-17)%Z) (Some (-17)%Z) false KCanon;
  mkOpt "UseCSR" None "use_csr" TBool true true (Some (-16)%Z) (Some (-16)%Z) false KCanon;
  mkOpt "VacuumGap" (Some "G") "g" TDouble true true (Some (-22)%Z) (Some (-22)%Z) false KCanon;
  mkOpt "WallConductivity" None "s_c" TDouble true true (Some (-5)%Z) (Some (-5)%Z) false KCanon;
  mkOpt "WallSusceptibility" None "xi_wall" TDouble true true (Some (-5)%Z) (Some (-5)%Z) false KCanon;
  mkOpt "alpha0" None "alpha0" TFloat true true (Some (-23)%Z) (Some (-23)%Z) false KCanon;
  mkOpt "alpha1" None "alpha1" TFloat true true (Some (-17)%Z) (Some (-17)%Z) false KCanon;
  mkOpt "alpha2" None "alpha2" TFloat true true (Some (-17)%Z) (Some (-17)%Z) false KCanon;
  mkOpt "buildinfo" None "" TFlag true false None None false KFlag;
  mkOpt "cldev" None "_cldevice" TI32 true true (Some (-19)%Z) (Some (-19)%Z) false KCanon;
  mkOpt "config" (Some "c") "_configfile" TString true false None None false KCanon;
  mkOpt "copyright" None "" TFlag true false None None false KFlag;
  mkOpt "derivation" None "deriv_type" TU32 true true (Some (-15)%Z) (Some (-15)%Z) false KCanon;
  mkOpt "gui" (Some "g") "_showphasespace" TBool true true (Some (-16)%Z) (Some (-14)%Z) true KCanon;
  mkOpt "help" (Some "h") "" TFlag true false None None false KFlag;
  mkOpt "output" (Some "o") "_outfile" TString true true None None false KCanon;
  mkOpt "outstep" (Some "n") "outsteps" TU32 true true (Some (-24)%Z) (Some (-24)%Z) false KCanon;
  mkOpt "padding" (Some "p") "padding" TDouble true true (Some (-25)%Z) (Some (-25)%Z) false KCanon;
  mkOpt "rotations" (Some "T") "rotations" TDouble true true (Some (-26)%Z) (Some (-26)%Z) false KCanon;
  mkOpt "run_anyway" None "_forcerun" TBool true true (Some (-14)%Z) (Some (-14)%Z) true KCanon;
  mkOpt "steps" None "steps_per_Ts" TU32 false true None None false (KAlias "StepsPerTs");
  mkOpt "tracking" None "_trackingfile" TString true true (Some (-27)%Z) (Some (-27)%Z) false KCanon;
  mkOpt "verbose" (Some "v") "_verbose" TBool true true (Some (-14)%Z) (Some (-14)%Z) true KCanon;
  mkOpt "version" None "" TFlag true false None None false KFlag
].

Definition gen_prog : prog := mkProg
  [StoreCli; Notify]
  ["help"; "copyright"; "version"; "buildinfo"]
  "config"
  [StoreCfg; FoldAliases [("RFVoltage", "AcceleratingVoltage"); ("SyncFreq", "SynchrotronFrequency"); ("steps", "StepsPerTs")]; Notify]
  true.

Definition gen_wrules : wrules := mkW
  ["HaissinskiIterations"; "InitialDistParam"; "RotationType"; "SyncFreq"; "steps"; "RFVoltage"; "run_anyway"; "SaveSourceMap"]
  "alpha0" "f_s" false
  [TFloat; TDouble; TI32; TU32; TI64; TBool; TVecFloat]
  true
  ["config"].

(* save(): the `ofs << ...` chain that writes a string option, operand by operand (Model/CfgText.v) *)
Definition gen_string_line : list CfgText.wpiece := [CfgText.WName; CfgText.WLit [Ascii.ascii_of_nat 61]; CfgText.WVal; CfgText.WEndl].
