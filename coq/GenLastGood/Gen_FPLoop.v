(* GENERATED on every run by translate/fploop2coq.py from FokkerPlanckMap::apply (src/SM/FokkerPlanckMap.cpp, CPU branch).
   Do not edit.  The function body is `data_in = _in->getData(); data_out = _out->getData();` and ONE loop nest
   for b in [fpl_b_lo, fpl_b_hi)  for x in [fpl_x_lo, fpl_x_hi)  for y in [fpl_y_lo, fpl_y_hi) {
     value = 0;  for j in [fpl_j_lo, fpl_j_hi) { h = _hinfo[fpl_hinfo]; value += data_in[fpl_read h.index] * h.weight }
     data_out[fpl_write] = value }
   with increments ++ and NO other statement (no conditional, continue, break, return or call: the translator refuses them).
   nb: PhaseSpace::nb, xs: _meshxsize, n: _ysize, ip: _ip; b: the bunch loop variable `n`. *)
From Coq Require Import ZArith.
Local Open Scope Z_scope.
Definition fpl_b_lo (nb xs n ip : Z) : Z := 0.
Definition fpl_b_hi (nb xs n ip : Z) : Z := nb.
Definition fpl_x_lo (nb xs n ip b : Z) : Z := 0.
Definition fpl_x_hi (nb xs n ip b : Z) : Z := xs.
Definition fpl_y_lo (nb xs n ip b x : Z) : Z := 0.
Definition fpl_y_hi (nb xs n ip b x : Z) : Z := n.
Definition fpl_j_lo (nb xs n ip b x y : Z) : Z := 0.
Definition fpl_j_hi (nb xs n ip b x y : Z) : Z := ip.
Definition fpl_hinfo (nb xs n ip b x y j : Z) : Z := ((y * ip) + j).
Definition fpl_read (nb xs n ip b x y j hindex : Z) : Z := ((((b * xs) * n) + (x * n)) + hindex).
Definition fpl_write (nb xs n ip b x y : Z) : Z := ((((b * xs) * n) + (x * n)) + y).
