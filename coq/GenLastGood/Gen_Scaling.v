(* GENERATED on every run by translate/scaling2coq.py from main() of src/main.cpp (symbolic execution of the
   set-up code; each quantity is the expression that reaches the named constructor parameter). Do not edit. *)
From Coq Require Import List ZArith Bool.
From Inovesa Require Import Base.FieldKit Model.ScalingOps.
Import ListNotations.
(* leaves: O_<getter> = option read through ProgramOptions::<getter>(); C_<name> = physcons::<name> / two_pi;
   S_<local> = program state (loop counter) *)
Inductive leaf := C_c | C_e | C_epsilon0 | C_me | C_two_pi | O_getAlpha0 | O_getAlpha1 | O_getAlpha2 | O_getBeamEnergy | O_getBendingRadius | O_getDampingTime | O_getEnergySpread | O_getGridSize | O_getHarmonicNumber | O_getPSShiftX | O_getPSShiftY | O_getPhaseSpaceSize | O_getRFVoltage | O_getRevolutionFrequency | O_getStepsPerTrev | O_getStepsPerTsync | O_getSyncFreq | S_simulationstep.
Inductive bleaf := B_unused.
Local Open Scope F_scope.
Local Open Scope bool_scope.

Definition gen_angle (K : Fld) (O : Ops K) (L : leaf -> K) (B : bleaf -> bool) : K :=
    let x1 := (((L O_getBeamEnergy) / (L C_me)) * (((L O_getBeamEnergy) / (L C_me)) * (((L O_getBeamEnergy) / (L C_me)) * ((L O_getBeamEnergy) / (L C_me))))) in
    let x2 := ((L C_e) * x1) in
    let x3 := ((L C_c) / ((L C_two_pi) * (L O_getRevolutionFrequency))) in
    let x4 := (if (o_lt O 0 (L O_getBendingRadius)) then (L O_getBendingRadius) else x3) in
    let x5 := (((1+(1+1)) * (L C_epsilon0)) * x4) in
    let x6 := (x2 / x5) in
    ((L C_two_pi) / (if (o_lt O 0 (L O_getStepsPerTrev)) then (((L O_getStepsPerTrev) * (L O_getRevolutionFrequency)) / (if (o_is0 O (L O_getSyncFreq)) then ((L O_getRevolutionFrequency) * (o_sqrt O ((((L O_getAlpha0) * (L O_getHarmonicNumber)) * (o_sqrt O (((L O_getRFVoltage) * (L O_getRFVoltage)) - (x6 * x6)))) / ((L C_two_pi) * (L O_getBeamEnergy))))) else (L O_getSyncFreq))) else (if o_lt O (L O_getStepsPerTsync) 1 then 1 else (L O_getStepsPerTsync)))).
Definition gen_slip (K : Fld) (O : Ops K) (L : leaf -> K) (B : bleaf -> bool) : list K :=
    let x1 := (((L O_getBeamEnergy) / (L C_me)) * (((L O_getBeamEnergy) / (L C_me)) * (((L O_getBeamEnergy) / (L C_me)) * ((L O_getBeamEnergy) / (L C_me))))) in
    let x2 := ((L C_e) * x1) in
    let x3 := ((L C_c) / ((L C_two_pi) * (L O_getRevolutionFrequency))) in
    let x4 := (if (o_lt O 0 (L O_getBendingRadius)) then (L O_getBendingRadius) else x3) in
    let x5 := (((1+(1+1)) * (L C_epsilon0)) * x4) in
    let x6 := (x2 / x5) in
    let x7 := (x6 * x6) in
    let x8 := (((L O_getRFVoltage) * (L O_getRFVoltage)) - x7) in
    let x9 := (o_sqrt O x8) in
    let x10 := (((L O_getAlpha0) * (L O_getHarmonicNumber)) * x9) in
    let x11 := (x10 / ((L C_two_pi) * (L O_getBeamEnergy))) in
    let x12 := (o_sqrt O x11) in
    let x13 := ((L O_getRevolutionFrequency) * x12) in
    let x14 := (if (o_is0 O (L O_getSyncFreq)) then x13 else (L O_getSyncFreq)) in
    let x15 := (((L O_getStepsPerTrev) * (L O_getRevolutionFrequency)) / x14) in
    let x16 := (if (o_lt O 0 (L O_getStepsPerTrev)) then x15 else (if o_lt O (L O_getStepsPerTsync) 1 then 1 else (L O_getStepsPerTsync))) in
    let x17 := ((L C_two_pi) / x16) in
    let x18 := ((o_sign O (L O_getSyncFreq)) * (L C_two_pi)) in
    let x19 := (x18 * (L O_getBeamEnergy)) in
    let x20 := ((L O_getHarmonicNumber) * x9) in
    let x21 := (x19 / x20) in
    let x22 := (((L O_getSyncFreq) / (L O_getRevolutionFrequency)) * ((L O_getSyncFreq) / (L O_getRevolutionFrequency))) in
    let x23 := (x21 * x22) in
    let x24 := (if (o_is0 O (L O_getSyncFreq)) then (L O_getAlpha0) else x23) in
    [x17; (((L O_getAlpha1) / x24) * x17); (((L O_getAlpha2) / x24) * x17)].
Definition gen_e1 (K : Fld) (O : Ops K) (L : leaf -> K) (B : bleaf -> bool) : K :=
    let x1 := (((L O_getBeamEnergy) / (L C_me)) * (((L O_getBeamEnergy) / (L C_me)) * (((L O_getBeamEnergy) / (L C_me)) * ((L O_getBeamEnergy) / (L C_me))))) in
    let x2 := ((L C_e) * x1) in
    let x3 := ((L C_c) / ((L C_two_pi) * (L O_getRevolutionFrequency))) in
    let x4 := (if (o_lt O 0 (L O_getBendingRadius)) then (L O_getBendingRadius) else x3) in
    let x5 := (((1+(1+1)) * (L C_epsilon0)) * x4) in
    let x6 := (x2 / x5) in
    let x7 := (x6 * (L C_e)) in
    let x8 := (((L O_getBeamEnergy) * (L C_e)) / x7) in
    let x9 := (x8 / (L O_getRevolutionFrequency)) in
    let x10 := (if (o_lt O (L O_getDampingTime) 0) then x9 else (L O_getDampingTime)) in
    let x11 := (x6 * x6) in
    let x12 := (((L O_getRFVoltage) * (L O_getRFVoltage)) - x11) in
    let x13 := (o_sqrt O x12) in
    let x14 := (((L O_getAlpha0) * (L O_getHarmonicNumber)) * x13) in
    let x15 := (x14 / ((L C_two_pi) * (L O_getBeamEnergy))) in
    let x16 := (o_sqrt O x15) in
    let x17 := ((L O_getRevolutionFrequency) * x16) in
    let x18 := (if (o_is0 O (L O_getSyncFreq)) then x17 else (L O_getSyncFreq)) in
    (if (o_lt O 0 x10) then ((1+1) / ((x18 * x10) * (if (o_lt O 0 (L O_getStepsPerTrev)) then (((L O_getStepsPerTrev) * (L O_getRevolutionFrequency)) / x18) else (if o_lt O (L O_getStepsPerTsync) 1 then 1 else (L O_getStepsPerTsync))))) else 0).
Definition gen_dt (K : Fld) (O : Ops K) (L : leaf -> K) (B : bleaf -> bool) : K :=
    let x1 := (((L O_getBeamEnergy) / (L C_me)) * (((L O_getBeamEnergy) / (L C_me)) * (((L O_getBeamEnergy) / (L C_me)) * ((L O_getBeamEnergy) / (L C_me))))) in
    let x2 := ((L C_e) * x1) in
    let x3 := ((L C_c) / ((L C_two_pi) * (L O_getRevolutionFrequency))) in
    let x4 := (if (o_lt O 0 (L O_getBendingRadius)) then (L O_getBendingRadius) else x3) in
    let x5 := (((1+(1+1)) * (L C_epsilon0)) * x4) in
    let x6 := (x2 / x5) in
    let x7 := (x6 * x6) in
    let x8 := (((L O_getRFVoltage) * (L O_getRFVoltage)) - x7) in
    let x9 := (o_sqrt O x8) in
    let x10 := (((L O_getAlpha0) * (L O_getHarmonicNumber)) * x9) in
    let x11 := (x10 / ((L C_two_pi) * (L O_getBeamEnergy))) in
    let x12 := (o_sqrt O x11) in
    let x13 := ((L O_getRevolutionFrequency) * x12) in
    let x14 := (if (o_is0 O (L O_getSyncFreq)) then x13 else (L O_getSyncFreq)) in
    (1 / (x14 * (if (o_lt O 0 (L O_getStepsPerTrev)) then (((L O_getStepsPerTrev) * (L O_getRevolutionFrequency)) / x14) else (if o_lt O (L O_getStepsPerTsync) 1 then 1 else (L O_getStepsPerTsync))))).
Definition gen_revolutionpart (K : Fld) (O : Ops K) (L : leaf -> K) (B : bleaf -> bool) : K :=
    let x1 := (((L O_getBeamEnergy) / (L C_me)) * (((L O_getBeamEnergy) / (L C_me)) * (((L O_getBeamEnergy) / (L C_me)) * ((L O_getBeamEnergy) / (L C_me))))) in
    let x2 := ((L C_e) * x1) in
    let x3 := ((L C_c) / ((L C_two_pi) * (L O_getRevolutionFrequency))) in
    let x4 := (if (o_lt O 0 (L O_getBendingRadius)) then (L O_getBendingRadius) else x3) in
    let x5 := (((1+(1+1)) * (L C_epsilon0)) * x4) in
    let x6 := (x2 / x5) in
    let x7 := (x6 * x6) in
    let x8 := (((L O_getRFVoltage) * (L O_getRFVoltage)) - x7) in
    let x9 := (o_sqrt O x8) in
    let x10 := (((L O_getAlpha0) * (L O_getHarmonicNumber)) * x9) in
    let x11 := (x10 / ((L C_two_pi) * (L O_getBeamEnergy))) in
    let x12 := (o_sqrt O x11) in
    let x13 := ((L O_getRevolutionFrequency) * x12) in
    let x14 := (if (o_is0 O (L O_getSyncFreq)) then x13 else (L O_getSyncFreq)) in
    ((L O_getRevolutionFrequency) * (1 / (x14 * (if (o_lt O 0 (L O_getStepsPerTrev)) then (((L O_getStepsPerTrev) * (L O_getRevolutionFrequency)) / x14) else (if o_lt O (L O_getStepsPerTsync) 1 then 1 else (L O_getStepsPerTsync)))))).
Definition gen_rdtn_revolutionpart (K : Fld) (O : Ops K) (L : leaf -> K) (B : bleaf -> bool) : K :=
    let x1 := (((L O_getBeamEnergy) / (L C_me)) * (((L O_getBeamEnergy) / (L C_me)) * (((L O_getBeamEnergy) / (L C_me)) * ((L O_getBeamEnergy) / (L C_me))))) in
    let x2 := ((L C_e) * x1) in
    let x3 := ((L C_c) / ((L C_two_pi) * (L O_getRevolutionFrequency))) in
    let x4 := (if (o_lt O 0 (L O_getBendingRadius)) then (L O_getBendingRadius) else x3) in
    let x5 := (((1+(1+1)) * (L C_epsilon0)) * x4) in
    let x6 := (x2 / x5) in
    let x7 := (x6 * x6) in
    let x8 := (((L O_getRFVoltage) * (L O_getRFVoltage)) - x7) in
    let x9 := (o_sqrt O x8) in
    let x10 := (((L O_getAlpha0) * (L O_getHarmonicNumber)) * x9) in
    let x11 := (x10 / ((L C_two_pi) * (L O_getBeamEnergy))) in
    let x12 := (o_sqrt O x11) in
    let x13 := ((L O_getRevolutionFrequency) * x12) in
    let x14 := (if (o_is0 O (L O_getSyncFreq)) then x13 else (L O_getSyncFreq)) in
    ((L O_getRevolutionFrequency) * (1 / (x14 * (if (o_lt O 0 (L O_getStepsPerTrev)) then (((L O_getStepsPerTrev) * (L O_getRevolutionFrequency)) / x14) else (if o_lt O (L O_getStepsPerTsync) 1 then 1 else (L O_getStepsPerTsync)))))).
Definition gen_f_rev (K : Fld) (O : Ops K) (L : leaf -> K) (B : bleaf -> bool) : K :=
    (L O_getRevolutionFrequency).
Definition gen_E0 (K : Fld) (O : Ops K) (L : leaf -> K) (B : bleaf -> bool) : K :=
    (L O_getBeamEnergy).
Definition gen_sigma_delta (K : Fld) (O : Ops K) (L : leaf -> K) (B : bleaf -> bool) : K :=
    (L O_getEnergySpread).
Definition gen_fmax (K : Fld) (O : Ops K) (L : leaf -> K) (B : bleaf -> bool) : K :=
    let x1 := (((L O_getBeamEnergy) / (L C_me)) * (((L O_getBeamEnergy) / (L C_me)) * (((L O_getBeamEnergy) / (L C_me)) * ((L O_getBeamEnergy) / (L C_me))))) in
    let x2 := ((L C_e) * x1) in
    let x3 := ((L C_c) / ((L C_two_pi) * (L O_getRevolutionFrequency))) in
    let x4 := (if (o_lt O 0 (L O_getBendingRadius)) then (L O_getBendingRadius) else x3) in
    let x5 := (((1+(1+1)) * (L C_epsilon0)) * x4) in
    let x6 := (x2 / x5) in
    let x7 := (x6 * x6) in
    let x8 := (((L O_getRFVoltage) * (L O_getRFVoltage)) - x7) in
    let x9 := (o_sqrt O x8) in
    (((L O_getGridSize) * (L C_c)) / ((L O_getPhaseSpaceSize) * ((((((L C_c) * ((L O_getEnergySpread) * (L O_getBeamEnergy))) / (L O_getHarmonicNumber)) / ((L O_getRevolutionFrequency) * (L O_getRevolutionFrequency))) / x9) * (if (o_is0 O (L O_getSyncFreq)) then ((L O_getRevolutionFrequency) * (o_sqrt O ((((L O_getAlpha0) * (L O_getHarmonicNumber)) * x9) / ((L C_two_pi) * (L O_getBeamEnergy))))) else (L O_getSyncFreq))))).
Definition gen_R_bend (K : Fld) (O : Ops K) (L : leaf -> K) (B : bleaf -> bool) : K :=
    (if (o_lt O 0 (L O_getBendingRadius)) then (L O_getBendingRadius) else ((L C_c) / ((L C_two_pi) * (L O_getRevolutionFrequency)))).
Definition gen_t_sync (K : Fld) (O : Ops K) (L : leaf -> K) (B : bleaf -> bool) : K :=
    let x1 := (((L O_getBeamEnergy) / (L C_me)) * (((L O_getBeamEnergy) / (L C_me)) * (((L O_getBeamEnergy) / (L C_me)) * ((L O_getBeamEnergy) / (L C_me))))) in
    let x2 := ((L C_e) * x1) in
    let x3 := ((L C_c) / ((L C_two_pi) * (L O_getRevolutionFrequency))) in
    let x4 := (if (o_lt O 0 (L O_getBendingRadius)) then (L O_getBendingRadius) else x3) in
    let x5 := (((1+(1+1)) * (L C_epsilon0)) * x4) in
    let x6 := (x2 / x5) in
    (1 / (if (o_is0 O (L O_getSyncFreq)) then ((L O_getRevolutionFrequency) * (o_sqrt O ((((L O_getAlpha0) * (L O_getHarmonicNumber)) * (o_sqrt O (((L O_getRFVoltage) * (L O_getRFVoltage)) - (x6 * x6)))) / ((L C_two_pi) * (L O_getBeamEnergy))))) else (L O_getSyncFreq))).
Definition gen_h5_f_rev (K : Fld) (O : Ops K) (L : leaf -> K) (B : bleaf -> bool) : K :=
    (L O_getRevolutionFrequency).
Definition gen_h5_time (K : Fld) (O : Ops K) (L : leaf -> K) (B : bleaf -> bool) : K :=
    let x1 := (((L O_getBeamEnergy) / (L C_me)) * (((L O_getBeamEnergy) / (L C_me)) * (((L O_getBeamEnergy) / (L C_me)) * ((L O_getBeamEnergy) / (L C_me))))) in
    let x2 := ((L C_e) * x1) in
    let x3 := ((L C_c) / ((L C_two_pi) * (L O_getRevolutionFrequency))) in
    let x4 := (if (o_lt O 0 (L O_getBendingRadius)) then (L O_getBendingRadius) else x3) in
    let x5 := (((1+(1+1)) * (L C_epsilon0)) * x4) in
    let x6 := (x2 / x5) in
    ((L S_simulationstep) / (if (o_lt O 0 (L O_getStepsPerTrev)) then (((L O_getStepsPerTrev) * (L O_getRevolutionFrequency)) / (if (o_is0 O (L O_getSyncFreq)) then ((L O_getRevolutionFrequency) * (o_sqrt O ((((L O_getAlpha0) * (L O_getHarmonicNumber)) * (o_sqrt O (((L O_getRFVoltage) * (L O_getRFVoltage)) - (x6 * x6)))) / ((L C_two_pi) * (L O_getBeamEnergy))))) else (L O_getSyncFreq))) else (if o_lt O (L O_getStepsPerTsync) 1 then 1 else (L O_getStepsPerTsync)))).
Definition gen_linrf_f_RF (K : Fld) (O : Ops K) (L : leaf -> K) (B : bleaf -> bool) : K :=
    ((L O_getRevolutionFrequency) * (L O_getHarmonicNumber)).
Definition gen_drift_E0 (K : Fld) (O : Ops K) (L : leaf -> K) (B : bleaf -> bool) : K :=
    (L O_getBeamEnergy).
Definition gen_sinrf_revolutionpart (K : Fld) (O : Ops K) (L : leaf -> K) (B : bleaf -> bool) : K :=
    let x1 := (((L O_getBeamEnergy) / (L C_me)) * (((L O_getBeamEnergy) / (L C_me)) * (((L O_getBeamEnergy) / (L C_me)) * ((L O_getBeamEnergy) / (L C_me))))) in
    let x2 := ((L C_e) * x1) in
    let x3 := ((L C_c) / ((L C_two_pi) * (L O_getRevolutionFrequency))) in
    let x4 := (if (o_lt O 0 (L O_getBendingRadius)) then (L O_getBendingRadius) else x3) in
    let x5 := (((1+(1+1)) * (L C_epsilon0)) * x4) in
    let x6 := (x2 / x5) in
    let x7 := (x6 * x6) in
    let x8 := (((L O_getRFVoltage) * (L O_getRFVoltage)) - x7) in
    let x9 := (o_sqrt O x8) in
    let x10 := (((L O_getAlpha0) * (L O_getHarmonicNumber)) * x9) in
    let x11 := (x10 / ((L C_two_pi) * (L O_getBeamEnergy))) in
    let x12 := (o_sqrt O x11) in
    let x13 := ((L O_getRevolutionFrequency) * x12) in
    let x14 := (if (o_is0 O (L O_getSyncFreq)) then x13 else (L O_getSyncFreq)) in
    ((L O_getRevolutionFrequency) * (1 / (x14 * (if (o_lt O 0 (L O_getStepsPerTrev)) then (((L O_getStepsPerTrev) * (L O_getRevolutionFrequency)) / x14) else (if o_lt O (L O_getStepsPerTsync) 1 then 1 else (L O_getStepsPerTsync)))))).
Definition gen_sinrf_V_RF (K : Fld) (O : Ops K) (L : leaf -> K) (B : bleaf -> bool) : K :=
    let x1 := (((L O_getBeamEnergy) / (L C_me)) * (((L O_getBeamEnergy) / (L C_me)) * (((L O_getBeamEnergy) / (L C_me)) * ((L O_getBeamEnergy) / (L C_me))))) in
    let x2 := ((L C_e) * x1) in
    let x3 := ((L C_c) / ((L C_two_pi) * (L O_getRevolutionFrequency))) in
    let x4 := (if (o_lt O 0 (L O_getBendingRadius)) then (L O_getBendingRadius) else x3) in
    let x5 := (((1+(1+1)) * (L C_epsilon0)) * x4) in
    let x6 := (x2 / x5) in
    (o_sqrt O (((L O_getRFVoltage) * (L O_getRFVoltage)) - (x6 * x6))).
Definition gen_sinrf_f_RF (K : Fld) (O : Ops K) (L : leaf -> K) (B : bleaf -> bool) : K :=
    ((L O_getRevolutionFrequency) * (L O_getHarmonicNumber)).
Definition gen_sinrf_V0 (K : Fld) (O : Ops K) (L : leaf -> K) (B : bleaf -> bool) : K :=
    (((L C_e) * (((L O_getBeamEnergy) / (L C_me)) * (((L O_getBeamEnergy) / (L C_me)) * (((L O_getBeamEnergy) / (L C_me)) * ((L O_getBeamEnergy) / (L C_me)))))) / (((1+(1+1)) * (L C_epsilon0)) * (if (o_lt O 0 (L O_getBendingRadius)) then (L O_getBendingRadius) else ((L C_c) / ((L C_two_pi) * (L O_getRevolutionFrequency)))))).
Definition gen_dynrf_revolutionpart (K : Fld) (O : Ops K) (L : leaf -> K) (B : bleaf -> bool) : K :=
    let x1 := (((L O_getBeamEnergy) / (L C_me)) * (((L O_getBeamEnergy) / (L C_me)) * (((L O_getBeamEnergy) / (L C_me)) * ((L O_getBeamEnergy) / (L C_me))))) in
    let x2 := ((L C_e) * x1) in
    let x3 := ((L C_c) / ((L C_two_pi) * (L O_getRevolutionFrequency))) in
    let x4 := (if (o_lt O 0 (L O_getBendingRadius)) then (L O_getBendingRadius) else x3) in
    let x5 := (((1+(1+1)) * (L C_epsilon0)) * x4) in
    let x6 := (x2 / x5) in
    let x7 := (x6 * x6) in
    let x8 := (((L O_getRFVoltage) * (L O_getRFVoltage)) - x7) in
    let x9 := (o_sqrt O x8) in
    let x10 := (((L O_getAlpha0) * (L O_getHarmonicNumber)) * x9) in
    let x11 := (x10 / ((L C_two_pi) * (L O_getBeamEnergy))) in
    let x12 := (o_sqrt O x11) in
    let x13 := ((L O_getRevolutionFrequency) * x12) in
    let x14 := (if (o_is0 O (L O_getSyncFreq)) then x13 else (L O_getSyncFreq)) in
    ((L O_getRevolutionFrequency) * (1 / (x14 * (if (o_lt O 0 (L O_getStepsPerTrev)) then (((L O_getStepsPerTrev) * (L O_getRevolutionFrequency)) / x14) else (if o_lt O (L O_getStepsPerTsync) 1 then 1 else (L O_getStepsPerTsync)))))).
Definition gen_qmin (K : Fld) (O : Ops K) (L : leaf -> K) (B : bleaf -> bool) : K :=
    ((((- (L O_getPSShiftX)) * (L O_getPhaseSpaceSize)) / ((L O_getGridSize) - 1)) - ((L O_getPhaseSpaceSize) / (1+1))).
Definition gen_qmax (K : Fld) (O : Ops K) (L : leaf -> K) (B : bleaf -> bool) : K :=
    ((((- (L O_getPSShiftX)) * (L O_getPhaseSpaceSize)) / ((L O_getGridSize) - 1)) + ((L O_getPhaseSpaceSize) / (1+1))).
Definition gen_pmin (K : Fld) (O : Ops K) (L : leaf -> K) (B : bleaf -> bool) : K :=
    ((((- (L O_getPSShiftY)) * (L O_getPhaseSpaceSize)) / ((L O_getGridSize) - 1)) - ((L O_getPhaseSpaceSize) / (1+1))).
Definition gen_pmax (K : Fld) (O : Ops K) (L : leaf -> K) (B : bleaf -> bool) : K :=
    ((((- (L O_getPSShiftY)) * (L O_getPhaseSpaceSize)) / ((L O_getGridSize) - 1)) + ((L O_getPhaseSpaceSize) / (1+1))).
Definition gen_axis_steps (K : Fld) (O : Ops K) (L : leaf -> K) (B : bleaf -> bool) : K :=
    (L O_getGridSize).
Definition gen_ps_Meter (K : Fld) (O : Ops K) (L : leaf -> K) (B : bleaf -> bool) : K :=
    let x1 := (((L O_getBeamEnergy) / (L C_me)) * (((L O_getBeamEnergy) / (L C_me)) * (((L O_getBeamEnergy) / (L C_me)) * ((L O_getBeamEnergy) / (L C_me))))) in
    let x2 := ((L C_e) * x1) in
    let x3 := ((L C_c) / ((L C_two_pi) * (L O_getRevolutionFrequency))) in
    let x4 := (if (o_lt O 0 (L O_getBendingRadius)) then (L O_getBendingRadius) else x3) in
    let x5 := (((1+(1+1)) * (L C_epsilon0)) * x4) in
    let x6 := (x2 / x5) in
    let x7 := (x6 * x6) in
    let x8 := (((L O_getRFVoltage) * (L O_getRFVoltage)) - x7) in
    let x9 := (o_sqrt O x8) in
    ((((((L C_c) * ((L O_getEnergySpread) * (L O_getBeamEnergy))) / (L O_getHarmonicNumber)) / ((L O_getRevolutionFrequency) * (L O_getRevolutionFrequency))) / x9) * (if (o_is0 O (L O_getSyncFreq)) then ((L O_getRevolutionFrequency) * (o_sqrt O ((((L O_getAlpha0) * (L O_getHarmonicNumber)) * x9) / ((L C_two_pi) * (L O_getBeamEnergy))))) else (L O_getSyncFreq))).
Definition gen_ps_ElectronVolt (K : Fld) (O : Ops K) (L : leaf -> K) (B : bleaf -> bool) : K :=
    ((L O_getEnergySpread) * (L O_getBeamEnergy)).
