(* GENERATED on every run by translate/track2coq.py from KickMap::applyTo, FokkerPlanckMap::applyTo,
   PhaseSpace::x/y/q/p/_qp, HDF5File::appendTracks, main(), DynamicRFKickMap::apply/_calcKick and the class
   declarations of inc/SM/*.hpp (which applyTo a virtual call runs) of the repository's working tree.  Do not edit.  Vocabulary: Model/TrackX.v. *)
From Coq Require Import List ZArith QArith Qcanon Bool String.
From Inovesa Require Import Base.FieldKit Base.Float32 Model.Kick Model.Tracking Model.StepKinds Model.TrackX.
Import ListNotations.
Local Open Scope Z_scope.

Definition gen_kick_x_clamp (pd : Z) (kd : Z) (v : xval) : xval :=
  xmax (XF (Qcz 1)) (xmin v (XF (Qcz (wrap32 (kd - 1))))).
(** KickMap::applyTo, branch `_kickdirection == Axis::x` *)
Definition gen_kick_x (pd : Z) (kd : Z) (offs : Z -> Qc) (x y : Qc) : xval * xval :=
  let yif := Qctrunc y in
  let yf := Qcfrac y in
  let yi := f2u yif in
  let guard := ((wrap32 (yi + 1)) <? pd) in
  let pos_x := (x - (((((((Qcz 1) - yf)%Qc) * (offs yi))%Qc) + ((yf * (offs (wrap32 (yi + 1))))%Qc))%Qc))%Qc in
  let pos_x' := if guard then pos_x else x in
  let pos_x'' := gen_kick_x_clamp pd kd (XF pos_x') in
  (pos_x'', XF y).

Definition gen_kick_y_clamp (pd : Z) (kd : Z) (v : xval) : xval :=
  xmax (XF (Qcz 1)) (xmin v (XF (Qcz (wrap32 (kd - 1))))).
(** KickMap::applyTo, branch `_kickdirection == Axis::y` *)
Definition gen_kick_y (pd : Z) (kd : Z) (offs : Z -> Qc) (x y : Qc) : xval * xval :=
  let xif := Qctrunc x in
  let xf := Qcfrac x in
  let xi := f2u xif in
  let guard := ((wrap32 (xi + 1)) <? pd) in
  let pos_y := (y - (((((((Qcz 1) - xf)%Qc) * (offs xi))%Qc) + ((xf * (offs (wrap32 (xi + 1))))%Qc))%Qc))%Qc in
  let pos_y' := if guard then pos_y else y in
  let pos_y'' := gen_kick_y_clamp pd kd (XF pos_y') in
  (XF x, pos_y'').

(** FokkerPlanckMap::applyTo, case none, default *)
Definition gen_fp_none (n : Z) (nx : Z) (ip : Z) (H : Z -> Z * Qc) (D : Z -> Qc) (e1 : Qc) (zb0 : Qc) (zb1 : Qc) (noise : Qc) (x y : Qc) : xval * xval :=
  (XF x, XF y).

Definition gen_fp_approximation1_clamp (n : Z) (nx : Z) (v : xval) : xval :=
  xmax (XF (Qcz 1)) (xmin v (XF (Qcz (wrap32 (n - 1))))).
(** FokkerPlanckMap::applyTo, case approximation1 *)
Definition gen_fp_approximation1 (n : Z) (nx : Z) (ip : Z) (H : Z -> Z * Qc) (D : Z -> Qc) (e1 : Qc) (zb0 : Qc) (zb1 : Qc) (noise : Qc) (x y : Qc) : xval * xval :=
  let yi := Z.min (f2u (Qcfloor y)) n in
  let offset := qsum (map (fun j => let h := H (wrap32 ((wrap32 (yi * ip)) + j)) in let dy := ((Qcz yi) - (Qcz (fst h)))%Qc in (dy * (snd h))%Qc) (zrange ip)) in
  let pos_y := gen_fp_approximation1_clamp n nx (XF ((y + offset)%Qc)) in
  (XF x, pos_y).

Definition gen_fp_approximation2_clamp (n : Z) (nx : Z) (v : xval) : xval :=
  xmax (XF (Qcz 1)) (xmin v (XF (Qcz (wrap32 (n - 1))))).
(** FokkerPlanckMap::applyTo, case approximation2 *)
Definition gen_fp_approximation2 (n : Z) (nx : Z) (ip : Z) (H : Z -> Z * Qc) (D : Z -> Qc) (e1 : Qc) (zb0 : Qc) (zb1 : Qc) (noise : Qc) (x y : Qc) : xval * xval :=
  let xi := u2s (Z.min (f2u (Qcfloor x)) (wrap32 (nx - 1))) in
  let yi := Z.min (f2s (Qcfloor y)) (u2s (wrap32 (n - 1))) in
  let offs := wrap32 ((wrap32 xi) * n) in
  let charge := qsum (map (fun j => let h := H ((yi * ip) + j) in ((D (wrap32 (offs + (fst h)))) * (snd h))%Qc) (zrange ip)) in
  let offset := qsum (map (fun j => let h := H ((yi * ip) + j) in ((((D (wrap32 (offs + (fst h)))) * (snd h))%Qc) * (Qcz ((u2s (fst h)) - yi)))%Qc) (zrange ip)) in
  let offset' := xdivq offset charge in
  let pos_y := gen_fp_approximation2_clamp n nx (xadd (XF y) offset') in
  (XF x, pos_y).

Definition gen_fp_stochastic_clamp (n : Z) (nx : Z) (v : xval) : xval :=
  xmax (XF (Qcz 1)) (xmin v (XF (Qcz (wrap32 (n - 1))))).
(** FokkerPlanckMap::applyTo, case stochastic *)
Definition gen_fp_stochastic (n : Z) (nx : Z) (ip : Z) (H : Z -> Z * Qc) (D : Z -> Qc) (e1 : Qc) (zb0 : Qc) (zb1 : Qc) (noise : Qc) (x y : Qc) : xval * xval :=
  let pos_y := (y - ((((((y - zb1)%Qc) * e1)%Qc) + noise)%Qc))%Qc in
  let pos_y' := gen_fp_stochastic_clamp n nx (XF pos_y) in
  (XF x, pos_y').

(** dispatch of the switch over _fptrack (enum values as clang evaluates them; other values: the `default` label) *)
Definition gen_fp_applyTo (fptrack : Z) (n : Z) (nx : Z) (ip : Z) (H : Z -> Z * Qc) (D : Z -> Qc) (e1 : Qc) (zb0 : Qc) (zb1 : Qc) (noise : Qc) (x y : Qc) : xval * xval :=
  if fptrack =? 0 then gen_fp_none n nx ip H D e1 zb0 zb1 noise x y else
  if fptrack =? 1 then gen_fp_approximation1 n nx ip H D e1 zb0 zb1 noise x y else
  if fptrack =? 2 then gen_fp_approximation2 n nx ip H D e1 zb0 zb1 noise x y else
  if fptrack =? 3 then gen_fp_stochastic n nx ip H D e1 zb0 zb1 noise x y else
  gen_fp_none n nx ip H D e1 zb0 zb1 noise x y.

Definition gen_fp_enum : list (Z * nat) := [(0, 0%nat); (1, 1%nat); (2, 2%nat); (3, 3%nat)].

(** PhaseSpace::x: physical coordinate -> grid coordinate (tracking file -> particle) *)
Definition gen_ps_x (nx : Z) (ny : Z) (amin0 : Qc) (adelta0 : Qc) (amin1 : Qc) (adelta1 : Qc) (c : Qc) : xval :=
  xmin (xmax (XF (Qcz 0)) (xdivq ((c - amin0)%Qc) adelta0)) (XF (((Qcz nx) - (Qcz 1))%Qc)).

(** PhaseSpace::y: physical coordinate -> grid coordinate (tracking file -> particle) *)
Definition gen_ps_y (nx : Z) (ny : Z) (amin0 : Qc) (adelta0 : Qc) (amin1 : Qc) (adelta1 : Qc) (c : Qc) : xval :=
  xmin (xmax (XF (Qcz 0)) (xdivq ((c - amin1)%Qc) adelta1)) (XF (((Qcz ny) - (Qcz 1))%Qc)).

(** PhaseSpace::q / p -> _qp(axis, n) -> _axis[axis]->at(n): the axis array each lookup reads *)
Definition gen_axis_of (f : axfn) : Z := match f with AxQ => 0 | AxP => 1 end.

(** HDF5File::appendTracks: physcords.push_back({_ps->F(pos.c), _ps->G(pos.d)}) with the float -> unsigned conversion
    of the argument ([f2u (Qctrunc c)], see [append_entry]) *)
Definition gen_append_first : axfn * coord := (AxQ, CX).
Definition gen_append_second : axfn * coord := (AxP, CY).

(** main(): `trackme.push_back({grid_t1->F(a), grid_t1->G(b)})` in `while (file >> a >> b)` *)
Definition gen_load_first : ldfn * fcol := (LdX, Col1).
Definition gen_load_second : ldfn * fcol := (LdY, Col2).

(** main(), simulation loop: the apply() / applyToAll(trackme) statements in program order *)
Definition gen_track_events : list tevent := [TApply MWake; TTrack MWake; TApply MRF; TTrack MRF; TApply MDrift; TTrack MDrift; TApply MFP; TTrack MFP].

(** DynamicRFKickMap::apply: its statements in program order *)
Definition gen_dyn_apply : list dynstmt := [DCalcKick; DKickApply; DPushPast; DPop].
(** DynamicRFKickMap::_calcKick: RFKickMap::_calcKick(front()[0], front()[1]) - components handed over as (phase, amplitude) *)
Definition gen_dyn_calckick_args : Z * Z := (0, 1).

(** class hierarchy below SourceMap as declared in inc/SM/*.hpp: (class, the class whose applyTo body the virtual call in
    SourceMap::applyToAll runs for an object of that class) - the nearest class on the way up to SourceMap that declares applyTo *)
Definition gen_applyTo_dispatch : list (string * string) :=
  [("DriftMap", "KickMap"); ("DynamicRFKickMap", "KickMap"); ("FokkerPlanckMap", "FokkerPlanckMap"); ("Identity", "Identity"); ("KickMap", "KickMap"); ("RFKickMap", "KickMap"); ("RotationMap", "RotationMap"); ("WakeKickMap", "KickMap"); ("WakePotentialMap", "KickMap")]%string.
(** main(): the classes it stores in the variables it calls `->applyToAll(trackme)` on, with the kind of the variable *)
Definition gen_tracked_classes : list (smap * string) :=
  [(MWake, "Identity"); (MWake, "WakePotentialMap"); (MRF, "DynamicRFKickMap"); (MRF, "RFKickMap"); (MDrift, "DriftMap"); (MFP, "FokkerPlanckMap"); (MFP, "Identity")]%string.
(** the applyTo bodies this file holds: KickMap::applyTo (gen_kick_x, gen_kick_y), FokkerPlanckMap::applyTo (gen_fp_applyTo),
    Identity::applyTo (checked: empty body) *)
Definition gen_applyTo_read : list string := ["KickMap"; "FokkerPlanckMap"; "Identity"]%string.
