(* GENERATED on every run by translate/updatesm2coq.py from KickMap::updateSM and the KickMap / SourceMap
   constructors (src/SM/KickMap.cpp, src/SM/SourceMap.cpp). Do not edit.  Vocabulary: Model/UsmOps.v.
   kd: _meshsize_kd; o: _offset[usm_gen_offset_index i]; q / xip: integer / fractional part of std::modf;
   jd: q converted to unsigned; j1: stencil point; j0: the source index AFTER its reduction modulo 2^usm_j0_bits
   (usm_j0 is the expression before the reduction); smc: the array calcCoefficiants filled. *)
From Coq Require Import List ZArith QArith Qcanon Bool.
From Inovesa Require Import Base.FieldKit Base.Float32 Model.UsmOps.
Local Open Scope Z_scope.
(* KickMap constructor: what SourceMap receives for _ip and _it *)
Definition usm_ip_of (it : Z) : Z := it.
Definition usm_it_of (it : Z) : Z := it.
(* loop over the offsets *)
Definition usm_gen_bound (offset_size ip it : Z) : Z := offset_size.
Definition usm_gen_offset_index (i : Z) : Z := i.
(* poffs and std::modf *)
Definition usm_poffs (kd : Z) (o : Qc) : Qc := (f32add (i2f32 (kd / 2)) o).
Definition usm_qpint (kd : Z) (o : Qc) : Qc := (modf_int (usm_poffs kd o)).
Definition usm_xip (kd : Z) (o : Qc) : Qc := (modf_frac (usm_poffs kd o)).
(* the guard; the float -> unsigned conversion and whether it is executed under the guard only *)
Definition usm_jd (kd : Z) (q : Qc) : Z := fcvt_val 32 q.
Definition usm_jd_defined (kd : Z) (q : Qc) : bool := fcvt_ok 32 q.
Definition usm_guard (kd : Z) (q : Qc) : bool := ((fle (Qcz 0) q) && (flt q (i2f32 kd))).
Definition usm_conv_ok (kd : Z) (o : Qc) : bool :=
  let q := usm_qpint kd o in if usm_guard kd q then usm_jd_defined kd q else true.
(* calcCoefficiants *)
Definition usm_smc (it : Z) (xip : Qc) (j : Z) : Qc := coefQ it xip j.
(* inside the guard: stencil loop, source index, range test, entry written *)
Definition usm_in_count (ip it : Z) : Z := it.
Definition usm_j0 (kd it jd j1 : Z) : Z := ((jd + j1) - (Z.quot (it - 1) 2)).
Definition usm_j0_bits : Z := 32.
Definition usm_j0_test (kd it j0 j1 : Z) : bool := (j0 <? kd).
Definition usm_in_index (kd it j0 j1 : Z) : Z := j0.
Definition usm_in_weight (smc : Z -> Qc) (kd it j0 j1 : Z) : Qc := (smc j1).
Definition usm_out_index (kd it j0 j1 : Z) : Z := (kd / 2).
Definition usm_out_weight (smc : Z -> Qc) (kd it j0 j1 : Z) : Qc := (Qcz 0).
Definition usm_in_slot (ip it i j1 : Z) : Z := ((i * ip) + j1).
(* outside the guard *)
Definition usm_off_count (ip it : Z) : Z := it.
Definition usm_off_index (kd it j1 : Z) : Z := (kd / 2).
Definition usm_off_weight (kd it j1 : Z) : Qc := (Qcz 0).
Definition usm_off_slot (ip it i j1 : Z) : Z := ((i * ip) + j1).
Definition usm_slot_bits : Z := 64.
(* the entry written for offset o and stencil point j1 *)
Definition usm_entry (kd it : Z) (o : Qc) (j1 : Z) : Z * Qc :=
  let q := usm_qpint kd o in
  if usm_guard kd q then
    let smc := usm_smc it (usm_xip kd o) in
    let j0 := wrapu usm_j0_bits (usm_j0 kd it (usm_jd kd q) j1) in
    if usm_j0_test kd it j0 j1 then (usm_in_index kd it j0 j1, usm_in_weight smc kd it j0 j1)
    else (usm_out_index kd it j0 j1, usm_out_weight smc kd it j0 j1)
  else (usm_off_index kd it j1, usm_off_weight kd it j1).
(* one iteration of the loop over the offsets, and the whole loop, on the table h *)
Definition usm_row (kd ip it i : Z) (o : Qc) (h : Z -> Z * Qc) : Z -> Z * Qc :=
  if usm_guard kd (usm_qpint kd o) then
    fold_left (fun h' j1 => usm_upd h' (wrapu usm_slot_bits (usm_in_slot ip it i j1)) (usm_entry kd it o j1))
              (zrange (usm_in_count ip it)) h
  else
    fold_left (fun h' j1 => usm_upd h' (wrapu usm_slot_bits (usm_off_slot ip it i j1)) (usm_entry kd it o j1))
              (zrange (usm_off_count ip it)) h.
Definition usm_update (kd ip it size : Z) (offs : Z -> Qc) (h : Z -> Z * Qc) : Z -> Z * Qc :=
  fold_left (fun h' i => usm_row kd ip it i (offs (usm_gen_offset_index i)) h') (zrange (usm_gen_bound size ip it)) h.
