(* GENERATED on every run by translate/steporder2coq.py from src/main.cpp
   (main simulation loop of main()). Do not edit. *)
From Coq Require Import List.
From Inovesa Require Import Model.StepKinds.
Import ListNotations.
Definition step_events : list sevent := [EUpdate; EApply MWake; EApply MRF; EApply MDrift; EApply MFP; EXProj].
Definition step_order : list smap := [MWake; MRF; MDrift; MFP].
