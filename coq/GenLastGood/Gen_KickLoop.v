(* GENERATED on every run by translate/kickloop2coq.py from KickMap::apply (src/SM/KickMap.cpp, CPU branch). Do not edit.
   The function body is `data_in = _in->getData(); data_out = _out->getData(); if (_kickdirection == Axis::x) NEST else NEST`,
   NEST (kxl_*: kick along x, kyl_*: kick along y):
   for b in [P_b_lo, P_b_hi)  for x in [P_x_lo, P_x_hi)  for y in [P_y_lo, P_y_hi) {
     value = 0;  for j in [P_j_lo, P_j_hi) { h = _hinfo[P_hinfo]; s = (uint32) P_src h.index;
                                             if (s < P_bound) value += data_in[P_read s] * h.weight }
     data_out[P_write] = value }
   with increments ++ and NO other statement (no other conditional, no continue, break, return or call: the translator
   refuses them).  nb: PhaseSpace::nb, kd/pd: _meshsize_kd/_meshsize_pd, ip: _ip, lastbunch: _lastbunch; b: the bunch loop
   variable `n`.  kl_members: every member of the map the CPU branch mentions. *)
From Coq Require Import ZArith String List.
Import ListNotations.
Local Open Scope Z_scope.
Definition kxl_b_lo (nb kd pd ip lastbunch : Z) : Z := 0.
Definition kxl_b_hi (nb kd pd ip lastbunch : Z) : Z := nb.
Definition kxl_x_lo (nb kd pd ip lastbunch b : Z) : Z := 0.
Definition kxl_x_hi (nb kd pd ip lastbunch b : Z) : Z := kd.
Definition kxl_y_lo (nb kd pd ip lastbunch b x : Z) : Z := 0.
Definition kxl_y_hi (nb kd pd ip lastbunch b x : Z) : Z := pd.
Definition kxl_j_lo (nb kd pd ip lastbunch b x y : Z) : Z := 0.
Definition kxl_j_hi (nb kd pd ip lastbunch b x y : Z) : Z := ip.
Definition kxl_hinfo (nb kd pd ip lastbunch b x y j : Z) : Z := ((y * ip) + j).
Definition kxl_src (nb kd pd ip lastbunch b x y j hindex : Z) : Z := ((x + hindex) - (pd / 2)).
Definition kxl_bound (nb kd pd ip lastbunch b x y j : Z) : Z := pd.
Definition kxl_read (nb kd pd ip lastbunch b x y j src : Z) : Z := ((((b * kd) * pd) + (src * pd)) + y).
Definition kxl_write (nb kd pd ip lastbunch b x y : Z) : Z := ((((b * kd) * pd) + (x * pd)) + y).
Definition kyl_b_lo (nb kd pd ip lastbunch : Z) : Z := 0.
Definition kyl_b_hi (nb kd pd ip lastbunch : Z) : Z := nb.
Definition kyl_x_lo (nb kd pd ip lastbunch b : Z) : Z := 0.
Definition kyl_x_hi (nb kd pd ip lastbunch b : Z) : Z := pd.
Definition kyl_y_lo (nb kd pd ip lastbunch b x : Z) : Z := 0.
Definition kyl_y_hi (nb kd pd ip lastbunch b x : Z) : Z := kd.
Definition kyl_j_lo (nb kd pd ip lastbunch b x y : Z) : Z := 0.
Definition kyl_j_hi (nb kd pd ip lastbunch b x y : Z) : Z := ip.
Definition kyl_hinfo (nb kd pd ip lastbunch b x y j : Z) : Z := (((((Z.min b lastbunch) * pd) + x) * ip) + j).
Definition kyl_src (nb kd pd ip lastbunch b x y j hindex : Z) : Z := ((y + hindex) - (kd / 2)).
Definition kyl_bound (nb kd pd ip lastbunch b x y j : Z) : Z := pd.
Definition kyl_read (nb kd pd ip lastbunch b x y j src : Z) : Z := ((((b * kd) * pd) + (x * kd)) + src).
Definition kyl_write (nb kd pd ip lastbunch b x y : Z) : Z := ((((b * kd) * pd) + (x * kd)) + y).
Definition kl_members : list string := ["PhaseSpace::nb"; "_hinfo"; "_in"; "_ip"; "_kickdirection"; "_lastbunch"; "_meshsize_kd"; "_meshsize_pd"; "_out"]%string.
