(* GENERATED on every run by translate/mainloop2coq.py from src/main.cpp (main, from
   "Starting the simulation." to return). Do not edit.
   skipped (no effect on the modelled state): updatetime = 2; h5save = opts.getSavePhaseSpace(); outstepnr = 0; simulationstep = 0
   local constants replaced by their (pure) initialisers: none *)
From Coq Require Import List ZArith String.
From Inovesa Require Import Model.Driver Model.Setup Model.Observers.
Import ListNotations.
Local Open Scope Z_scope.
Definition main_pre : blk :=
  Seq (Point 0)
  (Seq UpdateXProj
  (Seq (Point 1)
  (Seq Integrate
  (Seq (Point 2)
  (Seq UpdateYProj
  (Seq (Point 3)
  (Seq (Variance true)
  (Seq (Point 4)
  (Seq (Print MStatus)
  (Seq (Point 5)
  (Cond GHdf
    (Cond GWake
      (Seq WakePotential
      (Seq (Point 6)
      (Seq (Append APadded)
      (Seq (Point 7)
      (Done)))))
      (Done)
    (Cond GSave0
      (Seq (Append (AGrid AtPS))
      (Seq (Point 8)
      (Done)))
      (Done)
    (Done)))
    (Done)
  (Seq (Point 9)
  (Done))))))))))))).
Definition main_body : blk :=
  Seq (Point 10)
  (Cond GWake
    (Seq WkmUpdate
    (Seq (Point 11)
    (Done)))
    (Done)
  (Cond GRenorm
    (Seq IntegrateAndNormalize
    (Seq (Point 12)
    (Done)))
    (Seq Integrate
    (Seq (Point 13)
    (Done)))
  (Seq (Point 14)
  (Cond GOut
    (Seq Integrate
    (Seq (Point 15)
    (Seq (Variance false)
    (Seq (Point 16)
    (Seq UpdateYProj
    (Seq (Point 17)
    (Seq (Variance true)
    (Seq (Point 18)
    (Cond GHdf
      (Seq (Append (AGrid AtIfSave))
      (Seq (Point 19)
      (Seq UpdateCSR
      (Seq (Point 20)
      (Seq (Append ACsr)
      (Seq (Point 21)
      (Cond GWake
        (Seq (Append AWake)
        (Seq (Point 22)
        (Done)))
        (Done)
      (Seq (Append ATracks)
      (Seq (Point 23)
      (Cond GDynRF
        (Seq (Append ARFKicks)
        (Seq (Point 24)
        (Done)))
        (Done)
      (Done)))))))))))
      (Done)
    (Seq IncOutNr
    (Seq (Point 25)
    (Seq (Print MStatus)
    (Seq (Point 26)
    (Done))))))))))))))
    (Done)
  (Seq (Point 27)
  (Seq (Apply MWake)
  (Seq (Point 28)
  (Seq (Track MWake)
  (Seq (Point 29)
  (Seq (Apply MRF)
  (Seq (Point 30)
  (Seq (Track MRF)
  (Seq (Point 31)
  (Seq (Apply MDrift)
  (Seq (Point 32)
  (Seq (Track MDrift)
  (Seq (Point 33)
  (Seq (Apply MFP)
  (Seq (Point 34)
  (Seq (Track MFP)
  (Seq (Point 35)
  (Seq UpdateXProj
  (Seq (Point 36)
  (Seq IncStep
  (Seq (Point 37)
  (Done)))))))))))))))))))))))))).
Definition main_post : blk :=
  Seq (Point 38)
  (Cond GHdf
    (Cond GWake
      (Seq WkmUpdate
      (Seq (Point 39)
      (Done)))
      (Done)
    (Cond GRenorm
      (Seq IntegrateAndNormalize
      (Seq (Point 40)
      (Done)))
      (Seq Integrate
      (Seq (Point 41)
      (Done)))
    (Seq (Variance false)
    (Seq (Point 42)
    (Seq UpdateYProj
    (Seq (Point 43)
    (Seq (Variance true)
    (Seq (Point 44)
    (Seq (Append (AGrid AtAll))
    (Seq (Point 45)
    (Seq UpdateCSR
    (Seq (Point 46)
    (Seq (Append ACsr)
    (Seq (Point 47)
    (Cond GWake
      (Seq (Append AWake)
      (Seq (Point 48)
      (Done)))
      (Done)
    (Seq (Append ATracks)
    (Seq (Point 49)
    (Cond GDynRF
      (Seq (Append ARFKicks)
      (Seq (Point 50)
      (Done)))
      (Done)
    (Cond GWake
      (Seq (Append APadded)
      (Seq (Point 51)
      (Done)))
      (Done)
    (Done))))))))))))))))))))
    (Done)
  (Seq (Point 52)
  (Seq (Print MStatus)
  (Seq (Point 53)
  (Seq (Free OWakeField)
  (Seq (Free OWm)
  (Seq (Free OFpm)
  (Seq (Point 54)
  (Cond GAbort
    (Seq (Print MAborted)
    (Done))
    (Seq (Print MFinished)
    (Done))
  (Seq (Point 55)
  (Seq Exit
  (Done)))))))))))).
Definition main_prog : prog := mkprog main_pre main_body main_post.
(* the set-up, from the statement after the installation of the SIGINT handler to "Starting the simulation.":
   control skeleton (Model/Setup.v); hook point i of setup_point_names is `Point (-(i+1))`; SOpq n / COpq n: n = source
   line of the (first) statement *)
Definition main_setup : sblk :=
  SCall (Point (-1))
  (SOpq 94
  (STry
    (SIf (COpq 96)
      (SReturn 0)
      (SDone)
    (SDone))
    (SOpq 100
    (SReturn 1))
  (SCall (Point (-2))
  (SOpq 109
  (SIf (COpq 112)
    (SOpq 120
    (SReturn 0))
    (SDone)
  (SCall (Point (-3))
  (SOpq 131
  (SCall (Point (-4))
  (SOpq 148
  (SCall (Point (-5))
  (SOpq 169
  (SOpq 182
  (SOpq 183
  (SCall (Point (-6))
  (SOpq 256
  (SIf (COpq 283)
    (SOpq 284
    (SReturn 0))
    (SDone)
  (SOpq 290
  (SCall (Point (-7))
  (SOpq 382
  (SIf (COpq 401)
    (SOpq 407
    (SIf (COpq 419)
      (SOpq 420
      (SOpq 421
      (SOpq 422
      (SOpq 424
      (SOpq 427
      (SOpq 428
      (SOpq 429
      (SOpq 431
      (SOpq 432
      (SOpq 433
      (SOpq 438
      (SOpq 440
      (SOpq 441
      (SOpq 442
      (SDone)))))))))))))))
      (SDone)
    (SDone)))
    (SDone)
  (SIf (COpq 447)
    (SOpq 448
    (SOpq 449
    (SOpq 453
    (SOpq 456
    (SOpq 457
    (SOpq 458
    (SOpq 460
    (SOpq 472
    (SDone)))))))))
    (SDone)
  (SCall (Point (-8))
  (SOpq 485
  (SIf (COpq 495)
    (SOpq 504
    (SDone))
    (SOpq 513
    (SIf (COpq 529)
      (SOpq 531
      (SIf (COpq 536)
        (SOpq 537
        (SReturn 0))
        (SDone)
      (SIf (COpq 540)
        (SOpq 541
        (SReturn 0))
        (SDone)
      (SDone))))
      (SIf (COpq 547)
        (SOpq 548
        (SDone))
        (SOpq 553
        (SReturn 0))
      (SDone))
    (SDone)))
  (SCall (Point (-9))
  (SIf (CGuard GRenorm0)
    (SCall UpdateXProj
    (SCall Normalize
    (SDone)))
    (SDone)
  (SCall (Point (-10))
  (SOpq 567
  (SCall (Point (-11))
  (SOpq 572
  (SIf (COpq 579)
    (SOpq 580
    (SOpq 581
    (SOpq 582
    (SDone))))
    (SDone)
  (SCall (Point (-12))
  (SOpq 629
  (SCall (Point (-13))
  (SOpq 688
  (SCall (Point (-14))
  (SOpq 714
  (SCall (Point (-15))
  (SOpq 720
  (SIf (COpq 724)
    (SOpq 726
    (SIf (COpq 727)
      (SOpq 729
      (SReturn 0))
      (SDone)
    (SOpq 734
    (SDone))))
    (SOpq 752
    (SDone))
  (SCall (Point (-16))
  (SOpq 764
  (SCall (Point (-17))
  (SOpq 772
  (SCall (Point (-18))
  (SOpq 781
  (SCall (Point (-19))
  (SOpq 791
  (SCall (Point (-20))
  (SOpq 821
  (SCall (Point (-21))
  (SCall (Point (-22))
  (SOpq 898
  (SIf (COpq 899)
    (SOpq 901
    (SCall (Point (-23))
    (STry
      (SOpq 905
      (SCall (Point (-24))
      (SOpq 908
      (SCall (Point (-25))
      (SOpq 911
      (SCall (Point (-26))
      (SDone)))))))
      (SOpq 920
      (SSetAbort
      (SDone)))
    (SDone))))
    (SIf (COpq 933)
      (SOpq 934
      (SDone))
      (SOpq 936
      (SReturn 0))
    (SDone))
  (SCall (Point (-27))
  (SOpq 942
  (SDone))))))))))))))))))))))))))))))))))))))))))))))))))))))))).
(* opaque conditions of the set-up: (n, text) *)
Definition setup_conds : list (Z * string) :=
  [(96, "!opts.parse(argc, argv)"%string);
   (112, "ofname.empty() && !opts.getForceRun()"%string);
   (283, "nbunches == 0"%string);
   (401, "fpclassify(gap) == 2"%string);
   (419, "verbose && use_csr"%string);
   (447, "verbose"%string);
   (495, "startdistfile.empty()"%string);
   (529, "isOfFileType('.h5', startdistfile) || isOfFileType('.hdf5', startdistfile)"%string);
   (536, "grid_t1 == nullptr"%string);
   (540, "nx != ps_bins"%string);
   (547, "isOfFileType('.txt', startdistfile)"%string);
   (579, "verbose"%string);
   (724, "e1 > 0"%string);
   (727, "derivationtype == cubic && !(zerobin >= 1 && zerobin <= ps_bins - 2)"%string);
   (899, "isOfFileType('.h5', ofname) || isOfFileType('.hdf5', ofname)"%string);
   (933, "ofname.empty()"%string)].
(* opaque statements of the set-up: (n, number of consecutive statements merged into it) *)
Definition setup_opaque : list (Z * Z) :=
  [(94, 1); (100, 1); (109, 1); (120, 1); (131, 2); (148, 1); (169, 5); (182, 1); (183, 32); (256, 6); (284, 1); (290, 33); (382, 4); (407, 4); (420, 1); (421, 1); (422, 1); (424, 1); (427, 1); (428, 1); (429, 1); (431, 1); (432, 1); (433, 1); (438, 1); (440, 1); (441, 1); (442, 1); (448, 1); (449, 1); (453, 1); (456, 1); (457, 1); (458, 1); (460, 1); (472, 1); (485, 1); (504, 3); (513, 1); (531, 1); (537, 1); (541, 1); (548, 1); (553, 1); (567, 2); (572, 2); (580, 1); (581, 1); (582, 1); (629, 3); (688, 9); (714, 1); (720, 2); (726, 1); (729, 1); (734, 9); (752, 2); (764, 2); (772, 2); (781, 1); (791, 4); (821, 2); (898, 1); (901, 2); (905, 1); (908, 2); (911, 2); (920, 1); (934, 1); (936, 1); (942, 1)].
(* observer options (verbosity): variables of main() initialised by opts.getVerbosity() *)
Definition observer_vars : list string :=
  ["verbose"%string].
(* opaque conditions of the set-up that read an observer option *)
Definition setup_observer_conds : list Z :=
  [419; 447; 579].
(* opaque statements / conditions of the set-up the translator found pure (only const member functions of objects declared outside,
   writes to log sinks, block-local and report-only variables): everything under an observer guard has to be in this list *)
Definition setup_pure_opaque : list Z :=
  [182; 419; 420; 421; 422; 424; 427; 428; 429; 431; 432; 433; 438; 440; 441; 442; 447; 448; 449; 453; 456; 457; 458; 460; 472; 579; 580; 581; 582].
(* what the statements / conditions under an observer guard of the set-up do: (n, effects) *)
Definition setup_observed_effects : list (Z * list oeff) :=
  [(419, []);
   (420, []);
   (421, []);
   (422, []);
   (424, []);
   (427, []);
   (428, []);
   (429, []);
   (431, []);
   (432, []);
   (433, []);
   (438, []);
   (440, []);
   (441, []);
   (442, []);
   (447, []);
   (448, []);
   (449, []);
   (453, []);
   (456, []);
   (457, []);
   (458, []);
   (460, [OConst "opts"%string "getStepsPerTrev"%string]);
   (472, []);
   (579, []);
   (580, []);
   (581, []);
   (582, [])].
(* variables assigned under an observer guard whose every use only reports (log, /Info attribute, other such variables) *)
Definition report_only_vars : list string :=
  ["shield"%string].
(* observer-guarded statements of the simulation part (NOT part of main_prog): line, condition, effects *)
Definition loop_observers : list ostmt :=
  [].
(* VERIF_POINT labels of the translated part, index = argument of Point *)
Definition point_names : list (Z * string) :=
  [(0, "sim:start"%string);
   (1, "pre:xproj"%string);
   (2, "pre:integrate"%string);
   (3, "pre:yproj"%string);
   (4, "pre:variance1"%string);
   (5, "pre:status"%string);
   (6, "pre:wakepotential"%string);
   (7, "pre:padded"%string);
   (8, "pre:ps0"%string);
   (9, "pre:done"%string);
   (10, "loop:head"%string);
   (11, "loop:wkm_updated"%string);
   (12, "loop:renormalized"%string);
   (13, "loop:integrated"%string);
   (14, "loop:before_out"%string);
   (15, "out:integrate"%string);
   (16, "out:variance0"%string);
   (17, "out:yproj"%string);
   (18, "out:variance1"%string);
   (19, "out:grid"%string);
   (20, "out:csr"%string);
   (21, "out:csr_appended"%string);
   (22, "out:wake_appended"%string);
   (23, "out:tracks"%string);
   (24, "out:rfkicks"%string);
   (25, "out:counted"%string);
   (26, "out:status"%string);
   (27, "loop:after_out"%string);
   (28, "step:wake"%string);
   (29, "step:wake_tracked"%string);
   (30, "step:rf"%string);
   (31, "step:rf_tracked"%string);
   (32, "step:drift"%string);
   (33, "step:drift_tracked"%string);
   (34, "step:fp"%string);
   (35, "step:fp_tracked"%string);
   (36, "step:xproj"%string);
   (37, "loop:step_counted"%string);
   (38, "fin:loop_left"%string);
   (39, "fin:wkm_updated"%string);
   (40, "fin:renormalized"%string);
   (41, "fin:integrated"%string);
   (42, "fin:variance0"%string);
   (43, "fin:yproj"%string);
   (44, "fin:variance1"%string);
   (45, "fin:grid"%string);
   (46, "fin:csr"%string);
   (47, "fin:csr_appended"%string);
   (48, "fin:wake_appended"%string);
   (49, "fin:tracks"%string);
   (50, "fin:rfkicks"%string);
   (51, "fin:padded"%string);
   (52, "fin:file_done"%string);
   (53, "fin:status"%string);
   (54, "fin:freed"%string);
   (55, "fin:message"%string)].
(* VERIF_POINT labels of the set-up, in source order (not all are executed in every run) *)
Definition setup_point_names : list string :=
  ["setup:handler_installed"%string; "setup:options_parsed"%string; "setup:nothing_to_do_passed"%string; "setup:display_made"%string; "setup:device_chosen"%string; "setup:machine_parameters"%string; "setup:scaling_done"%string; "setup:parameters_reported"%string; "setup:grid_made"%string; "setup:initial_renormalisation"%string; "setup:grids_copied"%string; "setup:before_rf"%string; "setup:rf_made"%string; "setup:before_drift"%string; "setup:drift_made"%string; "setup:fp_made"%string; "setup:wake_impedance"%string; "setup:rdtn_impedance"%string; "setup:rdtn_field"%string; "setup:wake_made"%string; "setup:tracking_loaded"%string; "setup:before_file"%string; "setup:config_saved"%string; "setup:file_created"%string; "setup:options_in_file"%string; "setup:file_parameters"%string; "setup:outputs_ready"%string].
(* every reference to Display::abort in main(): (source line, is a write, lies in the translated part) *)
Definition abort_refs : list (Z * bool * bool) :=
  [(922, true, false); (1017, false, true); (1233, false, true)].
(* every write of Display::abort outside main.cpp (each one is `abort = true`; anything else fails the translation) *)
Definition abort_writes_elsewhere : list (string * Z) :=
  [("inc/IO/Display.hpp"%string, 115); ("src/IO/Display.cpp"%string, 134)].
(* every textual use of random_device / system_clock under src/ and inc/ *)
Definition nondet_sources : list (string * Z * string) :=
  [("inc/IO/Display.hpp"%string, 85, "system_clock"%string);
   ("inc/IO/Display.hpp"%string, 169, "system_clock"%string);
   ("src/IO/Display.cpp"%string, 19, "system_clock"%string);
   ("src/IO/Display.cpp"%string, 142, "system_clock"%string);
   ("src/IO/Display.cpp"%string, 200, "system_clock"%string);
   ("src/IO/Display.cpp"%string, 206, "system_clock"%string);
   ("src/SM/DynamicRFKickMap.cpp"%string, 36, "random_device"%string);
   ("src/SM/DynamicRFKickMap.cpp"%string, 64, "random_device"%string);
   ("src/SM/FokkerPlanckMap.cpp"%string, 22, "random_device"%string);
   ("src/main.cpp"%string, 81, "system_clock"%string)].
