(* GENERATED on every run by translate/mainloop2coq.py from src/main.cpp (main, from
   "Starting the simulation." to return). Do not edit.
   skipped (no effect on the modelled state): updatetime = 2; h5save = opts.getSavePhaseSpace(); outstepnr = 0; simulationstep = 0
   local constants replaced by their (pure) initialisers: none *)
From Coq Require Import List ZArith String.
From Inovesa Require Import Model.Driver Model.Setup Model.Observers.
Import ListNotations.
Local Open Scope Z_scope.
Definition main_pre : blk :=
  Seq (Point 0)
  (Seq UpdateXProj
  (Seq (Point 1)
  (Seq Integrate
  (Seq (Point 2)
  (Seq UpdateYProj
  (Seq (Point 3)
  (Seq (Variance true)
  (Seq (Point 4)
  (Seq (Print MStatus)
  (Seq (Point 5)
  (Cond GHdf
    (Cond GWake
      (Seq WakePotential
      (Seq (Point 6)
      (Seq (Append APadded)
      (Seq (Point 7)
      (Done)))))
      (Done)
    (Cond GSave0
      (Seq (Append (AGrid AtPS))
      (Seq (Point 8)
      (Done)))
      (Done)
    (Done)))
    (Done)
  (Seq (Point 9)
  (Done))))))))))))).
Definition main_body : blk :=
  Seq (Point 10)
  (Cond GWake
    (Seq WkmUpdate
    (Seq (Point 11)
    (Done)))
    (Done)
  (Cond GRenorm
    (Seq IntegrateAndNormalize
    (Seq (Point 12)
    (Done)))
    (Seq Integrate
    (Seq (Point 13)
    (Done)))
  (Seq (Point 14)
  (Cond GOut
    (Seq Integrate
    (Seq (Point 15)
    (Seq (Variance false)
    (Seq (Point 16)
    (Seq UpdateYProj
    (Seq (Point 17)
    (Seq (Variance true)
    (Seq (Point 18)
    (Cond GHdf
      (Seq (Append (AGrid AtIfSave))
      (Seq (Point 19)
      (Seq UpdateCSR
      (Seq (Point 20)
      (Seq (Append ACsr)
      (Seq (Point 21)
      (Cond GWake
        (Seq (Append AWake)
        (Seq (Point 22)
        (Done)))
        (Done)
      (Seq (Append ATracks)
      (Seq (Point 23)
      (Cond GDynRF
        (Seq (Append ARFKicks)
        (Seq (Point 24)
        (Done)))
        (Done)
      (Done)))))))))))
      (Done)
    (Seq IncOutNr
    (Seq (Point 25)
    (Seq (Print MStatus)
    (Seq (Point 26)
    (Done))))))))))))))
    (Done)
  (Seq (Point 27)
  (Seq (Apply MWake)
  (Seq (Point 28)
  (Seq (Track MWake)
  (Seq (Point 29)
  (Seq (Apply MRF)
  (Seq (Point 30)
  (Seq (Track MRF)
  (Seq (Point 31)
  (Seq (Apply MDrift)
  (Seq (Point 32)
  (Seq (Track MDrift)
  (Seq (Point 33)
  (Seq (Apply MFP)
  (Seq (Point 34)
  (Seq (Track MFP)
  (Seq (Point 35)
  (Seq UpdateXProj
  (Seq (Point 36)
  (Seq IncStep
  (Seq (Point 37)
  (Done)))))))))))))))))))))))))).
Definition main_post : blk :=
  Seq (Point 38)
  (Cond GHdf
    (Cond GWake
      (Seq WkmUpdate
      (Seq (Point 39)
      (Done)))
      (Done)
    (Cond GRenorm
      (Seq IntegrateAndNormalize
      (Seq (Point 40)
      (Done)))
      (Seq Integrate
      (Seq (Point 41)
      (Done)))
    (Seq (Variance false)
    (Seq (Point 42)
    (Seq UpdateYProj
    (Seq (Point 43)
    (Seq (Variance true)
    (Seq (Point 44)
    (Seq (Append (AGrid AtAll))
    (Seq (Point 45)
    (Seq UpdateCSR
    (Seq (Point 46)
    (Seq (Append ACsr)
    (Seq (Point 47)
    (Cond GWake
      (Seq (Append AWake)
      (Seq (Point 48)
      (Done)))
      (Done)
    (Seq (Append ATracks)
    (Seq (Point 49)
    (Cond GDynRF
      (Seq (Append ARFKicks)
      (Seq (Point 50)
      (Done)))
      (Done)
    (Cond GWake
      (Seq (Append APadded)
      (Seq (Point 51)
      (Done)))
      (Done)
    (Done))))))))))))))))))))
    (Done)
  (Seq (Point 52)
  (Seq (Print MStatus)
  (Seq (Point 53)
  (Seq (Free OWakeField)
  (Seq (Free OWm)
  (Seq (Free OFpm)
  (Seq (Point 54)
  (Cond GAbort
    (Seq (Print MAborted)
    (Done))
    (Seq (Print MFinished)
    (Done))
  (Seq (Point 55)
  (Seq Exit
  (Done)))))))))))).
Definition main_prog : prog := mkprog main_pre main_body main_post.
(* the set-up, from the statement after the installation of the SIGINT handler to "Starting the simulation.":
   control skeleton (Model/Setup.v); hook point i of setup_point_names is `Point (-(i+1))`; SOpq n / COpq n: n = source
   line of the (first) statement *)
Definition main_setup : sblk :=
  SCall (Point (-1))
  (SOpq 94
  (STry
    (SIf (COpq 96)
      (SReturn 0)
      (SDone)
    (SDone))
    (SOpq 100
    (SReturn 1))
  (SCall (Point (-2))
  (SOpq 109
  (SIf (COpq 112)
    (SOpq 120
    (SReturn 0))
    (SDone)
  (SCall (Point (-3))
  (SOpq 131
  (SCall (Point (-4))
  (SOpq 148
  (SCall (Point (-5))
  (SOpq 169
  (SOpq 182
  (SOpq 183
  (SCall (Point (-6))
  (SOpq 256
  (SCall (Point (-7))
  (SOpq 368
  (SIf (COpq 387)
    (SOpq 393
    (SIf (COpq 405)
      (SOpq 406
      (SOpq 407
      (SOpq 408
      (SOpq 410
      (SOpq 413
      (SOpq 414
      (SOpq 415
      (SOpq 417
      (SOpq 418
      (SOpq 419
      (SOpq 424
      (SOpq 426
      (SOpq 427
      (SOpq 428
      (SDone)))))))))))))))
      (SDone)
    (SDone)))
    (SDone)
  (SIf (COpq 433)
    (SOpq 434
    (SOpq 435
    (SOpq 439
    (SOpq 442
    (SOpq 443
    (SOpq 444
    (SOpq 446
    (SOpq 458
    (SDone)))))))))
    (SDone)
  (SCall (Point (-8))
  (SOpq 471
  (SIf (COpq 481)
    (SOpq 490
    (SDone))
    (SOpq 499
    (SIf (COpq 515)
      (SOpq 517
      (SIf (COpq 522)
        (SOpq 523
        (SReturn 0))
        (SDone)
      (SIf (COpq 526)
        (SOpq 527
        (SReturn 0))
        (SDone)
      (SDone))))
      (SIf (COpq 533)
        (SOpq 534
        (SDone))
        (SOpq 539
        (SReturn 0))
      (SDone))
    (SDone)))
  (SCall (Point (-9))
  (SIf (CGuard GRenorm0)
    (SCall UpdateXProj
    (SCall Normalize
    (SDone)))
    (SDone)
  (SCall (Point (-10))
  (SOpq 553
  (SCall (Point (-11))
  (SOpq 558
  (SIf (COpq 565)
    (SOpq 566
    (SOpq 567
    (SOpq 568
    (SDone))))
    (SDone)
  (SCall (Point (-12))
  (SOpq 615
  (SCall (Point (-13))
  (SOpq 674
  (SCall (Point (-14))
  (SOpq 700
  (SCall (Point (-15))
  (SOpq 706
  (SIf (COpq 710)
    (SOpq 712
    (SIf (COpq 713)
      (SOpq 715
      (SReturn 0))
      (SDone)
    (SOpq 720
    (SDone))))
    (SOpq 738
    (SDone))
  (SCall (Point (-16))
  (SOpq 750
  (SCall (Point (-17))
  (SOpq 758
  (SCall (Point (-18))
  (SOpq 767
  (SCall (Point (-19))
  (SOpq 777
  (SCall (Point (-20))
  (SOpq 807
  (SCall (Point (-21))
  (SCall (Point (-22))
  (SOpq 884
  (SIf (COpq 885)
    (SOpq 887
    (SCall (Point (-23))
    (STry
      (SOpq 891
      (SCall (Point (-24))
      (SOpq 894
      (SCall (Point (-25))
      (SOpq 897
      (SCall (Point (-26))
      (SDone)))))))
      (SOpq 906
      (SSetAbort
      (SDone)))
    (SDone))))
    (SIf (COpq 919)
      (SOpq 920
      (SDone))
      (SOpq 922
      (SReturn 0))
    (SDone))
  (SCall (Point (-27))
  (SOpq 928
  (SDone))))))))))))))))))))))))))))))))))))))))))))))))))))))).
(* opaque conditions of the set-up: (n, text) *)
Definition setup_conds : list (Z * string) :=
  [(96, "!opts.parse(argc, argv)"%string);
   (112, "ofname.empty() && !opts.getForceRun()"%string);
   (387, "fpclassify(gap) == 2"%string);
   (405, "verbose && use_csr"%string);
   (433, "verbose"%string);
   (481, "startdistfile.empty()"%string);
   (515, "isOfFileType('.h5', startdistfile) || isOfFileType('.hdf5', startdistfile)"%string);
   (522, "grid_t1 == nullptr"%string);
   (526, "nx != ps_bins"%string);
   (533, "isOfFileType('.txt', startdistfile)"%string);
   (565, "verbose"%string);
   (710, "e1 > 0"%string);
   (713, "derivationtype == cubic && !(zerobin >= 1 && zerobin <= ps_bins - 2)"%string);
   (885, "isOfFileType('.h5', ofname) || isOfFileType('.hdf5', ofname)"%string);
   (919, "ofname.empty()"%string)].
(* opaque statements of the set-up: (n, number of consecutive statements merged into it) *)
Definition setup_opaque : list (Z * Z) :=
  [(94, 1); (100, 1); (109, 1); (120, 1); (131, 2); (148, 1); (169, 5); (182, 1); (183, 32); (256, 39); (368, 4); (393, 4); (406, 1); (407, 1); (408, 1); (410, 1); (413, 1); (414, 1); (415, 1); (417, 1); (418, 1); (419, 1); (424, 1); (426, 1); (427, 1); (428, 1); (434, 1); (435, 1); (439, 1); (442, 1); (443, 1); (444, 1); (446, 1); (458, 1); (471, 1); (490, 3); (499, 1); (517, 1); (523, 1); (527, 1); (534, 1); (539, 1); (553, 2); (558, 2); (566, 1); (567, 1); (568, 1); (615, 3); (674, 9); (700, 1); (706, 2); (712, 1); (715, 1); (720, 9); (738, 2); (750, 2); (758, 2); (767, 1); (777, 4); (807, 2); (884, 1); (887, 2); (891, 1); (894, 2); (897, 2); (906, 1); (920, 1); (922, 1); (928, 1)].
(* observer options (verbosity): variables of main() initialised by opts.getVerbosity() *)
Definition observer_vars : list string :=
  ["verbose"%string].
(* opaque conditions of the set-up that read an observer option *)
Definition setup_observer_conds : list Z :=
  [405; 433; 565].
(* opaque statements / conditions of the set-up the translator found pure (only const member functions of objects declared outside,
   writes to log sinks, block-local and report-only variables): everything under an observer guard has to be in this list *)
Definition setup_pure_opaque : list Z :=
  [182; 405; 406; 407; 408; 410; 413; 414; 415; 417; 418; 419; 424; 426; 427; 428; 433; 434; 435; 439; 442; 443; 444; 446; 458; 565; 566; 567; 568].
(* what the statements / conditions under an observer guard of the set-up do: (n, effects) *)
Definition setup_observed_effects : list (Z * list oeff) :=
  [(405, []);
   (406, []);
   (407, []);
   (408, []);
   (410, []);
   (413, []);
   (414, []);
   (415, []);
   (417, []);
   (418, []);
   (419, []);
   (424, []);
   (426, []);
   (427, []);
   (428, []);
   (433, []);
   (434, []);
   (435, []);
   (439, []);
   (442, []);
   (443, []);
   (444, []);
   (446, [OConst "opts"%string "getStepsPerTrev"%string]);
   (458, []);
   (565, []);
   (566, []);
   (567, []);
   (568, [])].
(* variables assigned under an observer guard whose every use only reports (log, /Info attribute, other such variables) *)
Definition report_only_vars : list string :=
  ["shield"%string].
(* observer-guarded statements of the simulation part (NOT part of main_prog): line, condition, effects *)
Definition loop_observers : list ostmt :=
  [].
(* VERIF_POINT labels of the translated part, index = argument of Point *)
Definition point_names : list (Z * string) :=
  [(0, "sim:start"%string);
   (1, "pre:xproj"%string);
   (2, "pre:integrate"%string);
   (3, "pre:yproj"%string);
   (4, "pre:variance1"%string);
   (5, "pre:status"%string);
   (6, "pre:wakepotential"%string);
   (7, "pre:padded"%string);
   (8, "pre:ps0"%string);
   (9, "pre:done"%string);
   (10, "loop:head"%string);
   (11, "loop:wkm_updated"%string);
   (12, "loop:renormalized"%string);
   (13, "loop:integrated"%string);
   (14, "loop:before_out"%string);
   (15, "out:integrate"%string);
   (16, "out:variance0"%string);
   (17, "out:yproj"%string);
   (18, "out:variance1"%string);
   (19, "out:grid"%string);
   (20, "out:csr"%string);
   (21, "out:csr_appended"%string);
   (22, "out:wake_appended"%string);
   (23, "out:tracks"%string);
   (24, "out:rfkicks"%string);
   (25, "out:counted"%string);
   (26, "out:status"%string);
   (27, "loop:after_out"%string);
   (28, "step:wake"%string);
   (29, "step:wake_tracked"%string);
   (30, "step:rf"%string);
   (31, "step:rf_tracked"%string);
   (32, "step:drift"%string);
   (33, "step:drift_tracked"%string);
   (34, "step:fp"%string);
   (35, "step:fp_tracked"%string);
   (36, "step:xproj"%string);
   (37, "loop:step_counted"%string);
   (38, "fin:loop_left"%string);
   (39, "fin:wkm_updated"%string);
   (40, "fin:renormalized"%string);
   (41, "fin:integrated"%string);
   (42, "fin:variance0"%string);
   (43, "fin:yproj"%string);
   (44, "fin:variance1"%string);
   (45, "fin:grid"%string);
   (46, "fin:csr"%string);
   (47, "fin:csr_appended"%string);
   (48, "fin:wake_appended"%string);
   (49, "fin:tracks"%string);
   (50, "fin:rfkicks"%string);
   (51, "fin:padded"%string);
   (52, "fin:file_done"%string);
   (53, "fin:status"%string);
   (54, "fin:freed"%string);
   (55, "fin:message"%string)].
(* VERIF_POINT labels of the set-up, in source order (not all are executed in every run) *)
Definition setup_point_names : list string :=
  ["setup:handler_installed"%string; "setup:options_parsed"%string; "setup:nothing_to_do_passed"%string; "setup:display_made"%string; "setup:device_chosen"%string; "setup:machine_parameters"%string; "setup:scaling_done"%string; "setup:parameters_reported"%string; "setup:grid_made"%string; "setup:initial_renormalisation"%string; "setup:grids_copied"%string; "setup:before_rf"%string; "setup:rf_made"%string; "setup:before_drift"%string; "setup:drift_made"%string; "setup:fp_made"%string; "setup:wake_impedance"%string; "setup:rdtn_impedance"%string; "setup:rdtn_field"%string; "setup:wake_made"%string; "setup:tracking_loaded"%string; "setup:before_file"%string; "setup:config_saved"%string; "setup:file_created"%string; "setup:options_in_file"%string; "setup:file_parameters"%string; "setup:outputs_ready"%string].
(* every reference to Display::abort in main(): (source line, is a write, lies in the translated part) *)
Definition abort_refs : list (Z * bool * bool) :=
  [(908, true, false); (1003, false, true); (1219, false, true)].
(* every write of Display::abort outside main.cpp (each one is `abort = true`; anything else fails the translation) *)
Definition abort_writes_elsewhere : list (string * Z) :=
  [("inc/IO/Display.hpp"%string, 115); ("src/IO/Display.cpp"%string, 134)].
(* every textual use of random_device / system_clock under src/ and inc/ *)
Definition nondet_sources : list (string * Z * string) :=
  [("inc/IO/Display.hpp"%string, 85, "system_clock"%string);
   ("inc/IO/Display.hpp"%string, 169, "system_clock"%string);
   ("src/IO/Display.cpp"%string, 19, "system_clock"%string);
   ("src/IO/Display.cpp"%string, 142, "system_clock"%string);
   ("src/IO/Display.cpp"%string, 200, "system_clock"%string);
   ("src/IO/Display.cpp"%string, 206, "system_clock"%string);
   ("src/SM/DynamicRFKickMap.cpp"%string, 36, "random_device"%string);
   ("src/SM/DynamicRFKickMap.cpp"%string, 64, "random_device"%string);
   ("src/SM/FokkerPlanckMap.cpp"%string, 22, "random_device"%string);
   ("src/main.cpp"%string, 81, "system_clock"%string)].
