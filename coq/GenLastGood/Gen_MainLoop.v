(* GENERATED on every run by translate/mainloop2coq.py from src/main.cpp (main, from
   "Starting the simulation." to return). Do not edit.
   skipped (no effect on the modelled state): updatetime = 2; h5save = opts.getSavePhaseSpace(); outstepnr = 0; simulationstep = 0; delete wake_field; delete wm; delete fpm *)
From Coq Require Import List ZArith String.
From Inovesa Require Import Model.Driver.
Import ListNotations.
Local Open Scope Z_scope.
Definition main_pre : blk :=
  Seq (Point 0)
  (Seq UpdateXProj
  (Seq (Point 1)
  (Seq Integrate
  (Seq (Point 2)
  (Seq UpdateYProj
  (Seq (Point 3)
  (Seq (Variance true)
  (Seq (Point 4)
  (Seq (Print MStatus)
  (Seq (Point 5)
  (Cond GHdf
    (Cond GWake
      (Seq WakePotential
      (Seq (Point 6)
      (Seq (Append APadded)
      (Seq (Point 7)
      (Done)))))
      (Done)
    (Cond GSave0
      (Seq (Append (AGrid AtPS))
      (Seq (Point 8)
      (Done)))
      (Done)
    (Done)))
    (Done)
  (Seq (Point 9)
  (Done))))))))))))).
Definition main_body : blk :=
  Seq (Point 10)
  (Cond GWake
    (Seq WkmUpdate
    (Seq (Point 11)
    (Done)))
    (Done)
  (Cond GRenorm
    (Seq IntegrateAndNormalize
    (Seq (Point 12)
    (Done)))
    (Seq Integrate
    (Seq (Point 13)
    (Done)))
  (Seq (Point 14)
  (Cond GOut
    (Seq Integrate
    (Seq (Point 15)
    (Seq (Variance false)
    (Seq (Point 16)
    (Seq UpdateYProj
    (Seq (Point 17)
    (Seq (Variance true)
    (Seq (Point 18)
    (Cond GHdf
      (Seq (Append (AGrid AtIfSave))
      (Seq (Point 19)
      (Seq UpdateCSR
      (Seq (Point 20)
      (Seq (Append ACsr)
      (Seq (Point 21)
      (Cond GWake
        (Seq (Append AWake)
        (Seq (Point 22)
        (Done)))
        (Done)
      (Seq (Append ATracks)
      (Seq (Point 23)
      (Cond GDynRF
        (Seq (Append ARFKicks)
        (Seq (Point 24)
        (Done)))
        (Done)
      (Done)))))))))))
      (Done)
    (Seq IncOutNr
    (Seq (Point 25)
    (Seq (Print MStatus)
    (Seq (Point 26)
    (Done))))))))))))))
    (Done)
  (Seq (Point 27)
  (Seq (Apply MWake)
  (Seq (Point 28)
  (Seq (Track MWake)
  (Seq (Point 29)
  (Seq (Apply MRF)
  (Seq (Point 30)
  (Seq (Track MRF)
  (Seq (Point 31)
  (Seq (Apply MDrift)
  (Seq (Point 32)
  (Seq (Track MDrift)
  (Seq (Point 33)
  (Seq (Apply MFP)
  (Seq (Point 34)
  (Seq (Track MFP)
  (Seq (Point 35)
  (Seq UpdateXProj
  (Seq (Point 36)
  (Seq IncStep
  (Seq (Point 37)
  (Done)))))))))))))))))))))))))).
Definition main_post : blk :=
  Seq (Point 38)
  (Cond GHdf
    (Cond GWake
      (Seq WkmUpdate
      (Seq (Point 39)
      (Done)))
      (Done)
    (Cond GRenorm
      (Seq IntegrateAndNormalize
      (Seq (Point 40)
      (Done)))
      (Seq Integrate
      (Seq (Point 41)
      (Done)))
    (Seq (Variance false)
    (Seq (Point 42)
    (Seq UpdateYProj
    (Seq (Point 43)
    (Seq (Variance true)
    (Seq (Point 44)
    (Seq (Append (AGrid AtAll))
    (Seq (Point 45)
    (Seq UpdateCSR
    (Seq (Point 46)
    (Seq (Append ACsr)
    (Seq (Point 47)
    (Cond GWake
      (Seq (Append AWake)
      (Seq (Point 48)
      (Done)))
      (Done)
    (Seq (Append ATracks)
    (Seq (Point 49)
    (Cond GDynRF
      (Seq (Append ARFKicks)
      (Seq (Point 50)
      (Done)))
      (Done)
    (Cond GWake
      (Seq (Append APadded)
      (Seq (Point 51)
      (Done)))
      (Done)
    (Done))))))))))))))))))))
    (Done)
  (Seq (Point 52)
  (Seq (Print MStatus)
  (Seq (Point 53)
  (Seq (Point 54)
  (Cond GAbort
    (Seq (Print MAborted)
    (Done))
    (Seq (Print MFinished)
    (Done))
  (Seq (Point 55)
  (Seq Exit
  (Done))))))))).
Definition main_prog : prog := mkprog main_pre main_body main_post.
(* VERIF_POINT labels of the translated part, index = argument of Point *)
Definition point_names : list (Z * string) :=
  [(0, "sim:start"%string);
   (1, "pre:xproj"%string);
   (2, "pre:integrate"%string);
   (3, "pre:yproj"%string);
   (4, "pre:variance1"%string);
   (5, "pre:status"%string);
   (6, "pre:wakepotential"%string);
   (7, "pre:padded"%string);
   (8, "pre:ps0"%string);
   (9, "pre:done"%string);
   (10, "loop:head"%string);
   (11, "loop:wkm_updated"%string);
   (12, "loop:renormalized"%string);
   (13, "loop:integrated"%string);
   (14, "loop:before_out"%string);
   (15, "out:integrate"%string);
   (16, "out:variance0"%string);
   (17, "out:yproj"%string);
   (18, "out:variance1"%string);
   (19, "out:grid"%string);
   (20, "out:csr"%string);
   (21, "out:csr_appended"%string);
   (22, "out:wake_appended"%string);
   (23, "out:tracks"%string);
   (24, "out:rfkicks"%string);
   (25, "out:counted"%string);
   (26, "out:status"%string);
   (27, "loop:after_out"%string);
   (28, "step:wake"%string);
   (29, "step:wake_tracked"%string);
   (30, "step:rf"%string);
   (31, "step:rf_tracked"%string);
   (32, "step:drift"%string);
   (33, "step:drift_tracked"%string);
   (34, "step:fp"%string);
   (35, "step:fp_tracked"%string);
   (36, "step:xproj"%string);
   (37, "loop:step_counted"%string);
   (38, "fin:loop_left"%string);
   (39, "fin:wkm_updated"%string);
   (40, "fin:renormalized"%string);
   (41, "fin:integrated"%string);
   (42, "fin:variance0"%string);
   (43, "fin:yproj"%string);
   (44, "fin:variance1"%string);
   (45, "fin:grid"%string);
   (46, "fin:csr"%string);
   (47, "fin:csr_appended"%string);
   (48, "fin:wake_appended"%string);
   (49, "fin:tracks"%string);
   (50, "fin:rfkicks"%string);
   (51, "fin:padded"%string);
   (52, "fin:file_done"%string);
   (53, "fin:status"%string);
   (54, "fin:freed"%string);
   (55, "fin:message"%string)].
(* VERIF_POINT labels of the set-up, in source order (not all are executed in every run) *)
Definition setup_point_names : list string :=
  ["setup:handler_installed"%string; "setup:options_parsed"%string; "setup:nothing_to_do_passed"%string; "setup:display_made"%string; "setup:device_chosen"%string; "setup:machine_parameters"%string; "setup:scaling_done"%string; "setup:parameters_reported"%string; "setup:grid_made"%string; "setup:initial_renormalisation"%string; "setup:grids_copied"%string; "setup:before_rf"%string; "setup:rf_made"%string; "setup:before_drift"%string; "setup:drift_made"%string; "setup:fp_made"%string; "setup:wake_impedance"%string; "setup:rdtn_impedance"%string; "setup:rdtn_field"%string; "setup:wake_made"%string; "setup:tracking_loaded"%string; "setup:before_file"%string; "setup:config_saved"%string; "setup:file_created"%string; "setup:options_in_file"%string; "setup:file_parameters"%string; "setup:outputs_ready"%string].
(* every reference to Display::abort in main(): (source line, is a write, lies in the translated part) *)
Definition abort_refs : list (Z * bool * bool) :=
  [(891, true, false); (986, false, true); (1202, false, true)].
(* every textual use of random_device / system_clock under src/ and inc/ *)
Definition nondet_sources : list (string * Z * string) :=
  [("inc/IO/Display.hpp"%string, 85, "system_clock"%string);
   ("inc/IO/Display.hpp"%string, 169, "system_clock"%string);
   ("src/IO/Display.cpp"%string, 19, "system_clock"%string);
   ("src/IO/Display.cpp"%string, 142, "system_clock"%string);
   ("src/IO/Display.cpp"%string, 200, "system_clock"%string);
   ("src/IO/Display.cpp"%string, 206, "system_clock"%string);
   ("src/SM/DynamicRFKickMap.cpp"%string, 36, "random_device"%string);
   ("src/SM/DynamicRFKickMap.cpp"%string, 64, "random_device"%string);
   ("src/SM/FokkerPlanckMap.cpp"%string, 22, "random_device"%string);
   ("src/main.cpp"%string, 81, "system_clock"%string)].
