(* GENERATED on every run by translate/laststep2coq.py from main() of src/main.cpp (symbolic execution of the set-up
   code): gen_laststep = bound of the main loop's test `counter < bound` = `steps` argument of every DynamicRFKickMap;
   gen_steps = denominator of the time value counter/steps of HDF5File::append.  Do not edit. *)
From Coq Require Import List ZArith QArith Qcanon Bool.
From Inovesa Require Import Base.FieldKit Base.Float32 Model.Kick Model.Bounds Model.ScalingOps.
Import ListNotations.
(* leaves: O_<getter> = option read through ProgramOptions::<getter>(); V_<local> = cut variable (a floating local of
   main() computed with sqrt/pow/...) *)
Inductive zleaf := O_getStepsPerTsync | Z_unused.
Inductive qleaf := O_getNRotations | O_getRevolutionFrequency | O_getStepsPerTrev | O_getSyncFreq | V_fs | Q_unused.
Inductive zbleaf := ZB_unused.
Definition zleaf_index (l : zleaf) : nat := match l with O_getStepsPerTsync => 0 | Z_unused => 1 end.
Definition qleaf_index (l : qleaf) : nat := match l with O_getNRotations => 0 | O_getRevolutionFrequency => 1 | O_getStepsPerTrev => 2 | O_getSyncFreq => 3 | V_fs => 4 | Q_unused => 5 end.
Definition zbleaf_index (l : zbleaf) : nat := match l with ZB_unused => 0 end.
Local Open Scope Z_scope.
Local Open Scope bool_scope.

Definition gen_laststep (LZ : zleaf -> Z) (LQ : qleaf -> Qc) (LB : zbleaf -> bool) : conv :=
    conv_bind (f2u 32 (Qcz (Qcceil (rnd53 ((rnd53 ((if (qlt (Qcz 0) (LQ O_getStepsPerTrev)) then (rnd53 ((rnd53 ((LQ O_getStepsPerTrev) * (LQ O_getRevolutionFrequency))%Qc) / (if (qeq (LQ O_getSyncFreq) (Qcz 0)) then (LQ V_fs) else (LQ O_getSyncFreq)))%Qc) else (Qcz (Z.max (LZ O_getStepsPerTsync) 1))) * (LQ O_getNRotations))%Qc) * (rnd53 ((Qcz 1) - (Q2Qc (4951760157141521 # 4951760157141521099596496896)))%Qc))%Qc)))) (fun v1 =>
    Val v1).
Definition gen_steps (LZ : zleaf -> Z) (LQ : qleaf -> Qc) (LB : zbleaf -> bool) : Qc :=
    (if (qlt (Qcz 0) (LQ O_getStepsPerTrev)) then (rnd53 ((rnd53 ((LQ O_getStepsPerTrev) * (LQ O_getRevolutionFrequency))%Qc) / (if (qeq (LQ O_getSyncFreq) (Qcz 0)) then (LQ V_fs) else (LQ O_getSyncFreq)))%Qc) else (Qcz (Z.max (LZ O_getStepsPerTsync) 1))).
Definition gen_loop_start : Z := 0.
Definition gen_dynrf_uses : Z := 2.

(* front-end for the extracted driver: values in the order of the *_index functions *)
Definition gen_laststep_list (zs : list Z) (qs : list Qc) (bs : list bool) : Z :=
  conv_code (gen_laststep (env_of zleaf_index 0 zs) (env_of qleaf_index (Qcz 0) qs) (env_of zbleaf_index false bs)).
