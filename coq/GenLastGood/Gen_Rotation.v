(* GENERATED on every run by translate/rotation2coq.py from RotationMap::genHInfo, RotationMap::apply (CPU branch), the
   RotationMap constructor (src/SM/RotationMap.cpp) and the SourceMap constructor (src/SM/SourceMap.cpp) of the
   repository's working tree.  Do not edit.  Vocabulary: Model/RotX.v.
   rd / rw / ro: rounding of one binary32 operation whose result reaches a float -> integer split / ends in a table
   weight / is part of the accumulation of apply; ipart, fpart: the two results of std::modf.
   Integer parameters are values of their C++ types (xsize, ysize, rotmapsize, x0, y0: unsigned int; it, ip: unsigned char). *)
From Coq Require Import List ZArith QArith Qcanon Bool.
From Inovesa Require Import Base.FieldKit Base.Float32 Gen.Gen_Coeffs Model.Kick Model.RotX.
Import ListNotations.
Local Open Scope Z_scope.

(** constructors: the members as functions of the RotationMap constructor's arguments (through the SourceMap constructor
    with 8 parameters); a_*: the constructor's arguments, a_it the numeric value of the InterpolationType *)
Definition gen_rot_ctor_xsize (a_xsize a_ysize a_it a_rotmapsize : Z) : Z := a_xsize.
Definition gen_rot_ctor_ysize (a_xsize a_ysize a_it a_rotmapsize : Z) : Z := a_ysize.
Definition gen_rot_ctor_it (a_xsize a_ysize a_it a_rotmapsize : Z) : Z := a_it.
Definition gen_rot_ctor_ip (a_xsize a_ysize a_it a_rotmapsize : Z) : Z := (rx_wrap8 (a_it * a_it)).
Definition gen_rot_ctor_hinfo_size (a_xsize a_ysize a_it a_rotmapsize : Z) : Z := (Z.max (rx_wrap64 ((rx_wrap64 (a_rotmapsize * a_it)) * a_it)) 16).
Definition gen_rot_ctor_rotmapsize (a_xsize a_ysize a_it a_rotmapsize : Z) : Z := a_rotmapsize.
Definition gen_rot_ctor_clamp (a_clamp : bool) : bool := a_clamp.
(** constructor body: the table is filled unless this holds; the genHInfo calls in program order as
    (first element of the block handed over, (x0, y0)); the configurations refused with std::invalid_argument *)
Definition gen_rot_ctor_nofill (rotmapsize : Z) : bool := (rotmapsize =? 0).
Definition gen_rot_ctor_calls (xsize ysize it ip : Z) (a_xsize a_ysize : Z) : list (Z * (Z * Z)) :=
  flat_map (fun q_i => map (fun p_i => ((wrap32 ((wrap32 ((wrap32 (q_i * a_ysize)) + p_i)) * ip)), (q_i, p_i))) (zrange ysize)) (zrange xsize).
Definition gen_rot_ctor_throws (a_clamp : bool) (a_it a_rotmapsize : Z) : bool := (a_clamp && (negb ((a_it =? 4) && (0 <? a_rotmapsize)))).

(** the 2-D view `ph[i] = &ph1D[...]`: rows set up, first element of row i, sizes of the two arrays *)
Definition gen_rot_ph_rows (it ip : Z) : list Z := (zrange it).
Definition gen_rot_ph_row (it ip : Z) (i : Z) : Z := (rx_wrap64 (i * it)).
Definition gen_rot_ph_sizes (it ip : Z) : Z * Z := (it, ip).
(** the float array filled in a loop nest (`smc`): slots written, in program order, with the counters of the iteration *)
Definition gen_rot_smc_slots (it ip : Z) : list (Z * (Z * Z)) :=
  flat_map (fun smq => map (fun smp => ((rx_wrap64 ((rx_wrap64 (smp * it)) + smq)), (smq, smp))) (zrange it)) (zrange it).
Definition gen_rot_smc_size (it ip : Z) : Z := ip.
(** myhinfo[...] written by the then branch: slots in program order with the counters of the iteration *)
Definition gen_rot_then_slots (it ip : Z) : list (Z * (Z * Z)) :=
  flat_map (fun j1 => map (fun i1 => ((wrap32 ((wrap32 (i1 * it)) + j1)), (j1, i1))) (zrange it)) (zrange it).
(** myhinfo[...] written by the else branch: slots in program order with the counters of the iteration *)
Definition gen_rot_else_slots (it ip : Z) : list (Z * Z) :=
  map (fun i2 => (i2, i2)) (zrange ip).
(** calcCoefficiants calls: (size of the target array, number of weights written) *)
Definition gen_rot_coeff_sizes (it ip : Z) : list (Z * Z) := [(it, it); (it, it)].

Section GenRotation.
  Variable K : Fld.
  Variables rd rw : K -> K.
  Variable ipart : K -> Z.
  Variable fpart : K -> K.
  Local Open Scope F_scope.
  Local Open Scope Z_scope.

(** argument of the first std::modf split *)
Definition gen_rot_c1 (cos_dt sin_dt : K) (at0 at1 : Z -> K) (delta0 delta1 zerobin0 zerobin1 : K) (x0 y0 : Z) : K :=
  (rd ((rd ((rd ((rd (cos_dt * (at0 x0))%F) - (rd (sin_dt * (at1 y0))%F))%F) / delta0)%F) + zerobin0)%F).
(** argument of the second std::modf split *)
Definition gen_rot_c2 (cos_dt sin_dt : K) (at0 at1 : Z -> K) (delta0 delta1 zerobin0 zerobin1 : K) (x0 y0 : Z) : K :=
  (rd ((rd ((rd ((rd (sin_dt * (at0 x0))%F) + (rd (cos_dt * (at1 y0))%F))%F) / delta1)%F) + zerobin1)%F).
(** RotationMap::genHInfo(x0, y0, myhinfo): entry k of myhinfo afterwards; `old`: its content before *)
Definition gen_rot_genHInfo (xsize ysize it ip : Z) (cos_dt sin_dt : K) (at0 at1 : Z -> K)
    (delta0 delta1 zerobin0 zerobin1 : K) (x0 y0 : Z) (old : Z -> Z * K) (k : Z) : Z * K :=
  let c1 := gen_rot_c1 cos_dt sin_dt at0 at1 delta0 delta1 zerobin0 zerobin1 x0 y0 in
  let c2 := gen_rot_c2 cos_dt sin_dt at0 at1 delta0 delta1 zerobin0 zerobin1 x0 y0 in
  let x1 := (rx_f2u (ipart c1)) in
  let y1 := (rx_f2u (ipart c2)) in
  if ((x1 <? xsize) && (y1 <? ysize)) then
    let icq := coeffs it (fpart c1) in
    let icp := coeffs it (fpart c2) in
    let smc := fun s => match rx_lookup (gen_rot_smc_slots it ip) s with Some (smq, smp) => (rw ((rx_nth icq smp) * (rx_nth icp smq))%F) | None => 0%F end in
    match rx_lookup (gen_rot_then_slots it ip) k with
      | Some (j1, i1) =>
        let j0 := (wrap32 ((wrap32 (y1 + j1)) - (wrap32 (Z.quot (it - 1) 2)))) in
        let i0 := (wrap32 ((wrap32 (x1 + i1)) - (wrap32 (Z.quot (it - 1) 2)))) in
        (if ((i0 <? xsize) && (j0 <? ysize)) then ((wrap32 ((wrap32 (i0 * ysize)) + j0)), (smc (wrap32 ((wrap32 (i1 * it)) + j1)))) else (0, 0%F))
      | None => old k
      end
  else
    match rx_lookup (gen_rot_else_slots it ip) k with
      | Some i2 =>
        (0, 0%F)
      | None => old k
      end.

  Variables cosf sinf : K -> K.
Definition gen_rot_ctor_cos_dt (angle : K) : K := (cosf (- angle)%F).
Definition gen_rot_ctor_sin_dt (angle : K) : K := (sinf (- angle)%F).
End GenRotation.

Section GenRotationApply.
  Variable ro : Qc -> Qc.
  Local Open Scope Qc_scope.
  Local Open Scope Z_scope.

(** RotationMap::apply, CPU branch: which of the two cell loops runs *)
Definition gen_rot_apply_onthefly (rotmapsize : Z) : bool := (rotmapsize =? 0).
(** `_rotmapsize == 0`: cells in program order; one cell: (subscript of data_out written, value).
    G a b old k: entry k of myhinfo after genHInfo(a, b, myhinfo) (gen_rot_genHInfo); hinfo: _hinfo before *)
Definition gen_rot_fly_cells (xsize ysize : Z) : list (Z * Z) :=
  flat_map (fun q_i => map (fun p_i => (q_i, p_i)) (zrange ysize)) (zrange xsize).
Definition gen_rot_fly_cell (xsize ysize it ip : Z) (clamp : bool) (G : Z -> Z -> (Z -> Z * Qc) -> Z -> Z * Qc)
    (hinfo : Z -> Z * Qc) (D : Z -> Qc) (q_i p_i : Z) : Z * Qc :=
  let i := (wrap32 ((wrap32 (q_i * ysize)) + p_i)) in
  let out := 0%Qc in
  let hinfo1 := fun s => G q_i p_i (fun k => hinfo (0 + k)) (s - 0) in
  let out2 := fold_left (fun a_out j => let h := (hinfo1 j) in let out1 := (ro (a_out + (ro ((D (fst h)) * (snd h))%Qc))%Qc) in out1) (zrange ip) out in
  (i, out2).
(** precomputed table: cells in program order; one cell *)
Definition gen_rot_table_cells (rotmapsize : Z) : list Z := (zrange rotmapsize).
Definition gen_rot_table_cell (xsize ysize it ip : Z) (clamp : bool) (hinfo : Z -> Z * Qc) (D : Z -> Qc) (i : Z) : Z * Qc :=
  let out := 0%Qc in
  let out2 := fold_left (fun a_out j => let h := (hinfo (wrap32 ((wrap32 (i * ip)) + j))) in let out1 := (ro (a_out + (ro ((D (fst h)) * (snd h))%Qc))%Qc) in out1) (zrange ip) out in
  let out4 := if clamp then (let ceil := rx_flt_min in let flor := rx_flt_max in let '(ceil2, flor2) := fold_left (fun '(a_ceil, a_flor) x => let '(ceil11, flor11) := fold_left (fun '(a_ceil1, a_flor1) y => let ceil1 := (rx_max a_ceil1 (D (fst (hinfo (wrap32 ((wrap32 ((wrap32 (i * ip)) + (wrap32 (x * it)))) + y)))))) in let flor1 := (rx_min a_flor1 (D (fst (hinfo (wrap32 ((wrap32 ((wrap32 (i * ip)) + (wrap32 (x * it)))) + y)))))) in (ceil1, flor1)) (rx_span 1 ((2 + 1) - 1)) (a_ceil, a_flor) in (ceil11, flor11)) (rx_span 1 ((2 + 1) - 1)) (ceil, flor) in let out3 := (rx_max (rx_min ceil2 out2) flor2) in out3) else out2 in
  (i, out4).
End GenRotationApply.
