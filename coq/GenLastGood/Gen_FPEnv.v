(* GENERATED on every run by translate/fpenv2coq.py: lexical scan of 72 source files under src/ and inc/ and of 7
   CMake files for code, pragmas, attributes, inline assembly and compiler options that change the floating-point
   environment (rounding mode, flush-to-zero / denormals-are-zero, exception trapping, fast-math licences).
   Do not edit. *)
From Coq Require Import List ZArith String.
From Inovesa Require Import Model.FPEnv.
Import ListNotations.
Local Open Scope string_scope.
Local Open Scope Z_scope.
Definition fpenv_sites : list fpsite :=
  [].
Definition fpenv_files_scanned : Z := 79.
