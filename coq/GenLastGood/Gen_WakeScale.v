(* GENERATED on every run by translate/wakescale2coq.py from src/PS/ElectricField.cpp and
   inc/PS/ElectricField.hpp (delegating constructor; mem-initialiser of _wakescaling;
   _nmax = impedance->nFreqs()). Do not edit. *)
From Coq Require Import List ZArith.
From Inovesa Require Import Base.FieldKit.
Section Gen.
  Variable K : Fld.
  Local Open Scope F_scope.
  (* sigma_z = ps->getScale(0,"Meter"), delta_E = ps->getDelta(1), c = physcons::c *)
  Definition wakescalining_arg (Ib dt c sigma_z delta_E sigma_delta E0 : K) : K :=
    ((((Ib * dt) * c) / sigma_z) / ((delta_E * sigma_delta) * E0)).
  Definition wakescaling_member (wakescalining nmax : K) : K :=
    (wakescalining / nmax).
  Definition wake_scaling (Ib dt c sigma_z delta_E sigma_delta E0 nmax : K) : K :=
    wakescaling_member (wakescalining_arg Ib dt c sigma_z delta_E sigma_delta E0) nmax.
End Gen.
Arguments wakescalining_arg {_}. Arguments wakescaling_member {_}. Arguments wake_scaling {_}.
