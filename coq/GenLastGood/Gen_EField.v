(* GENERATED on every run by translate/efield2coq.py from ElectricField::padBunchProfiles, wakePotential and
   updateCSR (src/PS/ElectricField.cpp). Do not edit.  Statement language and its meaning: Model/EFieldProg.v.
   IVar d: the counter of the loop at nesting depth d. *)
From Coq Require Import List ZArith.
From Inovesa Require Import Base.FieldKit Model.EFieldProg.
Import ListNotations.
Local Open Scope Z_scope.

(* ElectricField::padBunchProfiles *)
Definition gen_pad_prog : list stm2 :=
  [ S1 (S0 (SClearBp (IConst 0) INmax));
    S1 (SFor1 INb [SCopyBp (IMul INx (IVar 0)) INx (IMul (IBucket (IVar 0)) ISpc)]) ].

(* ElectricField::wakePotential *)
Definition gen_wake_prog : list stm2 :=
  [ S1 (S0 (SCallPad));
    S1 (S0 (SFwd));
    S1 (SFor1 (IDiv INmax (IConst 2)) [SLoss (IVar 0) (IVar 0) (IVar 0)]);
    S1 (S0 (SInv));
    SFor2 INb
      [ SFor1 INx [SReadback (IVar 0) (IVar 1) (IAdd (IMul (IBucket (IVar 0)) ISpc) (IVar 1))] ] ].

(* ElectricField::updateCSR *)
Definition gen_csr_prog : list stm2 :=
  [ SFor2 INb
      [ S0 (SClearBp (IConst 0) INmax);
        S0 (SCopyBp (IMul INx (IVar 0)) INx (IConst 0));
        S0 (SFwd);
        S0 (SCsrZero (IVar 0));
        SFor1 INmax [SCsrCell (IVar 0) (IVar 1) (IVar 1) (IVar 1) (IVar 1); SCsrAcc (IVar 0) (IVar 0) (IVar 1)] ] ].

(* the cutoff factor is applied iff [gen_csr_cut_on (cutoff_frequency ?= 0)]  (source: `cutoff_frequency > 0`) *)
Definition gen_csr_cut_on (c : comparison) : bool :=
  match c with Eq => false | Lt => false | Gt => true end.

(* operand order of the complex product in `_wakelosses[..] = ...`: true = impedance * form factor *)
Definition gen_loss_impedance_first : bool := true.

Section Kernels.
  Variable K : Fld.
  Local Open Scope F_scope.
  (* _wakepotential[b][x] = ... : wakescaling = _wakescaling, w = the cell of _wakepotential_padded *)
  Definition gen_k_scale (wakescaling w : K) : K := (wakescaling * w).
  (* _csrspectrum[n][i] = ... with the cutoff off: ffr = _formfactorrenorm, rez = Re Z, normf = std::norm(form factor) *)
  Definition gen_k_csr_off (ffr rez normf : K) : K := ((ffr * rez) * normf).
  (* ... and on: hertz = _axis_freq.scale("Hertz"), fax = _axis_freq[i], fc = cutoff_frequency, expf = std::exp *)
  Definition gen_k_csr_on (expf : K -> K) (ffr hertz fax fc rez normf : K) : K := (((ffr * (1 - (expf (- ((((hertz * fax) / fc) * ((hertz * fax) / fc))))))) * rez) * normf).
  (* _csrintensity[n] += ... : a = the old value, delta = _axis_freq.delta(), spec = the cell of _csrspectrum *)
  Definition gen_k_acc (a delta spec : K) : K := (a + (delta * spec)).
End Kernels.

(* set-up (constructor, _initWakeLossFFT, src/FFTWWrapper.cpp): real cells zeroed by fft_alloc_real(n) / fft_alloc_complex(n);
   the work buffers (complex?, allocated length); the two plans (length, input, output) *)
Definition gen_alloc_real_zeroed (n : Z) : Z := n.
Definition gen_alloc_complex_zeroed (n : Z) : Z := (2 * n).
Definition gen_buffers (nmax : Z) : list (wbuf * bool * Z) :=
  [ (Bbp, false, nmax); (Bff, true, nmax); (Bwl, true, nmax); (Bwp, false, nmax) ].
Definition gen_plan_fwd (nmax : Z) : Z * wbuf * wbuf := (nmax, Bbp, Bff).
Definition gen_plan_inv (nmax : Z) : Z * wbuf * wbuf := (nmax, Bwl, Bwp).
