(* GENERATED on every run by translate/abortflag2coq.py: lexical scan of 71 files under src/ and inc/ for the identifier
   `abort`; the regions of main() (loop condition, if conditions, catch blocks) from the clang AST. Do not edit. *)
From Coq Require Import List ZArith String.
From Inovesa Require Import Model.AbortFlag.
Import ListNotations.
Local Open Scope string_scope.
Local Open Scope Z_scope.
Definition abort_sites : list asite :=
  [mkasite "inc/IO/Display.hpp" 87 KDecl WElsewhere [] "volatile static bool abort;";
   mkasite "inc/IO/Display.hpp" 115 KWriteTrue WSigHandler ["INOVESA_ENABLE_INTERRUPT == 1"] "Display::abort = true;";
   mkasite "src/IO/Display.cpp" 134 KWriteTrue WElsewhere ["INOVESA_USE_OPENGL == 1"] "Display::abort = true;";
   mkasite "src/IO/Display.cpp" 202 (KDef true) WElsewhere [] "volatile bool vfps::Display::abort(false);";
   mkasite "src/main.cpp" 908 KWriteTrue WCatch ["INOVESA_USE_HDF5 == 1"] "Display::abort = true;";
   mkasite "src/main.cpp" 1003 KRead WLoopCond [] "while (simulationstep<laststep && !Display::abort) {";
   mkasite "src/main.cpp" 1219 KRead (WIfCond true) [] "if(Display::abort) {"].
Definition abort_files_scanned : Z := 71.
