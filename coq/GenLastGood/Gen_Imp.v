(* GENERATED on every run by translate/imp2coq.py from src/Z/FreeSpaceCSR.cpp, ResistiveWall.cpp,
   ConstImpedance.cpp, CollimatorImpedance.cpp, Impedance.cpp, ImpedanceFactory.cpp. Do not edit.
   Leaves (E : Leaves K): l_pw = std::pow, l_sq = std::sqrt, l_lg = std::log, l_ab = std::abs,
   l_pi = boost pi<double>(), l_c = physcons::c, l_Z0 = Impedance::Z0, l_ltb/l_leb/l_eqb = <, <=, ==,
   l_cadd = std::complex<float>::operator+, l_PPs = sample i of ParallelPlatesCSR(n, f0, f_max, g) (Airy functions:
   the value is not translated, only the loop that stores it). *)
From Coq Require Import List ZArith Bool.
From Coq Require String.
From Inovesa Require Import Base.FieldKit Model.Impedance Model.ImpKit Model.ImpPure.
Import ListNotations.
Local Open Scope F_scope.
Local Open Scope bool_scope.

(* Impedance::Impedance(nfreqs, f_max, oclh) (src/Z/Impedance.cpp): the start vector of the factory *)
Definition Impedance_zeros (K : Fld) (E : Leaves K) (nfreqs : Z) : list (cpx K) :=
  (fill nfreqs (0, 0)).

(* Impedance::operator+= (src/Z/Impedance.cpp); data = this->_data, rhs_data = rhs._data, _nfreqs = _data.size() *)
Definition add_assign (K : Fld) (E : Leaves K) (data rhs_data : list (cpx K)) : list (cpx K) :=
  let nsum := (Z.min (zlen data) (zlen rhs_data)) in
  let data := for_upd 0%Z nsum (fun (i : Z) (data : list (cpx K)) => setz data i (l_cadd E (nthz cpx0 data i) (nthz cpx0 rhs_data i))) data in
  data.

(* the half-open index range [lo, hi) the loop of operator+= runs over *)
Definition add_assign_range (K : Fld) (E : Leaves K) (data rhs_data : list (cpx K)) : Z * Z :=
  let nsum := (Z.min (zlen data) (zlen rhs_data)) in
  (0%Z, nsum).

(* FreeSpaceCSR::__calcImpedance (src/Z/FreeSpaceCSR.cpp) *)
Definition FreeSpaceCSR_calc (K : Fld) (E : Leaves K) (n : Z) (f_rev : K) (f_max : K) : list (cpx K) :=
  let rv := (@nil (cpx K)) in
  let Z0 := (((@fz K 3063%Z) / (@fz K 10%Z)), ((@fz K 1769%Z) / (@fz K 10%Z))) in
  let delta := ((f_max / f_rev) / (@fz K (n - 1%Z)%Z)) in
  let rv := rv ++ seg 0%Z ((n / 2%Z)%Z + 1)%Z (fun i : Z => (cmulr Z0 (l_pw E ((@fz K i) * delta) (1 / (1+(1+1)))))) in
  let rv := rv ++ seg ((n / 2%Z)%Z + 1%Z)%Z n (fun i : Z => (0, 0)) in
  rv.

(* FreeSpaceCSR::FreeSpaceCSR (src/Z/FreeSpaceCSR.cpp): the vector handed to Impedance(z, f_max) *)
Definition FreeSpaceCSR_ctor (K : Fld) (E : Leaves K) (n : Z) (f_rev : K) (f_max : K) : list (cpx K) :=
  FreeSpaceCSR_calc K E n f_rev f_max.

(* ResistiveWall::__calcImpedance (src/Z/ResistiveWall.cpp) *)
Definition ResistiveWall_calc (K : Fld) (E : Leaves K) (n : Z) (f0 : K) (f_max : K) (L : K) (s : K) (xi : K) (b : K) : list (cpx K) :=
  let rv := (@nil (cpx K)) in
  let mu_r := (1 + xi) in
  let Z1 := (cmull ((((l_sq E ((((((l_Z0 E) * mu_r) * f0) / s) / (l_pi E)) / (l_c E))) * L) / (1+1)) / b) (1, (- (1)))) in
  let delta := ((f_max / f0) / ((@fz K n) - 1)) in
  let rv := rv ++ seg 0%Z ((n / 2%Z)%Z + 1)%Z (fun i : Z => (cmulr Z1 (l_sq E ((@fz K i) * delta)))) in
  let rv := rv ++ seg ((n / 2%Z)%Z + 1%Z)%Z n (fun i : Z => (0, 0)) in
  rv.

(* ResistiveWall::ResistiveWall (src/Z/ResistiveWall.cpp): the vector handed to Impedance(z, f_max) *)
Definition ResistiveWall_ctor (K : Fld) (E : Leaves K) (n : Z) (f0 : K) (f_max : K) (L : K) (s : K) (xi : K) (b : K) : list (cpx K) :=
  ResistiveWall_calc K E n f0 f_max L s xi b.

(* ConstImpedance::__calcImpedance (src/Z/ConstImpedance.cpp) *)
Definition ConstImpedance_calc (K : Fld) (E : Leaves K) (n : Z) (Z' : cpx K) : list (cpx K) :=
  let rv := (@nil (cpx K)) in
  let rv := resize rv (n / 2%Z)%Z Z' in
  let rv := resize rv n (0, 0) in
  rv.

(* ConstImpedance::ConstImpedance (src/Z/ConstImpedance.cpp): the vector handed to Impedance(z, f_max) *)
Definition ConstImpedance_ctor (K : Fld) (E : Leaves K) (n : Z) (f_max : K) (Z' : cpx K) : list (cpx K) :=
  ConstImpedance_calc K E n Z'.

(* ParallelPlatesCSR::__calcImpedance (src/Z/ParallelPlatesCSR.cpp) - loop skeleton only, the sample value is the leaf l_PPs *)
Definition ParallelPlatesCSR_calc (K : Fld) (E : Leaves K) (nfreqs : Z) (f0 : K) (f_max : K) (g : K) : list (cpx K) :=
  let rv := (fill nfreqs (0, 0)) in
  let rv := for_upd 1%Z ((nfreqs / 2%Z)%Z + 1)%Z (fun (i : Z) (rv : list (cpx K)) => setz rv i (l_PPs E nfreqs f0 f_max g i)) rv in
  rv.

(* ParallelPlatesCSR::ParallelPlatesCSR (src/Z/ParallelPlatesCSR.cpp): the vector handed to Impedance(z, f_max) *)
Definition ParallelPlatesCSR_ctor (K : Fld) (E : Leaves K) (nfreqs : Z) (f0 : K) (f_max : K) (g : K) : list (cpx K) :=
  ParallelPlatesCSR_calc K E nfreqs f0 f_max g.

(* CollimatorImpedance::CollimatorImpedance (src/Z/CollimatorImpedance.cpp): the arguments handed to ConstImpedance *)
Definition CollimatorImpedance_ctor (K : Fld) (E : Leaves K) (n : Z) (f_max : K) (outer : K) (inner : K) : list (cpx K) :=
  ConstImpedance_ctor K E n f_max ((((l_Z0 E) / (l_pi E)) * (l_lg E (outer / inner))), 0).

(* vfps::makeImpedance (src/Z/ImpedanceFactory.cpp); impedance_file = None for the empty name *)
Definition makeImpedance_with (K : Fld) (E : Leaves K)
    (ParallelPlatesCSR_ctor' : Z -> K -> K -> K -> list (cpx K)) (FreeSpaceCSR_ctor' : Z -> K -> K -> list (cpx K))
    (ResistiveWall_ctor' : Z -> K -> K -> K -> K -> K -> K -> list (cpx K))
    (CollimatorImpedance_ctor' : Z -> K -> K -> K -> list (cpx K))
    (nfreqs : Z) (fmax : K) (R_bend : K) (frev : K) (gap : K) (use_csr : bool) (s : K) (xi : K) (inner_coll_radius : K) (impedance_file : option (list (cpx K))) : option (list (cpx K)) :=
  let f0 := ((l_c E) / (((1+1) * l_pi E) * R_bend)) in
  let rv := (Some (Impedance_zeros K E nfreqs)) in
  let impedance_changed := false in
  let '(rv, impedance_changed) :=
    if (negb (l_eqb E gap 0)) then
      let '(rv, impedance_changed) :=
        if use_csr then
          let impedance_changed := true in
          let '(rv, impedance_changed) :=
            if (l_ltb E 0 gap) then
              let rv := deref_add (add_assign K E) rv (ParallelPlatesCSR_ctor' nfreqs f0 fmax gap) in
              (rv, impedance_changed)
            else
              let rv := deref_add (add_assign K E) rv (FreeSpaceCSR_ctor' nfreqs f0 fmax) in
              (rv, impedance_changed) in
          (rv, impedance_changed)
        else
          (rv, impedance_changed) in
      let radius := (l_ab E (gap / (1+1))) in
      let '(rv, impedance_changed) :=
        if ((l_ltb E 0 s) && (l_leb E (- (1)) xi)) then
          let impedance_changed := true in
          let rv := deref_add (add_assign K E) rv (ResistiveWall_ctor' nfreqs frev fmax ((l_c E) / frev) s xi radius) in
          (rv, impedance_changed)
        else
          (rv, impedance_changed) in
      let '(rv, impedance_changed) :=
        if ((l_ltb E 0 inner_coll_radius) && (l_ltb E inner_coll_radius radius)) then
          let impedance_changed := true in
          let rv := deref_add (add_assign K E) rv (CollimatorImpedance_ctor' nfreqs fmax radius inner_coll_radius) in
          (rv, impedance_changed)
        else
          (rv, impedance_changed) in
      (rv, impedance_changed)
    else
      (rv, impedance_changed) in
  let '(rv, impedance_changed) :=
    if (file_given impedance_file) then
      let impedance_changed := true in
      let rv := deref_add (add_assign K E) rv (file_data impedance_file) in
      (rv, impedance_changed)
    else
      (rv, impedance_changed) in
  let '(rv, impedance_changed) :=
    if (negb impedance_changed) then
      let rv := None in
      (rv, impedance_changed)
    else
      (rv, impedance_changed) in
  rv.

Definition makeImpedance (K : Fld) (E : Leaves K) : Z -> K -> K -> K -> K -> bool -> K -> K -> K -> option (list (cpx K)) -> option (list (cpx K)) :=
  makeImpedance_with K E (ParallelPlatesCSR_ctor K E) (FreeSpaceCSR_ctor K E) (ResistiveWall_ctor K E) (CollimatorImpedance_ctor K E).

(* Purity scan: every function definition of the impedance classes and of the factory, with every variable its
   body declares (parameters, locals) or refers to (constants defined outside) and the lifetime of that variable.
   A `Persistent` entry (static / thread_local local that is not a call-independent constant, non-const variable
   defined outside the function, non-const static data member) is refused by the translator before this table is
   written; Props/Properties_C16.v proves imp_functions_pure about the table. *)
Import String.
Local Open Scope string_scope.
Definition imp_decls : list fn_decls := [
  mk_fn "Impedance::data" [];
  mk_fn "Impedance::impedance" [];
  mk_fn "Impedance::operator[]" [("n", Automatic)];
  mk_fn "Impedance::nFreqs" [];
  mk_fn "Impedance::size" [];
  mk_fn "Impedance::getRuler" [];
  mk_fn "Impedance::<static members>" [("factor4Ohms", StaticConstant); ("Z0", StaticConstant)];
  mk_fn "Impedance::~Impedance" [];
  mk_fn "Impedance::Impedance" [("other", Automatic); ("axis", Automatic); ("z", Automatic); ("oclh", Automatic); ("f_max", Automatic); ("nfreqs", Automatic); ("datafile", Automatic)];
  mk_fn "Impedance::operator=" [("other", Automatic)];
  mk_fn "Impedance::operator+=" [("rhs", Automatic); ("nsum", Automatic); ("i", Automatic)];
  mk_fn "Impedance::swap" [("other", Automatic)];
  mk_fn "Impedance::readData" [("fname", Automatic); ("rv", Automatic); ("is", Automatic); ("lineno", Automatic); ("old_lineno", Automatic); ("real", Automatic); ("imag", Automatic)];
  mk_fn "ConstImpedance::ConstImpedance" [("n", Automatic); ("f_max", Automatic); ("Z", Automatic); ("oclh", Automatic)];
  mk_fn "ConstImpedance::__calcImpedance" [("n", Automatic); ("Z", Automatic); ("rv", Automatic)];
  mk_fn "CollimatorImpedance::CollimatorImpedance" [("n", Automatic); ("f_max", Automatic); ("outer", Automatic); ("inner", Automatic); ("oclh", Automatic); ("Z0", StaticConstant)];
  mk_fn "FreeSpaceCSR::FreeSpaceCSR" [("n", Automatic); ("f_rev", Automatic); ("f_max", Automatic); ("oclh", Automatic)];
  mk_fn "FreeSpaceCSR::__calcImpedance" [("n", Automatic); ("f_rev", Automatic); ("f_max", Automatic); ("rv", Automatic); ("Z0", Automatic); ("delta", Automatic); ("i", Automatic); ("i", Automatic)];
  mk_fn "ParallelPlatesCSR::ParallelPlatesCSR" [("nfreqs", Automatic); ("f0", Automatic); ("f_max", Automatic); ("g", Automatic); ("oclh", Automatic)];
  mk_fn "ParallelPlatesCSR::__calcImpedance" [("nfreqs", Automatic); ("f0", Automatic); ("f_max", Automatic); ("g", Automatic); ("rv", Automatic); ("delta", Automatic); ("r_bend", Automatic); ("j", Automatic); ("i", Automatic); ("Z", Automatic); ("n", Automatic); ("m", Automatic); ("maxp", Automatic); ("b", Automatic); ("zinc", Automatic); ("p", Automatic); ("u", Automatic); ("c", StaticConstant); ("Z0", StaticConstant)];
  mk_fn "ResistiveWall::ResistiveWall" [("n", Automatic); ("f0", Automatic); ("f_max", Automatic); ("L", Automatic); ("s", Automatic); ("xi", Automatic); ("b", Automatic); ("oclh", Automatic)];
  mk_fn "ResistiveWall::__calcImpedance" [("n", Automatic); ("f0", Automatic); ("f_max", Automatic); ("L", Automatic); ("s", Automatic); ("xi", Automatic); ("b", Automatic); ("rv", Automatic); ("mu_r", Automatic); ("Z1", Automatic); ("delta", Automatic); ("i", Automatic); ("i", Automatic); ("Z0", StaticConstant); ("c", StaticConstant)];
  mk_fn "makeImpedance" [("nfreqs", Automatic); ("oclh", Automatic); ("fmax", Automatic); ("R_bend", Automatic); ("frev", Automatic); ("gap", Automatic); ("use_csr", Automatic); ("s", Automatic); ("xi", Automatic); ("inner_coll_radius", Automatic); ("impedance_file", Automatic); ("f0", Automatic); ("rv", Automatic); ("impedance_changed", Automatic); ("radius", Automatic); ("c", StaticConstant)]
].
