(* GENERATED on every run by translate/wakeupdate2coq.py from WakePotentialMap::update (src/SM/WakePotentialMap.cpp),
   the KickMap and WakeKickMap constructors and KickMap::updateSM (src/SM/KickMap.cpp, src/SM/WakeKickMap.cpp) and
   ElectricField's constructor / wakePotential() (src/PS/ElectricField.cpp). Do not edit. *)
From Coq Require Import ZArith List Bool.
From Inovesa Require Import Model.RunKinds.
Import ListNotations.
Local Open Scope Z_scope.
(* WakePotentialMap::update, CPU branch: statements in program order; the i-th copied element *)
Definition wu_prog : list wu_stmt := [WUCopy; WUUpdateSM].
Definition wu_count (nb xsize : Z) : Z := (nb * xsize).
Definition wu_src_idx (nb xsize i : Z) : Z := i.
Definition wu_dst_idx (nb xsize i : Z) : Z := i.
(* KickMap constructor: kdx = (kd == Axis::x) *)
Definition km_xsize (kdx : bool) (nx ny nb : Z) : Z := (if kdx then 1 else nx).
Definition km_meshsize_kd (kdx : bool) (nx ny nb : Z) : Z := (if kdx then nx else ny).
Definition km_meshsize_pd (kdx : bool) (nx ny nb : Z) : Z := (if kdx then ny else nx).
Definition km_lastbunch (nb : Z) : Z := (nb - 1).
Definition km_offset_size (kd pd nb : Z) : Z := (pd * nb).
(* WakeKickMap constructor: the direction handed to KickMap *)
Definition wkm_kick_is_x : bool := false.
(* KickMap::updateSM: loop bound, the _offset entry iteration i reads, the _hinfo entry it writes for stencil point j1 *)
Definition usm_bound (offset_size ip it : Z) : Z := offset_size.
Definition usm_offset_read (ip it i : Z) : Z := i.
Definition usm_hinfo_write (ip it i j1 : Z) : Z := ((i * ip) + j1).
(* ElectricField: extents of _wakepotential, bounds of the read-back loops, subscripts written; the function returns .data() *)
Definition wp_extent0 (nb nx : Z) : Z := nb.
Definition wp_extent1 (nb nx : Z) : Z := nx.
Definition wp_bound_b (nb nx : Z) : Z := nb.
Definition wp_bound_x (nb nx : Z) : Z := nx.
Definition wp_row (b x : Z) : Z := b.
Definition wp_col (b x : Z) : Z := x.
