(* GENERATED on every run by translate/pow2coq.py from vfps::upper_power_of_two (src/HelperFunctions.cpp). Do not edit. *)
From Coq Require Import List ZArith.
From Inovesa Require Import Model.Pow2Ops.
Import ListNotations.
Definition gen_upow2_ops : list uop := [UDec; UOrShr 1; UOrShr 2; UOrShr 4; UOrShr 8; UOrShr 16; UOrShr 32; UInc].
