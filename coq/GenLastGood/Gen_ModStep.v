(* GENERATED on every run by translate/modstep2coq.py from src/main.cpp (the two
   `new DynamicRFKickMap(...)` calls and the definitions of the variables passed as modampl and
   modtimeincrement) and src/SM/DynamicRFKickMap.cpp (parameter names). Do not edit.
   const locals followed: rf_mod_ampl, f_rev, steps, dt, rf_mod_step
   leaves (option getters, non-const or non-arithmetic variables): fs, getRFPhaseModAmplitude, getRFPhaseModFrequency, getRevolutionFrequency, getStepsPerTrev, getStepsPerTsync *)
From Coq Require Import List String ZArith.
From Inovesa Require Import Base.FieldKit.
Import ListNotations.
Local Open Scope string_scope.
(* (constructor parameter, variable of main() passed for it) *)
Definition main_dyn_args_linear : list (string * string) :=
  [("in", "grid_t2");
   ("out", "grid_t1");
   ("xsize", "ps_bins");
   ("ysize", "ps_bins");
   ("angle", "angle");
   ("revolutionpart", "revolutionpart");
   ("f_RF", "f_RF");
   ("phasespread", "rf_phase_noise");
   ("amplspread", "rf_ampl_noise");
   ("modampl", "rf_mod_ampl");
   ("modtimeincrement", "rf_mod_step");
   ("steps", "laststep");
   ("it", "interpolationtype");
   ("interpol_clamp", "interpol_clamp");
   ("oclh", "oclh")].
(* (constructor parameter, variable of main() passed for it) *)
Definition main_dyn_args_sinusoidal : list (string * string) :=
  [("in", "grid_t2");
   ("out", "grid_t1");
   ("xsize", "ps_bins");
   ("ysize", "ps_bins");
   ("revolutionpart", "revolutionpart");
   ("V_RF", "V_eff");
   ("f_RF", "f_RF");
   ("V0", "V0");
   ("phasespread", "rf_phase_noise");
   ("amplspread", "rf_ampl_noise");
   ("modampl", "rf_mod_ampl");
   ("modtimeincrement", "rf_mod_step");
   ("steps", "laststep");
   ("it", "interpolationtype");
   ("interpol_clamp", "interpol_clamp");
   ("oclh", "oclh")].
(* the variable passed as `steps` (queue length) is the bound `laststep` of the main loop and is never reassigned *)
Definition main_dyn_steps_arg_is_loop_bound : bool := true.
Section MainArgs.
  Variable K : Fld.
  Variable two_pi : K.
  Variable fmax : K -> K -> K.       (* std::max *)
  Variable fgt : K -> K -> bool.     (* a > b *)
  Local Open Scope F_scope.
  (* rf_mod_ampl *)
  Definition main_lin_modampl (env : string -> K) : K := (fmax 0 (((env "getRFPhaseModAmplitude") / ((1+1)*((1+1)*((1+1)*(1+(1+1)*((1+1)*(1+(1+1)*(1+(1+1)*(1+1))))))))) * two_pi)).
  (* rf_mod_step *)
  Definition main_lin_modtimeincrement (env : string -> K) : K := ((env "getRFPhaseModFrequency") * (1 / ((env "fs") * (if fgt (env "getStepsPerTrev") 0 then (((env "getStepsPerTrev") * (env "getRevolutionFrequency")) / (env "fs")) else (fmax (env "getStepsPerTsync") 1))))).
  (* rf_mod_ampl *)
  Definition main_sin_modampl (env : string -> K) : K := (fmax 0 (((env "getRFPhaseModAmplitude") / ((1+1)*((1+1)*((1+1)*(1+(1+1)*((1+1)*(1+(1+1)*(1+(1+1)*(1+1))))))))) * two_pi)).
  (* rf_mod_step *)
  Definition main_sin_modtimeincrement (env : string -> K) : K := ((env "getRFPhaseModFrequency") * (1 / ((env "fs") * (if fgt (env "getStepsPerTrev") 0 then (((env "getStepsPerTrev") * (env "getRevolutionFrequency")) / (env "fs")) else (fmax (env "getStepsPerTsync") 1))))).
End MainArgs.
