(* GENERATED on every run by translate/nbsource2coq.py from src/main.cpp, src/PS/PhaseSpaceFactory.cpp,
   src/PS/ElectricField.cpp.  Do not edit. *)
From Coq Require Import List ZArith Bool String.
From Inovesa Require Import Model.NbSourceTypes.
Import ListNotations.
Local Open Scope Z_scope.

(* main(): the filling loop - a bucket with bunch current c is filled iff *)
Definition gen_filled (c : Z) : bool := (0 <? c).
(* ... and then gets the bucket number (size = filling.size(), i = its index) *)
Definition gen_bucket_entry (size i : Z) : Z := ((size - 1) - i).
(* main(): a run that goes on past the guard after `nbunches = bunches.size()` has at least this many filled buckets
   (0: there is no such guard) *)
Definition gen_min_bunches : Z := 1.
(* main(), no start file: PhaseSpace::setSize(.., nbunches): the number of bunches of the phase space *)
Definition gen_nb_nofile (nbunches : Z) : Z := nbunches.
(* makePSFromTXT: PhaseSpace::setSize(.., k) *)
Definition gen_nb_txt : Z := 1.
(* makePSFromHDF5 returns nullptr when the reader throws, and main() quits on nullptr: both read (they are facts of this
   file's existence: the translator fails otherwise) *)
Definition gen_h5_exception_quits : bool := true.
(* main(): what every ElectricField construction hands to the constructor parameter `bucketnumber` that initialises _bucket *)
Local Open Scope string_scope.
Definition gen_field_bucket_args : list string := ["bucketnumbers"; "bucketnumbers"].
(* ElectricField.cpp: every `_bucket[b]`: the function and the bound of the loop that counts b from 0 *)
Definition gen_bucket_sites : list (string * bucket_bound) := [("wakePotential", BoundNb); ("padBunchProfiles", BoundNb)].
