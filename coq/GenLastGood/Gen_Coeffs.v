(* GENERATED on every run by translate/coeffs2coq.py from src/SM/SourceMap.cpp
   (SourceMap::calcCoefficiants). Do not edit. *)
From Coq Require Import List ZArith.
From Inovesa Require Import Base.FieldKit.
Import ListNotations.
Section Gen.
  Variable K : Fld.
  Local Open Scope F_scope.
  Definition coeffs (it : Z) (f : K) : list K :=
    if (it =? 1)%Z then [1] else
    if (it =? 2)%Z then [(1 - f); f] else
    if (it =? 3)%Z then [((f * (f - 1)) / (1+1)); (1 - (f * f)); ((f * (f + 1)) / (1+1))] else
    if (it =? 4)%Z then [((((f - 1) * (f - (1+1))) * f) * ((- (1)) / ((1+1)*(1+(1+1))))); ((((f + 1) * (f - 1)) * (f - (1+1))) / (1+1)); (((((1+1) - f) * f) * (f + 1)) / (1+1)); (((f * (f + 1)) * (f - 1)) * (1 / ((1+1)*(1+(1+1)))))] else
    [].
  Definition coeff_cases : list Z := [1; 2; 3; 4]%Z.
End Gen.
Arguments coeffs {_}.
