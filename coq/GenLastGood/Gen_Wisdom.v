(* GENERATED on every run by translate/wisdom2coq.py from src/FFTWWrapper.cpp (every definition of fft::prepareFFT)
   and src/IO/FSPath.cpp (FSPath::append, FSPath::validateDirectory). Do not edit. *)
From Coq Require Import List ZArith String Bool.
From Inovesa Require Import Model.Wisdom.
Import ListNotations.
Local Open Scope string_scope.
(* the one constructor FSPath(std::string) is `: _path(..) { validateDirectory(_path); }` *)
Definition fspath_ctor_validates : bool := true.
(* FSPath::append is `_path /= path; validateDirectory(_path); return *this;` *)
Definition fspath_append_validates : bool := true.
(* FSPath::validateDirectory(p) creates p.parent_path() (p itself when it ends in '/') when p does not exist *)
Definition fspath_validate_creates_parent : bool := true.
(* one entry per definition of prepareFFT: wisdom kinds (file wisdom_<kind>_<n>.fftw), how the path is built, body *)
Definition wisdom_table : list prep :=
  [mkprep ["r2c64"] PFSPathAppend
     [WImportThen [WPlan true];
      WIfNoPlan [WPlan false; WExport; WLog]];
   mkprep ["r2c32"] PFSPathAppend
     [WImportThen [WPlan true];
      WIfNoPlan [WPlan false; WExport; WLog]];
   mkprep ["c2r32"] PFSPathAppend
     [WImportThen [WPlan true];
      WIfNoPlan [WPlan false; WExport; WLog]];
   mkprep ["cbc64"; "cfc64"] PFSPathAppend
     [WImportThen [WPlan true];
      WIfNoPlan [WPlan false; WExport; WLog]];
   mkprep ["cbc32"; "cfc32"] PFSPathAppend
     [WImportThen [WPlan true];
      WIfNoPlan [WPlan false; WExport; WLog]]].
(* signature of each definition, in the order of the table *)
Definition wisdom_signatures : list string :=
  ["fftw_plan (size_t, double *, fftw_complex *)";
   "fftwf_plan (size_t, float *, fftwf_complex *)";
   "fftwf_plan (size_t, fftwf_complex *, float *)";
   "fftw_plan (size_t, fftw_complex *, fftw_complex *, fft::fft_direction)";
   "fftwf_plan (size_t, fftwf_complex *, fftwf_complex *, fft::fft_direction)"].
(* inline overloads that only forward (same n, same direction) to one of the above *)
Definition wisdom_forwarders : list string :=
  ["fftw_plan (size_t, double *, std::complex<double> *)";
   "fftwf_plan (size_t, float *, std::complex<float> *)";
   "fftwf_plan (size_t, std::complex<float> *, float *)";
   "fftw_plan (size_t, std::complex<double> *, std::complex<double> *, fft::fft_direction)";
   "fftwf_plan (size_t, std::complex<float> *, std::complex<float> *, fft::fft_direction)"].
(* every plan call of every definition uses a planner that measures run times (no FFTW_ESTIMATE): which plan FFTW
   picks without stored wisdom is not a function of the problem - what the wisdom files are for *)
Definition wisdom_planner_timed : bool := true.
