(* GENERATED on every run by translate/signals2coq.py: lexical scan of 71 files under src/ and inc/ for
   signal, sigaction, sigprocmask, pthread_sigmask, sigsetmask, sigblock, siginterrupt, sigset, sighold, sigrelse, sigignore, sigpause, sigsuspend, sigwait, sigwaitinfo, sigtimedwait, signalfd, bsd_signal, sysv_signal, ssignal, sigvec;
   main() and Display::SIGINT_handler from the clang AST. Do not edit. *)
From Coq Require Import List ZArith String.
From Inovesa Require Import Model.Signals.
Import ListNotations.
Local Open Scope string_scope.
Local Open Scope Z_scope.
Definition signal_sites : list sigsite :=
  [mksite "src/main.cpp" 85 "signal" true ["SIGINT"; "Display::SIGINT_handler"] (SMainTop 1)].
(* index of the first top-level statement of main() that contains a VERIF_POINT hook *)
Definition main_first_point_stmt : Z := 2.
(* body of Display::SIGINT_handler *)
Definition sigint_handler_body : list hstmt := [HSetAbortTrue].
Definition signal_files_scanned : Z := 71.
