(* GENERATED on every run by translate/h5units2coq.py from src/IO/HDF5File.cpp (constructor)
   and src/PS/ElectricField.cpp (mem-initialisers). Do not edit. *)
From Coq Require Import List ZArith.
From Inovesa Require Import Base.FieldKit.
Section Gen.
  Variable K : Fld.
  Local Open Scope F_scope.
  Definition gen_Second_z (ax_z_meter c : K) : K := (ax_z_meter / c).
  Definition gen_Turn (t_sync f_rev : K) : K := (t_sync * f_rev).
  Definition gen_Hertz (scale0 c : K) : K := (c / scale0).
  Definition gen_Volt (deltaE scale1 revolutionpart : K) : K := ((deltaE * scale1) / revolutionpart).
  Definition gen_WattPerHertz (ohm Ib f_rev : K) : K := (((((1+1) * ohm) * Ib) * Ib) / f_rev).
  Definition gen_Watt (ohm Ib f_rev hertz : K) : K := ((((((1+1) * ohm) * Ib) * Ib) / f_rev) * hertz).
End Gen.
