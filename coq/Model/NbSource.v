(** * Where PhaseSpace::nb and ElectricField::_bucket come from (C17; strengthening after seeded change C17-G).

    The loops of ElectricField (padBunchProfiles, wakePotential) index `_bucket[b]` for b < PhaseSpace::nb.
    `_bucket` is main()'s `bucketnumbers`: one entry per FILLED bucket of the configured filling pattern.
    PhaseSpace::nb is set by whoever calls PhaseSpace::setSize first - main() itself without a start file, the HDF5
    reader or the text reader otherwise.  This file puts the generated facts about the two together
    (Gen/Gen_NbSource.v: main(), makePSFromHDF5/TXT, ElectricField.cpp; Gen/Gen_H5Index.v: readPhaseSpace,
    PhaseSpace::setSize, main()'s grid-size refusal).  Bunch currents are abstract ordered values (Z): only their
    comparison with zero is read.  No proofs here (Proofs/NbSourceP.v). *)
From Coq Require Import List ZArith Bool String.
From Inovesa Require Import Model.NbSourceTypes Gen.Gen_NbSource Gen.Gen_H5Index.
Import ListNotations.
Local Open Scope Z_scope.

(** main()'s filling loop: bucket numbers of the filled buckets, in loop order *)
Fixpoint bucket_loop (size : Z) (i : Z) (filling : list Z) : list Z :=
  match filling with
  | [] => []
  | c :: r => if gen_filled c then gen_bucket_entry size i :: bucket_loop size (i + 1) r else bucket_loop size (i + 1) r
  end.
Definition bucketnumbers (filling : list Z) : list Z := bucket_loop (Z.of_nat (List.length filling)) 0 filling.

(** `bunches` is pushed in the same branch: its size *)
Definition nbunches (filling : list Z) : Z := Z.of_nat (List.length (filter gen_filled filling)).

(** the start-up paths of main() *)
Inductive start :=
| NoFile                                 (* startdistfile.empty() *)
| H5File (dims : list Z) (step : Z)      (* .h5/.hdf5: extents of /PhaseSpace/data, InitialDistStep *)
| TxtFile.                               (* .txt *)

Definition product (l : list Z) : Z := fold_right Z.mul 1 l.

(** HDF5File::readPhaseSpace for a rank-3 / rank-4 dataset: Some nb when the data are read and main() goes on
    (grid size equal to GridSize), None when the reader throws (makePSFromHDF5 then returns nullptr and main()
    quits) or main() refuses the grid size.  Other ranks are outside this model. *)
Definition h5_nb (dims : list Z) (step : Z) (gridsize : Z) : option Z :=
  let u := gen_use_step dims step in
  let sel := match List.length dims with
             | 3%nat => Some (gen_r3_setsize dims u, gen_r3_count dims u)
             | 4%nat => Some (gen_r4_setsize dims u, gen_r4_count dims u)
             | _ => None
             end in
  match sel with
  | None => None
  | Some ((x, b), count) =>
    let '(nx, _, nb, nxyb) := gen_setsize x b in
    if gen_accept nxyb (product count) then
      if gen_main_refuses_gridsize nx gridsize then None else Some nb
    else None
  end.

(** PhaseSpace::nb on a run that reaches the field objects; None: main() has quit before *)
Definition start_nb_with (min_bunches : Z) (s : start) (gridsize : Z) (filling : list Z) : option Z :=
  if nbunches filling <? min_bunches then None
  else match s with
       | NoFile => Some (gen_nb_nofile (nbunches filling))
       | H5File dims step => if gen_h5_exception_quits then h5_nb dims step gridsize else None
       | TxtFile => Some gen_nb_txt
       end.
(** with the guard main() has (gen_min_bunches = 0: no guard) *)
Definition start_nb := start_nb_with gen_min_bunches.

(** every field object of main() is given `bucketnumbers` *)
Definition fields_get_bucketnumbers : bool :=
  forallb (fun a => String.eqb a "bucketnumbers") gen_field_bucket_args && negb (Nat.eqb (List.length gen_field_bucket_args) 0).

(** is an index b < nb of a site inside a bucket list of length len ? *)
Definition site_ok (nb len : Z) (s : string * bucket_bound) : bool :=
  match snd s with BoundNb => nb <=? len | BoundOwnSize => true end.
