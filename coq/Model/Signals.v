(** * Signal disposition (C14; strengthening driven by seed C14-H)

    The driver model (Model/Driver.v) lets a signal arrive at every hook point and then sets the abort flag:
    "signal delivered => flag set".  That is true only while SIGINT's disposition is the handler main() installs
    and the signal is not blocked.  translate/signals2coq.py lists EVERY place under src/ and inc/ that names a
    function changing signal dispositions or masks ([signal_sites], Gen/Gen_Signals.v), says where main() installs
    its handler and where its first hook point is, and what the handler's body does.  This file gives the list a
    semantics: a disposition table updated by the sites in whatever order and number the program happens to
    execute them, and the delivery of SIGINT under a table.  No proofs in this file. *)
From Coq Require Import List ZArith String Bool.
Import ListNotations.
Local Open Scope string_scope.

(** where a site is *)
Inductive swhere :=
| SMainTop (stmt : Z)     (* the site IS the top-level statement number [stmt] of main() *)
| SMainNested (stmt : Z)  (* inside the top-level statement [stmt] of main() (a branch, a loop, an expression) *)
| SElsewhere.             (* any other function, any file *)

(** one textual site: callee name without qualification (`std::signal` -> "signal"), arguments as written (white space
    removed); [s_call = false]: the name is mentioned without being called (address taken, passed on) *)
Record sigsite := mksite { s_file : string; s_line : Z; s_fn : string; s_call : bool; s_args : list string; s_where : swhere }.

(** statements of a signal handler's body *)
Inductive hstmt := HSetAbortTrue | HOther (text : string).

Inductive disposition := DDefault | DIgnore | DHandler (h : string).

(** what a site does when executed *)
Inductive sigact :=
| AInstall (sg : string) (d : disposition)   (* signal(sg, h) *)
| AOpaque.                                   (* anything else: sigaction, masks, a mention without a call, a variable signal number *)

(** signal numbers the classification understands; anything else (a variable, an expression) is opaque *)
Definition known_signals : list string :=
  ["SIGINT"; "SIGTERM"; "SIGHUP"; "SIGQUIT"; "SIGPIPE"; "SIGUSR1"; "SIGUSR2"; "SIGALRM"; "SIGCHLD"; "SIGCONT";
   "SIGABRT"; "SIGFPE"; "SIGSEGV"; "SIGILL"; "SIGBUS"; "SIGWINCH"; "SIGTSTP"].

Definition mem_str (x : string) (l : list string) : bool := existsb (String.eqb x) l.

Definition classify (s : sigsite) : sigact :=
  if negb (s_call s) then AOpaque else
  if negb (String.eqb (s_fn s) "signal") then AOpaque else
  match s_args s with
  | [sg; h] =>
      if mem_str sg known_signals then
        AInstall sg (if String.eqb h "SIG_IGN" then DIgnore else if String.eqb h "SIG_DFL" then DDefault else DHandler h)
      else AOpaque
  | _ => AOpaque
  end.

(** the process's view of SIGINT: its disposition, or [None] once something the model cannot follow has happened
    (a mask change, a sigaction, a signal number that is not a literal name) *)
Definition sstate := option disposition.

Definition apply_site (s : sigsite) (st : sstate) : sstate :=
  match st with
  | None => None
  | Some d =>
      match classify s with
      | AOpaque => None
      | AInstall sg d' => if String.eqb sg "SIGINT" then Some d' else Some d
      end
  end.

Definition run_sites (tr : list sigsite) (st : sstate) : sstate := fold_left (fun st s => apply_site s st) tr st.

(** the handler main() is expected to install *)
Definition the_handler : string := "Display::SIGINT_handler".

(** executing a handler body on the flag *)
Definition run_handler (body : list hstmt) (flag : bool) : option bool :=
  fold_left (fun f s => match f, s with Some _, HSetAbortTrue => Some true | _, _ => None end) body (Some flag).

(** delivery of one SIGINT under a table: the flag afterwards; [None] = the model does not know (table unknown, process
    terminated by the default action, a handler that does something else) *)
Definition deliver (st : sstate) (body : list hstmt) (flag : bool) : option bool :=
  match st with
  | Some (DHandler h) => if String.eqb h the_handler then run_handler body flag else None
  | Some DIgnore => Some flag          (* discarded: the flag stays as it was *)
  | _ => None
  end.

(** a site that cannot take the handler away: it installs the expected handler for SIGINT or concerns another signal *)
Definition harmless (s : sigsite) : bool :=
  match classify s with
  | AInstall sg d =>
      if String.eqb sg "SIGINT" then match d with DHandler h => String.eqb h the_handler | _ => false end else true
  | AOpaque => false
  end.

Definition is_install (s : sigsite) : bool :=
  match classify s with
  | AInstall sg (DHandler h) => String.eqb sg "SIGINT" && String.eqb h the_handler
  | _ => false
  end.

(** the per-run obligation: every site is harmless; main() installs the handler as a top-level statement before the
    top-level statement that holds its first hook point; the handler's body is `Display::abort = true;` *)
Definition installs_before (first_point : Z) (s : sigsite) : bool :=
  is_install s && match s_where s with SMainTop i => (i <? first_point)%Z | _ => false end.

Definition sig_ok (sites : list sigsite) (first_point : Z) (body : list hstmt) : bool :=
  forallb harmless sites && existsb (installs_before first_point) sites &&
  match body with [HSetAbortTrue] => true | _ => false end.
