(** * The tracking model assembled from the *generated* definitions (Gen/Gen_Track.v)

    [gen_applyTo] is SourceMap::applyTo with every map's body taken from the translation of this
    run's C++ source; [gen_trajectory] / [gen_run_all] iterate it the way SourceMap::applyToAll and
    the main loop do.  A map result whose coordinates are not both finite ends the iteration (the
    next applyTo would convert a non-finite float to an index: undefined behaviour).

    [dyn_*]: the statements of DynamicRFKickMap::apply interpreted over the queue model of
    Model/DynRF.v, composed with KickMap::applyTo reading the map's [_offset] (what
    [rfm->applyToAll(trackme)] does after [rfm->apply()] in main()).

    No proofs in this file. *)
From Coq Require Import List ZArith QArith Qcanon Bool.
From Inovesa Require Import Base.FieldKit Base.Float32 Model.Kick Model.Tracking Model.StepKinds
  Model.TrackX Model.DynRF Gen.Gen_Track.
Import ListNotations.
Local Open Scope Z_scope.

(** operations with every member the generated bodies may read *)
Inductive gop :=
| GKick (dirx : bool) (offs : Z -> Qc)
| GIdent
| GFP (fptrack : Z) (ip : Z) (H : Z -> Z * Qc) (D : Z -> Qc) (e1 zb0 zb1 : Qc) (noise : nat -> Qc).

Definition gen_applyTo (n : Z) (o : gop) (k : nat) (p : pos) : xpos :=
  match o with
  | GKick true offs => gen_kick_x n n offs (px p) (py p)
  | GKick false offs => gen_kick_y n n offs (px p) (py p)
  | GIdent => xpos_of p
  | GFP ft ip H D e1 zb0 zb1 noise => gen_fp_applyTo ft n n ip H D e1 zb0 zb1 (noise k) (px p) (py p)
  end.

(** the model's operations as generated operations; [zb0] (zero bin of the position axis) is not
    part of the hand-written model *)
Definition gop_of_op (zb0 : Qc) (o : Tracking.op) : gop :=
  match o with
  | OpKick d offs => GKick d offs
  | OpIdent => GIdent
  | OpFPNone => GFP 0 0 (fun _ => (0, 0%Qc)) (fun _ => 0%Qc) 0%Qc zb0 0%Qc (fun _ => 0%Qc)
  | OpFP1 ip H => GFP 1 ip H (fun _ => 0%Qc) 0%Qc zb0 0%Qc (fun _ => 0%Qc)
  | OpFP2 ip H D => GFP 2 ip H D 0%Qc zb0 0%Qc (fun _ => 0%Qc)
  | OpFPStoch e1 yc noise => GFP 3 0 (fun _ => (0, 0%Qc)) (fun _ => 0%Qc) e1 zb0 yc noise
  end.

Definition pos_of_x (q : xpos) : option pos :=
  match q with (XF x, XF y) => Some (mkpos x y) | _ => None end.

Fixpoint gen_trajectory (n : Z) (ops : list gop) (k : nat) (p : pos) : list xpos :=
  match ops with
  | [] => []
  | o :: r => let q := gen_applyTo n o k p in
              q :: match pos_of_x q with Some p' => gen_trajectory n r k p' | None => [] end
  end.

(** SourceMap::applyToAll *)
Definition gen_applyToAll (n : Z) (o : gop) (ps : list pos) : list xpos := mapi_from (gen_applyTo n o) 0 ps.

Fixpoint all_pos (qs : list xpos) : option (list pos) :=
  match qs with
  | [] => Some []
  | q :: r => match pos_of_x q, all_pos r with Some p, Some ps => Some (p :: ps) | _, _ => None end
  end.

Fixpoint gen_run_all (n : Z) (ops : list gop) (ps : list pos) : list (list xpos) :=
  match ops with
  | [] => []
  | o :: r => let qs := gen_applyToAll n o ps in
              qs :: match all_pos qs with Some ps' => gen_run_all n r ps' | None => [] end
  end.

(** loading of the tracking file (main()) and the record of /Particles/data (HDF5File::appendTracks)
    from the generated pieces *)
Definition gen_load_coord (n : Z) (amin0 adelta0 amin1 adelta1 : Qc) (e : ldfn * fcol) (c1 c2 : Qc) : xval :=
  let c := match snd e with Col1 => c1 | Col2 => c2 end in
  match fst e with
  | LdX => gen_ps_x n n amin0 adelta0 amin1 adelta1 c
  | LdY => gen_ps_y n n amin0 adelta0 amin1 adelta1 c
  end.
Definition gen_load (n : Z) (amin0 adelta0 amin1 adelta1 : Qc) (c1 c2 : Qc) : xpos :=
  (gen_load_coord n amin0 adelta0 amin1 adelta1 gen_load_first c1 c2,
   gen_load_coord n amin0 adelta0 amin1 adelta1 gen_load_second c1 c2).

Definition gen_append (ax : Z -> Z -> Qc) (p : pos) : Qc * Qc :=
  append_record gen_axis_of ax gen_append_first gen_append_second p.

(** ** the per-step calls of main(): every applyToAll directly follows the apply() of the same map *)
Fixpoint track_events_ok (l : list tevent) : bool :=
  match l with
  | [] => true
  | TApply m :: TTrack m' :: r => smap_eqb m m' && track_events_ok r
  | _ => false
  end.

(** ** DynamicRFKickMap::apply statement by statement over the state of Model/DynRF.v (field Qc) *)
Section Dyn.
  Variable sin : Qc -> Qc.
  Variable G : Type.
  Variable kickmap : list Qc -> G -> G.
  Variable m : rfmap QcF.

  Definition qst := @st QcF G.

  (** the (phase, amplitude) pair `_calcKick` hands to RFKickMap::_calcKick: components
      [fst args], [snd args] of the queue's front entry *)
  Definition comp (e : modn QcF) (i : Z) : Qc := if i =? 0 then fst e else snd e.

  Definition dyn_stmt (args : Z * Z) (d : dynstmt) (s : qst) : qst :=
    if ub s then s else
    match d with
    | DCalcKick =>
        match queue s with
        | [] => mkSt (offs s) (queue s) (past s) (grid s) (flushed s) (kicks s) (used s) true
        | e :: _ => mkSt (write_prefix (calc_kick (K:=QcF) sin m (comp e (fst args)) (comp e (snd args))) (offs s))
                         (queue s) (past s) (grid s) (flushed s) (kicks s) (used s ++ [e]) false
        end
    | DKickApply => mkSt (offs s) (queue s) (past s) (kickmap (offs s) (grid s)) (flushed s)
                         (kicks s ++ [offs s]) (used s) false
    | DPushPast =>
        match queue s with
        | [] => mkSt (offs s) (queue s) (past s) (grid s) (flushed s) (kicks s) (used s) true
        | e :: _ => mkSt (offs s) (queue s) (past s ++ [e]) (grid s) (flushed s) (kicks s) (used s) false
        end
    | DPop =>
        match queue s with
        | [] => mkSt (offs s) (queue s) (past s) (grid s) (flushed s) (kicks s) (used s) true
        | _ :: q => mkSt (offs s) q (past s) (grid s) (flushed s) (kicks s) (used s) false
        end
    | DCalcKickIfMore =>
        match queue s with
        | [] => s
        | e :: _ => mkSt (write_prefix (calc_kick (K:=QcF) sin m (comp e (fst args)) (comp e (snd args))) (offs s))
                         (queue s) (past s) (grid s) (flushed s) (kicks s) (used s ++ [e]) false
        end
    end.

  Definition dyn_apply (args : Z * Z) (body : list dynstmt) (s : qst) : qst :=
    fold_left (fun s d => dyn_stmt args d s) body s.

  (** one step of main() for the RF map: `rfm->apply()` then `rfm->applyToAll(trackme)`;
      KickMap::applyTo (kick along y) reads the map's `_offset` as it is after apply() *)
  Definition dyn_track_step (n : Z) (args : Z * Z) (body : list dynstmt) (sp : qst * list pos) : qst * list pos :=
    let s' := dyn_apply args body (fst sp) in
    (s', applyToAll n (OpKick false (getQ (offs s'))) (snd sp)).

  Fixpoint dyn_track_run (n : Z) (args : Z * Z) (body : list dynstmt) (steps : nat) (sp : qst * list pos)
    : list (qst * list pos) :=
    match steps with
    | O => []
    | S k => let sp' := dyn_track_step n args body sp in sp' :: dyn_track_run n args body k sp'
    end.
End Dyn.

(** ** list front-end for the extracted driver: the generated model on the inputs of [run_list] *)
Inductive glop :=
| GLKick (dirx : bool) (offs : list Qc)
| GLIdent
| GLFP (fptrack : Z) (ip : Z) (H : list (Z * Qc)) (D : list Qc) (e1 zb0 zb1 : Qc) (noise : list Qc).

Definition gop_of_glop (l : glop) : gop :=
  match l with
  | GLKick d offs => GKick d (getQ offs)
  | GLIdent => GIdent
  | GLFP ft ip H D e1 zb0 zb1 noise => GFP ft ip (getH H) (getQ D) e1 zb0 zb1 (fun k => nth k noise 0%Qc)
  end.

Definition gen_run_list (n : Z) (ops : list glop) (ps : list pos) : list (list xpos) :=
  gen_run_all n (map gop_of_glop ops) ps.

(** tracked RF kicks: per step the (phase, amplitude) pair of the queue; returns per step the
    offsets KickMap::apply used (log [kicks]) and the particles after applyToAll.  [kickmap] is the
    identity on a unit grid: only the offsets and the particles are observed. *)
Definition dyn_track_list (sin : Qc -> Qc) (m : rfmap QcF) (n : Z) (len : nat) (q : list (Qc * Qc))
           (steps : nat) (ps : list pos) : list (list Qc * list pos) :=
  map (fun sp => (offs (fst sp), snd sp))
      (dyn_track_run sin unit (fun _ g => g) m n gen_dyn_calckick_args gen_dyn_apply steps
                     (init (K:=QcF) sin m len q tt, ps)).

(** a linear RFKickMap (the members `_calcKick` reads in the linear branch) and one step
    `rfm->apply(); rfm->applyToAll(ps)` from explicit `_offset` / queue contents; the
    sine is not used by the linear branch *)
Definition linear_rf (tanq sync bl2 xc d0 : Qc) (xsize : Z) : rfmap QcF :=
  mkRF (K:=QcF) true tanq 0%Qc 0%Qc 0%Qc sync bl2 xsize xc d0 1%Qc 1%Qc (fun _ => 0%Qc).

Definition dyn_step_list (m : rfmap QcF) (n : Z) (o : list Qc) (q : list (Qc * Qc)) (ps : list pos)
  : (list Qc * list (Qc * Qc)) * list pos :=
  let s : @st QcF unit := mkSt (K:=QcF) o q [] tt [] [] [] false in
  let sp := dyn_track_step (fun x => x) unit (fun _ g => g) m n gen_dyn_calckick_args gen_dyn_apply (s, ps) in
  ((offs (fst sp), queue (fst sp)), snd sp).

(** loading and recording through the generated pieces, for the driver *)
Definition gen_load_list (n : Z) (amin0 adelta0 amin1 adelta1 : Qc) (cs : list (Qc * Qc)) : list xpos :=
  map (fun c => gen_load n amin0 adelta0 amin1 adelta1 (fst c) (snd c)) cs.
Definition gen_append_list (ax0 ax1 : list Qc) (ps : list pos) : list (Qc * Qc) :=
  map (gen_append (fun a => if a =? 0 then getQ ax0 else getQ ax1)) ps.
