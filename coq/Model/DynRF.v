(** * DynamicRFKickMap: modulated RF kick (DESIGN 5/C19)

    Executable model, exact arithmetic over a generic field (DESIGN 3), of
      - `RFKickMap::_calcKick(phase, ampl)` (src/SM/RFKickMap.cpp), both RF models; `tan(angle)` is
        a field element of the map, `sin` an abstract function;
      - `DynamicRFKickMap::__calcModulation(steps)`: the precomputed (phase, amplitude) pairs;
        the normal variates drawn from `_dist(_prng)` are an abstract sequence [noise], two per
        step in the order the code draws them (phase first, amplitude second);
      - the queue: `apply()` = `_calcKick(front)`, `KickMap::apply()`, move front to the past list;
        `getPastModulation()` = return the past list and clear it.  `front()` of an empty
        std::queue is undefined behaviour: the model sets the flag [ub] and stops changing.
    The model mirrors the code as it is; spec statements live in Proofs/DynRFP.v.
    No proofs in this file. *)
From Coq Require Import List ZArith String Bool.
From Inovesa Require Import Base.FieldKit Model.Ctors Gen.Gen_Ctors.
Import ListNotations.

Section DynRF.
  Variable K : Fld.
  Variable sin : K -> K.
  Local Open Scope F_scope.

  (** the members `_calcKick` reads (RFKickMap, its two axes, the x size of the grid) *)
  Record rfmap := mkRF {
    linear : bool;
    tan_angle : K;        (* std::tan(_angle) *)
    revpart : K; V_RF : K; V0 : K;
    syncphase : K; bl2phase : K;
    xsize : Z;            (* _xsize: entries written; `_offset` has xsize*nb entries *)
    xcenter : K;          (* _in->getAxis(0)->zerobin() *)
    delta0 : K;           (* _axis[0]->delta() *)
    delta1 : K;           (* _axis[1]->delta() *)
    scale1 : K;           (* _axis[1]->scale("ElectronVolt") *)
    axis0 : Z -> K }.     (* _axis[0]->at(x) *)

  (** one entry of `_offset` as `_calcKick` computes it *)
  Definition kick_entry (m : rfmap) (phase ampl : K) (x : Z) : K :=
    if linear m then
      (tan_angle m * (xcenter m - fz x)
       + tan_angle m * (syncphase m - phase) / bl2phase m / delta0 m) * ampl
    else
      revpart m * (- ampl * V_RF m * sin (axis0 m x * bl2phase m + phase) + V0 m)
      / delta1 m / scale1 m.

  Definition calc_kick (m : rfmap) (phase ampl : K) : list K :=
    map (kick_entry m phase ampl) (zrange (xsize m)).

  (** `_calcKick` overwrites the first `_xsize` entries of `_offset` and leaves the rest *)
  Definition write_prefix (new old : list K) : list K := new ++ skipn (List.length new) old.

  (** `_offset` once the static constructor has run: resized to zeros, then `_calcKick(_syncphase)`
      with the default amplitude 1 *)
  Definition static_offsets (m : rfmap) (len : nat) : list K :=
    write_prefix (calc_kick m (syncphase m) 1) (repeat 0 len).

  (** members of the dynamic map that `__calcModulation` reads *)
  Record dyncfg := mkDC { phasenoise : K; amplnoise : K; modampl : K; modtimedelta : K }.

  Definition modn : Type := (K * K)%type.      (* (phase, amplitude) *)

  (** one queue entry from the two variates of the step and the sine of the step *)
  Definition mod_entry (sync : K) (d : dyncfg) (n1 n2 s : K) : modn :=
    (sync + n1 * phasenoise d + modampl d * s, 1 + n2 * amplnoise d).

  Definition calc_modulation (sync : K) (d : dyncfg) (noise : nat -> K) (steps : nat) : list modn :=
    map (fun i => mod_entry sync d (noise (2 * i)%nat) (noise (2 * i + 1)%nat)
                            (sin (modtimedelta d * fz (Z.of_nat i))))
        (seq 0 steps).

  (** ** the state machine *)
  Variable G : Type.                          (* phase-space grid *)
  Variable kickmap : list K -> G -> G.        (* KickMap::apply with the given `_offset` *)

  Record st := mkSt {
    offs : list K;               (* _offset *)
    queue : list modn;           (* _next_modulation, front first *)
    past : list modn;            (* _past_modulation *)
    grid : G;
    (* observation logs, not program state *)
    flushed : list (list modn);  (* what each getPastModulation() returned *)
    kicks : list (list K);       (* `_offset` as used by each KickMap::apply() *)
    used : list modn;            (* the queue entry each _calcKick() read *)
    ub : bool }.                 (* front() on an empty queue happened *)

  Inductive op := Apply | Flush.

  Definition exec (m : rfmap) (o : op) (s : st) : st :=
    if ub s then s else
    match o with
    | Apply =>
      match queue s with
      | [] => mkSt (offs s) (queue s) (past s) (grid s) (flushed s) (kicks s) (used s) true
      | e :: q =>
        let o' := write_prefix (calc_kick m (fst e) (snd e)) (offs s) in
        mkSt o' q (past s ++ [e]) (kickmap o' (grid s)) (flushed s) (kicks s ++ [o']) (used s ++ [e]) false
      end
    | Flush =>
      mkSt (offs s) (queue s) [] (grid s) (flushed s ++ [past s]) (kicks s) (used s) false
    end.

  Definition run (m : rfmap) (ops : list op) (s : st) : st := fold_left (fun s o => exec m o s) ops s.

  (** the dynamic map after construction: the base constructor has computed the static offsets,
      the queue holds the precomputed modulation *)
  Definition init (m : rfmap) (len : nat) (q : list modn) (g : G) : st :=
    mkSt (static_offsets m len) q [] g [] [] [] false.

  Definition count_apply (ops : list op) : nat :=
    List.length (filter (fun o => match o with Apply => true | Flush => false end) ops).

  (** the static map under the same schedule: `apply` kicks with the offsets of construction,
      there is nothing to flush *)
  Definition static_run (m : rfmap) (len : nat) (ops : list op) (g : G) : G :=
    fold_left (fun g o => match o with Apply => kickmap (static_offsets m len) g | Flush => g end) ops g.

  (** the schedule of `main()` (src/main.cpp): in step k, first the output block when
      `outstep > 0 && k % outstep == 0` (flush into /RFKicks/data), then `rfm->apply()`;
      after the loop one more flush.  [n] is the number of executed steps. *)
  Definition step_ops (outstep k : nat) : list op :=
    (if (negb (outstep =? 0)%nat && (k mod outstep =? 0)%nat)%bool then [Flush] else []) ++ [Apply].
  Definition main_ops (outstep n : nat) : list op :=
    flat_map (step_ops outstep) (seq 0 n) ++ [Flush].
End DynRF.

Arguments mkRF {K}. Arguments mkDC {K}. Arguments mkSt {K G}.
Arguments linear {K}. Arguments syncphase {K}. Arguments xsize {K}.
Arguments phasenoise {K}. Arguments amplnoise {K}. Arguments modampl {K}. Arguments modtimedelta {K}.
Arguments offs {K G}. Arguments queue {K G}. Arguments past {K G}. Arguments grid {K G}.
Arguments flushed {K G}. Arguments kicks {K G}. Arguments used {K G}. Arguments ub {K G}.
Arguments kick_entry {K}. Arguments calc_kick {K}. Arguments write_prefix {K}.
Arguments static_offsets {K}. Arguments mod_entry {K}. Arguments calc_modulation {K}.
Arguments exec {K} sin {G}. Arguments run {K} sin {G}. Arguments init {K} sin {G}.
Arguments static_run {K} sin {G}.

(** the dynamic members as the generated constructor initialisers compute them from the
    constructor arguments ([env] : parameter name -> value) *)
Definition dyncfg_linear (K : Fld) (fsqrt : K -> K) (two_pi : K) (env : string -> K) : dyncfg K :=
  mkDC (dyn_linear_phasenoise K fsqrt env) (dyn_linear_amplnoise K fsqrt env)
       (dyn_linear_modampl K env) (dyn_linear_modtimedelta K two_pi env).
Definition dyncfg_sinusoidal (K : Fld) (fsqrt : K -> K) (two_pi : K) (env : string -> K) : dyncfg K :=
  mkDC (dyn_sinusoidal_phasenoise K fsqrt env) (dyn_sinusoidal_amplnoise K fsqrt env)
       (dyn_sinusoidal_modampl K env) (dyn_sinusoidal_modtimedelta K two_pi env).

(** constructor forwarding evaluated symbolically (every argument is its own name): what the
    check prints with vm_compute and compares with the members of the implementation's objects *)
Definition dyn_base_sym (lin : bool) : option (nat * list (string * fval string)) :=
  dyn_base rfkick_ctors (if lin then dyn_linear else dyn_sinusoidal) (fun s => s).
