(** * RotationMap assembled from the *generated* definitions (Gen/Gen_Rotation.v)

    [rg_G] is RotationMap::genHInfo of this run's source with the model's arithmetic (binary32 rounding [rnd32] at
    every operation that reaches the std::modf split, exact arithmetic for weights and accumulation, as in
    Model/Rotation.v); [rg_ctor_hinfo] executes the constructor's genHInfo calls in program order on the table;
    [rg_table] is the direct form of its content (Proofs/RotationGenP.v: equal on the filled range);
    [rg_apply_list] runs the cell loop of apply the generated branch test selects.

    No proofs in this file. *)
From Coq Require Import List ZArith QArith Qcanon Bool.
From Inovesa Require Import Base.FieldKit Base.Float32 Gen.Gen_Coeffs Model.Kick Model.RotX Model.Rotation
  Gen.Gen_Rotation.
Import ListNotations.
Local Open Scope Z_scope.

Definition rg_id (q : Qc) : Qc := q.

(** genHInfo with the members of a map: sizes, (cos, sin, spacings, zero bins), axis values *)
Definition rg_G (xs ys it ip : Z) (P : rot_par) (ax ay : Z -> Qc) : Z -> Z -> (Z -> Z * Qc) -> Z -> Z * Qc :=
  gen_rot_genHInfo QcF rnd32 rg_id Qctrunc Qcfrac xs ys it ip (rp_cos P) (rp_sin P) ax ay
    (rp_d0 P) (rp_d1 P) (rp_z0 P) (rp_z1 P).

Definition rg_zero : Z -> Z * Qc := fun _ => (0, 0%Qc).

(** the members after the constructors, from the constructor's arguments *)
Record rg_args := { ra_xs : Z; ra_ys : Z; ra_it : Z; ra_rotmapsize : Z; ra_clamp : bool }.
Definition rg_xs (a : rg_args) := gen_rot_ctor_xsize (ra_xs a) (ra_ys a) (ra_it a) (ra_rotmapsize a).
Definition rg_ys (a : rg_args) := gen_rot_ctor_ysize (ra_xs a) (ra_ys a) (ra_it a) (ra_rotmapsize a).
Definition rg_it (a : rg_args) := gen_rot_ctor_it (ra_xs a) (ra_ys a) (ra_it a) (ra_rotmapsize a).
Definition rg_ip (a : rg_args) := gen_rot_ctor_ip (ra_xs a) (ra_ys a) (ra_it a) (ra_rotmapsize a).
Definition rg_rms (a : rg_args) := gen_rot_ctor_rotmapsize (ra_xs a) (ra_ys a) (ra_it a) (ra_rotmapsize a).
Definition rg_clamp (a : rg_args) := gen_rot_ctor_clamp (ra_clamp a).
Definition rg_throws (a : rg_args) := gen_rot_ctor_throws (ra_clamp a) (ra_it a) (ra_rotmapsize a).

(** one genHInfo(x0, y0, &_hinfo[base]) call on the table *)
Definition rg_call (G : Z -> Z -> (Z -> Z * Qc) -> Z -> Z * Qc) (H : Z -> Z * Qc) (c : Z * (Z * Z)) : Z -> Z * Qc :=
  fun s => G (fst (snd c)) (snd (snd c)) (fun k => H (fst c + k)) (s - fst c).

(** _hinfo after the constructor body (H0: its content before, unspecified in C++) *)
Definition rg_ctor_hinfo (a : rg_args) (P : rot_par) (ax ay : Z -> Qc) (H0 : Z -> Z * Qc) : Z -> Z * Qc :=
  if gen_rot_ctor_nofill (rg_rms a) then H0
  else fold_left (rg_call (rg_G (rg_xs a) (rg_ys a) (rg_it a) (rg_ip a) P ax ay)) 
                 (gen_rot_ctor_calls (rg_xs a) (rg_ys a) (rg_it a) (rg_ip a) (ra_xs a) (ra_ys a)) H0.

(** direct form: entry s belongs to cell s / ip = x0 * ys + y0 *)
Definition rg_table (a : rg_args) (P : rot_par) (ax ay : Z -> Qc) (s : Z) : Z * Qc :=
  let ip := rg_ip a in let c := s / ip in
  rg_G (rg_xs a) (rg_ys a) (rg_it a) ip P ax ay (c / rg_ys a) (c mod rg_ys a) rg_zero (s mod ip).

(** apply: the (subscript, value) writes to data_out in program order *)
Definition rg_apply_writes (a : rg_args) (P : rot_par) (ax ay : Z -> Qc) (H : Z -> Z * Qc) (D : Z -> Qc) : list (Z * Qc) :=
  if gen_rot_apply_onthefly (rg_rms a)
  then map (fun qp => gen_rot_fly_cell rg_id (rg_xs a) (rg_ys a) (rg_it a) (rg_ip a) (rg_clamp a)
                        (rg_G (rg_xs a) (rg_ys a) (rg_it a) (rg_ip a) P ax ay) H D (fst qp) (snd qp))
           (gen_rot_fly_cells (rg_xs a) (rg_ys a))
  else map (gen_rot_table_cell rg_id (rg_xs a) (rg_ys a) (rg_it a) (rg_ip a) (rg_clamp a) H D)
           (gen_rot_table_cells (rg_rms a)).

(** list front-ends of the extracted driver *)
Definition rg_table_list (a : rg_args) (P : rot_par) (ax ay : list Qc) : list (Z * Qc) :=
  map (rg_table a P (getQ ax) (getQ ay)) (zrange (rg_xs a * rg_ys a * rg_ip a)).
Definition rg_apply_list (a : rg_args) (P : rot_par) (ax ay data : list Qc) : list (Z * Qc) :=
  rg_apply_writes a P (getQ ax) (getQ ay) (rg_table a P (getQ ax) (getQ ay)) (getQ data).
Definition rg_members (a : rg_args) : list Z :=
  [rg_xs a; rg_ys a; rg_it a; rg_ip a; rg_rms a; (if rg_clamp a then 1 else 0); (if rg_throws a then 1 else 0);
   gen_rot_ctor_hinfo_size (ra_xs a) (ra_ys a) (ra_it a) (ra_rotmapsize a)].
