(** * Model of RotationMap::genHInfo and apply (src/SM/RotationMap.cpp), as coded.

    The rotated coordinate of a grid point is computed in single precision
    ([x1r = (cos*q - sin*p)/delta + zerobin], each operation rounded: [rnd32]); [modf] splits
    it; the integer parts select the stencil origin, the fractional parts the two 1-D weight
    sets (generated coefficients), the table weight is their product.  Stencil points outside
    the grid get index 0 and weight 0; a point whose origin is outside gets an all-zero row. *)
From Coq Require Import List ZArith QArith Qcanon Lia Bool.
From Inovesa Require Import Base.FieldKit Base.Float32 Gen.Gen_Coeffs Model.Kick Model.RotX.
Import ListNotations.
Local Open Scope Z_scope.

(** generic part: the tensor product of two weight sets, entry (i1,j1) at position i1*it+j1 *)
Section Tensor.
  Variable K : Fld.
  Local Open Scope F_scope.
  Definition tensor (a b : list K) : list K :=
    flat_map (fun x => map (fun y => x * y) b) a.
  Definition rot_weights (it : Z) (xf yf : K) : list K := tensor (coeffs it xf) (coeffs it yf).
End Tensor.
Arguments tensor {_}. Arguments rot_weights {_}.

Record rot_par := {
  rp_cos : Qc; rp_sin : Qc;
  rp_d0 : Qc; rp_d1 : Qc;      (* axis spacings *)
  rp_z0 : Qc; rp_z1 : Qc }.    (* zero bins *)

Definition fmulr (a b : Qc) : Qc := rnd32 (a * b)%Qc.
Definition faddr (a b : Qc) : Qc := rnd32 (a + b)%Qc.
Definition fsubr (a b : Qc) : Qc := rnd32 (a - b)%Qc.
Definition fdivr (a b : Qc) : Qc := rnd32 (a / b)%Qc.

(** new coordinates of the grid point with physical coordinates (q, p) *)
Definition rot_x (P : rot_par) (q p : Qc) : Qc :=
  faddr (fdivr (fsubr (fmulr (rp_cos P) q) (fmulr (rp_sin P) p)) (rp_d0 P)) (rp_z0 P).
Definition rot_y (P : rot_par) (q p : Qc) : Qc :=
  faddr (fdivr (faddr (fmulr (rp_sin P) q) (fmulr (rp_cos P) p)) (rp_d1 P)) (rp_z1 P).

(** float -> unsigned conversion of the integer part is defined for values in (-1, 2^32) only *)
Definition rot_defined (P : rot_par) (q p : Qc) : bool :=
  (0 <=? Qctrunc (rot_x P q p)) && (Qctrunc (rot_x P q p) <? 2 ^ 32) &&
  ((0 <=? Qctrunc (rot_y P q p)) && (Qctrunc (rot_y P q p) <? 2 ^ 32)).

(** the [it*it] table entries of one grid point *)
Definition rot_entries (xs ys it : Z) (P : rot_par) (q p : Qc) : list (Z * Qc) :=
  let x1r := rot_x P q p in let y1r := rot_y P q p in
  let x1 := Qctrunc x1r in let y1 := Qctrunc y1r in
  let xf := Qcfrac x1r in let yf := Qcfrac y1r in
  if (x1 <? xs) && (y1 <? ys) then
    let wq := coeffs (K:=QcF) it xf in
    let wp := coeffs (K:=QcF) it yf in
    flat_map (fun i1 =>
      map (fun j1 =>
        let i0 := wrap32 (x1 + i1 - centre it) in
        let j0 := wrap32 (y1 + j1 - centre it) in
        if (i0 <? xs) && (j0 <? ys)
        then (i0 * ys + j0, (nthQ wq i1 * nthQ wp j1)%Qc)
        else (0, 0%Qc)) (zrange it)) (zrange it)
  else map (fun _ => (0, 0%Qc)) (zrange (it * it)).

(** apply with a full map: out(i) = sum_j in(index_j) * weight_j *)
Definition rot_apply_cell (E : list (Z * Qc)) (D : Z -> Qc) : Qc :=
  qsum (map (fun h => (D (fst h) * snd h)%Qc) E).

(** list front-end: axes given as coordinate lists (the implementation's Ruler::at values) *)
Definition rot_table_list (n it : Z) (P : rot_par) (ax ay : list Qc) : list (Z * Qc) :=
  flat_map (fun x => flat_map (fun y => rot_entries n n it P (getQ ax x) (getQ ay y)) (zrange n)) (zrange n).
Definition rot_defined_list (n : Z) (P : rot_par) (ax ay : list Qc) : list bool :=
  flat_map (fun x => map (fun y => rot_defined P (getQ ax x) (getQ ay y)) (zrange n)) (zrange n).
Definition rot_apply_list (n it : Z) (P : rot_par) (ax ay data : list Qc) : list Qc :=
  flat_map (fun x => map (fun y =>
     rot_apply_cell (rot_entries n n it P (getQ ax x) (getQ ay y)) (getQ data)) (zrange n)) (zrange n).

(** ** the saturation of apply (`_clamp`, cubic interpolation with a precomputed table only): the result is
    limited by the data at the four centre entries (1,1) (1,2) (2,1) (2,2) of the cell's 4x4 stencil.  As coded the
    upper limit starts from std::numeric_limits<float>::min() - the smallest positive normal number, not the lowest
    value - and the lower limit from max(). *)
Definition rot_centre_slots (it : Z) : list Z := [1 * it + 1; 1 * it + 2; 2 * it + 1; 2 * it + 2].
Definition rot_centre_samples (it : Z) (E : list (Z * Qc)) (D : Z -> Qc) : list Qc :=
  map (fun s => D (fst (nth (Z.to_nat s) E (0, 0%Qc)))) (rot_centre_slots it).
Definition rot_clamp (it : Z) (E : list (Z * Qc)) (D : Z -> Qc) (v : Qc) : Qc :=
  let smp := rot_centre_samples it E D in
  let ceil := fold_left rx_max smp rx_flt_min in
  let flor := fold_left rx_min smp rx_flt_max in
  rx_max (rx_min ceil v) flor.
Definition rot_apply_cell_clamped (it : Z) (clamp : bool) (E : list (Z * Qc)) (D : Z -> Qc) : Qc :=
  let v := rot_apply_cell E D in if clamp then rot_clamp it E D v else v.

(** rectangular front-ends (xs rows, ys columns; the constructor takes the two sizes separately) *)
Definition rot_table_rect (xs ys it : Z) (P : rot_par) (ax ay : list Qc) : list (Z * Qc) :=
  flat_map (fun x => flat_map (fun y => rot_entries xs ys it P (getQ ax x) (getQ ay y)) (zrange ys)) (zrange xs).
Definition rot_defined_rect (xs ys : Z) (P : rot_par) (ax ay : list Qc) : list bool :=
  flat_map (fun x => map (fun y => rot_defined P (getQ ax x) (getQ ay y)) (zrange ys)) (zrange xs).
Definition rot_apply_rect (xs ys it : Z) (clamp : bool) (P : rot_par) (ax ay data : list Qc) : list Qc :=
  flat_map (fun x => map (fun y =>
     rot_apply_cell_clamped it clamp (rot_entries xs ys it P (getQ ax x) (getQ ay y)) (getQ data)) (zrange ys)) (zrange xs).
