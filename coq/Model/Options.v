(** boost::program_options as ProgramOptions uses it (DESIGN 5/C20, C13) - executable model.

    The model mirrors src/IO/ProgramOptions.cpp: which statements parse() executes and what save()
    writes are *data* (Gen_Options.v: [gen_table], [gen_prog], [gen_wrules], regenerated from the
    source on every run); this file gives those data their meaning:

    - [store_items]: first loop of po::store - an option already stored by an earlier store() is
      final and skipped; a defaulted value is erased by an explicit one; a scalar given twice is
      an error; a vector value collects its tokens; malformed tokens are errors.
    - [add_defaults]: second loop of po::store - options of the description that are not in the map
      get their default_value as a *defaulted* entry.
    - [notify]: variables_map::notify - every entry assigns its bound member, in std::map order of
      the names (the generated table is in that order; [table_sorted] checks it).
    - [parse]: the control skeleton of ProgramOptions::parse.
    - [save]: the writer loop of ProgramOptions::save(std::string).
    No proofs here (Proofs/OptionsP.v). *)
From Coq Require Import List String ZArith Bool.
From Inovesa Require Import Model.OptionsTypes.
Import ListNotations.
Local Open Scope list_scope.

Definition entry := (list tok * bool)%type.             (* value tokens, defaulted? *)
Definition vmap := string -> option entry.              (* po::variables_map *)
Definition vars := string -> option (list tok).         (* bound members; None = as constructed *)
Definition upd {A} (f : string -> A) (k : string) (v : A) : string -> A :=
  fun x => if String.eqb x k then v else f x.
Definition mem (n : string) (l : list string) : bool := existsb (String.eqb n) l.

(** [Bare]: a word of argv that is neither an option nor the value of one (the lexer's positional option) *)
Inductive cliname := Long (s : string) | Short (s : string) | Bare.
Definition cliitem := (cliname * list tok)%type.        (* one option occurrence as the lexer delivers it *)
Definition item := (string * list tok)%type.            (* occurrence with its key in the variables map *)

Inductive fsent := FNoFile | FDevNull | FFile (items : list item).

Record st := mkSt { s_vm : vmap; s_fin : string -> bool; s_vars : vars }.
Inductive outcome := Run (s : st) | Stop | Fail.

Definition st0 : st := mkSt (fun _ => None) (fun _ => false) (fun _ => None).

Section Model.
  Variable T : list opt.
  Variable wf : cty -> tok -> bool.

  Definition find_opt (n : string) : option opt := find (fun o => String.eqb (o_name o) n) T.
  Definition in_grp (incli : bool) (o : opt) : bool := if incli then o_cli o else o_file o.
  Definition def_of (incli : bool) (o : opt) : option tok := if incli then o_defcli o else o_deffile o.

  (** command-line names: exact long name, else unambiguous prefix (boost's default style allows
      guessing); short names exact.  File-only names are unknown here. *)
  Definition resolve (c : cliname) : option string :=
    match c with
    | Short s =>
      match filter (fun o => o_cli o && match o_short o with Some x => String.eqb x s | None => false end) T with
      | [o] => Some (o_name o)
      | _ => None
      end
    | Long s =>
      match filter (fun o => o_cli o && String.eqb (o_name o) s) T with
      | o :: _ => Some (o_name o)
      | [] => match filter (fun o => o_cli o && prefix s (o_name o)) T with
              | [o] => Some (o_name o)
              | _ => None
              end
      end
    | Bare => None                                       (* too_many_positional_options_error *)
    end.

  Fixpoint resolve_all (l : list cliitem) : option (list item) :=
    match l with
    | [] => Some []
    | (c, t) :: r =>
      match resolve c, resolve_all r with
      | Some n, Some r' => Some ((n, t) :: r')
      | _, _ => None
      end
    end.

  (** config-file names: exact, must be in the file description *)
  Definition known_file (it : item) : bool :=
    match find_opt (fst it) with Some o => o_file o | None => false end.

  (** value_semantic::parse for one occurrence; [cur] is the explicit value already in the map *)
  Definition sem_parse (o : opt) (incli : bool) (cur : option (list tok)) (toks : list tok) : option (list tok) :=
    match o_ty o with
    | TVecFloat =>
      match toks with
      | [] => None
      | _ => if forallb (wf TVecFloat) toks
             then Some (match cur with Some v => v ++ toks | None => toks end) else None
      end
    | TFlag => match cur, toks with None, [] => Some [] | _, _ => None end
    | ty =>
      match cur with
      | Some _ => None                                   (* multiple_occurrences *)
      | None =>
        match toks with
        | [t] => if wf ty t then Some [t] else None      (* invalid_option_value *)
        | [] => if incli && o_implicit o then Some [tok_true] else None
        | _ => None
        end
      end
    end.

  Definition expl (e : option entry) : option (list tok) :=
    match e with Some (v, false) => Some v | _ => None end.

  Fixpoint store_items (incli : bool) (fin : string -> bool) (items : list item) (vm : vmap) : option vmap :=
    match items with
    | [] => Some vm
    | (n, toks) :: r =>
      if fin n then store_items incli fin r vm else
      match find_opt n with
      | None => None
      | Some o =>
        match sem_parse o incli (expl (vm n)) toks with
        | None => None
        | Some v => store_items incli fin r (upd vm n (Some (v, false)))
        end
      end
    end.

  Definition add_defaults (incli : bool) (vm : vmap) : vmap := fun n =>
    match vm n with
    | Some e => Some e
    | None =>
      match find_opt n with
      | Some o => if in_grp incli o then option_map (fun d => ([d], true)) (def_of incli o) else None
      | None => None
      end
    end.

  Definition notify_l (l : list opt) (vm : vmap) (vs : vars) : vars :=
    fold_left (fun vs o =>
                 match o_ty o with
                 | TFlag => vs
                 | _ => match vm (o_name o) with
                        | Some (v, _) => upd vs (o_var o) (Some v)
                        | None => vs
                        end
                 end) l vs.
  Definition notify := notify_l T.

  Definition fold_alias (vm : vmap) (ac : string * string) : vmap :=
    let (a, c) := ac in
    match vm a with
    | Some (v, _) =>
      let vm1 := match vm c with Some (_, true) => upd vm c (Some (v, false)) | _ => vm end in
      upd vm1 a None
    | None => vm
    end.

  Definition exec (cli cfg : list item) (s : step) (x : st) : option st :=
    match s with
    | StoreCli =>
      match store_items true (s_fin x) cli (s_vm x) with
      | Some vm => Some (mkSt (add_defaults true vm) (fun n => s_fin x n || mem n (map fst cli)) (s_vars x))
      | None => None
      end
    | StoreCfg =>
      match store_items false (s_fin x) cfg (s_vm x) with
      | Some vm => Some (mkSt (add_defaults false vm) (fun n => s_fin x n || mem n (map fst cfg)) (s_vars x))
      | None => None
      end
    | Notify => Some (mkSt (s_vm x) (s_fin x) (notify (s_vm x) (s_vars x)))
    | CopyIfPresent a c =>
      match s_vm x a with
      | Some (v, _) =>
        match s_vm x c with
        | Some (_, d) => Some (mkSt (upd (s_vm x) c (Some (v, d))) (s_fin x) (s_vars x))
        | None => None                                   (* std::map::at throws *)
        end
      | None => Some x
      end
    | FoldAliases l => Some (mkSt (fold_left fold_alias l (s_vm x)) (s_fin x) (s_vars x))
    end.

  Fixpoint exec_list (cli cfg : list item) (l : list step) (x : st) : option st :=
    match l with
    | [] => Some x
    | s :: r => match exec cli cfg s x with Some y => exec_list cli cfg r y | None => None end
    end.

  (** which file parse() reads: the value of the config option if given, else the constructor's
      "default.cfg", whose absence is not an error *)
  Definition cfg_source (P : prog) (s1 : st) (fs : tok -> fsent) (dflt : fsent) : fsent * bool :=
    match s_vm s1 (p_cfgopt P) with
    | Some ([t], _) => (fs t, true)
    | _ => (dflt, false)
    end.

  (** the occurrences the command-line parser hands to store(): without a positional description the
      bare words are not among them *)
  Definition words (P : prog) (cli : list cliitem) : list cliitem :=
    if p_nopos P then cli else filter (fun c => match fst c with Bare => false | _ => true end) cli.

  Definition parse (P : prog) (cli : list cliitem) (fs : tok -> fsent) (dflt : fsent) : outcome :=
    match resolve_all (words P cli) with
    | None => Fail
    | Some items =>
      match exec_list items [] (p_cli P) st0 with
      | None => Fail
      | Some s1 =>
        if existsb (fun f => match s_vm s1 f with Some _ => true | None => false end) (p_flags P) then Stop else
        match cfg_source P s1 fs dflt with
        | (FDevNull, _) => Run s1
        | (FNoFile, true) => Stop                        (* "Config file ... does not exist." *)
        | (FNoFile, false) => Run s1
        | (FFile citems, _) =>
          if forallb known_file citems then
            match exec_list items citems (p_cfg P) s1 with
            | Some s2 => Run s2
            | None => Fail
            end
          else Fail
        end
      end
    end.

  (** ProgramOptions::save(std::string): one (name, token) per written line, in map order *)
  Section Save.
    Variable W : wrules.
    Variable zerotok : tok -> bool.             (* does the token denote +-0 ? *)
    Variable round6 : cty -> tok -> tok.        (* what a 6-significant-digit `ostream <<` makes of a value *)

    Definition fmtv (ty : cty) (t : tok) : tok :=
      if w_precise W then t else
      match ty with TFloat | TDouble | TVecFloat => round6 ty t | _ => t end.

    Definition var_is_zero (vs : vars) (x : string) : bool :=
      match vs x with Some [t] => zerotok t | _ => false end.

    Definition save_opt (s : st) (o : opt) : list (string * tok) :=
      let n := o_name o in
      match s_vm s n with
      | None => []
      | Some (v, _) =>
        if mem n (w_skip W) then []
        else if String.eqb n (w_alpha_name W)
                && Bool.eqb (var_is_zero (s_vars s) (w_alpha_var W)) (w_alpha_when_zero W)
        then [(n, tok_zero)]
        else match o_ty o with
             | TFlag => []                                (* never in the map of a state that is saved *)
             | TString => if mem n (w_comment W) then [] else map (fun t => (n, t)) v
             | ty => if existsb (cty_eqb ty) (w_types W) then map (fun t => (n, fmtv ty t)) v
                     else []                              (* as<std::string>() throws bad_any_cast, caught *)
             end
      end.

    Definition save (s : st) : list (string * tok) := flat_map (save_opt s) T.
    Definition saved_items (s : st) : list item := map (fun l => (fst l, [snd l])) (save s).

    (** `inovesa --config <saved file>` *)
    Definition reload (P : prog) (s : st) (ftok : tok) : outcome :=
      parse P [(Long (p_cfgopt P), [ftok])] (fun _ => FFile (saved_items s)) FNoFile.
  End Save.

  (** std::map order of the table (what notify and save iterate in) *)
  Fixpoint sorted_names (l : list opt) : bool :=
    match l with
    | a :: ((b :: _) as r) => String.ltb (o_name a) (o_name b) && sorted_names r
    | _ => true
    end.
End Model.
