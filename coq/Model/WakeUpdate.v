(** * Model of the copies that feed / replace the kick maps in a run (C08, C01):

    - ([copy_loop] and [ident_apply], the counting copy and Identity::apply, are in Model/Copy.v)
    - the kick-map state [_offset], [_hinfo] and the two statements of WakePotentialMap::update in
      the generated program order (Gen/Gen_WakeUpdate.v): the copy of the array wakePotential()
      returns into [_offset], and KickMap::updateSM over [_offset.size()] entries with the generated
      read/write indices;
    - the flat position of [_wakepotential[b][x]] in the array [wakePotential()] returns
      (a boost::multi_array in C order: row * extent1 + column).
    No proofs here. *)
From Coq Require Import List ZArith QArith Qcanon Bool.
From Inovesa Require Import Base.FieldKit Base.Float32 Gen.Gen_Coeffs Model.Kick Model.RunKinds
  Gen.Gen_WakeUpdate Gen.Gen_Identity Model.Copy.
Import ListNotations.
Local Open Scope Z_scope.

(** ** the kick map of the wake kick *)
Record kmstate := mkKM { km_offset : Z -> Qc; km_hinfo : Z -> Z * Qc }.

(** geometry of a WakeKickMap on an [n] x [n] grid of [nb] bunches, from the generated constructors *)
Definition wk_kd (n nb : Z) : Z := km_meshsize_kd wkm_kick_is_x n n nb.
Definition wk_pd (n nb : Z) : Z := km_meshsize_pd wkm_kick_is_x n n nb.
Definition wk_xsize (n nb : Z) : Z := km_xsize wkm_kick_is_x n n nb.
Definition wk_offset_size (n nb : Z) : Z := km_offset_size (wk_kd n nb) (wk_pd n nb) nb.

(** KickMap::updateSM: for i < _offset.size(), for j1 < _it: _hinfo[write i j1] = entry j1 of the row
    built from _offset[read i]; the row arithmetic is [sm_entry] of Model/Kick.v *)
Definition updateSM_loop (kd it size : Z) (offs : Z -> Qc) (H : Z -> Z * Qc) : Z -> Z * Qc :=
  fold_left (fun h i =>
    fold_left (fun h' j1 => upd h' (usm_hinfo_write it it i j1) (sm_entry kd it (offs (usm_offset_read it it i)) j1))
              (zrange it) h)
    (zrange (usm_bound size it it)) H.

Definition wu_exec (n nb it : Z) (wp : Z -> Qc) (s : wu_stmt) (st : kmstate) : kmstate :=
  match s with
  | WUCopy => mkKM (copy_loop (wu_count nb (wk_xsize n nb)) (wu_src_idx nb (wk_xsize n nb))
                              (wu_dst_idx nb (wk_xsize n nb)) wp (km_offset st))
                   (km_hinfo st)
  | WUUpdateSM => mkKM (km_offset st) (updateSM_loop (wk_kd n nb) it (wk_offset_size n nb) (km_offset st) (km_hinfo st))
  end.

(** WakePotentialMap::update with [wp] the array ElectricField::wakePotential() returned *)
Definition wake_update (n nb it : Z) (wp : Z -> Qc) (st : kmstate) : kmstate :=
  fold_left (fun s c => wu_exec n nb it wp c s) wu_prog st.

(** the state the KickMap constructor leaves: [_offset] resized with zeros; the table is not read
    before the first update (INOVESA_INIT_KICKMAP is off), here all (0,0) *)
Definition km_init : kmstate := mkKM (fun _ => 0%Qc) (fun _ => (0, 0%Qc)).

(** the table the wake kick's apply() reads after update() *)
Definition wake_table (n nb it : Z) (wp : Z -> Qc) : Z -> Z * Qc := km_hinfo (wake_update n nb it wp km_init).
Definition wake_offsets (n nb it : Z) (wp : Z -> Qc) : Z -> Qc := km_offset (wake_update n nb it wp km_init).

(** position of [_wakepotential[b][x]] in the array wakePotential() returns *)
Definition wp_flat (nb nx b x : Z) : Z := wp_row b x * wp_extent1 nb nx + wp_col b x.
