(** * Vocabulary of the generated tracking definitions (Gen/Gen_Track.v)

    The translator translate/track2coq.py turns the statements of KickMap::applyTo,
    FokkerPlanckMap::applyTo, PhaseSpace::x / y, HDF5File::appendTracks, DynamicRFKickMap::apply
    and the tracking calls of main() into Gallina terms built from the functions of this file.

    Floats whose value can be non-finite are *extended values* [xval]: a rational, +inf, -inf or
    NaN.  The only operation of the tracking code that leaves the rationals is the float division
    [offset /= charge] of tracking model 2 (0/0 = NaN, x/0 = +-inf); the clamps
    [std::max(..., std::min(..., ...))] are then evaluated on extended values with the comparison
    the C++ standard prescribes ([std::min(a,b) = (b < a) ? b : a], [std::max(a,b) = (a < b) ? b : a])
    and the IEEE rule that every comparison with NaN is false.  This is what makes the order of
    min/max and of their arguments matter.

    No proofs in this file. *)
From Coq Require Import List ZArith QArith Qcanon Bool.
From Inovesa Require Import Base.FieldKit Base.Float32 Model.Kick Model.Tracking Model.StepKinds.
Import ListNotations.
Local Open Scope Z_scope.

Inductive xval := XF (q : Qc) | XPInf | XMInf | XNaN.

(** IEEE [<]: false as soon as one operand is NaN *)
Definition xltb (a b : xval) : bool :=
  match a, b with
  | XNaN, _ => false
  | _, XNaN => false
  | XF p, XF q => Qcltb p q
  | XF _, XPInf => true
  | XF _, XMInf => false
  | XPInf, _ => false
  | XMInf, XMInf => false
  | XMInf, _ => true
  end.

(** [std::min(a, b)] / [std::max(a, b)] exactly as the standard defines them *)
Definition xmin (a b : xval) : xval := if xltb b a then b else a.
Definition xmax (a b : xval) : xval := if xltb a b then b else a.

Definition xneg (a : xval) : xval :=
  match a with XF q => XF (- q)%Qc | XPInf => XMInf | XMInf => XPInf | XNaN => XNaN end.

Definition xadd (a b : xval) : xval :=
  match a, b with
  | XNaN, _ => XNaN
  | _, XNaN => XNaN
  | XF p, XF q => XF (p + q)%Qc
  | XF _, i => i
  | i, XF _ => i
  | XPInf, XPInf => XPInf
  | XMInf, XMInf => XMInf
  | _, _ => XNaN                       (* inf - inf *)
  end.
Definition xsub (a b : xval) : xval := xadd a (xneg b).

(** float division of two finite values.  The divisor of tracking model 2 is a sum that starts
    at +0 and is accumulated in round-to-nearest, so a zero divisor is +0 and the quotient has
    the sign of the dividend. *)
Definition xdivq (a b : Qc) : xval :=
  if Qc_eq_dec b 0 then
    (if Qc_eq_dec a 0 then XNaN else if Qcltb 0 a then XPInf else XMInf)
  else XF (a / b)%Qc.

Definition xfinite (a : xval) : bool := match a with XF _ => true | _ => false end.
Definition xget (a : xval) : Qc := match a with XF q => q | _ => 0%Qc end.

(** a position whose coordinates are extended values *)
Definition xpos : Type := (xval * xval)%type.
Definition xpos_of (p : pos) : xpos := (XF (px p), XF (py p)).
Definition xinside (n : Z) (p : xpos) : Prop :=
  exists x y, p = (XF x, XF y) /\ inside n (mkpos x y).
(** the extended value is a grid coordinate the clamp can have produced *)
Definition xin_clamp (n : Z) (v : xval) : Prop :=
  exists q, v = XF q /\ (1 <= q)%Qc /\ (q <= Qcz (n - 1))%Qc.
Definition xin_grid (n : Z) (v : xval) : Prop :=
  exists q, v = XF q /\ (0 <= q)%Qc /\ (q <= Qcz (n - 1))%Qc.

(** ** integer conversions of C++ (named so that the generated text says which one the code does) *)

(** [unsigned int] -> [int]: values from 2^31 on become negative *)
Definition u2s (z : Z) : Z := if z <? 2 ^ 31 then z else z - 2 ^ 32.
(** float -> [int]: defined for values inside the range of [int] only; the model keeps the integer *)
Definition f2s (z : Z) : Z := z.
(** float -> [unsigned int]: [wrap32] (what x86-64 does for the values that occur; negative values are
    undefined behaviour in C++ - C17's subject) *)
Definition f2u (z : Z) : Z := wrap32 z.

(** ** what HDF5File::appendTracks and main()'s loading are made of *)
Inductive coord := CX | CY.                   (* pos.x / pos.y *)
Inductive axfn := AxQ | AxP.                  (* PhaseSpace::q / PhaseSpace::p *)
Inductive ldfn := LdX | LdY.                  (* PhaseSpace::x / PhaseSpace::y *)
Inductive fcol := Col1 | Col2.                (* first / second number of a line of the tracking file *)

Definition coord_of (c : coord) (p : pos) : Qc := match c with CX => px p | CY => py p end.

(** one record of /Particles/data from the two (function, coordinate) pairs of the initialiser
    list; [qfn k] is the axis number PhaseSpace::q / p hands to _qp, [ax k] the axis arrays *)
Definition append_entry (axis_of : axfn -> Z) (ax : Z -> Z -> Qc) (e : axfn * coord) (p : pos) : Qc :=
  ax (axis_of (fst e)) (f2u (Qctrunc (coord_of (snd e) p))).
Definition append_record (axis_of : axfn -> Z) (ax : Z -> Z -> Qc) (e1 e2 : axfn * coord) (p : pos) : Qc * Qc :=
  (append_entry axis_of ax e1 p, append_entry axis_of ax e2 p).

(** ** the statements of DynamicRFKickMap::apply and the per-step calls of main() *)
(** [DCalcKickIfMore]: `if (!_next_modulation.empty()) _calcKick();` *)
Inductive dynstmt := DCalcKick | DKickApply | DPushPast | DPop | DCalcKickIfMore.

Inductive tevent := TApply (m : smap) | TTrack (m : smap).   (* <map>->apply() / <map>->applyToAll(trackme) *)
