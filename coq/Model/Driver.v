(** Driver.v - the main loop of src/main.cpp as a small statement language over a state that
    keeps the caches the C++ keeps.  Shared by C10, C11, C12, C14 (DESIGN 5).

    Physics kernels are Section variables: every theorem about the driver holds for whatever
    they compute.  Each call's semantics says which cache it reads and which it writes; this
    was read off src/main.cpp, src/PS/PhaseSpace.cpp, src/PS/ElectricField.cpp,
    src/SM/WakePotentialMap.cpp, src/SM/DynamicRFKickMap.cpp, src/IO/HDF5File.cpp:

    call                     reads                      writes
    UpdateXProj              g1                         xp      (_projection[0])
    Integrate                xp                         fl      (_filling,_integral)
    IntegrateAndNormalize    xp, g1                     fl, g1  (integrate(); normalize(): data *= set/measured;
                                                                 the projection is NOT refreshed)
    Variance false           xp, fl                     mo0     (average(0)+variance(0): _moment[0], _rms[0])
    Variance true            yp, fl                     mo1
    UpdateYProj              g1                         yp      (_projection[1])
    WakePotential            wf, xp                     wf      (ElectricField::wakePotential of wake_field:
                                                                 padded profile, form factor, wake losses, potential)
    WkmUpdate                wf, xp, wk                 wf, wk  (WakePotentialMap::update: wakePotential(); copy; updateSM())
    UpdateCSR                cs, xp                     cs      (rdtn_field: a second field object with its own buffers)
    Append (AGrid at)        k, onr, g1, xp, mo0, yp,   file    (HDF5File::append(ps,t,at): PhaseSpace record if at is
                             mo1, fl                            All/PhaseSpace; the eight "default" datasets if not PhaseSpace)
    Append ACsr / AWake / ATracks / APadded   cs / wk / tr / wf     file
    Append ARFKicks          past                       file, past   (getPastModulation() moves the list out)
    Apply MWake              g1, wk                     g2      (wm: grid_t1 -> grid_t2; Identity when no wake)
    Apply MRF                g2, rfo, mq                g1, rfo, mq, past  (dynamic RF: _calcKick(front); queue -> past list)
    Apply MDrift             g1                         g3
    Apply MFP                g3                         g1
    Track m                  tr, rng, wk, rfo           tr, rng (applyToAll(trackme); the FP map's own PRNG)
    IncOutNr / IncStep       onr / k                    onr / k
    Print m                  -                          log
    Exit                     -                          status
    Normalize                g1, fl                     g1      (PhaseSpace::normalize(): data *= set/measured with the
                                                                 *cached* measured filling; set-up only, main.cpp "initial renormalization")
    Free o                   freed                      freed   (`delete wake_field; delete wm; delete fpm;` after the last status line;
                                                                 wm is the WakePotentialMap `wkm` points to, or the Identity)
    every call               freed                      uaf     ([uaf] is set when a call touches an object already freed - [uses])
    Point l                  pc                         pc, trace, abort   (VERIF_POINT hook: where a signal can arrive;
                                                                 [sig i] says whether SIGINT is raised at the i-th point)

    The results file is a list of records in append order; a record is (step number, payload).
    One [RDef] record stands for one row in each of the eight default datasets
    (/Info/AxisValues_t, /BunchProfile, /BunchLength, /BunchPosition, /EnergyProfile,
    /EnergySpread, /EnergyAverage, /BunchPopulation), [RPS] for /PhaseSpace/axis0+data, [RCsr] for
    /CSR/Spectrum+Intensity, [RWake] for /WakePotential/data, [RTracks] for /Particles/data,
    [RRF l] for [length l] rows of /RFKicks/data, [RPadded] for /BunchProfile/padded +
    /WakePotential/padded.  The file layer itself (C10/C11) is not modelled here. *)
From Coq Require Import List ZArith Bool.
Import ListNotations.
Local Open Scope Z_scope.

(** the options the translated part of main() reads *)
Record cfg := mkcfg { laststep : Z; outstep : Z; h5save : Z; renorm : Z;
                      hdf : bool; wake : bool; dynrf : bool }.

Inductive map := MWake | MRF | MDrift | MFP.
(** AtIfSave is the C++ expression (h5save > 0 && outstepnr%h5save == 0) ? All : Defaults *)
Inductive attype := AtAll | AtDefaults | AtPS | AtIfSave.
Inductive akind := AGrid (a : attype) | ACsr | AWake | ATracks | ARFKicks | APadded.
Inductive msg := MStatus | MAborted | MFinished.
(** heap objects main() deletes itself: `wake_field`, `wm` (the object `wkm` points to when there is a wake), `fpm` *)
Inductive obj := OWakeField | OWm | OFpm.
Inductive call :=
| UpdateXProj | Integrate | IntegrateAndNormalize | Variance (ax : bool) | UpdateYProj
| WkmUpdate | WakePotential | UpdateCSR
| Append (a : akind) | Apply (m : map) | Track (m : map)
| IncOutNr | IncStep | Print (m : msg) | Exit | Point (l : Z)
| Normalize | Free (o : obj).
(** GRenorm0 is `renormalize >= 0` (set-up: initial renormalisation) *)
Inductive guard := GRenorm | GOut | GSave0 | GHdf | GWake | GDynRF | GAbort | GRenorm0.

Definition obj_eqb (a b : obj) : bool :=
  match a, b with OWakeField, OWakeField | OWm, OWm | OFpm, OFpm => true | _, _ => false end.

(** the objects a call goes through (read off src/main.cpp: `wkm->update()` works on wkm and on the
    field it was built with, `wake_field->wakePotential()`, `hdf_file->append(wkm)`,
    `hdf_file->appendPadded(wake_field)`, `wm->apply()`, `fpm->apply()` and their applyToAll) *)
Definition uses (c : call) : list obj :=
  match c with
  | WkmUpdate => [OWm; OWakeField]
  | WakePotential => [OWakeField]
  | Append AWake => [OWm]
  | Append APadded => [OWakeField]
  | Apply MWake | Track MWake => [OWm]
  | Apply MFP | Track MFP => [OFpm]
  | Free o => [o]
  | _ => []
  end.
(** a block: sequence of calls and two-armed conditionals (plain inductive: usable induction) *)
Inductive blk := Done | Seq (c : call) (r : blk) | Cond (g : guard) (t e r : blk).
(** main() from "Starting the simulation": prologue; while (step<laststep && !abort) body; final block *)
Record prog := mkprog { p_pre : blk; p_body : blk; p_post : blk }.

Fixpoint bapp (a b : blk) : blk :=
  match a with
  | Done => b
  | Seq c r => Seq c (bapp r b)
  | Cond g t e r => Cond g t e (bapp r b)
  end.

(** carrier types and physics kernels: one abstract record; every theorem is for all [K : kern] *)
Record kern := mkkern {
  tG : Type;
  tP : Type;
  tFl : Type;
  tY : Type;
  tMo : Type;
  tCs : Type;
  tWf : Type;
  tW : Type;
  tRf : Type;
  tMd : Type;
  tTr : Type;
  tRng : Type;
  k_projX : tG -> tP;
  k_projY : tG -> tY;
  k_integ : tP -> tFl;
  k_norm : tG -> tFl -> tG;
  k_mom0 : tP -> tFl -> tMo;
  k_mom1 : tY -> tFl -> tMo;
  k_wakeOf : tWf -> tP -> tWf;
  k_offsOf : tW -> tWf -> tW;
  k_csrOf : tCs -> tP -> tCs;
  k_kWake : tW -> tG -> tG;
  k_idmap : tG -> tG;
  k_rfCalc : tRf -> tMd -> tRf;
  k_kRF : tRf -> tG -> tG;
  k_kDrift : tG -> tG;
  k_kFP : tG -> tG;
  k_trk : bool -> map -> tW -> tRf -> tRng -> tTr -> tTr * tRng;
  k_md0 : tMd }.

Section Driver.
  Variable K : kern.
  Local Notation G := (tG K).
  Local Notation P := (tP K).
  Local Notation Fl := (tFl K).
  Local Notation Y := (tY K).
  Local Notation Mo := (tMo K).
  Local Notation Cs := (tCs K).
  Local Notation Wf := (tWf K).
  Local Notation W := (tW K).
  Local Notation Rf := (tRf K).
  Local Notation Md := (tMd K).
  Local Notation Tr := (tTr K).
  Local Notation Rng := (tRng K).
  Local Notation projX := (k_projX K).
  Local Notation projY := (k_projY K).
  Local Notation integ := (k_integ K).
  Local Notation norm := (k_norm K).
  Local Notation mom0 := (k_mom0 K).
  Local Notation mom1 := (k_mom1 K).
  Local Notation wakeOf := (k_wakeOf K).
  Local Notation offsOf := (k_offsOf K).
  Local Notation csrOf := (k_csrOf K).
  Local Notation kWake := (k_kWake K).
  Local Notation idmap := (k_idmap K).
  Local Notation rfCalc := (k_rfCalc K).
  Local Notation kRF := (k_kRF K).
  Local Notation kDrift := (k_kDrift K).
  Local Notation kFP := (k_kFP K).
  Local Notation trk := (k_trk K).
  Local Notation md0 := (k_md0 K).

  Inductive payload :=
  | RPS (g : G) | RDef (p : P) (m0 : Mo) (y : Y) (m1 : Mo) (f : Fl) | RCsr (c : Cs) | RWake (w : W)
  | RTracks (t : Tr) | RRF (l : list Md) | RPadded (w : Wf).
  Record rec := mkrec { rstep : Z; rdata : payload }.

  Record st := mkst {
    k : Z;
    onr : Z;
    g1 : G;
    g2 : G;
    g3 : G;
    xp : P;
    fl : Fl;
    yp : Y;
    mo0 : Mo;
    mo1 : Mo;
    wf : Wf;
    wk : W;
    cs : Cs;
    rfo : Rf;
    mq : list Md;
    past : list Md;
    tr : Tr;
    rng : Rng;
    abort : bool;
    pc : Z;
    trace : list (Z * Z);
    log : list msg;
    status : option Z;
    file : list rec;
    freed : list obj;
    uaf : bool }.

  Definition set_k (v : Z) (s : st) : st := mkst v (onr s) (g1 s) (g2 s) (g3 s) (xp s) (fl s) (yp s) (mo0 s) (mo1 s) (wf s) (wk s) (cs s) (rfo s) (mq s) (past s) (tr s) (rng s) (abort s) (pc s) (trace s) (log s) (status s) (file s) (freed s) (uaf s).
  Definition set_onr (v : Z) (s : st) : st := mkst (k s) v (g1 s) (g2 s) (g3 s) (xp s) (fl s) (yp s) (mo0 s) (mo1 s) (wf s) (wk s) (cs s) (rfo s) (mq s) (past s) (tr s) (rng s) (abort s) (pc s) (trace s) (log s) (status s) (file s) (freed s) (uaf s).
  Definition set_g1 (v : G) (s : st) : st := mkst (k s) (onr s) v (g2 s) (g3 s) (xp s) (fl s) (yp s) (mo0 s) (mo1 s) (wf s) (wk s) (cs s) (rfo s) (mq s) (past s) (tr s) (rng s) (abort s) (pc s) (trace s) (log s) (status s) (file s) (freed s) (uaf s).
  Definition set_g2 (v : G) (s : st) : st := mkst (k s) (onr s) (g1 s) v (g3 s) (xp s) (fl s) (yp s) (mo0 s) (mo1 s) (wf s) (wk s) (cs s) (rfo s) (mq s) (past s) (tr s) (rng s) (abort s) (pc s) (trace s) (log s) (status s) (file s) (freed s) (uaf s).
  Definition set_g3 (v : G) (s : st) : st := mkst (k s) (onr s) (g1 s) (g2 s) v (xp s) (fl s) (yp s) (mo0 s) (mo1 s) (wf s) (wk s) (cs s) (rfo s) (mq s) (past s) (tr s) (rng s) (abort s) (pc s) (trace s) (log s) (status s) (file s) (freed s) (uaf s).
  Definition set_xp (v : P) (s : st) : st := mkst (k s) (onr s) (g1 s) (g2 s) (g3 s) v (fl s) (yp s) (mo0 s) (mo1 s) (wf s) (wk s) (cs s) (rfo s) (mq s) (past s) (tr s) (rng s) (abort s) (pc s) (trace s) (log s) (status s) (file s) (freed s) (uaf s).
  Definition set_fl (v : Fl) (s : st) : st := mkst (k s) (onr s) (g1 s) (g2 s) (g3 s) (xp s) v (yp s) (mo0 s) (mo1 s) (wf s) (wk s) (cs s) (rfo s) (mq s) (past s) (tr s) (rng s) (abort s) (pc s) (trace s) (log s) (status s) (file s) (freed s) (uaf s).
  Definition set_yp (v : Y) (s : st) : st := mkst (k s) (onr s) (g1 s) (g2 s) (g3 s) (xp s) (fl s) v (mo0 s) (mo1 s) (wf s) (wk s) (cs s) (rfo s) (mq s) (past s) (tr s) (rng s) (abort s) (pc s) (trace s) (log s) (status s) (file s) (freed s) (uaf s).
  Definition set_mo0 (v : Mo) (s : st) : st := mkst (k s) (onr s) (g1 s) (g2 s) (g3 s) (xp s) (fl s) (yp s) v (mo1 s) (wf s) (wk s) (cs s) (rfo s) (mq s) (past s) (tr s) (rng s) (abort s) (pc s) (trace s) (log s) (status s) (file s) (freed s) (uaf s).
  Definition set_mo1 (v : Mo) (s : st) : st := mkst (k s) (onr s) (g1 s) (g2 s) (g3 s) (xp s) (fl s) (yp s) (mo0 s) v (wf s) (wk s) (cs s) (rfo s) (mq s) (past s) (tr s) (rng s) (abort s) (pc s) (trace s) (log s) (status s) (file s) (freed s) (uaf s).
  Definition set_wf (v : Wf) (s : st) : st := mkst (k s) (onr s) (g1 s) (g2 s) (g3 s) (xp s) (fl s) (yp s) (mo0 s) (mo1 s) v (wk s) (cs s) (rfo s) (mq s) (past s) (tr s) (rng s) (abort s) (pc s) (trace s) (log s) (status s) (file s) (freed s) (uaf s).
  Definition set_wk (v : W) (s : st) : st := mkst (k s) (onr s) (g1 s) (g2 s) (g3 s) (xp s) (fl s) (yp s) (mo0 s) (mo1 s) (wf s) v (cs s) (rfo s) (mq s) (past s) (tr s) (rng s) (abort s) (pc s) (trace s) (log s) (status s) (file s) (freed s) (uaf s).
  Definition set_cs (v : Cs) (s : st) : st := mkst (k s) (onr s) (g1 s) (g2 s) (g3 s) (xp s) (fl s) (yp s) (mo0 s) (mo1 s) (wf s) (wk s) v (rfo s) (mq s) (past s) (tr s) (rng s) (abort s) (pc s) (trace s) (log s) (status s) (file s) (freed s) (uaf s).
  Definition set_rfo (v : Rf) (s : st) : st := mkst (k s) (onr s) (g1 s) (g2 s) (g3 s) (xp s) (fl s) (yp s) (mo0 s) (mo1 s) (wf s) (wk s) (cs s) v (mq s) (past s) (tr s) (rng s) (abort s) (pc s) (trace s) (log s) (status s) (file s) (freed s) (uaf s).
  Definition set_mq (v : list Md) (s : st) : st := mkst (k s) (onr s) (g1 s) (g2 s) (g3 s) (xp s) (fl s) (yp s) (mo0 s) (mo1 s) (wf s) (wk s) (cs s) (rfo s) v (past s) (tr s) (rng s) (abort s) (pc s) (trace s) (log s) (status s) (file s) (freed s) (uaf s).
  Definition set_past (v : list Md) (s : st) : st := mkst (k s) (onr s) (g1 s) (g2 s) (g3 s) (xp s) (fl s) (yp s) (mo0 s) (mo1 s) (wf s) (wk s) (cs s) (rfo s) (mq s) v (tr s) (rng s) (abort s) (pc s) (trace s) (log s) (status s) (file s) (freed s) (uaf s).
  Definition set_tr (v : Tr) (s : st) : st := mkst (k s) (onr s) (g1 s) (g2 s) (g3 s) (xp s) (fl s) (yp s) (mo0 s) (mo1 s) (wf s) (wk s) (cs s) (rfo s) (mq s) (past s) v (rng s) (abort s) (pc s) (trace s) (log s) (status s) (file s) (freed s) (uaf s).
  Definition set_rng (v : Rng) (s : st) : st := mkst (k s) (onr s) (g1 s) (g2 s) (g3 s) (xp s) (fl s) (yp s) (mo0 s) (mo1 s) (wf s) (wk s) (cs s) (rfo s) (mq s) (past s) (tr s) v (abort s) (pc s) (trace s) (log s) (status s) (file s) (freed s) (uaf s).
  Definition set_abort (v : bool) (s : st) : st := mkst (k s) (onr s) (g1 s) (g2 s) (g3 s) (xp s) (fl s) (yp s) (mo0 s) (mo1 s) (wf s) (wk s) (cs s) (rfo s) (mq s) (past s) (tr s) (rng s) v (pc s) (trace s) (log s) (status s) (file s) (freed s) (uaf s).
  Definition set_pc (v : Z) (s : st) : st := mkst (k s) (onr s) (g1 s) (g2 s) (g3 s) (xp s) (fl s) (yp s) (mo0 s) (mo1 s) (wf s) (wk s) (cs s) (rfo s) (mq s) (past s) (tr s) (rng s) (abort s) v (trace s) (log s) (status s) (file s) (freed s) (uaf s).
  Definition set_trace (v : list (Z * Z)) (s : st) : st := mkst (k s) (onr s) (g1 s) (g2 s) (g3 s) (xp s) (fl s) (yp s) (mo0 s) (mo1 s) (wf s) (wk s) (cs s) (rfo s) (mq s) (past s) (tr s) (rng s) (abort s) (pc s) v (log s) (status s) (file s) (freed s) (uaf s).
  Definition set_log (v : list msg) (s : st) : st := mkst (k s) (onr s) (g1 s) (g2 s) (g3 s) (xp s) (fl s) (yp s) (mo0 s) (mo1 s) (wf s) (wk s) (cs s) (rfo s) (mq s) (past s) (tr s) (rng s) (abort s) (pc s) (trace s) v (status s) (file s) (freed s) (uaf s).
  Definition set_status (v : option Z) (s : st) : st := mkst (k s) (onr s) (g1 s) (g2 s) (g3 s) (xp s) (fl s) (yp s) (mo0 s) (mo1 s) (wf s) (wk s) (cs s) (rfo s) (mq s) (past s) (tr s) (rng s) (abort s) (pc s) (trace s) (log s) v (file s) (freed s) (uaf s).
  Definition set_file (v : list rec) (s : st) : st := mkst (k s) (onr s) (g1 s) (g2 s) (g3 s) (xp s) (fl s) (yp s) (mo0 s) (mo1 s) (wf s) (wk s) (cs s) (rfo s) (mq s) (past s) (tr s) (rng s) (abort s) (pc s) (trace s) (log s) (status s) v (freed s) (uaf s).
  Definition set_freed (v : list obj) (s : st) : st := mkst (k s) (onr s) (g1 s) (g2 s) (g3 s) (xp s) (fl s) (yp s) (mo0 s) (mo1 s) (wf s) (wk s) (cs s) (rfo s) (mq s) (past s) (tr s) (rng s) (abort s) (pc s) (trace s) (log s) (status s) (file s) v (uaf s).
  Definition set_uaf (v : bool) (s : st) : st := mkst (k s) (onr s) (g1 s) (g2 s) (g3 s) (xp s) (fl s) (yp s) (mo0 s) (mo1 s) (wf s) (wk s) (cs s) (rfo s) (mq s) (past s) (tr s) (rng s) (abort s) (pc s) (trace s) (log s) (status s) (file s) (freed s) v.

  (** which records HDF5File::append(ps,t,at) writes *)
  Definition at_all (c : cfg) (s : st) (a : attype) : bool * bool :=   (* (phase space?, defaults?) *)
    match a with
    | AtAll => (true, true)
    | AtDefaults => (false, true)
    | AtPS => (true, false)
    | AtIfSave => if (0 <? h5save c) && (onr s mod h5save c =? 0) then (true, true) else (false, true)
    end.

  Definition recs (c : cfg) (a : akind) (s : st) : list rec :=
    match a with
    | AGrid t =>
        let '(ps, df) := at_all c s t in
        (if ps then [mkrec (k s) (RPS (g1 s))] else []) ++
        (if df then [mkrec (k s) (RDef (xp s) (mo0 s) (yp s) (mo1 s) (fl s))] else [])
    | ACsr => [mkrec (k s) (RCsr (cs s))]
    | AWake => [mkrec (k s) (RWake (wk s))]
    | ATracks => [mkrec (k s) (RTracks (tr s))]
    | ARFKicks => [mkrec (k s) (RRF (past s))]
    | APadded => [mkrec (k s) (RPadded (wf s))]
    end.

  (** the effect of a call on everything but the use-after-free flag *)
  Definition exec1 (sig : Z -> bool) (c : cfg) (a : call) (s : st) : st :=
    match a with
    | UpdateXProj => set_xp (projX (g1 s)) s
    | Integrate => set_fl (integ (xp s)) s
    | IntegrateAndNormalize => let f := integ (xp s) in set_g1 (norm (g1 s) f) (set_fl f s)
    | Variance false => set_mo0 (mom0 (xp s) (fl s)) s
    | Variance true => set_mo1 (mom1 (yp s) (fl s)) s
    | UpdateYProj => set_yp (projY (g1 s)) s
    | WakePotential => set_wf (wakeOf (wf s) (xp s)) s
    | WkmUpdate => let w := wakeOf (wf s) (xp s) in set_wk (offsOf (wk s) w) (set_wf w s)
    | UpdateCSR => set_cs (csrOf (cs s) (xp s)) s
    | Append ARFKicks => set_past [] (set_file (file s ++ recs c ARFKicks s) s)
    | Append a => set_file (file s ++ recs c a s) s
    | Apply MWake => set_g2 ((if wake c then kWake (wk s) else idmap) (g1 s)) s
    | Apply MRF =>
        if dynrf c then
          let m := hd md0 (mq s) in
          let r := rfCalc (rfo s) m in
          set_past (past s ++ [m]) (set_mq (tl (mq s)) (set_g1 (kRF r (g2 s)) (set_rfo r s)))
        else set_g1 (kRF (rfo s) (g2 s)) s
    | Apply MDrift => set_g3 (kDrift (g1 s)) s
    | Apply MFP => set_g1 (kFP (g3 s)) s
    | Track m => let tr' := trk (wake c) m (wk s) (rfo s) (rng s) (tr s) in
                 set_rng (snd tr') (set_tr (fst tr') s)
    | IncOutNr => set_onr (onr s + 1) s
    | IncStep => set_k (k s + 1) s
    | Print m => set_log (log s ++ [m]) s
    | Exit => set_status (Some 0) s
    | Point l => set_pc (pc s + 1) (set_trace (trace s ++ [(l, k s)]) (set_abort (abort s || sig (pc s)) s))
    | Normalize => set_g1 (norm (g1 s) (fl s)) s
    | Free o => set_freed (o :: freed s) s
    end.

  (** does the call touch an object that was freed before *)
  Definition touches_freed (a : call) (s : st) : bool :=
    existsb (fun o => existsb (obj_eqb o) (freed s)) (uses a).

  Definition exec (sig : Z -> bool) (c : cfg) (a : call) (s : st) : st :=
    let s' := exec1 sig c a s in set_uaf (uaf s || touches_freed a s) s'.

  Definition gval (c : cfg) (s : st) (g : guard) : bool :=
    match g with
    | GRenorm => (0 <? renorm c) && (k s mod renorm c =? 0)
    | GOut => (0 <? outstep c) && (k s mod outstep c =? 0)
    | GSave0 => h5save c =? 0
    | GHdf => hdf c
    | GWake => wake c
    | GDynRF => dynrf c
    | GAbort => abort s
    | GRenorm0 => 0 <=? renorm c
    end.

  Fixpoint exec_blk (sig : Z -> bool) (c : cfg) (b : blk) (s : st) : st :=
    match b with
    | Done => s
    | Seq a r => exec_blk sig c r (exec sig c a s)
    | Cond g t e r => exec_blk sig c r (if gval c s g then exec_blk sig c t s else exec_blk sig c e s)
    end.

  (** while (simulationstep < laststep && !Display::abort) *)
  Definition cont (c : cfg) (s : st) : bool := (k s <? laststep c) && negb (abort s).

  Fixpoint loop (sig : Z -> bool) (c : cfg) (body : blk) (fuel : nat) (s : st) : st :=
    match fuel with
    | O => s
    | S f => if cont c s then loop sig c body f (exec_blk sig c body s) else s
    end.

  (** exactly n iterations, whatever the loop condition says *)
  Fixpoint iter (sig : Z -> bool) (c : cfg) (body : blk) (n : nat) (s : st) : st :=
    match n with
    | O => s
    | S m => iter sig c body m (exec_blk sig c body s)
    end.

  Definition run (sig : Z -> bool) (c : cfg) (p : prog) (s : st) : st :=
    exec_blk sig c (p_post p)
      (loop sig c (p_body p) (Z.to_nat (laststep c)) (exec_blk sig c (p_pre p) s)).

  (** records a block appends (never reads [file]) *)
  Fixpoint emit (sig : Z -> bool) (c : cfg) (b : blk) (s : st) : list rec :=
    match b with
    | Done => []
    | Seq a r => (match a with Append x => recs c x s | _ => [] end) ++ emit sig c r (exec sig c a s)
    | Cond g t e r =>
        if gval c s g then emit sig c t s ++ emit sig c r (exec_blk sig c t s)
        else emit sig c e s ++ emit sig c r (exec_blk sig c e s)
    end.

  (** the part of the state the next step depends on *)
  Definition dyn (s : st) :=
    (k s, g1 s, g2 s, g3 s, xp s, fl s, wf s, wk s, rfo s, mq s, abort s).
  (** the cache invariant the output block relies on *)
  Definition Inv (s : st) : Prop := fl s = integ (xp s).
End Driver.

Definition nosig : Z -> bool := fun _ => false.
(** the hook's schedule: SIGINT at point [at_]; at every later point too when [rep] *)
Definition hooksig (at_ : Z) (rep : bool) : Z -> bool :=
  fun i => (0 <=? at_) && ((i =? at_) || (rep && (at_ <? i))).

Arguments exec {K}. Arguments exec1 {K}. Arguments touches_freed {K}. Arguments exec_blk {K}. Arguments gval {K}. Arguments cont {K}. Arguments loop {K}.
Arguments iter {K}. Arguments run {K}. Arguments emit {K}. Arguments recs {K}. Arguments dyn {K}.
Arguments Inv {K}. Arguments at_all {K}.

Arguments k {K}. Arguments onr {K}. Arguments g1 {K}. Arguments g2 {K}. Arguments g3 {K}. Arguments xp {K}. Arguments fl {K}. Arguments yp {K}. Arguments mo0 {K}. Arguments mo1 {K}. Arguments wf {K}. Arguments wk {K}. Arguments cs {K}. Arguments rfo {K}. Arguments mq {K}. Arguments past {K}. Arguments tr {K}. Arguments rng {K}. Arguments abort {K}. Arguments pc {K}. Arguments trace {K}. Arguments log {K}. Arguments status {K}. Arguments file {K}. Arguments freed {K}. Arguments uaf {K}.
Arguments set_k {K}. Arguments set_onr {K}. Arguments set_g1 {K}. Arguments set_g2 {K}. Arguments set_g3 {K}. Arguments set_xp {K}. Arguments set_fl {K}. Arguments set_yp {K}. Arguments set_mo0 {K}. Arguments set_mo1 {K}. Arguments set_wf {K}. Arguments set_wk {K}. Arguments set_cs {K}. Arguments set_rfo {K}. Arguments set_mq {K}. Arguments set_past {K}. Arguments set_tr {K}. Arguments set_rng {K}. Arguments set_abort {K}. Arguments set_pc {K}. Arguments set_trace {K}. Arguments set_log {K}. Arguments set_status {K}. Arguments set_file {K}. Arguments set_freed {K}. Arguments set_uaf {K}.
Arguments mkst {K}. Arguments mkrec {K}. Arguments rstep {K}. Arguments rdata {K}.
Arguments RPS {K}. Arguments RDef {K}. Arguments RCsr {K}. Arguments RWake {K}. Arguments RTracks {K}. Arguments RRF {K}. Arguments RPadded {K}.
