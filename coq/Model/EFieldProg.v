(** EFieldProg - the statement language in which translate/efield2coq.py writes down the bodies of
    ElectricField::padBunchProfiles, wakePotential and updateCSR (Gen/Gen_EField.v), and its
    interpreter over the buffer machine of Model/EField.v.

    The language is exactly as wide as the three functions need (DESIGN 2.2: a translator recognises a
    narrow idiom):
    - index expressions [ix]: literals, loop counters (numbered by nesting depth, so renaming a
      local changes nothing), PhaseSpace::nx, PhaseSpace::nb (= _nbunches), _nmax, _spacing_bins,
      _bucket[e], + - * / in Z (C's unsigned arithmetic without wrap-around: all values are far
      below 2^32; a subtraction that would wrap is outside the model);
    - simple statements [stm0], one per kind of buffer write the functions perform;
    - [SFor1 bound body]: [for (v = 0; v < bound; v++) body] with simple statements in the body,
      [SFor2]: the same with loops allowed in the body (nesting depth two is all the code has).
    The right-hand sides are the abstract kernels of [env] ([zmul], [wscale], [acc]) and a
    cell kernel [kcsr] that takes the frequency-axis index and the impedance index separately (the
    hand model's [csrcell] uses one index for both); their arithmetic is generated separately
    (gen_k_* in Gen_EField.v).  No proofs here. *)
From Coq Require Import List ZArith Bool.
From Inovesa Require Import Model.EField.
Import ListNotations.
Local Open Scope Z_scope.

Inductive ix :=
| IConst (z : Z)
| IVar (depth : nat)           (* loop counter of the loop at this nesting depth, outermost = 0 *)
| INx | INb | INmax | ISpc
| IBucket (e : ix)             (* _bucket[e] *)
| IAdd (a b : ix) | ISub (a b : ix) | IMul (a b : ix) | IDiv (a b : ix).

Inductive stm0 :=
| SClearBp (start len : ix)        (* std::fill_n(_bp_padded + start, len, 0) *)
| SCopyBp (src len dst : ix)       (* std::copy_n(projection(0).origin() + src, len, _bp_padded + dst) *)
| SCallPad                         (* padBunchProfiles() *)
| SFwd                             (* fft_execute(_fft_bunchprofile) *)
| SInv                             (* fft_execute(_fft_wakelosses) *)
| SLoss (dst zi fi : ix)           (* _wakelosses[dst] = _impedance[zi] * _formfactor[fi] *)
| SReadback (row col src : ix)     (* _wakepotential[row][col] = k_scale(_wakepotential_padded[src]) *)
| SCsrZero (row : ix)              (* _csrintensity[row] = 0 *)
| SCsrCell (row col ax zi fi : ix) (* _csrspectrum[row][col] = k_csr(cutoff, _axis_freq[ax], _impedance[zi], _formfactor[fi]) *)
| SCsrAcc (dst row col : ix).      (* _csrintensity[dst] += delta * _csrspectrum[row][col] *)

(** the four work buffers of the FFTW path (set-up facts of Gen_EField.v) *)
Inductive wbuf := Bbp | Bff | Bwl | Bwp.

Inductive stm1 := S0 (s : stm0) | SFor1 (bound : ix) (body : list stm0).
Inductive stm2 := S1 (s : stm1) | SFor2 (bound : ix) (body : list stm1).

(** [for (v = k; v < k + m; v++) s = f v s] *)
Fixpoint loopZ {S : Type} (m : nat) (k : Z) (f : Z -> S -> S) (s : S) : S :=
  match m with O => s | S m' => loopZ m' (k + 1) f (f k s) end.

Definition vset (v : nat -> Z) (d : nat) (k : Z) : nat -> Z := fun j => if Nat.eqb j d then k else v j.
Definition v0 : nat -> Z := fun _ => 0.      (* no loop entered yet *)
Definition upd {A} (buf : Z -> A) (a : Z) (x : A) : Z -> A := store buf a 1 (fun _ => x).

Section Interp.
  Context {T C : Type} (E : env T C).
  Variable kcsr : T -> Z -> Z -> C -> T.     (* cutoff, axis index, impedance index, form factor cell *)
  Variable padsem : (Z -> T) -> state T C -> state T C.   (* meaning of a call of padBunchProfiles() *)
  Variable p : Z -> T.                       (* the x-projection at the time of the call, flat b*nx+x *)
  Variable cut : T.                          (* the argument of updateCSR *)

  Fixpoint ixval (v : nat -> Z) (e : ix) : Z :=
    match e with
    | IConst z => z
    | IVar d => v d
    | INx => nx E | INb => nbun E | INmax => nmax E | ISpc => spc E
    | IBucket a => nth (Z.to_nat (ixval v a)) (buckets E) 0
    | IAdd a b => ixval v a + ixval v b
    | ISub a b => ixval v a - ixval v b
    | IMul a b => ixval v a * ixval v b
    | IDiv a b => ixval v a / ixval v b
    end.

  Definition exec0 (v : nat -> Z) (c : stm0) (s : state T C) : state T C :=
    match c with
    | SClearBp a len =>
        State (store (bp s) (ixval v a) (ixval v len) (fun _ => t0 E)) (ff s) (wl s) (wp s) (wake s) (csr s) (csri s)
    | SCopyBp src len dst =>
        State (store (bp s) (ixval v dst) (ixval v len) (fun x => p (ixval v src + x)))
              (ff s) (wl s) (wp s) (wake s) (csr s) (csri s)
    | SCallPad => padsem p s
    | SFwd => State (bp s) (fwd E (bp s) (ff s)) (wl s) (wp s) (wake s) (csr s) (csri s)
    | SInv =>
        let inp := sample (wl s) (half E + 1) in
        State (bp s) (ff s) (store (wl s) 0 (half E + 1) (nthZ (clobber E inp) (c0 E)))
              (store (wp s) 0 (nmax E) (nthZ (c2r E inp) (t0 E))) (wake s) (csr s) (csri s)
    | SLoss dst zi fi =>
        State (bp s) (ff s) (upd (wl s) (ixval v dst) (zmul E (ixval v zi) (ff s (ixval v fi))))
              (wp s) (wake s) (csr s) (csri s)
    | SReadback row col src =>
        State (bp s) (ff s) (wl s) (wp s)
              (upd (wake s) (ixval v row * nx E + ixval v col) (wscale E (wp s (ixval v src)))) (csr s) (csri s)
    | SCsrZero row =>
        State (bp s) (ff s) (wl s) (wp s) (wake s) (csr s) (upd (csri s) (ixval v row) (t0 E))
    | SCsrCell row col ax zi fi =>
        State (bp s) (ff s) (wl s) (wp s) (wake s)
              (upd (csr s) (ixval v row * nmax E + ixval v col)
                   (kcsr cut (ixval v ax) (ixval v zi) (ff s (ixval v fi)))) (csri s)
    | SCsrAcc dst row col =>
        State (bp s) (ff s) (wl s) (wp s) (wake s) (csr s)
              (upd (csri s) (ixval v dst) (acc E (csri s (ixval v dst)) (csr s (ixval v row * nmax E + ixval v col))))
    end.

  Definition exec0s (v : nat -> Z) (l : list stm0) (s : state T C) : state T C :=
    fold_left (fun s c => exec0 v c s) l s.

  (** [d]: nesting depth at which the statement stands = number of the counter a loop here binds *)
  Definition exec1 (d : nat) (v : nat -> Z) (c : stm1) (s : state T C) : state T C :=
    match c with
    | S0 c0 => exec0 v c0 s
    | SFor1 bound body => loopZ (Z.to_nat (ixval v bound)) 0 (fun k s => exec0s (vset v d k) body s) s
    end.

  Definition exec1s (d : nat) (v : nat -> Z) (l : list stm1) (s : state T C) : state T C :=
    fold_left (fun s c => exec1 d v c s) l s.

  Definition exec2 (v : nat -> Z) (c : stm2) (s : state T C) : state T C :=
    match c with
    | S1 c1 => exec1 0 v c1 s
    | SFor2 bound body => loopZ (Z.to_nat (ixval v bound)) 0 (fun k s => exec1s 1 (vset v 0 k) body s) s
    end.

  Definition exec (prog : list stm2) (s : state T C) : state T C :=
    fold_left (fun s c => exec2 v0 c s) prog s.
End Interp.

(** pointwise equality of two states (the buffers are functions; no extensionality axiom is used) *)
Definition steq {T C} (s1 s2 : state T C) : Prop :=
  (forall i, bp s1 i = bp s2 i) /\ (forall i, ff s1 i = ff s2 i) /\ (forall i, wl s1 i = wl s2 i) /\
  (forall i, wp s1 i = wp s2 i) /\ (forall i, wake s1 i = wake s2 i) /\ (forall i, csr s1 i = csr s2 i) /\
  (forall i, csri s1 i = csri s2 i).

(** The three member functions as programs [pad wk cs], and the operations of a field object run
    through them.  padBunchProfiles() inside wakePotential() means the program [pad]; a call of
    padBunchProfiles() inside [pad] itself is not accepted by the translator (meaning: identity). *)
Section Programs.
  Context {T C : Type} (E : env T C).
  Variable kcsr : T -> Z -> Z -> C -> T.
  Variables pad wk cs : list stm2.

  Definition prog_pad (p : Z -> T) (s : state T C) : state T C :=
    exec E kcsr (fun _ s => s) p (t0 E) pad s.
  Definition prog_wake (p : Z -> T) (s : state T C) : state T C :=
    exec E kcsr prog_pad p (t0 E) wk s.
  Definition prog_csr (cut : T) (p : Z -> T) (s : state T C) : state T C :=
    exec E kcsr prog_pad p cut cs s.

  Definition prog_step (o : op T) (s : state T C) : state T C :=
    match o with
    | Wake p => prog_wake p s
    | Pad p => prog_pad p s
    | CSR cut p => prog_csr cut p s
    end.

  Definition prog_run (h : list (op T)) (s : state T C) : state T C :=
    fold_left (fun s o => prog_step o s) h s.
End Programs.
