(** * Model of the RF kick / drift offset fields and of the centroid map (C03, RF part of C08).

    Mirrors, as they are:
      - [Ruler]'s constructor (inc/PS/Ruler.hpp): [_delta], [_zerobin], [at(i)];
      - [RFKickMap::_calcKick] (src/SM/RFKickMap.cpp), linear and sinusoidal branch, including
        the block layout of [_offset] (one block of [n] entries per bunch);
      - [DriftMap]'s constructor (src/SM/DriftMap.cpp) including the alpha1/alpha2 terms; only
        the first block of [_offset] is written, the others keep KickMap's initial 0
        (KickMap::apply's x branch reads block 0 for every bunch).
    Everything is exact arithmetic over a generic field; [tan(angle)] is a field element [t],
    the sine samples of the sinusoidal model are field elements [sn x].  No proofs here. *)
From Coq Require Import List ZArith QArith Qcanon Bool.
From Inovesa Require Import Base.FieldKit.
Import ListNotations.

Section RF.
  Variable K : Fld.
  Local Open Scope F_scope.

  Fixpoint kpow (x : K) (k : nat) : K := match k with O => 1 | S m => x * kpow x m end.

  (** ** Ruler(steps, min, max) *)
  Definition ruler_delta (steps : Z) (mn mx : K) : K := (mx - mn) / fz (steps - 1).
  Definition ruler_zerobin (steps : Z) (mn mx : K) : K :=
    ((mn + mx) / (mn - mx) + 1) * fz (steps - 1) / two.
  Definition ruler_at (mn delta : K) (i : Z) : K := mn + fz i * delta.

  (** ** RFKickMap::_calcKick, [_linear] branch, entry [x] of a block:
        _offset = tan(_angle)*(xcenter-x); += tan(_angle)*phaseoffs/_bl2phase/delta0; *= ampl *)
  Definition rf_lin (t xc phaseoffs bl2phase delta0 ampl : K) (x : Z) : K :=
    (t * (xc - fz x) + t * phaseoffs / bl2phase / delta0) * ampl.

  (** sinusoidal branch; [sn] is the value of sin(at(x)*_bl2phase+phase) *)
  Definition rf_sin (revpart ampl vrf v0 delta1 scale1 : K) (sn : K) : K :=
    revpart * (- ampl * vrf * sn + v0) / delta1 / scale1.

  (** the RF offset vector: every bunch's block carries the field (index i = b*n + x) *)
  Definition rf_offsets (n : Z) (f : Z -> K) (i : Z) : K := f (i mod n)%Z.

  (** ** DriftMap constructor, entry [y]:
        sum_i slip[i]*p*pow(p*scale1/E0, i), then /= delta0, with p = axis1.at(y) *)
  Fixpoint drift_sum (slip : list K) (p r : K) (i : nat) : K :=
    match slip with
    | [] => 0
    | s :: rest => s * p * kpow r i + drift_sum rest p r (S i)
    end.
  Definition drift_off (slip : list K) (scale1 e0 delta0 : K) (p : K) : K :=
    drift_sum slip p (p * scale1 / e0) 0 / delta0.
  (** the drift offset vector: only block 0 is written *)
  Definition drift_offsets (n : Z) (f : Z -> K) (i : Z) : K :=
    if ((0 <=? i) && (i <? n))%Z then f i else 0.

  (** ** the centroid map in u = x - xc, v = y - yc: RF kick, then drift *)
  Definition rf_step (t : K) (c : K * K) : K * K := (fst c, snd c + t * fst c).
  Definition drift_step (a : K) (c : K * K) : K * K := (fst c - a * snd c, snd c).
  Definition cstep (t a : K) (c : K * K) : K * K := drift_step a (rf_step t c).

  Definition mat := ((K * K) * (K * K))%type.
  Definition Mstep (t a : K) : mat := ((1 - a * t, - a), (t, 1)).
  Definition mat_apply (M : mat) (c : K * K) : K * K :=
    (fst (fst M) * fst c + snd (fst M) * snd c, fst (snd M) * fst c + snd (snd M) * snd c).
  Definition mat_det (M : mat) : K := fst (fst M) * snd (snd M) - snd (fst M) * fst (snd M).
  Definition mat_tr (M : mat) : K := fst (fst M) + snd (snd M).

  Fixpoint orbit (t a : K) (c : K * K) (k : nat) : K * K :=
    match k with O => c | S m => cstep t a (orbit t a c m) end.
  Fixpoint mat_orbit (M : mat) (c : K * K) (k : nat) : K * K :=
    match k with O => c | S m => mat_apply M (mat_orbit M c m) end.

  (** the conserved quadratic form *)
  Definition inv_form (t a : K) (c : K * K) : K :=
    t * fst c * fst c + a * t * fst c * snd c + a * snd c * snd c.

  (** the orbit c0, M c0, ..., M^k c0 (k+1 entries), computed forwards *)
  Fixpoint orbit_list (t a : K) (c : K * K) (k : nat) : list (K * K) :=
    match k with O => [c] | S m => c :: orbit_list t a (cstep t a c) m end.
End RF.

Arguments kpow {_}. Arguments ruler_delta {_}. Arguments ruler_zerobin {_}. Arguments ruler_at {_}.
Arguments rf_lin {_}. Arguments rf_sin {_}. Arguments rf_offsets {_}. Arguments drift_sum {_}.
Arguments drift_off {_}. Arguments drift_offsets {_}. Arguments rf_step {_}. Arguments drift_step {_}.
Arguments cstep {_}. Arguments Mstep {_}. Arguments mat_apply {_}. Arguments mat_det {_}.
Arguments mat_tr {_}. Arguments orbit {_}. Arguments mat_orbit {_}. Arguments inv_form {_}.
Arguments orbit_list {_}.

(** ** executable front-end over Qc (what the extracted driver runs) *)
Local Open Scope Z_scope.

Definition qz (z : Z) : Qc := fz (K:=QcF) z.

(** *** dyadic (integer) evaluation: every float is m/2^e, and the centroid map only adds
    and multiplies, so the orbit of a dyadic start under dyadic (t, a) is computed over Z
    without any gcd.  With t = T/2^E, a = A/2^E and (u,v) = (U,V)/2^s one step gives
    (U',V')/2^(s+2E).  [Proofs/RFP.v: zorbit_correct] ties this to [orbit] in every field. *)
Definition zstep (E T A : Z) (c : Z * Z) : Z * Z :=
  let V1 := Z.shiftl (snd c) E + T * fst c in            (* v + t u   at scale s+E  *)
  (Z.shiftl (Z.shiftl (fst c) E) E - A * V1, Z.shiftl V1 E).   (* u - a v', v'  at scale s+2E *)

Fixpoint zorbit (E T A : Z) (c : Z * Z) (k : nat) : Z * Z :=
  match k with O => c | S m => zstep E T A (zorbit E T A c m) end.

(** value*2^64 rounded down, for an integer [U] at scale [s] (printing precision of the driver) *)
Definition fix64 (U s : Z) : Z := Z.shiftr (Z.shiftl U 64) s.

(** the orbit c0 .. c_k as pairs of 2^-64 fixed-point numbers (each rounded down from the
    exact dyadic value) *)
Fixpoint zorbit_list (E T A : Z) (c : Z * Z) (s : Z) (k : nat) : list (Z * Z) :=
  (fix64 (fst c) s, fix64 (snd c) s) ::
  match k with O => [] | S m => zorbit_list E T A (zstep E T A c) (s + 2 * E) m end.
Definition zorbit_listZ (E T A U V s k : Z) : list (Z * Z) := zorbit_list E T A (U, V) s (Z.to_nat k).

(** raw first moments of bunch [b] of a bunch-major integer grid about (XC, YC)/2^f:
    (S0, U, V) = (sum d, sum (x*2^f - XC) d, sum (y*2^f - YC) d); with data d/2^e these are
    the moments S0/2^e, U/2^(e+f), V/2^(e+f) *)
Definition zmoments (n b XC YC f : Z) (data : list Z) : Z * (Z * Z) :=
  let blk := firstn (Z.to_nat (n * n)) (skipn (Z.to_nat (b * n * n)) data) in
  snd (fold_left (fun st d =>
         let i := fst st in let acc := snd st in
         let x := i / n in let y := i mod n in
         (i + 1, (fst acc + d,
                  (fst (snd acc) + (Z.shiftl x f - XC) * d, snd (snd acc) + (Z.shiftl y f - YC) * d))))
       blk (0, (0, (0, 0)))).

Definition getQ' (l : list Qc) (i : Z) : Qc :=
  if (0 <=? i) then nth (Z.to_nat i) l 0%Qc else 0%Qc.

(** Ruler facts of one axis: (delta, zerobin) *)
Definition ruler_list (steps : Z) (mn mx : Qc) : Qc * Qc :=
  (ruler_delta (K:=QcF) steps mn mx, ruler_zerobin (K:=QcF) steps mn mx).

(** offset vectors (all nb blocks) of the linear RF map, the sinusoidal RF map, the drift *)
Definition rf_lin_list (n nb : Z) (t xc phaseoffs bl2phase delta0 ampl : Qc) : list Qc :=
  map (rf_offsets (K:=QcF) n (rf_lin (K:=QcF) t xc phaseoffs bl2phase delta0 ampl)) (zrange (n * nb)).
Definition rf_sin_list (n nb : Z) (revpart ampl vrf v0 delta1 scale1 : Qc) (sn : list Qc) : list Qc :=
  map (rf_offsets (K:=QcF) n (fun x => rf_sin (K:=QcF) revpart ampl vrf v0 delta1 scale1 (getQ' sn x)))
      (zrange (n * nb)).
Definition drift_list (n nb : Z) (slip : list Qc) (scale1 e0 delta0 mn1 delta1 : Qc) : list Qc :=
  map (drift_offsets (K:=QcF) n
         (fun y => drift_off (K:=QcF) slip scale1 e0 delta0 (ruler_at (K:=QcF) mn1 delta1 y)))
      (zrange (n * nb)).
