(** * Semantics of the C++ constructs that translate/imp2coq.py emits into Gen/Gen_Imp.v
      (DESIGN 2.2, 5/C16).  Hand-written, trusted meaning of:

      - [seg lo hi f]        [for (size_t i = lo; i < hi; i++) rv.push_back(f(i));]  - the samples
                             pushed by one counting loop, in order (nothing when [hi <= lo]);
      - [resize l k z]       [std::vector::resize(k, z)];
      - [cmulr z r], [cmull r z]   [std::complex<float> * float], [float * std::complex<float>];
      - [for_upd lo hi step d]     a counting loop whose body updates a vector in place;
      - [setz d i v]         [d[i] = v]; an index outside the vector leaves it unchanged (the
                             access itself is undefined behaviour: the generated bound comes with
                             a separate in-bounds theorem, Proofs/ImpedanceGenP.v);
      - [deref_add]          [*rv += x] on a [std::unique_ptr<Impedance>] (the null pointer is
                             never dereferenced by the factory; the model maps it to itself);
      - [file_given], [file_data]  [impedance_file != ""], [Impedance(impedance_file, fmax)]:
                             the file is [None] for the empty name, otherwise its samples.
    No proofs in this file. *)
From Coq Require Import List ZArith Bool.
From Inovesa Require Import Base.FieldKit Model.Impedance.
Import ListNotations.
Local Open Scope Z_scope.

Section Kit.
  Variable C : Type.
  Variable c0 : C.

  Definition seg (lo hi : Z) (f : Z -> C) : list C :=
    map (fun k => f (lo + k)) (zrange (hi - lo)).

  Definition resize (l : list C) (k : Z) (z : C) : list C :=
    if k <=? zlen l then firstn (Z.to_nat k) l else l ++ fill (k - zlen l) z.

  Definition setz (d : list C) (i : Z) (v : C) : list C :=
    if (0 <=? i) && (i <? zlen d) then upd d (Z.to_nat i) v else d.

  Definition for_upd (lo hi : Z) (step : Z -> list C -> list C) (d : list C) : list C :=
    fold_left (fun acc i => step i acc) (map (fun k => lo + k) (zrange (hi - lo))) d.

  Definition deref_add (add : list C -> list C -> list C) (rv : option (list C)) (x : list C)
    : option (list C) :=
    match rv with Some l => Some (add l x) | None => None end.

  Definition file_given (f : option (list C)) : bool :=
    match f with Some _ => true | None => false end.
  Definition file_data (f : option (list C)) : list C :=
    match f with Some d => d | None => [] end.
End Kit.

Arguments seg {C}. Arguments resize {C}. Arguments setz {C}. Arguments for_upd {C}.
Arguments deref_add {C}. Arguments file_given {C}. Arguments file_data {C}.

Section Cplx.
  Variable K : Fld.
  Local Open Scope F_scope.
  Definition cpx : Type := (K * K)%type.
  Definition cpx0 : cpx := (0, 0).
  Definition cmulr (z : cpx) (r : K) : cpx := (fst z * r, snd z * r).
  Definition cmull (r : K) (z : cpx) : cpx := (r * fst z, r * snd z).
End Cplx.

Arguments cpx0 {K}. Arguments cmulr {K}. Arguments cmull {K}.

(** the leaves of the generated definitions: transcendental functions and constants, the order
    tests on floating values, the addition of two samples, and the one sample value that is not
    translated (ParallelPlatesCSR: Airy functions) *)
Record Leaves (K : Fld) := mkLeaves {
  l_pw : K -> K -> K;          (* std::pow *)
  l_sq : K -> K;               (* std::sqrt *)
  l_lg : K -> K;               (* std::log *)
  l_ab : K -> K;               (* std::abs *)
  l_pi : K;                    (* boost::math::constants::pi<double>() *)
  l_c : K;                     (* physcons::c *)
  l_Z0 : K;                    (* Impedance::Z0 *)
  l_ltb : K -> K -> bool;      (* a < b *)
  l_leb : K -> K -> bool;      (* a <= b *)
  l_eqb : K -> K -> bool;      (* a == b *)
  l_cadd : cpx K -> cpx K -> cpx K;                 (* std::complex<float> + *)
  l_PPs : Z -> K -> K -> K -> Z -> cpx K }.         (* sample i of ParallelPlatesCSR(n, f0, f_max, g) *)
Arguments l_pw {K}. Arguments l_sq {K}. Arguments l_lg {K}. Arguments l_ab {K}. Arguments l_pi {K}.
Arguments l_c {K}. Arguments l_Z0 {K}. Arguments l_ltb {K}. Arguments l_leb {K}. Arguments l_eqb {K}.
Arguments l_cadd {K}. Arguments l_PPs {K}.
