(** * Model of the plain copies among the source maps (C01, C08):

    - [copy_loop]: a counting copy [for i < cnt: dst[didx i] = src[sidx i]] (what std::copy_n,
      std::copy and a hand-written loop all do), executed element by element in program order;
    - [ident_apply]: Identity::apply (inc/SM/Identity.hpp), the copy of the whole bunch-major grid,
      with the element count and indices generated from the source (Gen/Gen_Identity.v).
    No proofs here. *)
From Coq Require Import List ZArith QArith Qcanon Bool.
From Inovesa Require Import Base.FieldKit Gen.Gen_Identity.
Import ListNotations.
Local Open Scope Z_scope.

Definition upd {A} (f : Z -> A) (k : Z) (v : A) (i : Z) : A := if i =? k then v else f i.

(** [for (i = 0; i < cnt; i++) dst[didx i] = src[sidx i]] *)
Definition copy_loop {A} (cnt : Z) (sidx didx : Z -> Z) (src dst : Z -> A) : Z -> A :=
  fold_left (fun d i => upd d (didx i) (src (sidx i))) (zrange cnt) dst.

(** ** Identity::apply on [nb] bunches of [nx*ny] cells; [old] is what the target grid held *)
Definition ident_apply (nb nx ny : Z) (inp old : Z -> Qc) : Z -> Qc :=
  let nxy := nx * ny in let nxyb := nb * nx * ny in
  copy_loop (id_count nb nx ny nxy nxyb) (id_src_idx nb nx ny nxy nxyb) (id_dst_idx nb nx ny nxy nxyb) inp old.
