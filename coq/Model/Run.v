(** * Model of a whole transport run on the nb-bunch grid (C08, run level).

    One pass of main()'s loop body applies four source maps, in the order generated from the source
    (Gen/Gen_StepOrder.v: wake kick, RF kick, drift, Fokker-Planck), each reading the grid its
    predecessor wrote (grid_t1 -> grid_t2 -> grid_t1 -> grid_t3 -> grid_t1).  The maps are the existing models:
      - wake kick: [apply_y] (Model/Kick.v) with the table WakePotentialMap::update builds from the
        array ElectricField::wakePotential() returned ([wake_table], Model/WakeUpdate.v), or the
        Identity map when the run has no impedance (main.cpp: [wm = new Identity]);
      - RF kick: [apply_y] with [updateSM] of [rf_offsets] (Model/RF.v: every bunch's block carries the field);
      - drift: [apply_x] with [updateSM] of [drift_offsets] (Model/RF.v);
      - damping/diffusion: [fp_apply] (Model/FokkerPlanck.v) with a stencil table, or the Identity
        map when there is no damping (main.cpp: [fpm = new Identity]).
    The wake potentials are inputs of the model, one array of [nb*n] values per step (whatever the
    field computes: the theorems quantify over them).  Grids are total functions of the flat cell
    index; the list front-end at the end is what the extracted driver runs.  No proofs here. *)
From Coq Require Import List ZArith QArith Qcanon Bool.
From Inovesa Require Import Base.FieldKit Base.Float32 Gen.Gen_Coeffs Gen.Gen_FPStencil Model.Kick Model.RF
  Model.FokkerPlanck Model.StepKinds Gen.Gen_StepOrder Model.RunKinds Gen.Gen_WakeUpdate Gen.Gen_Identity
  Model.Copy Model.WakeUpdate.
Import ListNotations.
Local Open Scope Z_scope.

(** what does not change during a run and does not depend on the number of bunches *)
Record run_par := mkRunPar {
  rp_n : Z;                                  (* grid size per axis *)
  rp_it : Z;                                 (* interpolation points *)
  rp_rf : Z -> Qc;                           (* RF kick field, entry x of a block *)
  rp_dr : Z -> Qc;                           (* drift field, entry y *)
  rp_fp : option (Z * (Z -> Z * Qc))         (* None: Identity; Some (ip, table _hinfo) *)
}.

Definition zeroG : Z -> Qc := fun _ => 0%Qc.

(** one source map; [wk]: None = Identity in the wake slot, Some wp = WakePotentialMap after
    update() with the wake potentials [wp] *)
Definition apply_smap (P : run_par) (nb : Z) (wk : option (Z -> Qc)) (m : smap) (D : Z -> Qc) : Z -> Qc :=
  let n := rp_n P in let it := rp_it P in
  match m with
  | MWake => match wk with
             | Some wp => apply_y n nb it (wake_table n nb it wp) D
             | None => ident_apply nb n n D zeroG
             end
  | MRF => apply_y n nb it (updateSM n it (rf_offsets (K:=QcF) n (rp_rf P))) D
  | MDrift => apply_x n nb it (updateSM n it (drift_offsets (K:=QcF) n (rp_dr P))) D
  | MFP => match rp_fp P with
           | Some (ip, H) => fp_apply (K:=QcF) n n ip H D
           | None => ident_apply nb n n D zeroG
           end
  end.

Definition apply_maps (P : run_par) (nb : Z) (wk : option (Z -> Qc)) (order : list smap) (D : Z -> Qc) : Z -> Qc :=
  fold_left (fun acc m => apply_smap P nb wk m acc) order D.

(** one pass of the loop body, in the generated order *)
Definition run_step (P : run_par) (nb : Z) (wk : option (Z -> Qc)) (D : Z -> Qc) : Z -> Qc :=
  apply_maps P nb wk step_order D.

(** [k] steps; [wks j] is the wake slot of step [j] (counted from 0) *)
Fixpoint run (P : run_par) (nb : Z) (wks : nat -> option (Z -> Qc)) (k : nat) (D : Z -> Qc) : Z -> Qc :=
  match k with
  | O => D
  | S k' => run_step P nb (wks k') (run P nb wks k' D)
  end.

(** the wake slot bunch [b] of an nb-bunch run sees, as the slot of a single-bunch run *)
Definition wk_slice (n b : Z) (wk : option (Z -> Qc)) : option (Z -> Qc) :=
  match wk with Some wp => Some (fun i => wp (b * n + i)) | None => None end.

(** bunch [b]'s cells as a single-bunch grid *)
Definition slice (n b : Z) (D : Z -> Qc) : Z -> Qc := fun i => D (b * n * n + i).

(** the Fokker-Planck table reads inside its own energy column (C17 shows it for the table the
    constructor builds under main()'s guard; without it a bunch would read its neighbour) *)
Definition fp_inside (P : run_par) : Prop :=
  match rp_fp P with
  | Some (ip, H) => 0 <= ip /\ forall k, 0 <= k < rp_n P * ip -> 0 <= fst (H k) < rp_n P
  | None => True
  end.

(** ** list front-end (what the extracted driver runs): every map materialises its grid *)
Definition grid_list (nb n : Z) (G : Z -> Qc) : list Qc := map G (zrange (nb * n * n)).

(** one map on a list; the wake kick's table is materialised once per application (as update() does) instead of
    being re-derived for every cell *)
Definition apply_smap_list (P : run_par) (nb : Z) (wk : option (Z -> Qc)) (m : smap) (data : list Qc) : list Qc :=
  let n := rp_n P in let it := rp_it P in
  match m, wk with
  | MWake, Some wp =>
      let T := map (wake_table n nb it wp) (zrange (nb * n * it)) in
      grid_list nb n (apply_y n nb it (getH T) (getQ data))
  | _, _ => grid_list nb n (apply_smap P nb wk m (getQ data))
  end.

Definition apply_maps_list (P : run_par) (nb : Z) (wk : option (Z -> Qc)) (order : list smap) (data : list Qc) : list Qc :=
  fold_left (fun acc m => apply_smap_list P nb wk m acc) order data.

Fixpoint run_list (P : run_par) (nb : Z) (wks : list (option (list Qc))) (data : list Qc) : list Qc :=
  match wks with
  | [] => data
  | wk :: rest =>
      run_list P nb rest
        (apply_maps_list P nb (match wk with Some l => Some (getQ l) | None => None end) step_order data)
  end.

(** parameters from lists; the Fokker-Planck table is the model's own ([fp_table_list]) *)
Definition mk_par (n it : Z) (rf dr : list Qc) (fp : option (Z * list (Z * Qc))) : run_par :=
  mkRunPar n it (getQ rf) (getQ dr)
           (match fp with Some (ip, tbl) => Some (ip, hget tbl) | None => None end).

Definition run_driver (n nb it : Z) (rf dr : list Qc) (fp : option (Z * list (Z * Qc)))
           (wks : list (option (list Qc))) (data : list Qc) : list Qc :=
  run_list (mk_par n it rf dr fp) nb wks data.

(** the offset vector and the table WakePotentialMap::update leaves, as lists *)
Definition wake_offsets_list (n nb it : Z) (wp : list Qc) : list Qc :=
  map (wake_offsets n nb it (getQ wp)) (zrange (nb * n)).
Definition wake_table_list (n nb it : Z) (wp : list Qc) : list (Z * Qc) :=
  map (wake_table n nb it (getQ wp)) (zrange (nb * n * it)).
Definition ident_list (nb n : Z) (data old : list Qc) : list Qc :=
  grid_list nb n (ident_apply nb n n (getQ data) (getQ old)).
