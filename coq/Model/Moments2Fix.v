(** * The coupled second-moment recurrence [sm_step] (Model/Moments2.v): closed form of its fixed point and
    the quadratic form the damped rotation contracts (definitions only; proofs in Proofs/CoupledP.v, CoupledR.v).

    With damping (d = e1), c = 2 f / delta^2 - e1 (f = e1 with diffusion, 0 without) and
    R* = 2 c / (e1 (4 - a t)) (the energy moment right after the RF kick), the fixed point per unit charge is
        Muu* = a R* (2 - e1) / (2 t),   Muv* = - (1 - e1) a R* / 2,   Mvv* = R* (1 - e1 a t / 2). *)
From Coq Require Import List ZArith.
From Inovesa Require Import Base.FieldKit Gen.Gen_FPStencil Model.Moments2.
Import ListNotations.

Section Fix.
  Variable K : Fld.
  Local Open Scope F_scope.
  Definition four : K := two * two.

  Definition msub (m m' : mom2 K) : mom2 K :=
    mkMom2 (muu m - muu m') (muv m - muv m') (mvv m - mvv m') (m0 m - m0 m').

  Section P.
    Variables (v : Z) (a t e1 delta : K).
    Definition cc : K := two * opt (has_diff v) e1 / (delta * delta) - e1.
    (** the energy moment after the RF kick, at equilibrium, per unit charge *)
    Definition Rstar : K := two * cc / (e1 * (four - a * t)).
    Definition fix_uu : K := a * Rstar * (two - e1) / (two * t).
    Definition fix_uv : K := - ((1 - e1) * a * Rstar / two).
    Definition fix_vv : K := Rstar * (1 - e1 * a * t / two).
    Definition sm_fix (z : K) : mom2 K := mkMom2 (z * fix_uu) (z * fix_uv) (z * fix_vv) z.
    (** deviation from the fixed point of the same charge *)
    Definition dev (m : mom2 K) : mom2 K := msub m (sm_fix (m0 m)).
  End P.

  (** B = diag(1, 1-e) M is the one-step map of a damped oscillator; G = [[g1, g12], [g12, g2]] is its invariant
      conic (B^T G B = det B * G), and N(S) = tr((G S)^2) the induced form on symmetric matrices S = [[x,y],[y,z]]. *)
  Section Norm.
    Variables (a t e : K).
    Definition g1 : K := (1 - e) * t.
    Definition g12 : K := (a * t - e) / two.
    Definition g2 : K := a.
    Definition DG : K := g1 * g2 - g12 * g12.
    Definition trG (x y z : K) : K := g1 * x + two * g12 * y + g2 * z.
    Definition NN (x y z : K) : K := trG x y z * trG x y z - two * DG * (x * z - y * y).
    Definition Nm (m : mom2 K) : K := NN (muu m) (muv m) (mvv m).
    (** (G S G)_22 *)
    Definition q22 (x y z : K) : K := g12 * g12 * x + two * g12 * g2 * y + g2 * g2 * z.
    (** after kick and drift *)
    Definition Pk (x y z : K) : K := x - two * a * (y + t * x) + a * a * (z + two * t * y + t * t * x).
    Definition Qk (x y z : K) : K := (y + t * x) - a * (z + two * t * y + t * t * x).
    Definition Rk (x y z : K) : K := z + two * t * y + t * t * x.
    (** contraction factor of sqrt N per step *)
    Definition rho : K := (1 - e) + e * e * (g1 * g2) / ((1 - e) * DG).
  End Norm.
End Fix.

Arguments four {_}. Arguments msub {_}. Arguments cc {_}. Arguments Rstar {_}. Arguments fix_uu {_}.
Arguments fix_uv {_}. Arguments fix_vv {_}. Arguments sm_fix {_}. Arguments dev {_}.
Arguments g1 {_}. Arguments g12 {_}. Arguments g2 {_}. Arguments DG {_}. Arguments trG {_}. Arguments NN {_}.
Arguments Nm {_}. Arguments q22 {_}. Arguments Pk {_}. Arguments Qk {_}. Arguments Rk {_}. Arguments rho {_}.

(** executable instance for the extracted driver: fixed point per unit charge, contraction factor, norm *)
From Coq Require Import QArith Qcanon.
Definition smq_fix (v : Z) (a t e1 delta : Qc) : list Qc :=
  [fix_uu (K:=QcF) v a t e1 delta; fix_uv (K:=QcF) v a t e1 delta; fix_vv (K:=QcF) v a t e1 delta].
Definition smq_rho (a t e1 : Qc) : Qc := rho (K:=QcF) a t e1.
Definition smq_N (a t e1 : Qc) (m : list Qc) : Qc :=
  match m with
  | [x; y; z] => NN (K:=QcF) a t e1 x y z
  | _ => 0%Qc
  end.
