(** * What the HDF5 library does with the vectors HDF5File hands to it (hand-written, trusted like the
      library itself): row-major datasets, hyperslab selection [start], [count] (stride 1, block 1),
      read of a selection into a buffer, write of a buffer into a selection, extension of the
      first dimension.  Vocabulary of translate/h5index2coq.py (Gen/Gen_H5Index.v); lemmas in
      Proofs/H5SlabP.v.  Executable, no proofs here. *)
From Coq Require Import List ZArith Bool Lia.
From Inovesa Require Import Base.FieldKit Model.Records.
Import ListNotations.
Local Open Scope Z_scope.

(** flat (row-major) positions of the points of a hyperslab, in the order HDF5 transfers them:
    the last dimension runs fastest *)
Fixpoint gidx (acc : Z) (dims start count : list Z) : list Z :=
  match dims, start, count with
  | d :: ds, o :: os, e :: es => flat_map (fun i => gidx (acc * d + (o + i)) ds os es) (zrange e)
  | _, _, _ => [acc]
  end.

(** the selection lies inside the extent (otherwise the transfer fails) *)
Fixpoint slab_fits (dims start count : list Z) : bool :=
  match dims, start, count with
  | d :: ds, o :: os, e :: es => (0 <=? o) && (0 <=? e) && (o + e <=? d) && slab_fits ds os es
  | [], [], [] => true
  | _, _, _ => false
  end.

(** [getSelectNpoints] of a hyperslab selection *)
Definition slab_npoints (count : list Z) : Z := prodZ count.

Section Slab.
  Context {A : Type}.

  (** [dataset.read(buf, type, memspace, filespace)] with a memory space of the selection's shape *)
  Definition slab_read (d : A) (dims start count : list Z) (data : list A) : list A :=
    map (getl d data) (gidx 0 dims start count).

  Fixpoint upd (p : nat) (x : A) (l : list A) : list A :=
    match l, p with
    | [], _ => []
    | _ :: t, O => x :: t
    | h :: t, S q => h :: upd q x t
    end.

  (** the buffer's elements go to the listed positions, in order *)
  Fixpoint write_at (ps : list Z) (src data : list A) : list A :=
    match ps, src with
    | p :: ps', x :: src' => write_at ps' src' (upd (Z.to_nat p) x data)
    | _, _ => data
    end.

  (** [dataset.extend(newdims)] when only the first dimension grows: in a row-major layout the new
      cells (fill value) follow the old ones *)
  Definition extend_first (fill : A) (newdims : list Z) (data : list A) : list A :=
    data ++ repeat fill (Z.to_nat (prodZ newdims) - length data).

  (** extend, select, write: the body of [_appendData] as the library executes it *)
  Definition h5_append (fill : A) (newdims start count : list Z) (src file : list A) : list A :=
    write_at (gidx 0 newdims start count) src (extend_first fill newdims file).
End Slab.

(** ** what each dataset of the results file is appended from (targets of the generated tables) *)
Inductive psrc :=
| SrcTime                      (* &t *)
| SrcData                      (* ps.getData()                : _data *)
| SrcProj (axis : Z)           (* ps.getProjection(axis)      : _projection[axis] *)
| SrcRms (axis : Z)            (* getBunchLength / getEnergySpread : _rms[axis] *)
| SrcMoment (axis order : Z)   (* ps.getMoment(axis,order)    : _moment[axis][order] *)
| SrcFilling                   (* ps.getBunchPopulation()     : _filling *)
| SrcCsrRows                   (* the gathered rows of ef->getCSRSpectrum() *)
| SrcCsrPower                  (* ef->getCSRPower() *)
| SrcForce                     (* wkm->getForce() *)
| SrcPadProfile                (* ef->getPaddedBunchProfiles() *)
| SrcPadPotential              (* ef->getPaddedWakePotential() *)
| SrcParticles                 (* the converted particle coordinates *)
| SrcOther.

(** the property's side: what each dataset is meant to hold (C10: profile = x projection, energy
    profile = y projection, length / spread = rms of axis 0 / 1, position / energy average = first
    moment of axis 0 / 1, population = measured charge, ...) *)
Definition expected_source (d : dset) : psrc :=
  match d with
  | DT | DPSAxis => SrcTime
  | DPSData => SrcData
  | DProfile => SrcProj 0
  | DEProfile => SrcProj 1
  | DLength => SrcRms 0
  | DESpread => SrcRms 1
  | DPosition => SrcMoment 0 0
  | DEAverage => SrcMoment 1 0
  | DPopulation => SrcFilling
  | DCsrSpectrum => SrcCsrRows
  | DCsrIntensity => SrcCsrPower
  | DWake => SrcForce
  | DParticles => SrcParticles
  | DPadProfile => SrcPadProfile
  | DPadPotential => SrcPadPotential
  end.

(** shape of the buffer a source hands to [_appendData], from the extents of the PhaseSpace members
    (a sub-array [A[i]] of a row-major array has the remaining extents) *)
Definition src_extents (s : psrc) (e_data e_proj e_mom e_rms e_fill : list Z) : option (list Z) :=
  match s with
  | SrcTime => Some []
  | SrcData => Some e_data
  | SrcProj _ => Some (tl e_proj)
  | SrcRms _ => Some (tl e_rms)
  | SrcMoment _ _ => Some (tl (tl e_mom))
  | SrcFilling => Some e_fill
  | _ => None                    (* not a PhaseSpace member *)
  end.

Definition psrc_eqb (a b : psrc) : bool :=
  match a, b with
  | SrcTime, SrcTime | SrcData, SrcData | SrcFilling, SrcFilling | SrcCsrRows, SrcCsrRows
  | SrcCsrPower, SrcCsrPower | SrcForce, SrcForce | SrcPadProfile, SrcPadProfile
  | SrcPadPotential, SrcPadPotential | SrcParticles, SrcParticles | SrcOther, SrcOther => true
  | SrcProj x, SrcProj y | SrcRms x, SrcRms y => x =? y
  | SrcMoment x o, SrcMoment y p => (x =? y) && (o =? p)
  | _, _ => false
  end.

(** the start distribution as main() accepts it: the reader's result, refused when its grid size is not
    the configured one (main.cpp, fix 71d4ab2) *)
Definition start_from_h5 {A : Type} (refuse : Z -> Z -> bool) (gridsize : Z) (r : option (Z * list A)) : option (list A) :=
  match r with
  | Some (n, g) => if refuse n gridsize then None else Some g
  | None => None
  end.
