(** * Model of particle tracking: SourceMap::applyTo / applyToAll of every map of the main loop
    and the array lookup of HDF5File::appendTracks.

    Mirrors, as they are,
    - KickMap::applyTo (src/SM/KickMap.cpp): forward mapping with the inverted, linearly
      interpolated displacement of the two neighbouring rows and the clamp to [1, n-1];
    - Identity::applyTo (nothing);
    - FokkerPlanckMap::applyTo (src/SM/FokkerPlanckMap.cpp): none / approximation1 /
      approximation2 / stochastic.  The random number of the stochastic model is an input.
    - the FokkerPlanckMap constructor's stencil table (what approximation 1 and 2 read);
    - HDF5File::appendTracks: [_ps->q(pos.x)], [_ps->p(pos.y)] convert the float coordinate to
      [meshindex_t] and index the axis array.

    Coordinates are exact rationals (every float is one).  [std::min]/[std::max] are written
    with the comparison the standard prescribes ([min a b = b < a ? b : a],
    [max a b = a < b ? b : a]), float -> unsigned conversions with [wrap32]. *)
From Coq Require Import List ZArith QArith Qcanon Lia Bool.
From Inovesa Require Import Base.FieldKit Base.Float32 Model.Kick.
Import ListNotations.
Local Open Scope Z_scope.

Definition Qcltb (a b : Qc) : bool := match (a ?= b)%Qc with Lt => true | _ => false end.
Definition std_min (a b : Qc) : Qc := if Qcltb b a then b else a.
Definition std_max (a b : Qc) : Qc := if Qcltb a b then b else a.

(** [std::max(1, std::min(v, n-1))] *)
Definition clamp_grid (n : Z) (v : Qc) : Qc := std_max 1%Qc (std_min v (Qcz (n - 1))).

Record pos := mkpos { px : Qc; py : Qc }.

(** ** KickMap::applyTo *)

(** the displacement a particle sees: rows [i] and [i+1] of the offset vector, linearly
    interpolated in the coordinate perpendicular to the kick ([c] is that coordinate) *)
Definition kick_displacement (offs : Z -> Qc) (c : Qc) : Qc :=
  let i := wrap32 (Qctrunc c) in
  let f := Qcfrac c in
  ((1 - f) * offs i + f * offs (i + 1)%Z)%Qc.

(** [kd]: coordinate along the kick, [pd]: the other one; returns the new [kd] coordinate *)
Definition kick_coord (n : Z) (offs : Z -> Qc) (kd pd : Qc) : Qc :=
  let i := wrap32 (Qctrunc pd) in
  let moved := if wrap32 (i + 1) <? n then (kd - kick_displacement offs pd)%Qc else kd in
  clamp_grid n moved.

Definition kick_applyTo (dirx : bool) (n : Z) (offs : Z -> Qc) (p : pos) : pos :=
  if dirx then mkpos (kick_coord n offs (px p) (py p)) (py p)
  else mkpos (px p) (kick_coord n offs (py p) (px p)).

(** ** the Fokker-Planck stencil table written by the constructor

    [fptype]: 0 none, 1 damping only, 2 diffusion only, 3 full.  [dt]: 3 (two-sided) or 4 (cubic).
    [pj j] is the energy of row [j] ([in->p(j)]), [yc] the zero-energy bin ([zerobin()]),
    [e1] the damping decrement, [d] the cell size [getDelta(1)].  Entry [k] of row [j]. *)
Definition has_damp (fptype : Z) : bool := negb (fptype =? 0) && negb (fptype =? 2).
Definition has_diff (fptype : Z) : bool := negb (fptype =? 0) && negb (fptype =? 1).

Definition Qc2 : Qc := Qcz 2.
Definition Qc6 : Qc := Qcz 6.

Definition fp3_entry (fptype : Z) (e1 d : Qc) (pj : Z -> Qc) (j k : Z) : Z * Qc :=
  let e1_2d := (e1 / (Qc2 * d))%Qc in
  let e1_d2 := (e1 / (d * d))%Qc in
  let p := pj j in
  let dmp := if has_damp fptype then nth (Z.to_nat k) [(- e1_2d * p)%Qc; e1; (e1_2d * p)%Qc] 0%Qc else 0%Qc in
  let dif := if has_diff fptype then nth (Z.to_nat k) [e1_d2; (- Qc2 * e1_d2)%Qc; e1_d2] 0%Qc else 0%Qc in
  (j - 1 + k, ((if k =? 1 then 1 else 0) + dmp + dif)%Qc).

(** cubic stencil, rows below the zero-energy bin (points j-2 .. j+1) *)
Definition fp4_lo_entry (fptype : Z) (e1 d : Qc) (pj : Z -> Qc) (j k : Z) : Z * Qc :=
  let e1_6d := (e1 / (Qc6 * d))%Qc in
  let e1_d2 := (e1 / (d * d))%Qc in
  let p := pj j in
  let dmp := if has_damp fptype
             then nth (Z.to_nat k) [(e1_6d * 1 * p)%Qc; (e1_6d * Qcz (-6) * p)%Qc;
                                    (e1 + e1_6d * Qcz 3 * p)%Qc; (e1_6d * Qcz 2 * p)%Qc] 0%Qc else 0%Qc in
  let dif := if has_diff fptype then nth (Z.to_nat k) [0%Qc; e1_d2; (- Qc2 * e1_d2)%Qc; e1_d2] 0%Qc else 0%Qc in
  (j - 2 + k, ((if k =? 2 then 1 else 0) + dmp + dif)%Qc).

(** cubic stencil, rows from the zero-energy bin upwards (points j-1 .. j+2) *)
Definition fp4_hi_entry (fptype : Z) (e1 d : Qc) (pj : Z -> Qc) (j k : Z) : Z * Qc :=
  let e1_6d := (e1 / (Qc6 * d))%Qc in
  let e1_d2 := (e1 / (d * d))%Qc in
  let p := pj j in
  let dmp := if has_damp fptype
             then nth (Z.to_nat k) [(e1_6d * Qcz (-2) * p)%Qc; (e1 + e1_6d * Qcz (-3) * p)%Qc;
                                    (e1_6d * Qcz 6 * p)%Qc; (e1_6d * Qcz (-1) * p)%Qc] 0%Qc else 0%Qc in
  let dif := if has_diff fptype then nth (Z.to_nat k) [e1_d2; (- Qc2 * e1_d2)%Qc; e1_d2; 0%Qc] 0%Qc else 0%Qc in
  (j - 1 + k, ((if k =? 1 then 1 else 0) + dmp + dif)%Qc).

(** the loops of the constructor.  Two-sided: rows 1 .. n-2, rows 0 and n-1 zeroed.  Cubic:
    rows 0, 1 zeroed; [for j=2; j<ycenter] writes the lower stencil; the second loop starts at
    [meshindex_t j = ycenter] (truncation) and overwrites with the upper stencil up to row n-3;
    rows n-2, n-1 are zeroed last.  Indices are [meshindex_t] (wrap-around written out). *)
Definition wrap_idx (h : Z * Qc) : Z * Qc := (wrap32 (fst h), snd h).

Definition fp_table (n dt fptype : Z) (e1 d yc : Qc) (pj : Z -> Qc) (i : Z) : Z * Qc :=
  let j := i / dt in
  let k := i mod dt in
  if dt =? 3 then
    if (1 <=? j) && (j <? n - 1) then wrap_idx (fp3_entry fptype e1 d pj j k) else (0, 0%Qc)
  else
    if n - 2 <=? j then (0, 0%Qc)
    else if Qctrunc yc <=? j then wrap_idx (fp4_hi_entry fptype e1 d pj j k)
    else if 2 <=? j then wrap_idx (fp4_lo_entry fptype e1 d pj j k)
    else (0, 0%Qc).

(** ** FokkerPlanckMap::applyTo *)

(** approximation1: [yi = min(floor(y), _ysize)]; offset = sum_j (yi - index_j) * weight_j *)
Definition fp_offset1 (n ip : Z) (H : Z -> Z * Qc) (y : Qc) : Qc :=
  let yi := Z.min (wrap32 (Qcfloor y)) n in
  qsum (map (fun j => let h := H (yi * ip + j) in ((Qcz yi - Qcz (fst h)) * snd h)%Qc) (zrange ip)).

Definition fp_approx1 (n ip : Z) (H : Z -> Z * Qc) (p : pos) : pos :=
  mkpos (px p) (clamp_grid n (py p + fp_offset1 n ip H (py p))%Qc).

(** approximation2: charge-weighted first moment of the stencil row, read from the grid [D]
    (bunch 0) at column [xi = min(floor(x), n-1)] *)
Definition fp_cell2 (n : Z) (p : pos) : Z * Z :=
  (Z.min (wrap32 (Qcfloor (px p))) (n - 1), Z.min (Qcfloor (py p)) (n - 1)).

Definition fp_charge2 (n ip : Z) (H : Z -> Z * Qc) (D : Z -> Qc) (p : pos) : Qc :=
  let '(xi, yi) := fp_cell2 n p in
  qsum (map (fun j => let h := H (yi * ip + j) in (D (xi * n + fst h)%Z * snd h)%Qc) (zrange ip)).

Definition fp_moment2 (n ip : Z) (H : Z -> Z * Qc) (D : Z -> Qc) (p : pos) : Qc :=
  let '(xi, yi) := fp_cell2 n p in
  qsum (map (fun j => let h := H (yi * ip + j) in
                      (D (xi * n + fst h)%Z * snd h * Qcz (fst h - yi)%Z)%Qc) (zrange ip)).

(** [offset /= charge] is a float division: 0/0 is NaN, which [std::min] passes on and
    [std::max(1, NaN)] turns into 1; x/0 is an infinity of the sign of x, which the clamp cuts *)
Definition fp_approx2 (n ip : Z) (H : Z -> Z * Qc) (D : Z -> Qc) (p : pos) : pos :=
  let c := fp_charge2 n ip H D p in
  let m := fp_moment2 n ip H D p in
  let y' := if Qc_eq_dec c 0 then (if Qcltb 0 m then Qcz (n - 1) else 1%Qc)
            else clamp_grid n (py p + m / c)%Qc in
  mkpos (px p) y'.

(** stochastic: damping of the distance to the zero-energy bin plus the drawn number, clamped
    (the tree after the C15 fix) *)
Definition fp_stoch_raw (e1 yc noise y : Qc) : Qc := (y - ((y - yc) * e1 + noise))%Qc.
Definition fp_stoch (n : Z) (e1 yc noise : Qc) (p : pos) : pos :=
  mkpos (px p) (clamp_grid n (fp_stoch_raw e1 yc noise (py p))).

(** the pinned tree's statement [pos.y -= pos.y*_dampdecr+_normdist(_prng)] (no zero bin, no
    clamp), kept for the record of the finding *)
Definition fp_stoch_pinned (e1 noise : Qc) (p : pos) : pos :=
  mkpos (px p) (py p - (py p * e1 + noise))%Qc.

(** ** operations of one time step, as SourceMap::applyToAll sees them *)
Inductive op :=
| OpKick (dirx : bool) (offs : Z -> Qc)          (* DriftMap (x); RFKickMap, WakeKickMap (y) *)
| OpIdent
| OpFPNone
| OpFP1 (ip : Z) (H : Z -> Z * Qc)
| OpFP2 (ip : Z) (H : Z -> Z * Qc) (D : Z -> Qc)
| OpFPStoch (e1 yc : Qc) (noise : nat -> Qc).     (* noise k: the number drawn for particle k *)

(** SourceMap::applyTo for particle number [k] *)
Definition applyTo (n : Z) (o : op) (k : nat) (p : pos) : pos :=
  match o with
  | OpKick dirx offs => kick_applyTo dirx n offs p
  | OpIdent => p
  | OpFPNone => p
  | OpFP1 ip H => fp_approx1 n ip H p
  | OpFP2 ip H D => fp_approx2 n ip H D p
  | OpFPStoch e1 yc noise => fp_stoch n e1 yc (noise k) p
  end.

Fixpoint mapi_from {A B} (f : nat -> A -> B) (k : nat) (l : list A) : list B :=
  match l with [] => [] | a :: r => f k a :: mapi_from f (S k) r end.

(** SourceMap::applyToAll *)
Definition applyToAll (n : Z) (o : op) (ps : list pos) : list pos := mapi_from (applyTo n o) 0 ps.

(** the particle's history under a sequence of maps: position after every map *)
Fixpoint trajectory (n : Z) (ops : list op) (k : nat) (p : pos) : list pos :=
  match ops with
  | [] => []
  | o :: r => let p' := applyTo n o k p in p' :: trajectory n r k p'
  end.

Fixpoint run_all (n : Z) (ops : list op) (ps : list pos) : list (list pos) :=
  match ops with
  | [] => []
  | o :: r => let ps' := applyToAll n o ps in ps' :: run_all n r ps'
  end.

(** ** HDF5File::appendTracks: [q(pos.x)] converts to [meshindex_t] (truncation) and reads
    [_axis[0]->at(i)]; defined iff the truncated coordinate is an index of the axis array *)
Definition track_index (c : Qc) : Z := Qctrunc c.
Definition lookup_defined (n : Z) (p : pos) : bool :=
  (0 <=? track_index (px p)) && (track_index (px p) <? n) &&
  (0 <=? track_index (py p)) && (track_index (py p) <? n) &&
  Qcltb (Qcz (-1)) (px p) && Qcltb (Qcz (-1)) (py p).
Definition appendTracks (axq axp : Z -> Qc) (ps : list pos) : list (Qc * Qc) :=
  map (fun p => (axq (track_index (px p)), axp (track_index (py p)))) ps.

Definition inside (n : Z) (p : pos) : Prop :=
  (0 <= px p)%Qc /\ (px p <= Qcz (n - 1))%Qc /\ (0 <= py p)%Qc /\ (py p <= Qcz (n - 1))%Qc.

(** ** list front-end used by the extracted driver *)
Inductive lop :=
| LKick (dirx : bool) (offs : list Qc)
| LIdent
| LFPNone
| LFP1 (ip : Z) (H : list (Z * Qc))
| LFP2 (ip : Z) (H : list (Z * Qc)) (D : list Qc)
| LFPStoch (e1 yc : Qc) (noise : list Qc).

Definition op_of_lop (l : lop) : op :=
  match l with
  | LKick d offs => OpKick d (getQ offs)
  | LIdent => OpIdent
  | LFPNone => OpFPNone
  | LFP1 ip H => OpFP1 ip (getH H)
  | LFP2 ip H D => OpFP2 ip (getH H) (getQ D)
  | LFPStoch e1 yc noise => OpFPStoch e1 yc (fun k => nth k noise 0%Qc)
  end.

Definition run_list (n : Z) (ops : list lop) (ps : list pos) : list (list pos) :=
  run_all n (map op_of_lop ops) ps.

Definition fp_table_list (n dt fptype : Z) (e1 d yc pmin : Qc) : list (Z * Qc) :=
  map (fp_table n dt fptype e1 d yc (fun j => (pmin + Qcz j * d)%Qc)) (zrange (n * dt)).

Definition lookup_list (n : Z) (ps : list pos) : list (bool * (Z * Z)) :=
  map (fun p => (lookup_defined n p, (track_index (px p), track_index (py p)))) ps.

(** the unit hat-blob centred on a particle: (1-xf)(1-yf) on cell (xi,yi), ... *)
Definition hat (c : Qc) (i : Z) : Qc :=
  let ci := Qctrunc c in let cf := Qcfrac c in
  if i =? ci then (1 - cf)%Qc else if i =? ci + 1 then cf else 0%Qc.
Definition blob (n : Z) (p : pos) (i : Z) : Qc :=
  if (0 <=? i) && (i <? n * n) then (hat (px p) (cell_x n i) * hat (py p) (cell_y n i))%Qc else 0%Qc.
Definition blob_list (n : Z) (p : pos) : list Qc := map (blob n p) (zrange (n * n)).
