(** The executable instance of the driver model used by the correspondence: all carriers are
    [unit] (the schedule, the label trace, the record list and the interrupt behaviour do not
    depend on what the kernels compute - that is what the theorems say), except the RF modulation
    records, which are numbered ([tMd = Z]: record j is the one precomputed for step j) so that the
    model says which record lands in which flushed chunk. *)
From Coq Require Import List ZArith Bool.
From Inovesa Require Import Model.Driver Model.Setup Gen.Gen_MainLoop.
Import ListNotations.
Local Open Scope Z_scope.

Definition unitK : kern :=
  mkkern unit unit unit unit unit unit unit unit unit Z unit unit
    (fun _ => tt) (fun _ => tt) (fun _ => tt) (fun _ _ => tt) (fun _ _ => tt) (fun _ _ => tt)
    (fun _ _ => tt) (fun _ _ => tt) (fun _ _ => tt) (fun _ _ => tt) (fun _ => tt)
    (fun _ _ => tt) (fun _ _ => tt) (fun _ => tt) (fun _ => tt) (fun _ _ _ _ _ _ => (tt, tt)) (-1).

(** state at "Starting the simulation.": [pc0] hook points were passed during set-up, the flag is
    set iff one of them was signalled; the modulation queue holds the [laststep] records 0, 1, ... *)
Definition st0 (c : cfg) (at_ : Z) (pc0 : Z) : st unitK :=
  mkst (K:=unitK) 0 0 tt tt tt tt tt tt tt tt tt tt tt tt (List.map Z.of_nat (seq 0 (Z.to_nat (laststep c)))) [] tt tt
       ((0 <=? at_) && (at_ <? pc0)) pc0 [] [] None [] [] false.

Inductive rkind := KPS | KDef | KCsr | KWake | KTracks | KRF | KPadded.
Definition summary (r : rec unitK) : rkind * Z * Z :=
  match rdata r with
  | RPS _ => (KPS, rstep r, 1)
  | RDef _ _ _ _ _ => (KDef, rstep r, 1)
  | RCsr _ => (KCsr, rstep r, 1)
  | RWake _ => (KWake, rstep r, 1)
  | RTracks _ => (KTracks, rstep r, 1)
  | RRF l => (KRF, rstep r, Z.of_nat (length l))
  | RPadded _ => (KPadded, rstep r, 1)
  end.

(** the flushed chunks of RF records: (step number of the flush, numbers of the records in it) *)
Fixpoint rf_chunks (l : list (rec unitK)) : list (Z * list Z) :=
  match l with
  | [] => []
  | r :: t => match rdata r with RRF x => (rstep r, x) :: rf_chunks t | _ => rf_chunks t end
  end.

Record outcome := mkout { o_trace : list (Z * Z); o_file : list (rkind * Z * Z); o_log : list msg;
                          o_status : option Z; o_k : Z; o_abort : bool; o_pc : Z;
                          o_rf : list (Z * list Z); o_pending : list Z }.

Definition model_run (c : cfg) (at_ : Z) (rep : bool) (pc0 : Z) : outcome :=
  let s := run (hooksig at_ rep) c main_prog (st0 c at_ pc0) in
  mkout (trace s) (List.map summary (file s)) (log s) (status s) (k s) (abort s) (pc s)
        (rf_chunks (file s)) (past s).

(** the whole program, set-up included (Model/Setup.v): the opaque statements do nothing and never
    in this instance; [tl] lists the opaque conditions that are true, [xl] the opaque statements /
    conditions that throw.  The point counter
    starts at 0 when the SIGINT handler is installed; the flag is clear. *)
Definition uenv (tl xl : list Z) : senv unitK :=
  mksenv (fun _ s => s) (fun n => existsb (Z.eqb n) xl) (fun n => existsb (Z.eqb n) tl).

Definition st_init (c : cfg) : st unitK :=
  mkst (K:=unitK) 0 0 tt tt tt tt tt tt tt tt tt tt tt tt (List.map Z.of_nat (seq 0 (Z.to_nat (laststep c)))) [] tt tt
       false 0 [] [] None [] [] false.

Definition out_of (s : st unitK) : outcome :=
  mkout (trace s) (List.map summary (file s)) (log s) (status s) (k s) (abort s) (pc s) (rf_chunks (file s)) (past s).

(** (how the program ended: 0 ran to the end of main, 1 returned from the set-up, 2 uncaught exception; outcome) *)
Definition model_run_full (c : cfg) (at_ : Z) (rep : bool) (tl xl : list Z) : Z * outcome :=
  match full_run (hooksig at_ rep) (uenv tl xl) c main_setup main_prog (st_init c) with
  | Finished s => (0, out_of s)
  | Early s => (1, out_of s)
  | Crashed s => (2, out_of s)
  end.
