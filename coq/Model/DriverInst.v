(** The executable instance of the driver model used by the correspondence: all carriers are
    [unit] (the schedule, the label trace, the record list and the interrupt behaviour do not
    depend on what the kernels compute - that is what the theorems say), except the RF modulation
    records, which are numbered ([tMd = Z]: record j is the one precomputed for step j) so that the
    model says which record lands in which flushed chunk. *)
From Coq Require Import List ZArith Bool.
From Inovesa Require Import Model.Driver Model.Setup Gen.Gen_MainLoop.
Import ListNotations.
Local Open Scope Z_scope.

Definition unitK : kern :=
  mkkern unit unit unit unit unit unit unit unit unit Z unit unit
    (fun _ => tt) (fun _ => tt) (fun _ => tt) (fun _ _ => tt) (fun _ _ => tt) (fun _ _ => tt)
    (fun _ _ => tt) (fun _ _ => tt) (fun _ _ => tt) (fun _ _ => tt) (fun _ => tt)
    (fun _ _ => tt) (fun _ _ => tt) (fun _ => tt) (fun _ => tt) (fun _ _ _ _ _ _ => (tt, tt)) (-1).

(** state at "Starting the simulation.": [pc0] hook points were passed during set-up, the flag is
    set iff one of them was signalled; the modulation queue holds the [laststep] records 0, 1, ... *)
Definition st0 (c : cfg) (at_ : Z) (pc0 : Z) : st unitK :=
  mkst (K:=unitK) 0 0 tt tt tt tt tt tt tt tt tt tt tt tt (List.map Z.of_nat (seq 0 (Z.to_nat (laststep c)))) [] tt tt
       ((0 <=? at_) && (at_ <? pc0)) pc0 [] [] None [] [] false.

Inductive rkind := KPS | KDef | KCsr | KWake | KTracks | KRF | KPadded.
Definition summary (r : rec unitK) : rkind * Z * Z :=
  match rdata r with
  | RPS _ => (KPS, rstep r, 1)
  | RDef _ _ _ _ _ => (KDef, rstep r, 1)
  | RCsr _ => (KCsr, rstep r, 1)
  | RWake _ => (KWake, rstep r, 1)
  | RTracks _ => (KTracks, rstep r, 1)
  | RRF l => (KRF, rstep r, Z.of_nat (length l))
  | RPadded _ => (KPadded, rstep r, 1)
  end.

(** the flushed chunks of RF records: (step number of the flush, numbers of the records in it) *)
Fixpoint rf_chunks (l : list (rec unitK)) : list (Z * list Z) :=
  match l with
  | [] => []
  | r :: t => match rdata r with RRF x => (rstep r, x) :: rf_chunks t | _ => rf_chunks t end
  end.

Record outcome := mkout { o_trace : list (Z * Z); o_file : list (rkind * Z * Z); o_log : list msg;
                          o_status : option Z; o_k : Z; o_abort : bool; o_pc : Z;
                          o_rf : list (Z * list Z); o_pending : list Z }.

Definition model_run (c : cfg) (at_ : Z) (rep : bool) (pc0 : Z) : outcome :=
  let s := run (hooksig at_ rep) c main_prog (st0 c at_ pc0) in
  mkout (trace s) (List.map summary (file s)) (log s) (status s) (k s) (abort s) (pc s)
        (rf_chunks (file s)) (past s).

(** the whole program, set-up included (Model/Setup.v): the opaque statements do nothing and never
    in this instance; [tl] lists the opaque conditions that are true, [xl] the opaque statements /
    conditions that throw.  The point counter
    starts at 0 when the SIGINT handler is installed; the flag is clear. *)
Definition uenv (tl xl : list Z) : senv unitK :=
  mksenv (fun _ s => s) (fun n => existsb (Z.eqb n) xl) (fun n => existsb (Z.eqb n) tl).

Definition st_init (c : cfg) : st unitK :=
  mkst (K:=unitK) 0 0 tt tt tt tt tt tt tt tt tt tt tt tt (List.map Z.of_nat (seq 0 (Z.to_nat (laststep c)))) [] tt tt
       false 0 [] [] None [] [] false.

Definition out_of (s : st unitK) : outcome :=
  mkout (trace s) (List.map summary (file s)) (log s) (status s) (k s) (abort s) (pc s) (rf_chunks (file s)) (past s).

(** (how the program ended: 0 ran to the end of main, 1 returned from the set-up, 2 uncaught exception; outcome) *)
Definition model_run_full (c : cfg) (at_ : Z) (rep : bool) (tl xl : list Z) : Z * outcome :=
  match full_run (hooksig at_ rep) (uenv tl xl) c main_setup main_prog (st_init c) with
  | Finished s => (0, out_of s)
  | Early s => (1, out_of s)
  | Crashed s => (2, out_of s)
  end.

(** environments for the examples, computed from the skeleton (so that they do not depend on how
    the translator numbers the opaque statements): the opaque conditions that hold on the first
    path (depth first, `true` tried first, no exception) on which the set-up is left normally ... *)
Fixpoint norm_paths (b : sblk) (acc : list Z) : list (list Z) :=
  match b with
  | SDone => [acc]
  | SCall _ r | SSetAbort r | SOpq _ r => norm_paths r acc
  | SReturn _ => []
  | SIf (CGuard _) t e r => flat_map (norm_paths r) (norm_paths t acc ++ norm_paths e acc)
  | SIf (COpq n) t e r => flat_map (norm_paths r) (norm_paths t (n :: acc) ++ norm_paths e acc)
  | STry t h r => flat_map (norm_paths r) (norm_paths t acc)
  end.
Definition norm_env (b : sblk) : list Z := match norm_paths b [] with p :: _ => p | [] => [] end.

(** ... and the first opaque statement inside a `try` whose handler sets the flag *)
Fixpoint has_setabort (b : sblk) : bool :=
  match b with
  | SDone | SReturn _ => false
  | SSetAbort _ => true
  | SCall _ r | SOpq _ r => has_setabort r
  | SIf _ t e r => has_setabort t || has_setabort e || has_setabort r
  | STry t h r => has_setabort t || has_setabort h || has_setabort r
  end.
Fixpoint first_opq (b : sblk) : option Z :=
  match b with
  | SOpq n _ => Some n
  | SCall _ r | SSetAbort r => first_opq r
  | _ => None
  end.
Fixpoint abort_try_opq (b : sblk) : option Z :=
  match b with
  | SDone | SReturn _ => None
  | SCall _ r | SSetAbort r | SOpq _ r => abort_try_opq r
  | SIf _ t e r => match abort_try_opq t with Some n => Some n | None =>
                   match abort_try_opq e with Some n => Some n | None => abort_try_opq r end end
  | STry t h r => if has_setabort h then first_opq t else
                  match abort_try_opq t with Some n => Some n | None => abort_try_opq r end
  end.
