(** * Model of src/Z: the sample vectors of the impedance classes, Impedance::operator+=
      and the factory vfps::makeImpedance (DESIGN 5/C16).

    The vectors mirror the [__calcImpedance] loops as they are:
      - FreeSpaceCSR / ResistiveWall: [for i<=n/2 push_back(f i); for n/2+1<=i<n push_back(0)]
      - ConstImpedance (and CollimatorImpedance through it): [resize(n/2,Z); resize(n,0)]
        - note the bound: samples at indices [< n/2] only
      - ParallelPlatesCSR: [rv(n,0); for 1<=i<=n/2: rv[i] = g i]
      - Impedance(nfreqs,fmax): [n] zeros
      - operator+=: element-wise over [min(lhs length, rhs length)], the rest of lhs unchanged
    The sample *values* are supplied by abstract functions: the shape and selection theorems
    hold whatever the analytic formulas are.  [C] is the sample type, [cadd] its addition
    (componentwise binary32 addition in the executable instance, real addition in the [R]
    instance).  No proofs in this file. *)
From Coq Require Import List ZArith QArith Qcanon Lia Bool.
From Inovesa Require Import Base.FieldKit Base.Float32.
Import ListNotations.
Local Open Scope Z_scope.

Section Shape.
  Variable C : Type.
  Variable c0 : C.
  Variable cadd : C -> C -> C.

  Definition nthz (l : list C) (i : Z) : C := nth (Z.to_nat i) l c0.
  Definition zlen (l : list C) : Z := Z.of_nat (length l).
  Definition fill (k : Z) (z : C) : list C := repeat z (Z.to_nat k).

  (** FreeSpaceCSR::__calcImpedance, ResistiveWall::__calcImpedance (size_t loops: the second
      loop does not run when [n/2+1 >= n]; for [n = 0] the first loop still pushes one sample) *)
  Definition push_loop (n : Z) (f : Z -> C) : list C :=
    map f (zrange (n / 2 + 1)) ++ fill (n - (n / 2 + 1)) c0.

  (** ConstImpedance::__calcImpedance *)
  Definition const_vec (n : Z) (z : C) : list C :=
    fill (n / 2) z ++ fill (n - n / 2) c0.

  (** ParallelPlatesCSR::__calcImpedance: assignment into a zero vector *)
  Fixpoint upd (l : list C) (k : nat) (v : C) : list C :=
    match l, k with
    | [], _ => []
    | _ :: r, O => v :: r
    | x :: r, S k' => x :: upd r k' v
    end.
  Definition pp_vec (n : Z) (g : Z -> C) : list C :=
    fold_left (fun rv i => upd rv (Z.to_nat i) (g i))
              (map (fun k => k + 1) (zrange (n / 2))) (fill n c0).

  (** Impedance(nfreqs, f_max) *)
  Definition zero_vec (n : Z) : list C := fill n c0.

  (** Impedance::operator+= : [for i < min(_nfreqs, rhs._nfreqs): _data[i] += rhs._data[i]] *)
  Definition add_into (l r : list C) : list C :=
    map (fun i => if i <? zlen r then cadd (nthz l i) (nthz r i) else nthz l i)
        (zrange (zlen l)).

  (** ** vfps::makeImpedance.
      [gap], [s], [xi], [rc] are the doubles of the call (exact rationals); [file] is [None]
      for the empty file name.  The contributions are the section variables below. *)
  Variable pp fs rw : Z -> C.     (* sample functions of the three analytic models *)
  Variable coll : C.              (* the collimator's constant *)

  Definition qabs (q : Qc) : Qc := if Qclt_le_dec q 0 then (- q)%Qc else q.
  Definition qlt (a b : Qc) : bool := if Qclt_le_dec a b then true else false.
  Definition qle (a b : Qc) : bool := if Qclt_le_dec b a then false else true.
  Definition qnz (a : Qc) : bool := if Qc_eq_dec a 0 then false else true.

  Definition sel_csr (gap : Qc) (use_csr : bool) : bool := qnz gap && use_csr.
  Definition sel_pp (gap : Qc) (use_csr : bool) : bool := sel_csr gap use_csr && qlt 0 gap.
  Definition sel_fs (gap : Qc) (use_csr : bool) : bool := sel_csr gap use_csr && negb (qlt 0 gap).
  Definition sel_rw (gap s xi : Qc) : bool := qnz gap && (qlt 0 s && qle (-(1)) xi)%Qc.
  Definition sel_coll (gap rc : Qc) : bool :=
    qnz gap && (qlt 0 rc && qlt rc (qabs (gap / (1 + 1))))%Qc.

  Definition make_impedance (n : Z) (gap : Qc) (use_csr : bool) (s xi rc : Qc)
             (file : option (list C)) : option (list C) :=
    let rv := zero_vec n in
    let changed := false in
    let '(rv, changed) :=
      if qnz gap then
        let '(rv, changed) :=
          if use_csr then
            (if qlt 0 gap then add_into rv (pp_vec n pp) else add_into rv (push_loop n fs), true)
          else (rv, changed) in
        let radius := qabs (gap / (1 + 1))%Qc in
        let '(rv, changed) :=
          if (qlt 0 s && qle (-(1)) xi)%Qc then (add_into rv (push_loop n rw), true)
          else (rv, changed) in
        let '(rv, changed) :=
          if qlt 0 rc && qlt rc radius then (add_into rv (const_vec n coll), true)
          else (rv, changed) in
        (rv, changed)
      else (rv, changed) in
    let '(rv, changed) :=
      match file with
      | Some d => (add_into rv d, true)
      | None => (rv, changed)
      end in
    if changed then Some rv else None.

  (** ** Specification side (kept apart from the model): the contributions that are switched
      on, in the order the factory adds them, and their pointwise sum starting from zero. *)
  Definition parts (n : Z) (gap : Qc) (use_csr : bool) (s xi rc : Qc)
             (file : option (list C)) : list (list C) :=
    (if sel_pp gap use_csr then [pp_vec n pp] else []) ++
    (if sel_fs gap use_csr then [push_loop n fs] else []) ++
    (if sel_rw gap s xi then [push_loop n rw] else []) ++
    (if sel_coll gap rc then [const_vec n coll] else []) ++
    (match file with Some d => [d] | None => [] end).

  Definition any_selected (gap : Qc) (use_csr : bool) (s xi rc : Qc) (file : option (list C)) : bool :=
    sel_csr gap use_csr || sel_rw gap s xi || sel_coll gap rc ||
    match file with Some _ => true | None => false end.

  (** sample [i] of a contribution; a contribution shorter than [n] contributes nothing
      beyond its end *)
  Definition term (p : list C) (i : Z) (acc : C) : C :=
    if i <? zlen p then cadd acc (nthz p i) else acc.
  Definition pointwise_sum (n : Z) (ps : list (list C)) : list C :=
    map (fun i => fold_left (fun acc p => term p i acc) ps c0) (zrange n).
End Shape.

Arguments nthz {C}. Arguments zlen {C}. Arguments fill {C}. Arguments push_loop {C}.
Arguments const_vec {C}. Arguments pp_vec {C}. Arguments zero_vec {C}. Arguments add_into {C}.
Arguments make_impedance {C}. Arguments parts {C}. Arguments pointwise_sum {C}. Arguments upd {C}.
Arguments term {C}. Arguments any_selected {C}.

(** ** Executable instance: samples are pairs of binary32 values (exact rationals), addition is
    std::complex<float>::operator+= (componentwise, rounded to nearest even). *)
Definition cq : Type := (Qc * Qc)%type.
Definition cq0 : cq := (0%Qc, 0%Qc).
Definition cq_add (a b : cq) : cq := (rnd32 (fst a + fst b)%Qc, rnd32 (snd a + snd b)%Qc).

Definition fn_of (l : list cq) : Z -> cq := fun i => nthz cq0 l i.

(** shape of each model given the implementation's own samples as the value function: the
    correspondence compares this vector with the implementation's vector, bit for bit *)
Definition shape_push (n : Z) (v : list cq) : list cq := push_loop cq0 n (fn_of v).
Definition shape_const (n : Z) (z : cq) : list cq := const_vec cq0 n z.
Definition shape_pp (n : Z) (v : list cq) : list cq := pp_vec cq0 n (fn_of v).
Definition sum_q (l r : list cq) : list cq := add_into cq0 cq_add l r.

Definition factory_q (n : Z) (gap : Qc) (use_csr : bool) (s xi rc : Qc)
           (ppv fsv rwv : list cq) (collz : cq) (file : option (list cq)) : option (list cq) :=
  make_impedance cq0 cq_add (fn_of ppv) (fn_of fsv) (fn_of rwv) collz n gap use_csr s xi rc file.

(** ** Relational validators (DESIGN 3 "Transcendentals"): exact rational acceptance tests of
    implementation samples.  [x] is the exact argument, [c] the exact prefactor, [tol] the
    stated tolerance.  A cube-root sample [v ~ c * x^(1/3)] is accepted iff
    [|v^3 - c^3 x| <= tol * c^3 x] (and [v] has the sign of [c]); a square-root sample
    [v ~ sqrt(k x)] iff [|v^2 - k x| <= tol * k x] and [0 <= v]. *)
Definition qcabs (q : Qc) : Qc := if Qclt_le_dec q 0 then (- q)%Qc else q.

Definition cube_ok (tol c x v : Qc) : bool :=
  (if Qclt_le_dec (tol * qcabs (c * c * c * x)) (qcabs (v * v * v - c * c * c * x)) then false else true)
  && (if Qclt_le_dec (v * c) 0 then (if Qc_eq_dec v 0 then true else false) else true).

Definition sqrt_ok (tol k x v : Qc) : bool :=
  (if Qclt_le_dec (tol * qcabs (k * x)) (qcabs (v * v - k * x)) then false else true)
  && (if Qclt_le_dec v 0 then false else true).

(** free space: sample i is (cre, cim) * x_i^(1/3), x_i = i * delta *)
Definition accept_fs (tol cre cim delta : Qc) (n : Z) (v : list cq) : bool :=
  (zlen v =? n) &&
  forallb (fun i =>
     let s := nthz cq0 v i in
     if i <=? n / 2
     then cube_ok tol cre (Qcz i * delta) (fst s) && cube_ok tol cim (Qcz i * delta) (snd s)
     else (if Qc_eq_dec (fst s) 0 then true else false) && (if Qc_eq_dec (snd s) 0 then true else false))
   (zrange n).

(** resistive wall: sample i is (a, -a), a = sqrt(k * x_i) *)
Definition accept_rw (tol k delta : Qc) (n : Z) (v : list cq) : bool :=
  (zlen v =? n) &&
  forallb (fun i =>
     let s := nthz cq0 v i in
     if i <=? n / 2
     then sqrt_ok tol k (Qcz i * delta) (fst s) && (if Qc_eq_dec (snd s) (- fst s) then true else false)
     else (if Qc_eq_dec (fst s) 0 then true else false) && (if Qc_eq_dec (snd s) 0 then true else false))
   (zrange n).

(** constant / collimator: [lo <= re <= hi], im = 0 for i < n/2; zero from n/2 on *)
Definition accept_const (lo hi : Qc) (n : Z) (v : list cq) : bool :=
  (zlen v =? n) &&
  forallb (fun i =>
     let s := nthz cq0 v i in
     if i <? n / 2
     then (if Qclt_le_dec (fst s) lo then false else true) && (if Qclt_le_dec hi (fst s) then false else true)
          && (if Qc_eq_dec (snd s) 0 then true else false)
     else (if Qc_eq_dec (fst s) 0 then true else false) && (if Qc_eq_dec (snd s) 0 then true else false))
   (zrange n).
