(** * Model of KickMap: updateSM (offset -> interpolation table) and apply (both directions).

    Mirrors src/SM/KickMap.cpp as it is: unsigned wrap-around range tests, the
    "index n/2, weight 0" fallback, the float rounding of [n/2 + offset] before the
    integer/fraction split, and the flat bunch-major index arithmetic.  Cells and table
    entries are total functions of integer indices; lists appear only in the drivers. *)
From Coq Require Import List ZArith QArith Qcanon Lia Bool.
From Inovesa Require Import Base.FieldKit Base.Float32 Gen.Gen_Coeffs.
Import ListNotations.
Local Open Scope Z_scope.

Definition wrap32 (z : Z) : Z := z mod 2 ^ 32.

(** [ys < n] on [uint32] after the casts of KickMap::apply *)
Definition in_grid (n z : Z) : bool := wrap32 z <? n.

Definition nthQ (l : list Qc) (j : Z) : Qc := nth (Z.to_nat j) l 0%Qc.

(** ** updateSM for one offset *)

Record split := { sp_int : Z; sp_frac : Qc }.

(** [poffs = _meshsize_kd/2 + _offset[i]] is a float sum; then [modf] *)
Definition poffs_split (n : Z) (o : Qc) : split :=
  let p := rnd32 (Qcz (n / 2) + o)%Qc in
  {| sp_int := Qctrunc p; sp_frac := Qcfrac p |}.

(** the float -> uint32 conversion [jd = qp_int] is defined for -1 < value < 2^32 only; since the
    repo's fix fbbfcf6 the code converts only after the range test on the float, so the table is
    defined for every offset (the predicate is kept for the drivers and always holds) *)
Definition sm_defined (n : Z) (o : Qc) : bool := true.
(** the domain on which the *pinned* code's unguarded conversion was defined (C17 keeps the
    refutation of the pinned statement) *)
Definition sm_defined_pinned (n : Z) (o : Qc) : bool :=
  let s := poffs_split n o in (0 <=? sp_int s) && (sp_int s <? 2 ^ 32).

(** entry [j1] of the table row written for offset [o] (weights from the generated
    coefficients; stencil points whose index leaves the grid fall back to (n/2, 0)) *)
Definition sm_entry (n it : Z) (o : Qc) (j1 : Z) : Z * Qc :=
  let s := poffs_split n o in
  let jd := sp_int s in
  if (0 <=? jd) && (jd <? n) then
    let j0 := wrap32 (jd + j1 - centre it) in
    if j0 <? n then (j0, nthQ (coeffs (K:=QcF) it (sp_frac s)) j1) else (n / 2, 0%Qc)
  else (n / 2, 0%Qc).

(** the flat table [_hinfo] after [updateSM] on an offset vector *)
Definition updateSM (n it : Z) (offs : Z -> Qc) (k : Z) : Z * Qc :=
  sm_entry n it (offs (k / it)) (k mod it).

(** ** apply, kick along y (RF kick, wake kick): rows are x, the stencil runs along y.
    [hidx] is the flat table index the code uses for (bunch, row, stencil point). *)

Definition hidx_y (n nb it b x j : Z) : Z := (Z.min b (nb - 1) * n + x) * it + j.
Definition hidx_x (n nb it b y j : Z) : Z := y * it + j.

Definition didx (n b x y : Z) : Z := b * n * n + x * n + y.

Definition qsum (l : list Qc) : Qc := fsum (K:=QcF) l.

(** one output cell of one row: [E] is the row's table, [r] the row's data along the kick *)
Definition row_out (n it : Z) (E : Z -> Z * Qc) (r : Z -> Qc) (y : Z) : Qc :=
  qsum (map (fun j =>
              let h := E j in
              let ys := wrap32 (y + fst h - n / 2) in
              if ys <? n then (r ys * snd h)%Qc else 0%Qc) (zrange it)).

Definition apply_y_cell (n nb it : Z) (H : Z -> Z * Qc) (D : Z -> Qc) (b x y : Z) : Qc :=
  row_out n it (fun j => H (hidx_y n nb it b x j)) (fun ys => D (didx n b x ys)) y.

Definition apply_x_cell (n nb it : Z) (H : Z -> Z * Qc) (D : Z -> Qc) (b x y : Z) : Qc :=
  row_out n it (fun j => H (hidx_x n nb it b y j)) (fun xs => D (didx n b xs y)) x.

(** flat index -> (b, x, y) *)
Definition cell_b (n i : Z) := i / (n * n).
Definition cell_x (n i : Z) := (i / n) mod n.
Definition cell_y (n i : Z) := i mod n.

Definition apply_y (n nb it : Z) (H : Z -> Z * Qc) (D : Z -> Qc) (i : Z) : Qc :=
  apply_y_cell n nb it H D (cell_b n i) (cell_x n i) (cell_y n i).
Definition apply_x (n nb it : Z) (H : Z -> Z * Qc) (D : Z -> Qc) (i : Z) : Qc :=
  apply_x_cell n nb it H D (cell_b n i) (cell_x n i) (cell_y n i).

(** ** list front-end used by the extracted driver *)
Definition getQ (l : list Qc) (i : Z) : Qc :=
  if (0 <=? i) then nth (Z.to_nat i) l 0%Qc else 0%Qc.
Definition getH (l : list (Z * Qc)) (i : Z) : Z * Qc :=
  if (0 <=? i) then nth (Z.to_nat i) l (0, 0%Qc) else (0, 0%Qc).

(** offsets per (bunch,row) -> table -> output grid, kick along y *)
Definition kick_y_list (n nb it : Z) (offs : list Qc) (data : list Qc) : list Qc :=
  let H := updateSM n it (getQ offs) in
  map (apply_y n nb it H (getQ data)) (zrange (nb * n * n)).
Definition kick_x_list (n nb it : Z) (offs : list Qc) (data : list Qc) : list Qc :=
  let H := updateSM n it (getQ offs) in
  map (apply_x n nb it H (getQ data)) (zrange (nb * n * n)).
Definition table_list (n it : Z) (offs : list Qc) : list (Z * Qc) :=
  map (updateSM n it (getQ offs)) (zrange (Z.of_nat (length offs) * it)).
Definition defined_list (n : Z) (offs : list Qc) : list bool := map (sm_defined n) offs.
