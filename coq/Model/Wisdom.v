(** Wisdom.v - the FFT-wisdom logic of fft::prepareFFT (src/FFTWWrapper.cpp) as a small state machine
    `run : directory state -> directory state` (C12: "two runs with identical parameters and the same FFT
    wisdom produce bit-identical physics datasets"; anchored mechanism "FFT plans taken from stored wisdom";
    strengthening driven by seed F1-I).

    translate/wisdom2coq.py reads every definition of prepareFFT into a [prep]: the kinds of wisdom file it
    names (`wisdom_<kind>_<n>.fftw`), how the path is built, and its statements in source order:

      WImportThen b    if (fftw_import_wisdom_from_filename(path) != 0) b
      WIfNoPlan b      if (plan == nullptr) b
      WDo s            a statement at top level
      WPlan true       plan = fftw_plan_..(.., FFTW_WISDOM_ONLY | ..)   succeeds iff wisdom for the problem is in memory
      WPlan false      plan = fftw_plan_..(.., FFTW_PATIENT)            always succeeds; the wisdom for the problem is in
                                                                        memory afterwards (planned now, or taken from memory)
      WExport          fftw_export_wisdom_to_filename(path)             writes ALL wisdom in memory; fails silently (the
                                                                        return value is not looked at) when the directory
                                                                        of the file does not exist
      WLog             Display::printText("Created some wisdom at ..")

    The world: whether the directory `<data>/inovesa/fftwisdom` exists, and the wisdom files in it - each
    either unreadable ([None]: import returns 0) or holding wisdom for a list of transforms.  A key is (kind, n).
    A process starts with no wisdom in memory; what it imports and plans accumulates.

    What stays OUTSIDE the model: FFTW's planner (which algorithm a measured plan picks, and that a plan
    re-created from wisdom is the plan that was stored), the precision split of FFTW's wisdom (double and single
    precision wisdom live in different libraries: a single memory is a simplification that the kinds keep
    apart), failures of create_directories / of writing the file other than a missing directory.
    No proofs in this file. *)
From Coq Require Import List ZArith String Bool.
Import ListNotations.
Local Open Scope Z_scope.

Definition key := (string * Z)%type.
Definition key_eqb (a b : key) : bool := String.eqb (fst a) (fst b) && Z.eqb (snd a) (snd b).
Definition kmem (k : key) (l : list key) : bool := existsb (key_eqb k) l.

Inductive wsimple := WPlan (wisdom_only : bool) | WExport | WLog.
Inductive wstmt := WDo (s : wsimple) | WImportThen (b : list wsimple) | WIfNoPlan (b : list wsimple).

(** how the path of the wisdom file is built: `FSPath p(FSPath::datapath()); p.append("fftwisdom/" + name)`, or
    `FSPath p(FSPath::datapath() + "fftwisdom/" + name)` (the constructor validates like append does) - the two forms the
    translator accepts - or a plain string (kept for the examples) *)
Inductive pathform := PFSPathAppend | PFSPathFull | PPlainString.

Record prep := mkprep { pr_kinds : list string; pr_path : pathform; pr_body : list wstmt }.

(** the wisdom directory *)
Record fsys := mkfs { fs_dir : bool; fs_files : list (key * option (list key)) }.

Fixpoint lookup (k : key) (l : list (key * option (list key))) : option (option (list key)) :=
  match l with
  | [] => None
  | (k', v) :: r => if key_eqb k k' then Some v else lookup k r
  end.

Fixpoint store (k : key) (v : option (list key)) (l : list (key * option (list key))) : list (key * option (list key)) :=
  match l with
  | [] => [(k, v)]
  | (k', v') :: r => if key_eqb k k' then (k, v) :: r else (k', v') :: store k v r
  end.

(** one process *)
Record pst := mkpst {
  p_fs : fsys;
  p_mem : list key;          (* wisdom in memory *)
  p_plan : bool;             (* plan != nullptr *)
  p_planned : list key;      (* transforms planned without FFTW_WISDOM_ONLY: by measuring, unless the wisdom was in memory *)
  p_logged : list key;       (* "Created some wisdom at .." lines *)
  p_written : list key }.    (* files written by this process *)

Definition exec_simple (k : key) (s : wsimple) (p : pst) : pst :=
  match s with
  | WPlan true => mkpst (p_fs p) (p_mem p) (kmem k (p_mem p)) (p_planned p) (p_logged p) (p_written p)
  | WPlan false => mkpst (p_fs p) (if kmem k (p_mem p) then p_mem p else p_mem p ++ [k]) true (p_planned p ++ [k]) (p_logged p) (p_written p)
  | WExport =>
      if fs_dir (p_fs p)
      then mkpst (mkfs true (store k (Some (p_mem p)) (fs_files (p_fs p)))) (p_mem p) (p_plan p) (p_planned p) (p_logged p) (p_written p ++ [k])
      else p
  | WLog => mkpst (p_fs p) (p_mem p) (p_plan p) (p_planned p) (p_logged p ++ [k]) (p_written p)
  end.

Definition exec_simples (k : key) (b : list wsimple) (p : pst) : pst := fold_left (fun p s => exec_simple k s p) b p.

Definition exec_stmt (k : key) (s : wstmt) (p : pst) : pst :=
  match s with
  | WDo x => exec_simple k x p
  | WImportThen b =>
      match lookup k (fs_files (p_fs p)) with
      | Some (Some w) => exec_simples k b (mkpst (p_fs p) (p_mem p ++ w) (p_plan p) (p_planned p) (p_logged p) (p_written p))
      | _ => p                     (* no file, or a file FFTW cannot read: import returns 0 *)
      end
  | WIfNoPlan b => if p_plan p then p else exec_simples k b p
  end.

(** building the path: [mk] = FSPath's constructor and FSPath::append create the parent directory (read off src/IO/FSPath.cpp) *)
Definition path_effect (mk : bool) (f : pathform) (p : pst) : pst :=
  match f with
  | PFSPathAppend | PFSPathFull =>
      if mk then mkpst (mkfs true (fs_files (p_fs p))) (p_mem p) (p_plan p) (p_planned p) (p_logged p) (p_written p) else p
  | PPlainString => p
  end.

Definition handles (k : key) (pr : prep) : bool := existsb (String.eqb (fst k)) (pr_kinds pr).

(** one call of prepareFFT for the transform [k]: `plan = nullptr`, the path, the body *)
Definition prepare (mk : bool) (tb : list prep) (k : key) (p : pst) : pst :=
  match find (handles k) tb with
  | None => p
  | Some pr =>
      fold_left (fun p s => exec_stmt k s p) (pr_body pr)
        (path_effect mk (pr_path pr) (mkpst (p_fs p) (p_mem p) false (p_planned p) (p_logged p) (p_written p)))
  end.

(** one run of the program that prepares the transforms [reqs] in order, from the directory state [fs] *)
Definition run (mk : bool) (tb : list prep) (reqs : list key) (fs : fsys) : pst :=
  fold_left (fun p k => prepare mk tb k p) reqs (mkpst fs [] false [] [] []).

(** the file of [k] exists and holds wisdom for [k] *)
Definition has_wisdom (fs : fsys) (k : key) : bool :=
  match lookup k (fs_files fs) with Some (Some w) => kmem k w | _ => false end.
