(** * MachineSpec: the machine quantities the unit factors of the results file are built from, as the property's text
    implies them from the parameters stored under /Info/Parameters (spec functions - NOT a model of main(): what main()
    computes is Gen/Gen_Scaling.v; Proofs/ScalingMachineP.v relates the two).

    The radiation loss per turn belongs to the bending radius IN USE: the option `BendingRadius` when it is positive,
    the iso-magnetic radius c/(2 pi f_rev) otherwise - the same radius the impedance models receive.  Square root and
    comparisons are the abstract operations of [Ops K] (Model/ScalingOps.v). *)
From Coq Require Import List ZArith.
From Inovesa Require Import Base.FieldKit Model.ScalingOps.
Local Open Scope F_scope.

Section Spec.
  Variable K : Fld.
  Variable O : Ops K.

  (** bending radius in use *)
  Definition radius_in_use (c tpi frev Ropt : K) : K :=
    if o_lt O 0 Ropt then Ropt else c / (tpi * frev).

  (** energy radiated per turn (in eV) by an electron of energy E0 on an orbit of bending radius R:
      e gamma^4 / (3 epsilon0 R), gamma = E0 / (m_e c^2) *)
  Definition radiation_loss (e me eps0 E0 R : K) : K :=
    e * ((E0 / me) * (E0 / me) * (E0 / me) * (E0 / me)) / (three * eps0 * R).

  (** effective accelerating voltage sqrt(V_RF^2 - V0^2) *)
  Definition effective_voltage (VRF V0 : K) : K := o_sqrt O (VRF * VRF - V0 * V0).

  (** synchrotron frequency: the option when non-zero, else f_rev sqrt(alpha0 h V_eff / (2 pi E0)) *)
  Definition sync_freq (tpi frev H E0 alpha0 Veff fsopt : K) : K :=
    if o_is0 O fsopt then frev * o_sqrt O (alpha0 * H * Veff / (tpi * E0)) else fsopt.

  (** steps per synchrotron period: StepsPerRevolution * f_rev / f_s when StepsPerRevolution > 0, else max(StepsPerTs, 1) *)
  Definition steps_per_period (frev fs spr spt : K) : K :=
    if o_lt O 0 spr then spr * frev / fs else if o_lt O spt 1 then 1 else spt.
End Spec.
