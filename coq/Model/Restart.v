(** * Restart: continuing from a results file (DESIGN 5/C11).  Executable model; lemmas in
    Proofs/RestartP.v.

    The physics is abstract (section variables): the theorems hold whatever the maps compute.
    What is mirrored is the control flow of src/main.cpp around it: which cache each call reads,
    the renormalisation schedule [renormalize > 0 && simulationstep%renormalize == 0] evaluated on
    a step counter that restarts at 0 in the continued run, the initial [normalize()] that uses the
    integral cached by the PhaseSpace constructor, and the final block that repeats the loop head
    before the last record is written. *)
From Coq Require Import List ZArith Bool Lia.
Import ListNotations.
Local Open Scope Z_scope.

Section Restart.
  Variables G P F : Type.
  (** kernels of PhaseSpace *)
  Variable projX : G -> P.            (* updateXProjection: reads the grid *)
  Variable integ : P -> F.            (* integrate: reads the cached x-projection *)
  Variable normW : F -> G -> G.       (* normalize: scales the grid with the cached integral(s) *)
  (** one pass [wm, rfm, drm, fpm] of the loop body applied to grid [g], the wake map having been
      updated from the cached x-projection [p] (wkm->update() runs at the loop head, *before*
      integrateAndNormalize).  It may not depend on the absolute step number (static RF). *)
  Variable maps : P -> G -> G.

  (** the object as the C++ keeps it: grid and the two caches the loop head reads *)
  Record pst := mkPst { grid : G; xproj : P; fill : F }.

  Definition updateX (s : pst) : pst := mkPst (grid s) (projX (grid s)) (fill s).
  Definition integrate (s : pst) : pst := mkPst (grid s) (xproj s) (integ (xproj s)).
  Definition normalize (s : pst) : pst := mkPst (normW (fill s) (grid s)) (xproj s) (fill s).

  Definition renorm_at (r k : Z) : bool := (0 <? r) && (k mod r =? 0).

  (** loop head (main.cpp 949-959) up to the point where the record is appended / maps run *)
  Definition head (r k : Z) (s : pst) : pst :=
    if renorm_at r k then normalize (integrate s) else integrate s.
  (** one iteration: head, [output block: observer], maps with the wake of the *pre-head*
      projection, updateXProjection *)
  Definition body (r k : Z) (s : pst) : pst :=
    let h := head r k s in
    updateX (mkPst (maps (xproj s) (grid h)) (xproj h) (fill h)).

  Fixpoint iter (r : Z) (m : nat) (k : Z) (s : pst) : pst :=
    match m with O => s | S m' => iter r m' (k + 1) (body r k s) end.

  (** main.cpp 527-532 and 892-894: optional initial normalisation, then refresh of the caches *)
  Definition prepare (r : Z) (s : pst) : pst :=
    let s1 := if 0 <=? r then normalize (updateX s) else s in
    integrate (updateX s1).

  (** the grid written into /PhaseSpace at tag [k] (output block and final block alike: both run
      the loop head first) *)
  Definition stored (r k : Z) (s : pst) : G := grid (head r k s).

  (** uninterrupted run of [n] steps from a prepared state; the stored grid of its record [n] *)
  Definition run_from (r : Z) (n : Z) (s : pst) : pst := iter r (Z.to_nat n) 0 (prepare r s).
  Definition single (r n : Z) (s0 : pst) : G := stored r n (run_from r n s0).

  (** HDF5File::readPhaseSpace: a fresh object (default Gaussian; caches [p0], [f0] of that
      Gaussian) whose grid is then overwritten with the record read from the file *)
  Definition loaded (g : G) (p0 : P) (f0 : F) : pst := mkPst g p0 f0.

  (** run of [n2] steps started from record [n1] of a first run *)
  Definition continued (r n1 n2 : Z) (s0 : pst) (p0 : P) (f0 : F) : G :=
    single r n2 (loaded (single r n1 s0) p0 f0).

  (** derived notions used in the statements *)
  Definition norm (g : G) : G := normW (integ (projX g)) g.      (* integrateAndNormalize on fresh caches *)
  Definition snorm (f0 : F) (g : G) : G := normW f0 g.           (* normalize with the stale integral *)
End Restart.
