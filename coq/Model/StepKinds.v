(** The four source maps main() applies once per simulation step (src/main.cpp, loop body):
    [wm] (wake kick), [rfm] (RF kick), [drm] (drift), [fpm] (Fokker-Planck).
    Kept in a file of its own so that the generated [Gen/Gen_StepOrder.v] can name them. *)
Inductive smap : Set := MWake | MRF | MDrift | MFP.

Definition smap_eqb (a b : smap) : bool :=
  match a, b with
  | MWake, MWake | MRF, MRF | MDrift, MDrift | MFP, MFP => true
  | _, _ => false
  end.

(** the maps that kick along the energy axis (KickMap with Axis::y) *)
Definition is_ykick (m : smap) : bool :=
  match m with MWake | MRF => true | _ => false end.

(** events of one pass through the loop body that matter for the force law: the wake update
    (WakePotentialMap::update, from the current projection), the maps in program order, the
    refresh of the X projection for the next pass *)
Inductive sevent : Set := EUpdate | EApply (m : smap) | EXProj.
