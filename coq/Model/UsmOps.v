(** * Vocabulary of the generated file Gen_UpdateSM.v (translate/updatesm2coq.py).

    The translator executes the body of KickMap::updateSM symbolically with the C++ arithmetic as it is and prints
    what it finds with the operations below.  Nothing here is specific to updateSM; no proofs here.

    - unsigned arithmetic: an expression of an unsigned type of [bits] bits is printed over [Z] as written and
      reduced once by [wrapu bits] where its value is needed (comparison, division, conversion to a wider type, array
      subscript); [+], [-], [*] commute with the reduction, everything else is applied to reduced values only.
      Signed ([int]) sub-expressions are printed only when the translator's interval analysis shows that they
      cannot overflow; their division is [Z.quot] (truncation toward zero).
    - binary32 arithmetic: every operation rounds ([rnd32] of Base/Float32.v, proved equal to Flocq's
      round-to-nearest-even in Proofs/Float32P.v); integer -> float conversions round as well ([i2f32]).
    - [std::modf]: integer part (as a float) and fractional part (exact: the fraction of a binary32 value is one);
      [std::floor], [std::trunc] likewise.
    - float -> unsigned conversion: defined for -1 < value < 2^bits only ([fcvt_ok]); [fcvt_val] is the truncated value
      reduced to the width, i.e. what the conversion yields where it is defined.
    - comparisons of floats are comparisons of their exact values.
    - [coefQ it f j]: entry [j] of the array [calcCoefficiants(., f, it)] fills (Gen/Gen_Coeffs.v). *)
From Coq Require Import List ZArith QArith Qcanon Bool.
From Inovesa Require Import Base.FieldKit Base.Float32 Gen.Gen_Coeffs.
Import ListNotations.
Local Open Scope Z_scope.

Definition wrapu (bits z : Z) : Z := z mod 2 ^ bits.

Definition i2f32 (z : Z) : Qc := rnd32 (Qcz z).
Definition f32add (a b : Qc) : Qc := rnd32 (a + b)%Qc.
Definition f32sub (a b : Qc) : Qc := rnd32 (a - b)%Qc.
Definition f32mul (a b : Qc) : Qc := rnd32 (a * b)%Qc.
Definition f32div (a b : Qc) : Qc := rnd32 (a / b)%Qc.
Definition f32neg (a : Qc) : Qc := (- a)%Qc.

Definition modf_int (p : Qc) : Qc := Qcz (Qctrunc p).
Definition modf_frac (p : Qc) : Qc := Qcfrac p.
(** [std::floor] / [std::trunc] of a float (exact: results are floats) *)
Definition ffloor (p : Qc) : Qc := Qcz (Qcfloor p).
Definition ftrunc (p : Qc) : Qc := Qcz (Qctrunc p).

Definition fle (a b : Qc) : bool := Qle_bool (this a) (this b).
Definition flt (a b : Qc) : bool := negb (Qle_bool (this b) (this a)).
Definition feq (a b : Qc) : bool := Qeq_bool (this a) (this b).

Definition fcvt_val (bits : Z) (q : Qc) : Z := wrapu bits (Qctrunc q).
Definition fcvt_ok (bits : Z) (q : Qc) : bool := flt (Qcz (-1)) q && flt q (Qcz (2 ^ bits)).

Definition coefQ (it : Z) (f : Qc) (j : Z) : Qc := nth (Z.to_nat j) (coeffs (K:=QcF) it f) 0%Qc.

(** one table cell overwritten *)
Definition usm_upd {A} (f : Z -> A) (k : Z) (v : A) (i : Z) : A := if i =? k then v else f i.
