(** * Size and index arithmetic of the buffers the program allocates and walks (C17).

    Memory safety of C++ is not a statement about a Gallina model.  What is modelled here is
    the arithmetic that decides how large a buffer is and which cell of it is touched, as the
    code computes it (unsigned wrap-around, float -> unsigned conversions with their
    undefined domain, [std::round]/[std::ceil], the bit trick of [upper_power_of_two],
    loop bounds taken from a float).  Everything is over [Z] and [Qc]; an access is a pair
    (buffer, index) and "in bounds" is a comparison with the modelled buffer length.

    Anchors: src/main.cpp:303-321, src/HelperFunctions.cpp (upper_power_of_two),
    src/PS/ElectricField.cpp (padBunchProfiles, wakePotential read-back, updateCSR),
    src/SM/KickMap.cpp (updateSM, apply), src/SM/FokkerPlanckMap.cpp (constructor, apply,
    applyTo), src/Z/Impedance.cpp (operator+=), src/IO/HDF5File.cpp (appendTracks). *)
From Coq Require Import List ZArith QArith Qcanon Qround Lia Bool.
From Inovesa Require Import Base.FieldKit Base.Float32 Model.Kick.
Import ListNotations.
Local Open Scope Z_scope.

(** ** float -> unsigned conversion ([conv.fpint]: truncation; undefined when the truncated
    value is not representable in the destination type) *)
Inductive conv := Val (z : Z) | UB.

Definition f2u (bits : Z) (q : Qc) : conv :=
  let t := Qctrunc q in
  if (0 <=? t) && (t <? 2 ^ bits) then Val t else UB.

Definition conv_bind (c : conv) (f : Z -> conv) : conv :=
  match c with Val z => f z | UB => UB end.

(** ** upper_power_of_two (uint64_t): v--; v |= v>>1; ... v |= v>>32; v++ *)
Definition w64 (z : Z) : Z := z mod 2 ^ 64.

Definition smear_step (m v : Z) : Z := Z.lor v (Z.shiftr v m).
Definition smear (v : Z) : Z :=
  smear_step 32 (smear_step 16 (smear_step 8 (smear_step 4 (smear_step 2 (smear_step 1 v))))).

Definition upper_power_of_two (v : Z) : Z := w64 (smear (w64 (v - 1)) + 1).

(** ** [std::round] (half away from zero) and [std::ceil] on exact values *)
Definition Qcceil (q : Qc) : Z := Qceiling (this q).
Definition Qcround (q : Qc) : Z :=
  if Qle_bool 0 (this q) then Qfloor (this q + (1 # 2)) else - Qfloor (- this q + (1 # 2)).

Definition Qcmax (a b : Qc) : Qc := if Qle_bool (this a) (this b) then b else a.

(** binary64 rounding (round to nearest even, precision 53, subnormals below 2^-1022, no
    overflow handling), built from the pieces of Base/Float32.v.  Trusted like [rnd32]:
    validated by the correspondence (padded lengths read from the program's results file). *)
Definition rndQ (prec emin : Z) (q : Q) : Q :=
  if Qeq_bool q 0 then 0%Q else
  let a := Qabs' q in
  let e := Z.max (Qlog2 a) emin in
  let m := Qrne (a * Qpow2 (prec - 1 - e)) in
  let v := (inject_Z m * Qpow2 (e - (prec - 1)))%Q in
  if Qle_bool 0 q then v else Qopp v.
Definition rnd53 (q : Qc) : Qc := Q2Qc (rndQ 53 (-1022) (this q)).

(** ** main.cpp:303-321.  [n] = GridSize, [nbuckets] = length of the filling pattern,
    [sps] = spacing_ps (phase-space widths per bunch spacing, a double), [padding] (double),
    [roundp] = RoundPadding.  Each product is one double multiplication ([rnd53]);
    [ps_bins*nbuckets] is a uint32 product. *)
Record sizes := { spacing_bins : conv; padded_bins : conv; spaced_bins : conv }.

Definition round_up (roundp : bool) (c : conv) : conv :=
  if roundp then conv_bind c (fun v => Val (upper_power_of_two v)) else c.

(** the two double products main rounds/ceils *)
Definition spacing_prod (n : Z) (sps : Qc) : Qc := rnd53 (Qcz n * sps)%Qc.
Definition spaced_prod (n nbuckets : Z) (sps : Qc) : Qc := rnd53 (Qcz (wrap32 (n * nbuckets)) * sps)%Qc.

(** tree after `fix:` 899923d: spaced_bins = max(ceil(..), size_t(nbuckets-1)*spacing_bins + ps_bins)
    before the rounding; [nbuckets-1] is a uint32 difference, the rest a 64-bit expression *)
Definition spaced_floor (n nbuckets sp : Z) : Z := w64 (wrap32 (nbuckets - 1) * sp + n).

Definition main_sizes (n nbuckets : Z) (sps padding : Qc) (roundp : bool) : sizes :=
  let sp := f2u 32 (Qcz (Qcround (spacing_prod n sps))) in
  {| spacing_bins := sp;
     padded_bins := round_up roundp (f2u 64 (Qcz (Qcceil (rnd53 (Qcz n * Qcmax padding 1)%Qc))));
     spaced_bins := round_up roundp
                      (conv_bind sp (fun s =>
                       conv_bind (f2u 64 (Qcz (Qcceil (spaced_prod n nbuckets sps))))
                                 (fun c => Val (Z.max c (spaced_floor n nbuckets s))))) |}.

(** the pinned tree: spaced_bins = ceil((ps_bins*nbuckets)*spacing_ps) only (kept for the
    refutations that document the fixed finding) *)
Definition main_sizes_pinned (n nbuckets : Z) (sps padding : Qc) (roundp : bool) : sizes :=
  {| spacing_bins := f2u 32 (Qcz (Qcround (spacing_prod n sps)));
     padded_bins := round_up roundp (f2u 64 (Qcz (Qcceil (rnd53 (Qcz n * Qcmax padding 1)%Qc))));
     spaced_bins := round_up roundp (f2u 64 (Qcz (Qcceil (spaced_prod n nbuckets sps)))) |}.

(** buckets that hold a bunch, as main enumerates them: filling[i] > 0 -> nbuckets-1-i *)
Fixpoint bucket_numbers_from (total i : Z) (filled : list bool) : list Z :=
  match filled with
  | [] => []
  | f :: r => (if f then [total - 1 - i] else []) ++ bucket_numbers_from total (i + 1) r
  end.
Definition bucket_numbers (filled : list bool) : list Z :=
  bucket_numbers_from (Z.of_nat (length filled)) 0 filled.

(** length of the wake field's padded buffers: makeImpedance((filling.size()>1) ? spaced : padded) *)
Definition wake_nmax (nbuckets : Z) (s : sizes) : conv :=
  if 1 <? nbuckets then spaced_bins s else padded_bins s.

(** ** ElectricField::padBunchProfiles / wakePotential read-back:
    [_bp_padded + _bucket[b]*_spacing_bins], n cells; [_bucket] holds uint32, [_spacing_bins] is a
    size_t member (initialised from a uint32 parameter): the product is a 64-bit one *)
Definition pad_start (spacing bucket : Z) : Z := w64 (bucket * spacing).
Definition pad_last (n spacing bucket : Z) : Z := pad_start spacing bucket + n - 1.
Definition pad_index (spacing bucket x : Z) : Z := pad_start spacing bucket + x.
Definition pad_ok (n nmax spacing : Z) (buckets : list Z) : bool :=
  forallb (fun b => pad_last n spacing b <? nmax) buckets.
Definition pad_max_last (n spacing : Z) (buckets : list Z) : Z :=
  fold_right Z.max (-1) (map (pad_last n spacing) buckets).

(** ** KickMap::updateSM (tree after `fix:` fbbfcf6): the range test is made on the float
    integer part and the conversion [jd = qp_int] happens only inside it; everything else
    takes the "index n/2, weight 0" branch.  Inside the range this is [sm_entry] of
    Model/Kick.v.  [sm_entry_c] is the pinned tree: conversion first, undefined outside
    (-1, 2^32). *)
Definition sm_in_range (n : Z) (o : Qc) : bool :=
  let s := poffs_split n o in (0 <=? sp_int s) && (sp_int s <? n).
Definition sm_entry_g (n it : Z) (o : Qc) (j1 : Z) : Z * Qc :=
  if sm_in_range n o then sm_entry n it o j1 else (n / 2, 0%Qc).
Definition sm_entry_c (n it : Z) (o : Qc) (j1 : Z) : option (Z * Qc) :=
  if sm_defined_pinned n o then Some (sm_entry n it o j1) else None.

(** KickMap::apply: source cell of output cell [t] (along the kick) through table index [h],
    [None] when the unsigned test rejects it; flat data index for both directions *)
Definition kick_src (n t h : Z) : option Z :=
  let s := wrap32 (t + h - n / 2) in if s <? n then Some s else None.
Definition kick_read_y (n b x y h : Z) : option Z :=
  option_map (fun ys => didx n b x ys) (kick_src n y h).
Definition kick_read_x (n b x y h : Z) : option Z :=
  option_map (fun xs => didx n b xs y) (kick_src n x h).

(** ** FokkerPlanckMap constructor: the accesses it performs, in program order.
    [HWrite pos idx]: _hinfo[pos] = {idx, ...};  [ARead j]: in->p(j) (the energy axis).
    [zb] = zerobin of the energy axis (a float).  Indices are uint32 expressions. *)
Inductive fp_ev := HWrite (pos idx : Z) | ARead (j : Z).

Definition zseq (lo len : Z) : list Z := map (fun k => lo + k) (zrange len).
Definition hrow (ip j : Z) (idxs : list Z) : list fp_ev :=
  map (fun ki => HWrite (wrap32 (j * ip + fst ki)) (wrap32 (snd ki))) (combine (zrange ip) idxs).
Definition zero_row (ip j : Z) : list fp_ev := hrow ip j (map (fun _ => 0) (zrange ip)).

(** number of iterations of [for (j = lo; j < bound; j++)] with a float bound *)
Definition loop_len_q (lo : Z) (bound : Qc) : Z := Z.max 0 (Qcceil bound - lo).

Definition fp_events (n dt : Z) (zb : Qc) (damping : bool) : option (list fp_ev) :=
  if dt =? 3 then
    Some (zero_row 3 0
          ++ flat_map (fun j => hrow 3 j [j - 1; j; j + 1] ++ (if damping then [ARead j] else []))
                      (zseq 1 (wrap32 (n - 1) - 1))
          ++ zero_row 3 (wrap32 (n - 1)))
  else
    match f2u 32 zb with
    | UB => None
    | Val j0 =>
      Some (zero_row 4 0 ++ zero_row 4 1
            ++ flat_map (fun j => ARead j :: hrow 4 j [j - 2; j - 1; j; j + 1])
                        (zseq 2 (loop_len_q 2 zb))
            ++ flat_map (fun j => ARead j :: hrow 4 j [j - 1; j; j + 1; j + 2])
                        (zseq j0 (wrap32 (n - 2) - j0))
            ++ zero_row 4 (wrap32 (n - 2)) ++ zero_row 4 (wrap32 (n - 1)))
    end.

(** main.cpp (tree after `fix:` de00324) builds the cubic map only when
    [zerobin >= 1 && zerobin <= ps_bins-2] (float comparisons; ps_bins-2 is exact below 2^24) *)
Definition fp_guard (n : Z) (zb : Qc) : bool :=
  Qle_bool 1 (this zb) && Qle_bool (this zb) (inject_Z (n - 2)).

(** SourceMap allocates max(memsize,16) table entries; memsize = 1*ysize*dt *)
Definition fp_table_len (n dt : Z) : Z := Z.max (n * dt) 16.

Definition ev_ok (n dt : Z) (e : fp_ev) : bool :=
  match e with
  | HWrite pos idx => (0 <=? pos) && (pos <? fp_table_len n dt) && (0 <=? idx) && (idx <? n)
  | ARead j => (0 <=? j) && (j <? n)
  end.
(** the access alone (position inside the table / the axis), whatever index value is stored *)
Definition ev_access_ok (n dt : Z) (e : fp_ev) : bool :=
  match e with
  | HWrite pos _ => (0 <=? pos) && (pos <? fp_table_len n dt)
  | ARead j => (0 <=? j) && (j <? n)
  end.

(** the table after the constructor (index part), replaying the in-table writes; cells never
    written keep [-1] (uninitialised memory of [new hi[]]) *)
Fixpoint set_nth (l : list Z) (i : nat) (v : Z) : list Z :=
  match l, i with
  | [], _ => []
  | _ :: r, O => v :: r
  | x :: r, S k => x :: set_nth r k v
  end.
Definition fp_replay (len : Z) (evs : list fp_ev) : list Z :=
  fold_left (fun t e => match e with
                        | HWrite pos idx => if (0 <=? pos) && (pos <? len) then set_nth t (Z.to_nat pos) idx else t
                        | ARead _ => t end)
            evs (map (fun _ => -1) (zrange len)).
Definition fp_table (n dt : Z) (zb : Qc) (damping : bool) : option (list Z) :=
  option_map (fp_replay (fp_table_len n dt)) (fp_events n dt zb damping).

(** FokkerPlanckMap::apply reads data_in[offs + h.index] (uint32 sum) for every row y < n *)
Definition fp_apply_read (n b x idx : Z) : Z := wrap32 (wrap32 (b * n * n) + x * n + idx).

(** ** Impedance::operator+= : for i < min(_nfreqs, rhs._nfreqs) reads rhs._data[i] and
    writes _data[i] (the tree after `fix:` 8635aab of C16).  [imp_sum_reads_pinned] is the
    loop of the pinned tree (i < _nfreqs), kept for the refutation that documents the finding. *)
Definition imp_sum_reads (lhs_n rhs_n : Z) : list Z := zrange (Z.min lhs_n rhs_n).
Definition imp_sum_reads_pinned (lhs_n : Z) : list Z := zrange lhs_n.
Definition imp_sum_ok (lhs_n rhs_n : Z) : bool :=
  forallb (fun i => (i <? rhs_n) && (i <? lhs_n)) (imp_sum_reads lhs_n rhs_n).

(** ** HDF5File::appendTracks: _ps->q(pos.x), _ps->p(pos.y): a float used as a uint32 axis index *)
Definition track_index (x : Qc) : conv := f2u 32 x.
Definition track_ok (n : Z) (x : Qc) : bool :=
  match track_index x with Val i => i <? n | UB => false end.

(** FokkerPlanckMap::applyTo, approximation1: yi = min(uint(floor(pos.y)), _ysize); row yi of the table *)
Definition fptrack1_row (n : Z) (y : Qc) : conv :=
  conv_bind (f2u 32 (Qcz (Qcfloor y))) (fun yi => Val (Z.min yi n)).

(** ** list front-ends for the extracted driver *)
Definition conv_code (c : conv) : Z := match c with Val z => z | UB => -1 end.
Definition sizes_pinned_list (n nbuckets : Z) (sps padding : Qc) (roundp : bool) : list Z :=
  let s := main_sizes_pinned n nbuckets sps padding roundp in
  [conv_code (spacing_bins s); conv_code (padded_bins s); conv_code (spaced_bins s);
   conv_code (wake_nmax nbuckets s)].
Definition sizes_list (n nbuckets : Z) (sps padding : Qc) (roundp : bool) : list Z :=
  let s := main_sizes n nbuckets sps padding roundp in
  [conv_code (spacing_bins s); conv_code (padded_bins s); conv_code (spaced_bins s);
   conv_code (wake_nmax nbuckets s)].
Definition pad_list (n spacing : Z) (buckets : list Z) : list Z :=
  flat_map (fun b => [pad_start spacing b; pad_last n spacing b]) buckets.
Definition ev_code (e : fp_ev) : list Z :=
  match e with HWrite p i => [0; p; i] | ARead j => [1; j; 0] end.
Definition fp_events_list (n dt : Z) (zb : Qc) (damping : bool) : option (list Z) :=
  option_map (flat_map ev_code) (fp_events n dt zb damping).
Definition fp_all_ok (n dt : Z) (zb : Qc) (damping : bool) : bool :=
  match fp_events n dt zb damping with Some evs => forallb (ev_ok n dt) evs | None => false end.
Definition fp_access_ok (n dt : Z) (zb : Qc) (damping : bool) : bool :=
  match fp_events n dt zb damping with Some evs => forallb (ev_access_ok n dt) evs | None => false end.
