(** * Vocabulary of Gen/Gen_FPEnv.v (translate/fpenv2coq.py): places in the sources / the build description that change the
    floating-point environment (rounding mode, flush-to-zero / denormals-are-zero, exception trapping, fast-math
    licences).  No proofs here. *)
From Coq Require Import List ZArith String Bool.
Import ListNotations.

Inductive fpkind :=
| FCall        (* a call of a function / macro that writes the FP control state *)
| FMention     (* its name used otherwise (address taken, alias) *)
| FPragma      (* #pragma STDC FENV_ACCESS / FP_CONTRACT, float_control, GCC optimize ... *)
| FAttr        (* __attribute__((optimize(...))) *)
| FAsm         (* inline assembly loading a control word *)
| FBuildFlag.  (* a compiler option of the CMake files that changes FP semantics globally *)

Record fpsite := mkfpsite { fp_file : string; fp_line : Z; fp_name : string; fp_kind : fpkind }.

(** the environment is fixed when there is no such place at all *)
Definition fpenv_fixed (sites : list fpsite) : bool := match sites with [] => true | _ => false end.

(** A run is a sequence of arithmetic steps, each evaluated under the environment current at that moment; [body] are the
    steps themselves (they may change the environment: that is what a site is), [env0] the environment at start.
    [Eval env x] is the (deterministic) result of one operation under one environment.  A program without sites never
    changes its environment: modelled as [change = fun e => e]. *)
Section Runs.
  Variables (Env Val : Type).
  Variable eval : Env -> Val -> Val.          (* one step of arithmetic under an environment *)
  Variable change : Env -> Env.               (* what an observer block does to the environment *)
  (** [observe k] says whether the observer block runs before step k (the output cadence) *)
  Fixpoint run (observe : nat -> bool) (n k : nat) (e : Env) (x : Val) : Val :=
    match n with
    | O => x
    | S n' => let e' := if observe k then change e else e in run observe n' (S k) e' (eval e' x)
    end.
End Runs.
