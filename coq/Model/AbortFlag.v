(** * Who touches the interrupt flag (C14; strengthening driven by seed F8-I)

    The driver model (Model/Driver.v) gives `Display::abort` two readers - the condition of main()'s loop and the closing
    `if (Display::abort) "Aborted." else "Finished."` - and two writers: a delivered SIGINT (the [Point] transition, justified by
    Model/Signals.v) and the HDF5 error handler of the set-up ([SSetAbort]).  Every kernel of the model (maps, tracking, field
    and file objects) is a function of a state that does not contain the flag.  `translate/abortflag2coq.py` lists EVERY place
    under src/ and inc/ that names the flag ([abort_sites], Gen/Gen_AbortFlag.v); this file says what the list must look like.
    No proofs here. *)
From Coq Require Import List ZArith String Bool.
Import ListNotations.
Local Open Scope string_scope.

Inductive akind :=
| KNotFlag                     (* another entity of that name: std::abort(), a method call x.abort() *)
| KDecl                        (* declaration of the static member *)
| KDef (init_false : bool)     (* definition; [true] iff the initial value is `false` *)
| KRead
| KWriteTrue                   (* `abort = true;` *)
| KWriteOther                  (* any other assignment, increment, decrement *)
| KAddr.                       (* address taken: accesses through the pointer are not seen by the scan *)

Inductive awhere :=
| WLoopCond                    (* src/main.cpp: condition of main()'s top-level while loop *)
| WIfCond (after_loop : bool)  (* src/main.cpp: condition of an `if` of main(), before / after the loop *)
| WCatch                       (* src/main.cpp: inside a catch block of main() *)
| WMainOther                   (* src/main.cpp: anywhere else in main() *)
| WSigHandler                  (* any file: inside the body of a function called SIGINT_handler *)
| WElsewhere.

(** one textual site; [a_guards]: the preprocessor conditions it stands under, outermost first *)
Record asite := mkasite { a_file : string; a_line : Z; a_kind : akind; a_where : awhere; a_guards : list string; a_text : string }.

Definition main_file : string := "src/main.cpp".

(** code of the graphical front end (window closed = the user's other way of asking to stop); not compiled in the
    configuration the checks build (INOVESA_USE_OPENGL=0) *)
Definition gui_only (s : asite) : bool := existsb (String.eqb "INOVESA_USE_OPENGL == 1") (a_guards s).

Definition in_main (s : asite) : bool :=
  match a_where s with
  | WLoopCond | WIfCond _ | WCatch | WMainOther => true
  | _ => false
  end.

Definition is_write (k : akind) : bool :=
  match k with KWriteTrue | KWriteOther | KAddr => true | _ => false end.

Definition site_ok (s : asite) : bool :=
  (negb (in_main s) || String.eqb (a_file s) main_file) &&
  match a_kind s with
  | KNotFlag | KDecl => true
  | KDef b => b
  | KRead => match a_where s with WLoopCond | WIfCond true => true | _ => false end
  | KWriteTrue => match a_where s with WSigHandler | WCatch => true | _ => gui_only s end
  | KWriteOther | KAddr => false
  end.

Definition is_loop_read (s : asite) : bool :=
  match a_kind s, a_where s with KRead, WLoopCond => true | _, _ => false end.

(** the accesses in main() as the lexical scan sees them: (line, is a write) *)
Definition main_accesses (sites : list asite) : list (Z * bool) :=
  flat_map (fun s => if String.eqb (a_file s) main_file
                     then match a_kind s with
                          | KRead => [(a_line s, false)]
                          | KWriteTrue | KWriteOther | KAddr => [(a_line s, true)]
                          | _ => []
                          end
                     else []) sites.

Fixpoint acc_eqb (a b : list (Z * bool)) : bool :=
  match a, b with
  | [], [] => true
  | (l, w) :: r, (l', w') :: r' => (l =? l')%Z && Bool.eqb w w' && acc_eqb r r'
  | _, _ => false
  end.

(** the per-run obligation: every site is fine, the loop condition does read the flag, the flag starts as `false`, and the
    accesses the scan finds in src/main.cpp are exactly the references clang sees in main() ([abort_refs] of
    Gen/Gen_MainLoop.v: line, is a write, lies in the translated part) *)
Definition abort_ok (sites : list asite) (refs : list (Z * bool * bool)) : bool :=
  forallb site_ok sites && existsb is_loop_read sites &&
  existsb (fun s => match a_kind s with KDef true => true | _ => false end) sites &&
  acc_eqb (main_accesses sites) (map fst refs).
