(** * The second-moment recurrence of one full step without impedance
    (RF kick -> drift -> Fokker-Planck), DESIGN 5/C04 item 3.

    Coordinates are grid cells relative to the zero bins: [u] along position, [v] along energy.
    [muu = sum u^2 f], [muv = sum u v f], [mvv = sum v^2 f], [m0 = sum f] (raw moments about
    the zero bins).  The linear RF kick moves row [u] by [v += t*u] ([t = tan angle],
    RFKickMap::_calcKick), the drift moves column [v] by [u -= a*v] ([a = angle = slip[0]],
    DriftMap constructor); an interpolation scheme with at least three points transports the
    moments up to order two exactly as the continuous displacement does (C02 polynomial
    reproduction), and the 3-point Fokker-Planck step acts on the energy moments as
    Proofs/FokkerPlanckP.v proves ([fp3_moment0/1/2], [p = delta * v]).

    This file is the recurrence as an executable function; it is compared with the second
    moments measured on the implementation by the C04 check. *)
From Coq Require Import List ZArith.
From Inovesa Require Import Base.FieldKit Gen.Gen_FPStencil.
Import ListNotations.

Section SM.
  Variable K : Fld.
  Local Open Scope F_scope.

  Record mom2 := mkMom2 { muu : K; muv : K; mvv : K; m0 : K }.

  Definition sm_rf (t : K) (m : mom2) : mom2 :=
    mkMom2 (muu m) (muv m + t * muu m) (mvv m + two * t * muv m + t * t * muu m) (m0 m).

  Definition sm_drift (a : K) (m : mom2) : mom2 :=
    mkMom2 (muu m - two * a * muv m + a * a * mvv m) (muv m - a * mvv m) (mvv m) (m0 m).

  (** 3-point stencil; [delta] is the grid spacing in natural units *)
  Definition sm_fp (v : Z) (e1 delta : K) (m : mom2) : mom2 :=
    let d := opt (has_damp v) e1 in
    let f := opt (has_diff v) e1 in
    mkMom2 (muu m) ((1 - d) * muv m)
           ((1 - two * d) * mvv m + (two * f / (delta * delta) - d) * m0 m) (m0 m).

  Definition sm_step (v : Z) (a t e1 delta : K) (m : mom2) : mom2 :=
    sm_fp v e1 delta (sm_drift a (sm_rf t m)).

  Fixpoint sm_iter (k : nat) (v : Z) (a t e1 delta : K) (m : mom2) : mom2 :=
    match k with O => m | S j => sm_iter j v a t e1 delta (sm_step v a t e1 delta m) end.

  (** the quadratic form that kick and drift leave invariant *)
  Definition sm_J (a t : K) (m : mom2) : K := t * muu m + a * t * muv m + a * mvv m.
End SM.

Arguments mkMom2 {_}. Arguments muu {_}. Arguments muv {_}. Arguments mvv {_}. Arguments m0 {_}.
Arguments sm_rf {_}. Arguments sm_drift {_}. Arguments sm_fp {_}. Arguments sm_step {_}.
Arguments sm_iter {_}. Arguments sm_J {_}.

From Coq Require Import QArith Qcanon.
Definition smq_step (v : Z) (a t e1 delta : Qc) (m : list Qc) : list Qc :=
  match m with
  | [uu; uv; vv; z] =>
      let r := sm_step (K:=QcF) v a t e1 delta (mkMom2 (K:=QcF) uu uv vv z) in [muu r; muv r; mvv r; m0 r]
  | _ => m
  end.
Definition smq_J (a t : Qc) (m : list Qc) : Qc :=
  match m with
  | [uu; uv; vv; z] => sm_J (K:=QcF) a t (mkMom2 (K:=QcF) uu uv vv z)
  | _ => 0%Qc
  end.
