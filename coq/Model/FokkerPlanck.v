(** * Model of FokkerPlanckMap: the constructor's stencil table [_hinfo] and [apply()].

    Mirrors src/SM/FokkerPlanckMap.cpp as it is:
    - the table has [_ip = dt] entries per energy row ([SourceMap(in,out,1,ysize,dt,dt,..)]),
      [dt = 3] (two_sided) or [dt = 4] (cubic, one-sided, switching sides at zero energy);
    - weights start from [{j+c, 0 or 1}] and receive [+=] of the damping part when
      [_fptype != none && _fptype != diffusion_only] and of the diffusion part when
      [_fptype != none && _fptype != damping_only];
    - border rows are zero rows [{0,0}]; the order of the writes decides which row wins when
      loops overlap (cubic: the second loop starts at [(meshindex_t) ycenter] and overwrites
      the last row of the first loop when [zerobin] is not an integer; the final zero rows
      [n-2], [n-1] are written last);
    - [apply()] reads [data_in[offs + h.index]] without any range test.

    The leaf arithmetic of the rows ([row3], [row4lo], [row4hi], [e1_2d], ...) is generated
    from the C++ AST on every run (Gen/Gen_FPStencil.v, translate/stencil2coq.py); this file
    adds what the loops and the border rows do with it.

    Everything is written over a generic field; [QcF] is the executable instance. *)
From Coq Require Import List ZArith QArith Qcanon Lia Bool.
From Inovesa Require Import Base.FieldKit Base.Float32 Gen.Gen_FPStencil.
Import ListNotations.
Local Open Scope Z_scope.

Section Model.
  Variable K : Fld.
  Local Open Scope F_scope.

  Variables (e1 delta : K).
  (** the energy axis [in->p(j)] *)
  Variable p : Z -> K.

  Definition zero_row (ip : Z) : list (Z * K) := map (fun _ => (0%Z, 0)) (zrange ip).

  (** Row [j] of the table after the constructor has run, for grid size [n], derivation type
      [dt], Fokker-Planck type [v] (0 none, 1 damping_only, 2 diffusion_only, 3 full).
      [lo_end]: the first loop of the cubic case runs over [2 <= j < ycenter], i.e.
      [j < lo_end = ceil(ycenter)]; [hi_start = (meshindex_t) ycenter] is where the second
      loop starts.  Later writes win.  Rows that no statement writes (possible only outside
      the documented domain, see [fp_domain]) are returned as zero rows. *)
  Definition fp_row (dt v n lo_end hi_start j : Z) : list (Z * K) :=
    let dmp := has_damp v in
    let dif := has_diff v in
    if (dt =? 3)%Z then
      if (j =? n - 1)%Z then zero_row 3
      else if ((fp3_first <=? j) && (j <? n - fp3_last_off))%bool then row3 e1 delta dmp dif j (p j)
      else zero_row 3
    else
      if ((j =? n - 2) || (j =? n - 1))%bool then zero_row 4
      else if ((hi_start <=? j) && (j <? n - fp4_last_off))%bool then row4hi e1 delta dmp dif j (p j)
      else if ((fp4_first <=? j) && (j <? lo_end))%bool then row4lo e1 delta dmp dif j (p j)
      else zero_row 4.

  (** the flat table: [_hinfo[k]], [k = j*_ip + i] *)
  Definition fp_hinfo (dt v n lo_end hi_start : Z) (k : Z) : Z * K :=
    nth (Z.to_nat (k mod dt)) (fp_row dt v n lo_end hi_start (k / dt)) (0%Z, 0).

  (** ** apply: one energy column [r] (the cells [data_in[offs + .]]), output row [y] *)
  Definition fp_col_out (ip : Z) (H : Z -> Z * K) (r : Z -> K) (y : Z) : K :=
    fsum (map (fun j => let h := H (y * ip + j)%Z in r (fst h) * snd h) (zrange ip)).

  (** the three nested loops over bunches [b], columns [x] and rows [y], written as a function
      of the flat output index [i = offs + y], [offs = b*xs*n + x*n] *)
  Definition fp_apply (n xs ip : Z) (H : Z -> Z * K) (D : Z -> K) (i : Z) : K :=
    let b := (i / (xs * n))%Z in
    let x := ((i / n) mod xs)%Z in
    let y := (i mod n)%Z in
    let offs := (b * xs * n + x * n)%Z in
    fp_col_out ip H (fun s => D (offs + s)%Z) y.
End Model.

Arguments zero_row {_}. Arguments fp_row {_}. Arguments fp_hinfo {_}.
Arguments fp_col_out {_}. Arguments fp_apply {_}.

(** where the documented use lives: zero energy inside the grid, far enough from both ends
    for the stencils not to read outside the column *)
Definition fp_domain (dt n lo_end hi_start : Z) : Prop :=
  (n < 2 ^ 32)%Z /\
  ((dt = 3 /\ 2 <= n) \/
   (dt = 4 /\ 4 <= n /\ 2 <= hi_start <= n - 2 /\ hi_start <= lo_end <= hi_start + 1))%Z.

(** ** executable instance and list front-end used by the extracted driver *)

(** [j < ycenter] for an integer [j] and [(meshindex_t) ycenter] for [ycenter >= 0] *)
Definition Qcceil (q : Qc) : Z := (- Qcfloor (- q)%Qc)%Z.
Definition fp_switch (yc : Qc) : Z * Z := (Qcceil yc, Qctrunc yc).

Definition lget (l : list Qc) (i : Z) : Qc :=
  if (0 <=? i)%Z then nth (Z.to_nat i) l 0%Qc else 0%Qc.

Definition fp_table_list (dt v n : Z) (yc e1 delta : Qc) (axis : list Qc) : list (Z * Qc) :=
  let sw := fp_switch yc in
  map (fp_hinfo (K:=QcF) e1 delta (lget axis) dt v n (fst sw) (snd sw)) (zrange (n * dt)).

(** the table is computed once (as the constructor does) and read by [apply] *)
Definition hget (l : list (Z * Qc)) (i : Z) : Z * Qc :=
  if (0 <=? i)%Z then nth (Z.to_nat i) l (0%Z, 0%Qc) else (0%Z, 0%Qc).

Definition fp_apply_list (dt v n xs nb : Z) (yc e1 delta : Qc) (axis data : list Qc) : list Qc :=
  let H := hget (fp_table_list dt v n yc e1 delta axis) in
  map (fp_apply (K:=QcF) n xs dt H (lget data)) (zrange (nb * xs * n)).

(** [steps] applications in a row (input and output grids swapped by the caller in the C++) *)
Fixpoint fp_iter_list (steps : nat) (dt v n xs nb : Z) (yc e1 delta : Qc) (axis data : list Qc) : list Qc :=
  match steps with
  | O => data
  | S k => fp_iter_list k dt v n xs nb yc e1 delta axis (fp_apply_list dt v n xs nb yc e1 delta axis data)
  end.
