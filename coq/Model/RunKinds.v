(** The two statements of WakePotentialMap::update (src/SM/WakePotentialMap.cpp, CPU branch) whose order
    matters: the copy of the wake potential into the kick map's offset vector, and updateSM().
    Kept in a file of its own so that the generated [Gen/Gen_WakeUpdate.v] can name them. *)
Inductive wu_stmt : Set := WUCopy | WUUpdateSM.
