(** * Control flow of the append overloads of src/IO/HDF5File.cpp (C14; strengthening driven by seed F4-J)

    `translate/h5append2coq.py` translates the body of every method of HDF5File that calls `_appendData`
    (append(PhaseSpace,t,at), append(ElectricField,fullspectrum), append(WakeKickMap), appendPadded, appendTracks,
    appendRFKicks) into a block of this language (Gen/Gen_H5Append.v): every `_appendData` call, every `if`, every
    `return` - every path through the function.  A condition is evaluated when it only compares the AppendType parameter
    with enumerators or reads a bool parameter; EVERY other condition is opaque ([COpq n]): it may read members of
    the object (extents of a dataset, a remembered time, a counter: whatever the object remembers from EARLIER calls) or
    the contents of the arguments.  The semantics takes the value of each opaque condition from an arbitrary
    [h : Z -> bool]: quantifying over [h] covers every history of earlier calls and every argument.

    "All or nothing": whatever [h] says, one call appends exactly one record to every dataset of the overload's family
    (for append(ps,t,at) with at <> PhaseSpace that includes the time axis /Info/AxisValues_t) and nothing anywhere
    else - so the time-indexed datasets cannot get out of step with the time axis through this layer.  No proofs here. *)
From Coq Require Import List ZArith String Bool.
From Inovesa Require Import Base.FieldKit Model.Records.
Import ListNotations.
Local Open Scope Z_scope.

Definition atype_eqb (a b : atype) : bool :=
  match a, b with
  | AtAll, AtAll | AtDefaults, AtDefaults | AtPhaseSpace, AtPhaseSpace => true
  | _, _ => false
  end.

(** conditions *)
Inductive acond :=
| CAtIn (l : list atype)        (* the AppendType parameter equals one of the enumerators *)
| CPar (i : Z)                  (* the i-th parameter, a bool *)
| CNot (c : acond)
| CAnd (a b : acond)
| COr (a b : acond)
| CConst (b : bool)
| COpq (n : Z).                 (* anything else; n indexes the generated table [gen_append_opaque] (text, members read) *)

(** what an `_appendData` call appends to, and how many records *)
Inductive atarget := TDs (d : dset) | TRFKicks.
Inductive asize :=
| SLit (n : Z)                  (* a literal (the default argument is 1) *)
| SArgLen.                      (* `v.size()` of a parameter (appendRFKicks: one row per step since the last output) *)

(** a function body: plain inductive, like [Driver.blk] *)
Inductive ablk :=
| ADone                                   (* the end of the body is reached *)
| ARet                                    (* `return;` *)
| AApp (t : atarget) (n : asize) (r : ablk)
| ACond (c : acond) (t e r : ablk).        (* if (c) t else e; r   (r is skipped when the branch taken returned) *)

Section Sem.
  Variable a : atype.            (* value of the AppendType parameter *)
  Variable p : Z -> bool.        (* values of the bool parameters *)
  Variable h : Z -> bool.        (* values of the opaque conditions: history of the object, contents of the arguments *)

  Fixpoint ceval (c : acond) : bool :=
    match c with
    | CAtIn l => existsb (atype_eqb a) l
    | CPar i => p i
    | CNot c => negb (ceval c)
    | CAnd x y => ceval x && ceval y
    | COr x y => ceval x || ceval y
    | CConst b => b
    | COpq n => h n
    end.

  (** the `_appendData` calls of one execution, in order, and whether the body was left by `return` *)
  Fixpoint arun (b : ablk) : list (atarget * asize) * bool :=
    match b with
    | ADone => ([], false)
    | ARet => ([], true)
    | AApp t n r => let '(l, x) := arun r in ((t, n) :: l, x)
    | ACond c t e r =>
        let '(l1, x1) := arun (if ceval c then t else e) in
        if x1 then (l1, true) else let '(l2, x2) := arun r in (l1 ++ l2, x2)
    end.
End Sem.

(** what can be said about a condition without knowing [h] *)
Fixpoint ceval3 (a : atype) (p : Z -> bool) (c : acond) : option bool :=
  match c with
  | CAtIn l => Some (existsb (atype_eqb a) l)
  | CPar i => Some (p i)
  | CNot c => option_map negb (ceval3 a p c)
  | CAnd x y =>
      match ceval3 a p x, ceval3 a p y with
      | Some false, _ | _, Some false => Some false
      | Some true, Some true => Some true
      | _, _ => None
      end
  | COr x y =>
      match ceval3 a p x, ceval3 a p y with
      | Some true, _ | _, Some true => Some true
      | Some false, Some false => Some false
      | _, _ => None
      end
  | CConst b => Some b
  | COpq _ => None
  end.

(** every outcome the body can have for SOME values of the opaque conditions *)
Fixpoint paths (a : atype) (p : Z -> bool) (b : ablk) : list (list (atarget * asize) * bool) :=
  match b with
  | ADone => [([], false)]
  | ARet => [([], true)]
  | AApp t n r => map (fun o : list (atarget * asize) * bool => ((t, n) :: fst o, snd o)) (paths a p r)
  | ACond c t e r =>
      let bs := match ceval3 a p c with
                | Some true => paths a p t
                | Some false => paths a p e
                | None => paths a p t ++ paths a p e
                end in
      flat_map (fun o1 : list (atarget * asize) * bool =>
                  if snd o1 then [(fst o1, true)]
                  else map (fun o2 : list (atarget * asize) * bool => (fst o1 ++ fst o2, snd o2)) (paths a p r)) bs
  end.

Definition atarget_eqb (x y : atarget) : bool :=
  match x, y with
  | TDs d, TDs e => dset_eqb d e
  | TRFKicks, TRFKicks => true
  | _, _ => false
  end.

Definition sz (len : Z) (n : asize) : Z := match n with SLit k => k | SArgLen => len end.

(** records one execution adds to a target when the vector parameter has [len] elements *)
Definition added (len : Z) (t : atarget) (l : list (atarget * asize)) : Z :=
  fold_right Z.add 0 (map (fun e => sz len (snd e)) (filter (fun e => atarget_eqb (fst e) t) l)).

Definition all_targets : list atarget := TRFKicks :: map TDs all_dsets.

(** [added len t l = added 0 t l + len * added_len t l]: literal part and number of calls of size `v.size()` *)
Definition added_len (t : atarget) (l : list (atarget * asize)) : Z := added 1 t l - added 0 t l.

(** one record in every dataset of [fam], [rf] calls of size `v.size()` on /RFKicks/data, nothing anywhere else *)
Definition outcome_ok (fam : list dset) (rf : Z) (l : list (atarget * asize)) : bool :=
  forallb (fun t => (added 0 t l =? match t with
                                    | TDs d => if existsb (dset_eqb d) fam then 1 else 0
                                    | TRFKicks => 0
                                    end) &&
                    (added_len t l =? match t with TDs _ => 0 | TRFKicks => rf end)) all_targets.

Definition body_ok (a : atype) (p : Z -> bool) (fam : list dset) (rf : Z) (b : ablk) : bool :=
  forallb (fun o => outcome_ok fam rf (fst o)) (paths a p b).

(** the families: which datasets one call of an overload is meant to extend (Model/Records.v: the schedule model of
    C10/C11, whose call orders C10 proves equal to the generated tables) *)
Definition fam_ps (a : atype) : list dset := map fst (append_ps a 0).
Definition fam_ef (fullspectrum : bool) : list dset := if fullspectrum then map fst (append_ef 0) else [DCsrIntensity].
Definition fam_wake : list dset := map fst (append_wake 0).
Definition fam_tracks : list dset := map fst (append_tracks 0).
Definition fam_padded : list dset := map fst (append_padded 0).

Definition all_atypes : list atype := [AtAll; AtDefaults; AtPhaseSpace].
Definition nopar : Z -> bool := fun _ => false.

(** the per-run obligation on the six generated bodies *)
Definition appends_ok (bps bef bwake btracks bpadded brf : ablk) : bool :=
  forallb (fun a => body_ok a nopar (fam_ps a) 0 bps) all_atypes &&
  forallb (fun fs => body_ok AtAll (fun _ => fs) (fam_ef fs) 0 bef) [true; false] &&
  body_ok AtAll nopar fam_wake 0 bwake &&
  body_ok AtAll nopar fam_tracks 0 btracks &&
  body_ok AtAll nopar fam_padded 0 bpadded &&
  body_ok AtAll nopar [] 1 brf.

(** the statements of the `_appendData` template, by what they do to the file: the body must be a straight line that extends
    the dataset once and then writes once (an `if (size == 0) return;` or a retry loop would make the number of records a call
    adds depend on something else than its [size]); the index arithmetic of that line is C10's (Gen_H5Index) *)
Inductive adstmt := DExtend | DWrite | DOther | DBranch | DReturn | DLoop.
Definition appenddata_ok (l : list adstmt) : bool :=
  match filter (fun s => match s with DOther => false | _ => true end) l with
  | [DExtend; DWrite] => true
  | _ => false
  end.

(** does a body mention an opaque condition at all (reported, not required) *)
Fixpoint cond_opaque (c : acond) : list Z :=
  match c with
  | COpq n => [n]
  | CNot c => cond_opaque c
  | CAnd x y | COr x y => cond_opaque x ++ cond_opaque y
  | _ => []
  end.
Fixpoint opaque_of (b : ablk) : list Z :=
  match b with
  | ADone | ARet => []
  | AApp _ _ r => opaque_of r
  | ACond c t e r => cond_opaque c ++ opaque_of t ++ opaque_of e ++ opaque_of r
  end.
