(** * Typed expression trees of floating-point code, and a rounding-error bound calculator.

    [fexpr] keeps what the exact-arithmetic generators (Gen_Coeffs ...) erase: the precision every
    operation is performed in and every conversion ([interpol_t(-1./6.)] is a binary64 quotient
    narrowed to binary32).  [evalR] is the exact real value.  [bnd e lo hi] computes, for the variable
    ranging over [lo,hi], an enclosure [l,h] of the exact value and a bound [E] on
    |computed - exact| valid for EVERY evaluation in which each operation is rounded at most once
    (Proofs/FExprP.v: [bnd_sound]); it is executable (fixed-point integer arithmetic in units of 2^-64, enclosures rounded
    outward, error bounds upward) and is run by Coq ([vm_compute] in the proofs)
    and, extracted, by the harness, on the trees regenerated from the C++ on every run. *)
From Coq Require Import ZArith QArith Qminmax Qabs Qround List Bool.
From Inovesa Require Import Base.Float32.
Import ListNotations.

Inductive prec := P32 | P64.
Inductive fop := FAdd | FSub | FMul | FDiv.

Inductive fexpr :=
| FVar                                        (* the function's float argument *)
| FLit (q : Q)                                (* a mathematical constant, exact *)
| FNeg (a : fexpr)
| FOp (p : prec) (o : fop) (a b : fexpr)      (* one operation, performed in precision [p] *)
| FCast (p : prec) (a : fexpr).               (* conversion to precision [p] (of a literal: its value in [p]) *)

(** ** representable constants: m * 2^-k with |m| < 2^prec, -k >= emin *)
Definition prec_bits (p : prec) : Z := match p with P32 => 24 | P64 => 53 end.
Definition prec_emin (p : prec) : Z := match p with P32 => -149 | P64 => -1074 end.

Definition pow2_log (d : positive) : option Z :=
  let k := Z.log2 (Zpos d) in if (Zpos d =? 2 ^ k)%Z then Some k else None.

Definition repr (p : prec) (q : Q) : bool :=
  match pow2_log (Qden q) with
  | Some k => (Z.abs (Qnum q) <? 2 ^ prec_bits p)%Z && (prec_emin p <=? - k)%Z
  | None => false
  end.

(** ** the calculator: fixed-point integers, [z] stands for [z * 2^-64]; enclosures are rounded
    outward and error bounds upward, so every number stays below ~150 bits and only shifts,
    additions and multiplications are used (a division only at literals and [FDiv] nodes) *)
Local Open Scope Z_scope.
Definition sc : Z := 64.
Definition one_fx : Z := Eval vm_compute in 2 ^ 64.
Definition flo (z : Z) (k : Z) : Z := Z.shiftr z k.              (* floor (z / 2^k) *)
Definition cei (z : Z) (k : Z) : Z := - Z.shiftr (- z) k.        (* ceiling (z / 2^k) *)
Definition fdivZ (a b : Z) : Z := a / b.                          (* floor (a / b) *)
Definition cdivZ (a b : Z) : Z := - ((- a) / b).                  (* ceiling (a / b) *)

Definition ubits (p : prec) : Z := match p with P32 => 24 | P64 => 53 end.
Definition mag (l h : Z) : Z := Z.max (Z.abs l) (Z.abs h).
Definition min4 (a b c d : Z) : Z := Z.min (Z.min a b) (Z.min c d).
Definition max4 (a b c d : Z) : Z := Z.max (Z.max a b) (Z.max c d).

(** error after one rounding in precision [p] of a value whose exact counterpart lies within
    magnitude [M] and which already carries the error [E0]: E0 + u (M + E0) + eta, the absolute
    (underflow) term eta = 2^-150 / 2^-1075 being bounded by one unit 2^-64 *)
Definition rndE (p : prec) (M E0 : Z) : Z := E0 + cei (M + E0) (ubits p) + 1.

Definition is_lit (e : fexpr) : option Q := match e with FLit q => Some q | _ => None end.

Fixpoint bnd (e : fexpr) (lo hi : Z) : option (Z * Z * Z) :=
  match e with
  | FVar => Some (lo, hi, 0)
  | FLit q => Some (fdivZ (Qnum q * one_fx) (Zpos (Qden q)), cdivZ (Qnum q * one_fx) (Zpos (Qden q)), 0)
  | FNeg a =>
      match bnd a lo hi with
      | Some (l, h, E) => Some (- h, - l, E)
      | None => None
      end
  | FCast p a =>
      match bnd a lo hi with
      | Some (l, h, E) =>
          match is_lit a with
          | Some q => if repr p q then Some (l, h, E) else Some (l, h, rndE p (mag l h) E)
          | None => Some (l, h, rndE p (mag l h) E)
          end
      | None => None
      end
  | FOp p o a b =>
      match bnd a lo hi, bnd b lo hi with
      | Some (la, ha, Ea), Some (lb, hb, Eb) =>
          let Ma := mag la ha in
          let Mb := mag lb hb in
          match o with
          | FAdd => let l := la + lb in let h := ha + hb in
                    Some (l, h, rndE p (mag l h) (Ea + Eb))
          | FSub => let l := la - hb in let h := ha - lb in
                    Some (l, h, rndE p (mag l h) (Ea + Eb))
          | FMul => let l := flo (min4 (la * lb) (la * hb) (ha * lb) (ha * hb)) sc in
                    let h := cei (max4 (la * lb) (la * hb) (ha * lb) (ha * hb)) sc in
                    Some (l, h, rndE p (mag l h) (cei (Ea * Mb) sc + cei (Eb * Ma) sc + cei (Ea * Eb) sc))
          | FDiv =>
              if (0 <? lb) || (hb <? 0) then
                let mb := Z.min (Z.abs lb) (Z.abs hb) in
                if Eb <? mb then
                  let il := fdivZ (one_fx * one_fx) hb in
                  let ih := cdivZ (one_fx * one_fx) lb in
                  let l := flo (min4 (la * il) (la * ih) (ha * il) (ha * ih)) sc in
                  let h := cei (max4 (la * il) (la * ih) (ha * il) (ha * ih)) sc in
                  Some (l, h, rndE p (mag l h)
                                (cdivZ (Ea * one_fx) (mb - Eb) + cdivZ (Ma * Eb * one_fx) ((mb - Eb) * mb)))
                else None
              else None
          end
      | _, _ => None
      end
  end.

(** ** tables over the uniform subdivision of [0,1] into 2^k cells: cell [c] is [c/2^k, (c+1)/2^k] *)
Definition cell_lo (k c : Z) : Z := Z.shiftl c (sc - k).
Definition cell_hi (k c : Z) : Z := Z.shiftl (c + 1) (sc - k).

(** per cell: for every tree the enclosure magnitude of the exact value and the error bound *)
Definition cell_row (ts : list fexpr) (k c : Z) : option (list (Z * Z)) :=
  fold_right (fun t acc =>
                match bnd t (cell_lo k c) (cell_hi k c), acc with
                | Some (l, h, E), Some r => Some ((mag l h, E) :: r)
                | _, _ => None
                end) (Some []) ts.

Definition Zsum (l : list Z) : Z := fold_right Z.add 0 l.

(** [z * 2^-64 <= q] *)
Definition fx_le_Q (z : Z) (q : Q) : bool := z * Zpos (Qden q) <=? Qnum q * one_fx.

(** the checks the theorems are discharged by: on every cell the error bounds sum to at most [B], each
    is at most [B1], and the magnitudes sum to at most [L] *)
Definition cell_ok (ts : list fexpr) (k : Z) (B B1 L : Q) (c : Z) : bool :=
  match cell_row ts k c with
  | Some r => fx_le_Q (Zsum (map snd r)) B && forallb (fun me => fx_le_Q (snd me) B1) r
              && fx_le_Q (Zsum (map fst r)) L
  | None => false
  end.

Definition cells (k : Z) : list Z := map Z.of_nat (seq 0 (Z.to_nat (2 ^ k))).

Definition all_cells_ok (ts : list fexpr) (k : Z) (B B1 L : Q) : bool :=
  (0 <=? k) && (k <=? sc) && forallb (cell_ok ts k B B1 L) (cells k).

(** the table the harness reads (extracted): per cell the error bounds of the trees, in units of 2^-64 *)
Definition err_table (ts : list fexpr) (k : Z) : list (option (list Z)) :=
  map (fun c => match cell_row ts k c with Some r => Some (map snd r) | None => None end) (cells k).
Local Close Scope Z_scope.

(** exact rational value, for the extracted driver *)
Fixpoint evalQ (e : fexpr) (f : Q) : Q :=
  match e with
  | FVar => f
  | FLit q => q
  | FNeg a => - evalQ a f
  | FCast _ a => evalQ a f
  | FOp _ o a b =>
      match o with
      | FAdd => evalQ a f + evalQ b f
      | FSub => evalQ a f - evalQ b f
      | FMul => evalQ a f * evalQ b f
      | FDiv => evalQ a f / evalQ b f
      end
  end.

(** ** executable IEEE evaluation on rationals (every binary32/binary64 value is a rational)

    [rndQ p q]: the value of precision [p] nearest to [q], ties to even, subnormals, no overflow (the
    generalisation of [Base.Float32.rnd32Q]; [rndQ P32 = rnd32Q] by computation; Proofs/FlEvalQP.v proves
    that it is Flocq's rounding and that [fl_evalQ] is [FExprP.fl_eval_sel] on the reals).
    [fl_evalQ contract e f]: every operation and conversion of [e] rounded to nearest in its precision;
    with [contract = true] a product that is an operand of an addition or subtraction of the same
    precision is not rounded (fused multiply-add: the left operand if it is a product, else the right). *)
Definition rndQ (p : prec) (q : Q) : Q :=
  if Qeq_bool q 0 then 0%Q else
  let a := Qabs' q in
  let t := (prec_bits p - 1)%Z in
  let e := Z.max (Qlog2 a) (prec_emin p + t) in
  let m := Qrne (a * Qpow2 (t - e)) in
  let v := (inject_Z m * Qpow2 (e - t))%Q in
  if Qle_bool 0 q then v else Qopp v.

Definition prec_eqb (p q : prec) : bool :=
  match p, q with P32, P32 | P64, P64 => true | _, _ => false end.

Definition opQ (o : fop) (a b : Q) : Q :=
  match o with FAdd => a + b | FSub => a - b | FMul => a * b | FDiv => a / b end.

(** [fl_evalQ_gen contract rounded e f]: [rounded = false] asks for the unrounded value of the root operation *)
Fixpoint fl_evalQ_gen (contract : bool) (rounded : bool) (e : fexpr) (f : Q) : Q :=
  match e with
  | FVar => f
  | FLit q => q
  | FNeg a => Qopp (fl_evalQ_gen contract true a f)
  | FCast p a => rndQ p (fl_evalQ_gen contract true a f)
  | FOp p o a b =>
      let addsub := match o with FAdd | FSub => true | _ => false end in
      let is_mul x := match x with FOp q FMul _ _ => prec_eqb p q | _ => false end in
      let fuse_a := contract && addsub && is_mul a in
      let fuse_b := contract && addsub && negb (is_mul a) && is_mul b in
      let va := fl_evalQ_gen contract (negb fuse_a) a f in
      let vb := fl_evalQ_gen contract (negb fuse_b) b f in
      let x := opQ o va vb in
      if rounded then rndQ p x else x
  end.

Definition fl_evalQ (contract : bool) (e : fexpr) (f : Q) : Q := fl_evalQ_gen contract true e f.
