(** * The loop nest of FokkerPlanckMap::apply as the source has it (Gen/Gen_FPLoop.v), run as a program.

    [Gen_FPLoop] (translate/fploop2coq.py, regenerated on every run) holds the ranges of the four loops and the three
    index expressions; the translator has checked that the function body is nothing but
    [data_in = _in->getData(); data_out = _out->getData();] and this nest, without any conditional, [continue],
    [break], [return] or call.  Here the nest is interpreted: [zfor lo hi body s] runs [body lo], [body (lo+1)], ...,
    [body (hi-1)] on the state; the state of the three outer loops is the output array [data_out] (a function of the
    flat index; cells not written keep what the array held before), the state of the innermost loop the accumulator
    [value].  No proofs here (Proofs/FPLoopP.v). *)
From Coq Require Import List ZArith.
From Inovesa Require Import Base.FieldKit Gen.Gen_FPLoop.
Import ListNotations.
Local Open Scope Z_scope.

Definition zfor {S : Type} (lo hi : Z) (body : Z -> S -> S) (s : S) : S :=
  fold_left (fun t k => body k t) (map (fun k => lo + k) (zrange (hi - lo))) s.

Section Loop.
  Variable K : Fld.
  Local Open Scope F_scope.

  (** [data_out[i] = v] *)
  Definition upd (o : Z -> K) (i : Z) (v : K) : Z -> K := fun k => if (k =? i)%Z then v else o k.

  (** the accumulator after the loop over the stencil points of output cell (b, x, y) *)
  Definition fpl_value (nb xs n ip : Z) (H : Z -> Z * K) (D : Z -> K) (b x y : Z) : K :=
    zfor (fpl_j_lo nb xs n ip b x y) (fpl_j_hi nb xs n ip b x y)
         (fun j value => let h := H (fpl_hinfo nb xs n ip b x y j) in
                         value + D (fpl_read nb xs n ip b x y j (fst h)) * snd h) 0.

  (** the whole nest: [out0] is what [data_out] held before the call *)
  Definition fp_apply_loops (nb xs n ip : Z) (H : Z -> Z * K) (D : Z -> K) (out0 : Z -> K) : Z -> K :=
    zfor (fpl_b_lo nb xs n ip) (fpl_b_hi nb xs n ip) (fun b =>
      zfor (fpl_x_lo nb xs n ip b) (fpl_x_hi nb xs n ip b) (fun x =>
        zfor (fpl_y_lo nb xs n ip b x) (fpl_y_hi nb xs n ip b x) (fun y out =>
          upd out (fpl_write nb xs n ip b x y) (fpl_value nb xs n ip H D b x y)))) out0.
End Loop.

Arguments upd {_}. Arguments fpl_value {_}. Arguments fp_apply_loops {_}.
