(** * Model of PhaseSpace: Simpson weights, projections, integral, normalisation, moments,
      copy construction and assignment (src/PS/PhaseSpace.cpp, inc/PS/PhaseSpace.hpp, inc/PS/Ruler.hpp).

    Mirrors the code as it is:
    - [simpson_weights] is the loop of [PhaseSpace::simpsonWeights]: first and last weight h/3, the
      interior alternates 4h/3, 2h/3 starting with 4h/3 - for an even number of grid points this is
      *not* the composite Simpson rule (the last interior weight is 2h/3); h is the spacing of AXIS 0;
    - both projections and the integral use that one weight vector (so the y-integration of the
      x projection is done with axis 0's spacing);
    - [integrate] reads the cached x projection, [normalize] reads the cached measured filling,
      [average]/[variance] read the cached projection and the cached filling; nothing refreshes
      a cache except the call that owns it;
    - moments are rectangle sums [delta * sum proj_i q_i] divided by the Simpson charge;
    - data are bunch-major [data b x y]; the sizes n (both axes) and nb are process-global;
    - the copy constructor re-derives projections and integral from the copied data, moments
      start at zero; [operator=] copies its argument, swaps the data and (since the fix commit)
      re-derives projections and integral; axes and set filling of the target are [const].
    No proofs here (Proofs/MomentsP.v). *)
From Coq Require Import List ZArith Lia Bool QArith Qcanon.
From Inovesa Require Import Base.FieldKit Base.Sums.
Import ListNotations.

(** an array: a function tabulated once on [0,n) (the extracted code evaluates the list when
    the closure is built), default outside *)
Definition tabA {A : Type} (d : A) (n : Z) (f : Z -> A) : Z -> A :=
  let l := map f (zrange n) in
  fun i => if (0 <=? i)%Z then nth (Z.to_nat i) l d else d.

Section Moments.
  Variable K : Fld.
  (** the test [x > 0] of the code ([_filling_set[n] > 0]); the theorems hold for every such test *)
  Variable pos : K -> bool.
  Local Open Scope F_scope.

  Definition sumn (n : Z) (g : Z -> K) : K := sumZ 0%Z (Z.to_nat n) g.

  Definition getl (l : list K) (i : Z) : K :=
    if (0 <=? i)%Z then nth (Z.to_nat i) l 0 else 0.

  (** ** simpsonWeights: [rv[x] = h03 * (ca + dc); dc = -dc] for x = 1 .. n-2 *)
  Fixpoint simpson_mid (h03 dc : K) (k : nat) : list K :=
    match k with
    | O => []
    | S k' => h03 * (three + dc) :: simpson_mid h03 (- dc) k'
    end.

  Definition simpson_weights (n : Z) (delta0 : K) : list K :=
    let h03 := delta0 / three in
    if (n <=? 1)%Z then [h03]
    else h03 :: simpson_mid h03 1 (Z.to_nat (n - 2)) ++ [h03].

  (** ** geometry: what is [const] in a PhaseSpace object (plus the global sizes) *)
  Record geom := mkGeom {
    gn : Z; gnb : Z;
    gmin0 : K; gd0 : K;        (* Ruler of axis 0: min and delta *)
    gmin1 : K; gd1 : K;        (* Ruler of axis 1 *)
    gfs : Z -> K }.            (* _filling_set *)

  Definition gdelta (g : geom) (axis : Z) : K := if (axis =? 0)%Z then gd0 g else gd1 g.
  (** Ruler::at(i) = min + i*delta *)
  Definition gqp (g : geom) (axis i : Z) : K :=
    if (axis =? 0)%Z then gmin0 g + fz i * gd0 g else gmin1 g + fz i * gd1 g.
  (** _ws: built from axis 0 only *)
  Definition ws (g : geom) : Z -> K := getl (simpson_weights (gn g) (gd0 g)).

  (** ** object state *)
  Record state := mkState {
    sdata : Z -> Z -> Z -> K;      (* _data[b][x][y] *)
    sprojx : Z -> Z -> K;          (* _projection[0][b][x] *)
    sprojy : Z -> Z -> K;          (* _projection[1][b][y] *)
    sfill : Z -> K;                (* _filling[b] (measured) *)
    sint : K;                      (* _integral *)
    smom : Z -> Z -> Z -> K }.     (* _moment[axis][order][b] *)

  Definition sproj (s : state) (axis : Z) : Z -> Z -> K :=
    if (axis =? 0)%Z then sprojx s else sprojy s.

  Definition tab2 (a b : Z) (f : Z -> Z -> K) : Z -> Z -> K :=
    tabA (fun _ => 0) a (fun i => tabA 0 b (f i)).
  Definition tab3 (a b c : Z) (f : Z -> Z -> Z -> K) : Z -> Z -> Z -> K :=
    tabA (fun _ _ => 0) a (fun i => tab2 b c (f i)).

  (** updateXProjection: inner_product(_data[b][x], _ws) *)
  Definition updateX (g : geom) (s : state) : state :=
    let w := ws g in
    mkState (sdata s)
            (tab2 (gnb g) (gn g) (fun b x => sumn (gn g) (fun y => sdata s b x y * w y)))
            (sprojy s) (sfill s) (sint s) (smom s).

  (** updateYProjection: sum_x _data[b][x][y]*_ws[x] *)
  Definition updateY (g : geom) (s : state) : state :=
    let w := ws g in
    mkState (sdata s) (sprojx s)
            (tab2 (gnb g) (gn g) (fun b y => sumn (gn g) (fun x => sdata s b x y * w x)))
            (sfill s) (sint s) (smom s).

  (** integrate: _filling[b] = inner_product(_projection[0][b], _ws); _integral = sum *)
  Definition integrate (g : geom) (s : state) : state :=
    let w := ws g in
    let f := tabA 0 (gnb g) (fun b => sumn (gn g) (fun x => sprojx s b x * w x)) in
    mkState (sdata s) (sprojx s) (sprojy s) f (sumn (gnb g) f) (smom s).

  (** normalize: _data[b] *= _filling_set[b]/_filling[b] (cached), or zero for an empty bucket *)
  Definition normalize (g : geom) (s : state) : state :=
    mkState (tab3 (gnb g) (gn g) (gn g)
               (fun b x y => if pos (gfs g b) then sdata s b x y * (gfs g b / sfill s b) else 0))
            (sprojx s) (sprojy s) (sfill s) (sint s) (smom s).

  Definition set_mom (m : Z -> Z -> Z -> K) (axis order : Z) (t : Z -> K) : Z -> Z -> Z -> K :=
    fun a o b => if ((a =? axis)%Z && (o =? order)%Z)%bool then t b else m a o b.

  (** average(axis) *)
  Definition avg_val (g : geom) (s : state) (axis b : Z) : K :=
    if pos (gfs g b)
    then sumn (gn g) (fun i => sproj s axis b i * gqp g axis i) * (gdelta g axis / sfill s b)
    else 0.

  Definition average (g : geom) (axis : Z) (s : state) : state :=
    let t := tabA 0 (gnb g) (avg_val g s axis) in
    mkState (sdata s) (sprojx s) (sprojy s) (sfill s) (sint s) (set_mom (smom s) axis 0 t).

  (** variance(axis): average(axis) first, then the second central moment *)
  Definition var_val (g : geom) (s : state) (axis b : Z) : K :=
    if pos (gfs g b)
    then sumn (gn g) (fun i => sproj s axis b i *
                               ((gqp g axis i - smom s axis 0 b) * (gqp g axis i - smom s axis 0 b)))
         * (gdelta g axis / sfill s b)
    else 0.

  Definition variance (g : geom) (axis : Z) (s : state) : state :=
    let s1 := average g axis s in
    let t := tabA 0 (gnb g) (var_val g s1 axis) in
    mkState (sdata s1) (sprojx s1) (sprojy s1) (sfill s1) (sint s1) (set_mom (smom s1) axis 1 t).

  (** constructor from a data pointer: copy the data, updateX, updateY, integrate;
      _filling starts at 0, _integral at 1, projections and moments at 0 *)
  Definition refresh (g : geom) (s : state) : state := integrate g (updateY g (updateX g s)).

  Definition construct (g : geom) (D : Z -> Z -> Z -> K) : state :=
    refresh g (mkState (tab3 (gnb g) (gn g) (gn g) D)
                       (fun _ _ => 0) (fun _ _ => 0) (fun _ => 0) 1 (fun _ _ _ => 0)).

  (** copy constructor: same axes, same set filling, data pointer of the other object *)
  Definition copy (g : geom) (s : state) : state := construct g (sdata s).

  (** operator=(PhaseSpace other): [other] is a copy (made with the source's own geometry [g']);
      swap exchanges _data only; the fixed tree then re-derives projections and integral.
      Axes, set filling and weights of the target ([g]) are const and stay. *)
  Definition assign (g g' : geom) (this other : state) : state :=
    let c := copy g' other in
    refresh g (mkState (sdata c) (sprojx this) (sprojy this) (sfill this) (sint this) (smom this)).

  (** the pinned tree's operator= (before the fix commit): data swapped, everything else stale *)
  Definition assign_pinned (g g' : geom) (this other : state) : state :=
    let c := copy g' other in
    mkState (sdata c) (sprojx this) (sprojy this) (sfill this) (sint this) (smom this).

  (** ** operation histories (driver) *)
  Definition run_op (g : geom) (s : state) (op : Z) : state :=
    if (op =? 0)%Z then updateX g s
    else if (op =? 1)%Z then updateY g s
    else if (op =? 2)%Z then integrate g s
    else if (op =? 3)%Z then normalize g s
    else if (op =? 4)%Z then average g 0 s
    else if (op =? 5)%Z then average g 1 s
    else if (op =? 6)%Z then variance g 0 s
    else if (op =? 7)%Z then variance g 1 s
    else if (op =? 8)%Z then normalize g (integrate g s)      (* PhaseSpace::integrateAndNormalize (inline, PhaseSpace.hpp) *)
    else s.
  Definition run_ops (g : geom) (s : state) (ops : list Z) : state := fold_left (run_op g) ops s.

  (** ** specification functions (what the property talks about; never used by the model) *)
  Definition first_moment (n : Z) (delta : K) (q : Z -> K) (r : Z -> K) (charge : K) : K :=
    delta * sumn n (fun i => r i * q i) / charge.
  Definition second_central_moment (n : Z) (delta : K) (q : Z -> K) (r : Z -> K) (charge mean : K) : K :=
    delta * sumn n (fun i => r i * ((q i - mean) * (q i - mean))) / charge.
  (** Simpson charge of bunch [b] of a data array, as the code measures it *)
  Definition charge_of (g : geom) (D : Z -> Z -> Z -> K) (b : Z) : K :=
    sumn (gn g) (fun x => sumn (gn g) (fun y => D b x y * ws g y) * ws g x).

  (** ** dumps for the driver *)
  Definition dump1 (n : Z) (f : Z -> K) : list K := map f (zrange n).
  Definition dump2 (a b : Z) (f : Z -> Z -> K) : list K := flat_map (fun i => dump1 b (f i)) (zrange a).
  Definition dump3 (a b c : Z) (f : Z -> Z -> Z -> K) : list K := flat_map (fun i => dump2 b c (f i)) (zrange a).
End Moments.

Arguments gn {_}. Arguments gnb {_}. Arguments gmin0 {_}. Arguments gd0 {_}.
Arguments gmin1 {_}. Arguments gd1 {_}. Arguments gfs {_}.
Arguments sdata {_}. Arguments sprojx {_}. Arguments sprojy {_}. Arguments sfill {_}.
Arguments sint {_}. Arguments smom {_}.

(** ** the executable instance *)
Definition posQc (q : Qc) : bool := match (0 ?= q)%Qc with Lt => true | _ => false end.

Definition geomQ (n nb : Z) (min0 d0 min1 d1 : Qc) (fs : list Qc) : geom QcF :=
  mkGeom QcF n nb min0 d0 min1 d1 (getl QcF fs).

(** data of the driver: flat bunch-major list -> array function *)
Definition dataQ (n : Z) (l : list Qc) : Z -> Z -> Z -> Qc :=
  fun b x y => getl QcF l ((b * n + x) * n + y)%Z.

Definition dump_state (g : geom QcF) (s : state QcF) : list (list Qc) :=
  let n := gn g in let nb := gnb g in
  [ dump3 QcF nb n n (sdata s); dump2 QcF nb n (sprojx s); dump2 QcF nb n (sprojy s);
    dump1 QcF nb (sfill s); [sint s];
    dump1 QcF nb (smom s 0 0)%Z; dump1 QcF nb (smom s 0 1)%Z;
    dump1 QcF nb (smom s 1 0)%Z; dump1 QcF nb (smom s 1 1)%Z ].

(** one correspondence case: geometry and data of the object, an operation history, then
    dumps of: the object, its copy (moments after variance on both axes), and a second object
    (own geometry [g2], data [data2]) after [second = object] (before and after variance) *)
Definition moments_case (n nb : Z) (min0 d0 min1 d1 : Qc) (fs : list Qc)
           (min0' d0' min1' d1' : Qc) (fs' : list Qc) (ops : list Z) (data data2 : list Qc)
  : list (list (list Qc)) :=
  let g := geomQ n nb min0 d0 min1 d1 fs in
  let g2 := geomQ n nb min0' d0' min1' d1' fs' in
  let s := run_ops QcF posQc g (construct QcF g (dataQ n data)) ops in
  let c := copy QcF g s in
  let cv := variance QcF posQc g 1 (variance QcF posQc g 0 c) in
  let t0 := construct QcF g2 (dataQ n data2) in
  let t := assign QcF g2 g t0 s in
  let tv := variance QcF posQc g2 1 (variance QcF posQc g2 0 t) in
  [ [ dump1 QcF n (ws QcF g); dump1 QcF n (gqp QcF g 0); dump1 QcF n (gqp QcF g 1) ];
    dump_state g s; dump_state g c; dump_state g cv; dump_state g2 t; dump_state g2 tv ].
