(** * Records: the output schedule of src/main.cpp and the file layer of src/IO/HDF5File.cpp
    (DESIGN 5/C10, C11).  Executable model only; lemmas are in Proofs/RecordsP.v.

    The results file is modelled as the *log of _appendData calls*: a list of (dataset, tag)
    where the tag is the value of [simulationstep] the appended record was computed at.  "Each
    record describes one instant" is then the statement that all time-indexed datasets carry the
    same list of tags as the time axis.  The payloads themselves are handled by the file-layer
    model in the second half (flat buffers, row-major datasets, hyperslab read). *)
From Coq Require Import List ZArith Bool Lia QArith Qcanon.
From Inovesa Require Import Base.FieldKit.
From Inovesa Require Model.Bounds.
Import ListNotations.
Local Open Scope Z_scope.

(** ** (a) schedule *)

(** datasets that grow by [_appendData] (RFKicks, one row per *step*, is C19's) *)
Inductive dset :=
| DT | DProfile | DLength | DPosition | DEProfile | DESpread | DEAverage | DPopulation
| DCsrSpectrum | DCsrIntensity | DWake | DParticles
| DPSAxis | DPSData | DPadProfile | DPadPotential.

Definition dset_id (d : dset) : Z :=
  match d with
  | DT => 0 | DProfile => 1 | DLength => 2 | DPosition => 3 | DEProfile => 4 | DESpread => 5
  | DEAverage => 6 | DPopulation => 7 | DCsrSpectrum => 8 | DCsrIntensity => 9 | DWake => 10
  | DParticles => 11 | DPSAxis => 12 | DPSData => 13 | DPadProfile => 14 | DPadPotential => 15
  end.
Definition dset_eqb (a b : dset) : bool := dset_id a =? dset_id b.

Definition all_dsets : list dset :=
  [DT; DProfile; DLength; DPosition; DEProfile; DESpread; DEAverage; DPopulation;
   DCsrSpectrum; DCsrIntensity; DWake; DParticles; DPSAxis; DPSData; DPadProfile; DPadPotential].

Definition log := list (dset * Z).
Definition records (d : dset) (l : log) : list Z :=
  map snd (filter (fun e => dset_eqb (fst e) d) l).

(** HDF5File::append(const PhaseSpace&, t, AppendType): the order of the _appendData calls *)
Inductive atype := AtAll | AtDefaults | AtPhaseSpace.

Definition defaults_group : list dset :=
  [DT; DProfile; DLength; DPosition; DEProfile; DESpread; DEAverage; DPopulation].

Definition append_ps (a : atype) (k : Z) : log :=
  (match a with AtAll | AtPhaseSpace => [(DPSAxis, k); (DPSData, k)] | AtDefaults => [] end)
  ++ (match a with AtPhaseSpace => [] | _ => map (fun d => (d, k)) defaults_group end).
(** append(ElectricField, fullspectrum = true) *)
Definition append_ef (k : Z) : log := [(DCsrSpectrum, k); (DCsrIntensity, k)].
Definition append_wake (k : Z) : log := [(DWake, k)].
Definition append_tracks (k : Z) : log := [(DParticles, k)].
Definition append_padded (k : Z) : log := [(DPadProfile, k); (DPadPotential, k)].

(** what the schedule depends on: outstep, SavePhaseSpace, and whether a wake field exists
    ([wake_field != nullptr], equivalently [wkm != nullptr]) *)
Record cfg := mkCfg { outstep : Z; save : Z; haswake : bool }.

(** [outstep > 0 && simulationstep%outstep == 0] *)
Definition is_out (c : cfg) (k : Z) : bool := (0 <? outstep c) && (k mod outstep c =? 0).
(** [(h5save > 0 && outstepnr%h5save == 0) ? All : Defaults] *)
Definition at_of (c : cfg) (nr : Z) : atype :=
  if (0 <? save c) && (nr mod save c =? 0) then AtAll else AtDefaults.

(** the [if (hdf_file != nullptr)] part of the output block, main.cpp 977-996 *)
Definition out_block (c : cfg) (k nr : Z) : log :=
  append_ps (at_of c nr) k ++ append_ef k
  ++ (if haswake c then append_wake k else []) ++ append_tracks k.
(** before the loop, main.cpp 911-922 *)
Definition init_block (c : cfg) : log :=
  (if haswake c then append_padded 0 else [])
  ++ (if save c =? 0 then append_ps AtPhaseSpace 0 else []).
(** after the loop, main.cpp 1057-1100 *)
Definition final_block (c : cfg) (k : Z) : log :=
  append_ps AtAll k ++ append_ef k ++ (if haswake c then append_wake k else [])
  ++ append_tracks k ++ (if haswake c then append_padded k else []).

(** the loop [while (simulationstep<laststep && !abort)], as many iterations as were executed;
    state = (simulationstep, outstepnr, log) *)
Fixpoint loop (c : cfg) (fuel : nat) (k nr : Z) (l : log) : Z * Z * log :=
  match fuel with
  | O => (k, nr, l)
  | S m => if is_out c k then loop c m (k + 1) (nr + 1) (l ++ out_block c k nr)
           else loop c m (k + 1) nr l
  end.

(** a whole run that executed [stop] steps ([stop = laststep] when it finished, the number of
    completed iterations when it was interrupted) *)
Definition run (c : cfg) (stop : Z) : log :=
  let '(k, _, l) := loop c (Z.to_nat stop) 0 0 (init_block c) in l ++ final_block c k.

(** specification side *)
Definition out_steps (c : cfg) (stop : Z) : list Z := filter (is_out c) (zrange stop).
(** every [s]-th element of a list, counting from [nr] (nothing when s <= 0) *)
Fixpoint every (s nr : Z) (l : list Z) : list Z :=
  match l with
  | [] => []
  | k :: t => (if (0 <? s) && (nr mod s =? 0) then [k] else []) ++ every s (nr + 1) t
  end.
(** closed form of the same selection: the j-th output step is j*outstep *)
Definition is_ps_out (c : cfg) (k : Z) : bool :=
  is_out c k && (0 <? save c) && ((k / outstep c) mod save c =? 0).

(** time value written for tag k: [static_cast<double>(simulationstep)/steps] *)
Definition tval (steps : Qc) (k : Z) : Qc := (Q2Qc (inject_Z k) / steps)%Qc.
(** [laststep = ceil(steps*rotations*(1.0-1e-12))], all three factors doubles, every product one binary64
    multiplication ([Bounds.rnd53]; the constant is folded in binary64 too).  Before the repair (repo "fix: the number of
    steps ...") [rotations] was narrowed to float and the guard factor was absent: [laststep_pinned], whose
    non-additivity for decimal run lengths is what the C11 check found ([laststep_pinned_not_additive] in RecordsP). *)
Definition Qcceil (q : Qc) : Z := (- ((- Qnum (this q)) / Zpos (Qden (this q)))).
Definition laststep_pinned (steps rotations : Qc) : Z := Qcceil (steps * rotations)%Qc.
Definition laststep_guard : Qc := Bounds.rnd53 (1 - Bounds.rnd53 (Q2Qc (1 # 1000000000000)))%Qc.
Definition laststep (steps rotations : Qc) : Z :=
  Qcceil (Bounds.rnd53 (Bounds.rnd53 (steps * rotations) * laststep_guard))%Qc.

(** ** (b) file layer *)

Definition prodZ (l : list Z) : Z := fold_right Z.mul 1 l.

Section FileLayer.
  Context {A : Type}.

  (** [_appendData(ds, data, 1)]: the dataset (flat, row-major, dims = records :: inner) grows
      by one record, filled with the first prod(inner) elements of the source buffer *)
  Definition append_data (inner : list Z) (file src : list A) : list A :=
    file ++ firstn (Z.to_nat (prodZ inner)) src.

  Definition getl (d : A) (l : list A) (i : Z) : A := nth (Z.to_nat i) l d.

  (** element (record r, row b, column i) of a dataset with inner dims [nb; W] *)
  Definition file_elt (d : A) (nb W : Z) (file : list A) (r b i : Z) : A :=
    getl d file ((r * nb + b) * W + i).
  (** element (b, i) of a bunch-major source buffer with row stride S *)
  Definition mem_elt (d : A) (S : Z) (src : list A) (b i : Z) : A := getl d src (b * S + i).

  (** the first W entries of each of the nb rows (stride S) of a buffer, packed: what
      HDF5File::append(ElectricField) hands to _appendData for the CSR spectrum *)
  Definition gather_rows (nb S W : Z) (src : list A) : list A :=
    flat_map (fun b => firstn (Z.to_nat W) (skipn (Z.to_nat (b * S)) src)) (zrange nb).

  (** ** (c) HDF5File::readPhaseSpace *)
  Inductive startfile :=
  | NoFile                      (* cannot be opened *)
  | NotHDF5                     (* text, truncated, ... : H5::H5File throws *)
  | NoPhaseSpace                (* no /PhaseSpace/data *)
  | PSset (dims : list Z) (data : list A).

  (** [use_step = (ps_dims[0]+use_step)%ps_dims[0]] in hsize_t (unsigned 64 bit) arithmetic *)
  Definition use_step (len step : Z) : Z := ((len + step) mod 2 ^ 64) mod len.

  (** hyperslab {r, 0.., 0..} of extent {1, nb, ps, ps} out of a dataset {len, nb, d2, d3}:
      row-major gather *)
  Definition slab (nb ps d2 d3 r : Z) (d : A) (data : list A) : list A :=
    flat_map (fun b => flat_map (fun x => map (fun y => getl d data (((r * nb + b) * d2 + x) * d3 + y))
                                              (zrange ps)) (zrange ps)) (zrange nb).

  (** result: grid size and the ps*ps values in (x,y) row-major order; [None] = the factory
      returns nullptr and main prints "Error reading ..." and stops.
      Not modelled (undefined behaviour in the C++): rank other than 3/4, zero records. *)
  Definition read_ps (d : A) (f : startfile) (step : Z) : option (Z * list A) :=
    match f with
    | PSset [len; d1; d2] data =>
        if (0 <? len) && (0 <? d1) && (d1 <=? d2)
        then Some (d1, slab 1 d1 d1 d2 (use_step len step) d data) else None
    | PSset [len; nb; d2; d3] data =>
        if (0 <? len) && (0 <? d2) && (d2 <=? d3) && (nb * d2 * d2 =? d2 * d2)
        then Some (d2, slab nb d2 d2 d3 (use_step len step) d data) else None
    | _ => None
    end.
End FileLayer.
Arguments startfile : clear implicits.

(** inner dimensions of every dataset as the HDF5File constructor declares them, and the row
    stride of the buffer handed to _appendData (nb bunches, n grid points per axis, nmax =
    padded length of the radiation field, imp = length of the wake impedance, np particles) *)
Record sizes := mkSizes { s_nb : Z; s_n : Z; s_nmax : Z; s_imp : Z; s_np : Z }.

Definition file_inner (z : sizes) (d : dset) : list Z :=
  match d with
  | DT | DPSAxis => []
  | DProfile | DEProfile | DWake => [s_nb z; s_n z]
  | DLength | DPosition | DESpread | DEAverage | DPopulation | DCsrIntensity => [s_nb z]
  | DCsrSpectrum => [s_nb z; s_nmax z / 2]
  | DParticles => [s_np z; 2]
  | DPSData => [s_nb z; s_n z; s_n z]
  | DPadProfile | DPadPotential => [s_imp z / 2]
  end.
(** shape of the buffer that reaches _appendData *)
Definition mem_inner (z : sizes) (d : dset) : list Z :=
  match d with
  | DCsrSpectrum => [s_nb z; s_nmax z / 2]          (* gathered rows, see [gather_rows] *)
  | DPadProfile | DPadPotential => [s_imp z]        (* one row; the first half is stored *)
  | _ => file_inner z d
  end.
(** the layout the pinned tree used for the CSR spectrum: _csrspectrum[nb][nmax] passed directly *)
Definition mem_inner_direct (z : sizes) (d : dset) : list Z :=
  match d with DCsrSpectrum => [s_nb z; s_nmax z] | _ => mem_inner z d end.

Fixpoint list_eqb (a b : list Z) : bool :=
  match a, b with
  | [], [] => true
  | x :: r, y :: s => (x =? y) && list_eqb r s
  | _, _ => false
  end.
(** rows are bunches iff everything after the leading (row) dimension agrees *)
Definition rows_ok (fi mi : list Z) : bool :=
  match fi, mi with
  | [], [] => true
  | a :: r, b :: s => (a <=? 1) || list_eqb r s
  | _, _ => false
  end.

(** axes written once by the constructor: which PhaseSpace axis feeds which dataset
    (0 = position, 1 = energy); after the fix the energy axis dataset reads axis 1 *)
Inductive axis_ds := AxZ | AxE.
Definition axis_source (a : axis_ds) : Z := match a with AxZ => 0 | AxE => 1 end.
Definition axis_source_pinned (a : axis_ds) : Z := 0.
(** Ruler: data[i] = min + i*delta, delta = (max-min)/(steps-1) *)
Definition ruler (K : Fld) (n : Z) (lo hi : K) : list K :=
  map (fun i => (lo + fz i * ((hi - lo) / fz (n - 1)))%F) (zrange n).
(** main.cpp 181-187: centre = -shift*pqsize/(n-1), min/max = centre -/+ pqsize/2 *)
Definition grid_axis (K : Fld) (n : Z) (pqsize shift : K) : list K :=
  let ctr := (- shift * pqsize / fz (n - 1))%F in
  ruler K n (ctr - pqsize / two)%F (ctr + pqsize / two)%F.
Definition stored_axis (K : Fld) (src : axis_ds -> Z) (n : Z) (pqsize shiftx shifty : K) (a : axis_ds) : list K :=
  if src a =? 0 then grid_axis K n pqsize shiftx else grid_axis K n pqsize shifty.
