(** EField - the buffers of vfps::ElectricField as a state machine (DESIGN 5/C18).

    Mirrors src/PS/ElectricField.cpp (CPU/FFTW path; OpenCL is not compiled):
    - [bp]   _bp_padded            padded bunch profiles, input of the forward transform (N reals)
    - [ff]   _formfactor           output of the forward transform (N complex, FFTW writes 0..N/2)
    - [wl]   _wakelosses           input of the inverse transform (N complex, FFTW reads 0..N/2)
    - [wp]   _wakepotential_padded output of the inverse transform (N reals)
    - [wake] _wakepotential        [nb][nx] read-back, flat index b*nx+x
    - [csr]  _csrspectrum          [nb][N], flat index b*N+i;  [csri] _csrintensity [nb]
    All buffers are allocated zeroed (fft_alloc_* / boost::multi_array) = [fresh].

    Operations (exactly the cells the code writes):
    - [Pad p]    padBunchProfiles(): (clear [0,N) if [rz]) for b = 0.. : copy nx cells of
                 bunch b to bp[bucket_b*sp + x], in this order (later bunches win on overlap)
    - [Wake p]   wakePotential(): Pad; ff[0..N/2] := r2c(bp[0..N)); for i < N/2: wl[i] := Z_i*ff[i]
                 (cell N/2 is NOT rewritten); wp[0..N) := c2r(wl[0..N/2]) and the c2r may
                 replace its input wl[0..N/2] by [clobber] of it; wake[b][x] := scale*wp[bucket_b*sp+x]
    - [CSR c p]  updateCSR(c): for each bunch b: (clear [0,N) if [rz]); bp[0..nx) := bunch b;
                 ff[0..N/2] := r2c(bp[0..N)); csr[b][i] := cell c i ff[i] for ALL i < N;
                 csri[b] := fold of the accumulation over i = 0..N-1 starting from zero.
    [p] is the x-projection of the phase space at the time of the call, flat index b*nx+x.

    [rz] distinguishes the two versions of the source: [rz = false] is the pinned tree
    (no clearing), [rz = true] the tree after the commit "fix: ElectricField clears the padded
    profile buffer before writing it".  The correspondence check ties the working tree to
    [rz = true].

    The transforms are abstract functions of the whole input buffer; nothing is assumed
    about them.  FFTW's contract used here: a transform of logical size N reads/writes exactly
    N reals and N/2+1 complex cells of the arrays it was planned for (cells are passed as lists
    of that length), an out-of-place r2c preserves its input, an out-of-place c2r may destroy it. *)
From Coq Require Import List ZArith Bool.
Import ListNotations.
Local Open Scope Z_scope.

Definition cells (k : Z) : list Z := map Z.of_nat (seq 0 (Z.to_nat k)).
Definition sample {A} (f : Z -> A) (k : Z) : list A := map f (cells k).
Definition nthZ {A} (l : list A) (d : A) (i : Z) : A :=
  if i <? 0 then d else nth (Z.to_nat i) l d.
Definition inr (a len i : Z) : bool := (a <=? i) && (i <? a + len).
(** write [src 0 .. src (len-1)] to cells [a, a+len) of a buffer *)
Definition store {A} (buf : Z -> A) (a len : Z) (src : Z -> A) : Z -> A :=
  fun i => if inr a len i then src (i - a) else buf i.

Record env (T C : Type) := Env {
  t0 : T; c0 : C;
  nx : Z;                 (* PhaseSpace::nx *)
  nmax : Z;               (* _nmax = impedance->nFreqs() *)
  spc : Z;                (* _spacing_bins *)
  buckets : list Z;       (* _bucket; PhaseSpace::nb = length *)
  rz : bool;              (* source version: clears the padded buffer before writing? *)
  r2c : list T -> list C;         (* forward transform, N reals -> N/2+1 complex *)
  c2r : list C -> list T;         (* inverse transform, N/2+1 complex -> N reals *)
  clobber : list C -> list C;     (* what the inverse transform leaves in its input *)
  zmul : Z -> C -> C;             (* impedance[i] times _formfactor[i] *)
  wscale : T -> T;                (* _wakescaling times the cell *)
  csrcell : T -> Z -> C -> T;     (* renorm(cutoff,i) times Re Z_i times norm(ff_i) *)
  acc : T -> T -> T               (* a + _axis_freq.delta() times x *)
}.
Arguments t0 {T C}. Arguments c0 {T C}. Arguments nx {T C}. Arguments nmax {T C}.
Arguments spc {T C}. Arguments buckets {T C}. Arguments rz {T C}. Arguments r2c {T C}.
Arguments c2r {T C}. Arguments clobber {T C}. Arguments zmul {T C}. Arguments wscale {T C}.
Arguments csrcell {T C}. Arguments acc {T C}.

Record state (T C : Type) := State {
  bp : Z -> T; ff : Z -> C; wl : Z -> C; wp : Z -> T;
  wake : Z -> T; csr : Z -> T; csri : Z -> T }.
Arguments State {T C}. Arguments bp {T C}. Arguments ff {T C}. Arguments wl {T C}.
Arguments wp {T C}. Arguments wake {T C}. Arguments csr {T C}. Arguments csri {T C}.

Inductive op (T : Type) :=
| Wake (p : Z -> T)
| Pad (p : Z -> T)
| CSR (cut : T) (p : Z -> T).
Arguments Wake {T}. Arguments Pad {T}. Arguments CSR {T}.

Section Machine.
  Context {T C : Type} (E : env T C).

  Definition nbun : Z := Z.of_nat (length (buckets E)).
  Definition half : Z := nmax E / 2.          (* _nmax/2, integer division *)

  Definition fresh : state T C :=
    State (fun _ => t0 E) (fun _ => c0 E) (fun _ => c0 E) (fun _ => t0 E)
          (fun _ => t0 E) (fun _ => t0 E) (fun _ => t0 E).

  (** std::fill_n(_bp_padded,_nmax,0) - present only in the fixed tree *)
  Definition clear (buf : Z -> T) : Z -> T :=
    if rz E then store buf 0 (nmax E) (fun _ => t0 E) else buf.

  (** the copy loop of padBunchProfiles, bunch counter [b] *)
  Fixpoint pad_loop (bks : list Z) (b : Z) (p : Z -> T) (buf : Z -> T) : Z -> T :=
    match bks with
    | [] => buf
    | bk :: r => pad_loop r (b + 1) p (store buf (bk * spc E) (nx E) (fun x => p (b * nx E + x)))
    end.

  Definition pad_bp (p : Z -> T) (buf : Z -> T) : Z -> T :=
    pad_loop (buckets E) 0 p (clear buf).

  (** fft_execute(_fft_bunchprofile): reads bp[0,N), writes ff[0,N/2] *)
  Definition fwd (bpb : Z -> T) (ffb : Z -> C) : Z -> C :=
    store ffb 0 (half + 1) (nthZ (r2c E (sample bpb (nmax E))) (c0 E)).

  (** read-back loop of wakePotential *)
  Fixpoint rb_loop (bks : list Z) (b : Z) (wpb : Z -> T) (buf : Z -> T) : Z -> T :=
    match bks with
    | [] => buf
    | bk :: r => rb_loop r (b + 1) wpb
                   (store buf (b * nx E) (nx E) (fun x => wscale E (wpb (bk * spc E + x))))
    end.

  Definition do_pad (p : Z -> T) (s : state T C) : state T C :=
    State (pad_bp p (bp s)) (ff s) (wl s) (wp s) (wake s) (csr s) (csri s).

  Definition do_wake (p : Z -> T) (s : state T C) : state T C :=
    let bp1 := pad_bp p (bp s) in
    let ff1 := fwd bp1 (ff s) in
    let wl1 := store (wl s) 0 half (fun i => zmul E i (ff1 i)) in
    let inp := sample wl1 (half + 1) in
    let wp1 := store (wp s) 0 (nmax E) (nthZ (c2r E inp) (t0 E)) in
    let wl2 := store wl1 0 (half + 1) (nthZ (clobber E inp) (c0 E)) in
    State bp1 ff1 wl2 wp1 (rb_loop (buckets E) 0 wp1 (wake s)) (csr s) (csri s).

  (** one iteration of the bunch loop of updateCSR *)
  Definition csr_body (cut : T) (p : Z -> T) (b : Z) (s : state T C) : state T C :=
    let bp1 := store (clear (bp s)) 0 (nx E) (fun x => p (b * nx E + x)) in
    let ff1 := fwd bp1 (ff s) in
    let row := fun i => csrcell E cut i (ff1 i) in
    State bp1 ff1 (wl s) (wp s) (wake s)
          (store (csr s) (b * nmax E) (nmax E) row)
          (store (csri s) b 1 (fun _ => fold_left (acc E) (sample row (nmax E)) (t0 E))).

  Fixpoint csr_loop (cut : T) (p : Z -> T) (k : nat) (b : Z) (s : state T C) : state T C :=
    match k with
    | O => s
    | S k' => csr_loop cut p k' (b + 1) (csr_body cut p b s)
    end.

  Definition do_csr (cut : T) (p : Z -> T) (s : state T C) : state T C :=
    csr_loop cut p (length (buckets E)) 0 s.

  Definition step (o : op T) (s : state T C) : state T C :=
    match o with
    | Wake p => do_wake p s
    | Pad p => do_pad p s
    | CSR cut p => do_csr cut p s
    end.

  Definition run (h : list (op T)) (s : state T C) : state T C :=
    fold_left (fun s o => step o s) h s.

  (** what the caller of the operation reads afterwards:
      wakePotential() -> _wakepotential, getPaddedWakePotential(), getPaddedBunchProfiles();
      padBunchProfiles() -> getPaddedBunchProfiles();
      updateCSR() -> getCSRSpectrum(), getCSRPower() *)
  Definition observe (o : op T) (s : state T C) : list (list T) :=
    match o with
    | Wake _ => [sample (wake s) (nbun * nx E); sample (wp s) (nmax E); sample (bp s) (nmax E)]
    | Pad _ => [sample (bp s) (nmax E)]
    | CSR _ _ => [sample (csr s) (nbun * nmax E); sample (csri s) nbun]
    end.

  (** cells an operation may write, per buffer (proved sound in Proofs/EFieldP.v and compared
      with the cells the implementation changes) *)
  Definition in_bucket (i : Z) : bool :=
    existsb (fun bk => inr (bk * spc E) (nx E) i) (buckets E).
  Definition has_bunch : bool := match buckets E with [] => false | _ => true end.

  Definition writes_bp (o : op T) (i : Z) : bool :=
    match o with
    | Wake _ | Pad _ => (rz E && inr 0 (nmax E) i) || in_bucket i
    | CSR _ _ => has_bunch && ((rz E && inr 0 (nmax E) i) || inr 0 (nx E) i)
    end.
  Definition writes_ff (o : op T) (i : Z) : bool :=
    match o with
    | Wake _ => inr 0 (half + 1) i
    | Pad _ => false
    | CSR _ _ => has_bunch && inr 0 (half + 1) i
    end.
  (** [0,N/2) by the loop, [0,N/2] by the inverse transform *)
  Definition writes_wl (o : op T) (i : Z) : bool :=
    match o with Wake _ => inr 0 (half + 1) i | _ => false end.
  Definition writes_wp (o : op T) (i : Z) : bool :=
    match o with Wake _ => inr 0 (nmax E) i | _ => false end.
  Definition writes_wake (o : op T) (i : Z) : bool :=
    match o with Wake _ => inr 0 (nbun * nx E) i | _ => false end.
  Definition writes_csr (o : op T) (i : Z) : bool :=
    match o with CSR _ _ => inr 0 (nbun * nmax E) i | _ => false end.
  Definition writes_csri (o : op T) (i : Z) : bool :=
    match o with CSR _ _ => inr 0 nbun i | _ => false end.
End Machine.

(** Hypothesis (B) of DESIGN 5/C18 in the form the proof needs: the inverse transform maps an
    input whose cell floor(N/2) is zero to a left-over whose cell floor(N/2) is zero.  (The
    loop [i < nmax/2] never rewrites that cell.)  [hypB_strong] - the cell is left unchanged
    whatever it holds - implies it and is what the correspondence run monitors. *)
Definition hypB {T C} (E : env T C) : Prop :=
  forall l, nthZ l (c0 E) (nmax E / 2) = c0 E -> nthZ (clobber E l) (c0 E) (nmax E / 2) = c0 E.
Definition hypB_strong {T C} (E : env T C) : Prop :=
  forall l, nthZ (clobber E l) (c0 E) (nmax E / 2) = nthZ l (c0 E) (nmax E / 2).

(** ------------------------------------------------------------------------------------
    Small concrete instances (integers; transforms that mix all cells) used for computed
    witnesses and by the extracted driver. *)
Definition zsum (l : list Z) : Z := fold_left Z.add l 0.
Definition toy_r2c (k : Z) (l : list Z) : list (Z * Z) :=
  map (fun i => (zsum l + i, nthZ l 0 i)) (cells k).
Definition toy_c2r (k : Z) (l : list (Z * Z)) : list Z :=
  map (fun i => zsum (map fst l) + 2 * zsum (map snd l) + i) (cells k).

Definition toyE (n N sp : Z) (bks : list Z) (fixed : bool)
           (cl : list (Z * Z) -> list (Z * Z)) : env Z (Z * Z) :=
  Env Z (Z * Z) 0 (0, 0) n N sp bks fixed
      (toy_r2c (N / 2 + 1)) (toy_c2r N) cl
      (fun i c => (fst c * (i + 1), snd c + i)) (fun t => 3 * t)
      (fun cut i c => cut + fst c * fst c + snd c * snd c + i) (fun a x => a + 2 * x).

Definition lfun {A} (d : A) (l : list A) : Z -> A := nthZ l d.
