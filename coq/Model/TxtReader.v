(** * makePSFromTXT (src/PS/PhaseSpaceFactory.cpp): which cell a particle of a text start
    distribution is deposited in.

    The C++ reads pairs [xf yf] of floats, computes
      [meshindex_t x = std::lround((xf/qmax+0.5f)*ps_size)]   (float arithmetic, result a [long],
                                                               converted to the declared type)
    likewise [y], and deposits [1.0/line_count] into [ps[0][x][y]] when the guard
    [x < ps_size && y < ps_size] holds ([ps_size] is an [int64_t]; the comparison is done in
    [long]).  There is no lower guard: for the pinned declaration ([meshindex_t] = [uint32_t]) a
    negative [lround] result wraps to a number >= 2^31 and fails the upper guard.  The declared
    integer type of [x]/[y], the guard and the index expression are *generated* from the source
    (Gen_TxtReader); this file holds the semantics of those pieces. *)
From Coq Require Import ZArith QArith Qcanon Qround Bool List.
From Inovesa Require Import Base.Float32.
Local Open Scope Z_scope.

(** integer type a [long] value is converted to (C++ integral conversion = reduction modulo 2^N,
    to the signed range for signed targets) *)
Inductive conv_kind := CU32 | CS32 | CU64 | CS64.

Definition conv (k : conv_kind) (v : Z) : Z :=
  match k with
  | CU32 => v mod 2 ^ 32
  | CU64 => v mod 2 ^ 64
  | CS32 => (v + 2 ^ 31) mod 2 ^ 32 - 2 ^ 31
  | CS64 => (v + 2 ^ 63) mod 2 ^ 64 - 2 ^ 63
  end.

(** one particle: [vx], [vy] are the [lround] results; [guard x y n] and [index x y] are the
    generated condition and subscript triple (bunch, x, y) *)
Definition deposit (kx ky : conv_kind) (guard : Z -> Z -> Z -> bool) (index : Z -> Z -> Z * Z * Z)
           (n vx vy : Z) : option (Z * Z * Z) :=
  let x := conv kx vx in
  let y := conv ky vy in
  if guard x y n then Some (index x y) else None.

(** the subscripts stay inside a [nb] x [n] x [n] array *)
Definition in_array (nb n : Z) (i : Z * Z * Z) : Prop :=
  let '(b, x, y) := i in 0 <= b < nb /\ 0 <= x < n /\ 0 <= y < n.

Definition in_array_b (nb n : Z) (i : Z * Z * Z) : bool :=
  let '(b, x, y) := i in
  (0 <=? b) && (b <? nb) && (0 <=? x) && (x <? n) && (0 <=? y) && (y <? n).

(** ** the float expression: [(xf/qmax + 0.5f) * ps_size], every operation rounded to binary32
    (division, addition, multiplication: three roundings; ps_size converted exactly for n < 2^24),
    then [std::lround] (half away from zero) *)
Definition Qclround (q : Qc) : Z :=
  if Qle_bool 0 (this q) then Qfloor (this q + (1 # 2)) else - Qfloor (- this q + (1 # 2)).

Definition txt_coord (n : Z) (c cmax : Qc) : Z :=
  Qclround (rnd32 (rnd32 (rnd32 (c / cmax) + Q2Qc (1 # 2)) * Qcz n))%Qc.

(** the cells a list of particles is deposited in (in file order; [None] = skipped by the guard) *)
Definition txt_cells (kx ky : conv_kind) (guard : Z -> Z -> Z -> bool) (index : Z -> Z -> Z * Z * Z)
           (n : Z) (qmax pmax : Qc) (ps : list (Qc * Qc)) : list (option (Z * Z * Z)) :=
  map (fun p => deposit kx ky guard index n (txt_coord n (fst p) qmax) (txt_coord n (snd p) pmax)) ps.
