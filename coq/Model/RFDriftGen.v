(** * The offset fields of RFKickMap and DriftMap as the GENERATED pieces compute them (family rfgen).

    Gen/Gen_RFDrift.v (translate/rfdrift2coq.py) holds, regenerated from the C++ on every run, the loop bounds, the
    written index, the value expressions, the constructors' member values and call arguments, and the statement
    orders.  This file only *runs* them with the loop semantics of Model/RFDriftKit.v:

      - [rfd_state]: the [_offset] vector and the snapshot of it from which [updateSM()] last built the table
        [_hinfo] (what [KickMap::apply] then interpolates with);
      - [gen_calcKick]: RFKickMap::_calcKick(phase, ampl) - the generated statement list, the `if (_linear)` choosing
        between the two generated loop nests;
      - [gen_rfk_lin_ctor] / [gen_rfk_sin_ctor]: the state the two RFKickMap constructors leave (KickMap's constructor has
        resized [_offset] with zeros; then the generated body runs with the generated member values);
      - [gen_drift_ctor]: the state the DriftMap constructor leaves;
      - [gen_axis]: the axis facts of a [Ruler(steps, min, max, scale)] as the generated Ruler constructor
        (Gen/Gen_Ruler.v) computes them;
      - executable front-ends over Qc for the extracted driver (family rf).
    No proofs here. *)
From Coq Require Import List ZArith Bool QArith Qcanon.
From Inovesa Require Import Base.FieldKit Model.RF Model.RFDriftKit Gen.Gen_RFDrift Gen.Gen_Ruler.
Import ListNotations.

Record rfd_state (K : Fld) := mkRS { rs_offset : Z -> K; rs_built : Z -> K }.
Arguments mkRS {K}. Arguments rs_offset {K}. Arguments rs_built {K}.

Section Gen.
  Variable K : Fld.
  Variables ftan fsin fasin : K -> K.
  Local Open Scope F_scope.

  (** Ruler(steps, min, max, scale) through the generated constructor expressions *)
  Definition gen_axis (steps : Z) (mn mx : K) (sc : runit -> K) : axfacts K :=
    let d := gen_ruler_delta K (fz steps) mn mx in
    mkAx (gen_ruler_zerobin K (fz steps) mn mx) d (fun i => gen_ruler_at K mn d (fz i)) sc.

  (** the KickMap constructor: [_offset] resized with zeros; no table yet (INOVESA_INIT_KICKMAP is off) *)
  Definition rfd_init : rfd_state K := mkRS (fun _ => 0) (fun _ => 0).

  Definition rfd_exec (fill : (Z -> K) -> Z -> K) (s : rfd_stmt) (st : rfd_state K) : rfd_state K :=
    match s with
    | RDFill => mkRS (fill (rs_offset st)) (rs_built st)
    | RDUpdateSM => mkRS (rs_offset st) (rs_offset st)
    end.

  (** the loop nest of _calcKick on an nx x ny grid of nb bunches *)
  Definition gen_calc_fill (nb nx ny : Z) (A0 A1 : axfacts K) (M : rfk_members K) (phase ampl : K) (old : Z -> K) : Z -> K :=
    let xs := rfd_xsize rfk_kick_is_x nx ny nb in
    let ys := rfd_ysize rfk_kick_is_x nx ny nb in
    if m_linear M then
      fill2 (rfk_lin_outer nb xs ys) (rfk_lin_inner nb xs ys) (rfk_lin_index nb xs ys)
            (rfk_lin_value K ftan fsin fasin A0 A1 M phase ampl nb xs ys) old
    else
      fill2 (rfk_sin_outer nb xs ys) (rfk_sin_inner nb xs ys) (rfk_sin_index nb xs ys)
            (rfk_sin_value K ftan fsin fasin A0 A1 M phase ampl nb xs ys) old.

  Definition gen_calcKick (nb nx ny : Z) (A0 A1 : axfacts K) (M : rfk_members K) (phase ampl : K) (st : rfd_state K) : rfd_state K :=
    fold_left (fun s c => rfd_exec (gen_calc_fill nb nx ny A0 A1 M phase ampl) c s) rfk_calc_prog st.

  Definition rfk_cexec (calc : rfd_state K -> rfd_state K) (c : rfk_cstmt) (st : rfd_state K) : rfd_state K :=
    match c with RCCalcKick => calc st end.

  (** RFKickMap(in, out, angle, f_RF, ...) *)
  Definition gen_rfk_lin_ctor (nb nx ny : Z) (A0 A1 : axfacts K) (c two_pi angle f_RF : K) : rfd_state K :=
    let M := rfk_ctor_lin_members K ftan fsin fasin A0 A1 c two_pi angle f_RF in
    fold_left (fun s cs => rfk_cexec (gen_calcKick nb nx ny A0 A1 M
                                        (rfk_ctor_lin_phase K ftan fsin fasin A0 A1 M angle f_RF)
                                        (rfk_ctor_lin_ampl K ftan fsin fasin A0 A1 M angle f_RF)) cs s)
              rfk_ctor_lin_body rfd_init.

  (** RFKickMap(in, out, revolutionpart, V_RF, f_RF, V0, ...) *)
  Definition gen_rfk_sin_ctor (nb nx ny : Z) (A0 A1 : axfacts K) (c two_pi revolutionpart V_RF f_RF V0 : K) : rfd_state K :=
    let M := rfk_ctor_sin_members K ftan fsin fasin A0 A1 c two_pi revolutionpart V_RF f_RF V0 in
    fold_left (fun s cs => rfk_cexec (gen_calcKick nb nx ny A0 A1 M
                                        (rfk_ctor_sin_phase K ftan fsin fasin A0 A1 M revolutionpart V_RF f_RF V0)
                                        (rfk_ctor_sin_ampl K ftan fsin fasin A0 A1 M revolutionpart V_RF f_RF V0)) cs s)
              rfk_ctor_sin_body rfd_init.

  (** DriftMap(in, out, slip, E0, ...) *)
  Definition gen_drift_fill (nb nx ny : Z) (A0 A1 : axfacts K) (slip : list K) (E0 : K) (old : Z -> K) : Z -> K :=
    let xs := rfd_xsize dm_kick_is_x nx ny nb in
    let ys := rfd_ysize dm_kick_is_x nx ny nb in
    fill1 (dm_bound nb xs ys) (dm_index nb xs ys) (dm_value K ftan fsin fasin A0 A1 slip E0 nb xs ys) old.

  Definition gen_drift_ctor (nb nx ny : Z) (A0 A1 : axfacts K) (slip : list K) (E0 : K) : rfd_state K :=
    fold_left (fun s c => rfd_exec (gen_drift_fill nb nx ny A0 A1 slip E0) c s) dm_prog rfd_init.
End Gen.

Arguments gen_axis {K}. Arguments rfd_init {K}. Arguments rfd_exec {K}.
Arguments gen_calc_fill {K}. Arguments gen_calcKick {K}. Arguments gen_rfk_lin_ctor {K}.
Arguments gen_rfk_sin_ctor {K}. Arguments gen_drift_fill {K}. Arguments gen_drift_ctor {K}.

(** ** executable front-ends over Qc (what the extracted rf driver runs beside the hand-written model).

    The transcendental functions are taken from the implementation's own report: [ftan] is the constant function
    tan(angle) = [t], [fasin] the constant [sync]; the sine is given by samples [sn x] of the implementation at the grid
    points and is looked up BY ARGUMENT: [fsin a] is the sample of the grid point x whose model argument
    at0(x)*bl2phase+phase equals [a], and 0 when [a] is no such argument - so a generated argument expression that is
    not the model's is seen as a wrong offset. *)
Local Open Scope Z_scope.

Definition qscale (scM scE : Qc) (u : runit) : Qc :=
  match u with U_Meter => scM | U_ElectronVolt => scE | _ => 0%Qc end.

Fixpoint sin_lookup (tbl : list (Qc * Qc)) (a : Qc) : Qc :=
  match tbl with
  | [] => 0%Qc
  | (k, v) :: r => if Qc_eq_dec k a then v else sin_lookup r a
  end.

Definition sin_table (n : Z) (at0 : Z -> Qc) (bl phase : Qc) (sn : list Qc) : list (Qc * Qc) :=
  map (fun x => ((at0 x * bl + phase)%Qc, getQ' sn x)) (zrange n).

(** what the run of one rfoffs case leaves: (bl2phase, syncphase as the members hold them, _offset of the RF map (all
    nb blocks), 1 iff the table of the RF map was built from exactly these offsets, _offset of the drift map, the same flag) *)
Definition gen_offs_run (n nb : Z) (mn0 mx0 mn1 mx1 scM0 scE1 c two_pi : Qc)
    (lin : bool) (p1 p2 p3 p4 : Qc)          (* lin: angle f_RF - -   sin: revolutionpart V_RF f_RF V0 *)
    (t sync : Qc) (sn : list Qc) (docalc : bool) (cphase campl : Qc)
    (slip : list Qc) (E0 : Qc) : (Qc * Qc) * ((list Qc * bool) * (list Qc * bool)) :=
  let A0 := gen_axis (K:=QcF) n mn0 mx0 (qscale scM0 0%Qc) in
  let A1 := gen_axis (K:=QcF) n mn1 mx1 (qscale 0%Qc scE1) in
  let ftan := fun _ : Qc => t in
  let fasin := fun _ : Qc => sync in
  let M := if lin then rfk_ctor_lin_members QcF ftan (fun a => a) fasin A0 A1 c two_pi p1 p2
           else rfk_ctor_sin_members QcF ftan (fun a => a) fasin A0 A1 c two_pi p1 p2 p3 p4 in
  let phase := if docalc then cphase else m_syncphase M in
  let fsin := sin_lookup (sin_table n (ax_at A0) (m_bl2phase M) phase sn) in
  let st0 := if lin then gen_rfk_lin_ctor (K:=QcF) ftan fsin fasin nb n n A0 A1 c two_pi p1 p2
             else gen_rfk_sin_ctor (K:=QcF) ftan fsin fasin nb n n A0 A1 c two_pi p1 p2 p3 p4 in
  let st := if docalc then gen_calcKick (K:=QcF) ftan fsin fasin nb n n A0 A1 M cphase campl st0 else st0 in
  let dr := gen_drift_ctor (K:=QcF) ftan fsin fasin nb n n A0 A1 slip E0 in
  let idx_rf := zrange (rfd_offset_size rfk_kick_is_x n n nb) in
  let idx_dr := zrange (rfd_offset_size dm_kick_is_x n n nb) in
  let same (s : rfd_state QcF) (l : list Z) := forallb (fun i => if Qc_eq_dec (rs_offset s i) (rs_built s i) then true else false) l in
  ((m_bl2phase M, m_syncphase M),
   ((map (rs_offset st) idx_rf, same st idx_rf), (map (rs_offset dr) idx_dr, same dr idx_dr))).
