(** Setup.v - the set-up part of main() (src/main.cpp, from the installation of the SIGINT handler
    to "Starting the simulation.") as a control skeleton over the state of Model/Driver.v.
    Used by C14 (an interrupt during the set-up), C11 (initial renormalisation) - DESIGN 5.

    The translator (translate/mainloop2coq.py) keeps of every statement of the set-up exactly what
    matters for the flag Display::abort, the exit status and the hook points:

      SCall c r      a statement the driver model knows: `VERIF_POINT("setup:..")` ([Point l], l < 0),
                     `grid_t1->updateXProjection()`, `grid_t1->normalize()`
      SSetAbort r    `Display::abort = true;` (the only form of write the translator accepts)
      SReturn z      `return z;`  (EXIT_SUCCESS = 0, EXIT_FAILURE = 1); what follows is dead
      SOpq n r       the n-th statement that contains none of the above and no reference to
                     Display::abort at all: it may change anything but the control part of the
                     state ([frame]) and it may throw
      SIf c t e r    `if (c) t else e`; [CGuard g]: a condition the driver model knows
                     (`renormalize >= 0`); [COpq n]: any other condition without a reference to the
                     flag - evaluating it is an opaque statement (it may have effects and throw),
                     its value is the environment's [cnd n]
      STry t h r     `try t catch (...) h`

    Nothing is assumed about what the opaque statements compute: they are an environment
    [senv] (effect, whether it throws, value of the condition), and every theorem quantifies over
    it.  What is assumed about them ([frame]) is what the translator checks syntactically: they do
    not mention the flag, contain no hook point and no `return`; in the model they leave the flag,
    the point counter, the label trace, the exit status, the (not yet existing) file, the step
    counters and the free list alone.  No proofs in this file. *)
From Coq Require Import List ZArith Bool.
From Inovesa Require Import Model.Driver.
Import ListNotations.
Local Open Scope Z_scope.

Inductive scond := CGuard (g : guard) | COpq (n : Z).

Inductive sblk :=
| SDone
| SCall (c : call) (r : sblk)
| SSetAbort (r : sblk)
| SReturn (z : Z)
| SOpq (n : Z) (r : sblk)
| SIf (c : scond) (t e r : sblk)
| STry (t h r : sblk).

Section Setup.
  Variable K : kern.
  Notation st := (st K).

  (** what the statements the translator does not look into do *)
  Record senv := mksenv {
    eff : Z -> st -> st;      (* effect of opaque statement / condition n *)
    thr : Z -> bool;          (* it throws *)
    cnd : Z -> bool }.        (* value of opaque condition n *)

  (** the control part of the state *)
  Definition ctl (s : st) := (abort s, pc s, trace s, status s, file s, k s, onr s, freed s, uaf s).
  Definition frame (ev : senv) : Prop := forall n s, ctl (eff ev n s) = ctl s.

  (** how a block is left: normally, by `return`, by an exception *)
  Inductive res := Norm (s : st) | Ret (s : st) | Thr (s : st).
  Definition rstate (r : res) : st := match r with Norm s | Ret s | Thr s => s end.

  Fixpoint sexec (sig : Z -> bool) (ev : senv) (cf : cfg) (b : sblk) (s : st) : res :=
    match b with
    | SDone => Norm s
    | SCall c r => sexec sig ev cf r (exec sig cf c s)
    | SSetAbort r => sexec sig ev cf r (set_abort true s)
    | SReturn z => Ret (set_status (Some z) s)
    | SOpq n r => if thr ev n then Thr (eff ev n s) else sexec sig ev cf r (eff ev n s)
    | SIf c t e r =>
        let go (b : bool) (s1 : st) :=
          match (if b then sexec sig ev cf t s1 else sexec sig ev cf e s1) with
          | Norm s2 => sexec sig ev cf r s2
          | x => x
          end in
        match c with
        | CGuard g => go (gval cf s g) s
        | COpq n => if thr ev n then Thr (eff ev n s) else go (cnd ev n) (eff ev n s)
        end
    | STry t h r =>
        match sexec sig ev cf t s with
        | Norm s1 => sexec sig ev cf r s1
        | Ret s1 => Ret s1
        | Thr s1 => match sexec sig ev cf h s1 with
                    | Norm s2 => sexec sig ev cf r s2
                    | x => x
                    end
        end
    end.

  (** the whole program: set-up, then - unless the set-up returned or died - the simulation part *)
  Inductive outcome := Finished (s : st) | Early (s : st) | Crashed (s : st).
  Definition full_run (sig : Z -> bool) (ev : senv) (cf : cfg) (su : sblk) (p : prog) (s : st) : outcome :=
    match sexec sig ev cf su s with
    | Norm s1 => Finished (run sig cf p s1)
    | Ret s1 => Early s1
    | Thr s1 => Crashed s1
    end.
End Setup.

Arguments mksenv {K}. Arguments eff {K}. Arguments thr {K}. Arguments cnd {K}.
Arguments ctl {K}. Arguments frame {K}. Arguments Norm {K}. Arguments Ret {K}. Arguments Thr {K}.
Arguments rstate {K}. Arguments sexec {K}. Arguments full_run {K}.
Arguments Finished {K}. Arguments Early {K}. Arguments Crashed {K}.
