(** * Vocabulary of the generated RotationMap definitions (Gen/Gen_Rotation.v, translate/rotation2coq.py).

    The translator executes RotationMap::genHInfo / apply / the constructor symbolically and prints what it finds
    with the operations below; nothing here knows anything about a rotation.

    - C++ integer arithmetic: [unsigned int] results are reduced by [wrap32], [unsigned long] by [rx_wrap64],
      [unsigned char] by [rx_wrap8]; [int] arithmetic is printed unreduced (signed overflow is undefined) with the
      truncating division [Z.quot]; float -> [unsigned int] is [rx_f2u] of the truncated value (defined by the
      standard for values in (-1, 2^32) only: the models carry a [defined] flag);
    - an array written inside a loop nest is a *write log* in program order, [(slot, loop variables)]; a later read
      of slot [s] is [rx_lookup log s] (the LAST write to [s]; [None]: never written);
    - [std::max]/[std::min] with their argument order; [std::numeric_limits<float>::min()/max()].

    No proofs in this file. *)
From Coq Require Import List ZArith QArith Qcanon Bool.
From Inovesa Require Import Base.FieldKit Base.Float32 Model.Kick.
Import ListNotations.
Local Open Scope Z_scope.

Definition rx_wrap8 (z : Z) : Z := z mod 2 ^ 8.
Definition rx_wrap64 (z : Z) : Z := z mod 2 ^ 64.
Definition rx_f2u (z : Z) : Z := wrap32 z.

(** [lo, lo+1, .., lo+n-1] *)
Definition rx_span (lo n : Z) : list Z := map (Z.add lo) (zrange n).

(** last write wins *)
Definition rx_lookup {A : Type} (log : list (Z * A)) (s : Z) : option A :=
  fold_left (fun acc e => if fst e =? s then Some (snd e) else acc) log None.

(** element [i] of a list-valued array (the output of calcCoefficiants) *)
Definition rx_nth {K : Fld} (l : list K) (i : Z) : K := nth (Z.to_nat i) l f0.

(** std::max(a, b) = (a < b) ? b : a ; std::min(a, b) = (b < a) ? b : a *)
Definition rx_ltb (a b : Qc) : bool := negb (Qle_bool (this b) (this a)).
Definition rx_max (a b : Qc) : Qc := if rx_ltb a b then b else a.
Definition rx_min (a b : Qc) : Qc := if rx_ltb b a then b else a.

(** std::numeric_limits<float>::min() = 2^-126 (the smallest positive NORMAL number, not the lowest value),
    max() = (2 - 2^-23) 2^127, lowest() = -max() *)
Definition rx_flt_min : Qc := Q2Qc (1 # (2 ^ 126)).
Definition rx_flt_max : Qc := Q2Qc (inject_Z ((2 ^ 24 - 1) * 2 ^ 104)).
Definition rx_flt_lowest : Qc := (- rx_flt_max)%Qc.
