(** The executable instance of the wisdom model used by the correspondence (C12): the generated table of
    prepareFFT bodies (Gen/Gen_Wisdom.v) run over a history of the wisdom directory - runs of the program and what a
    user (or the test) does to the directory in between.  Kinds are passed as indices into the list of kinds of the
    generated table (so that the driver needs no string conversion). *)
From Coq Require Import List ZArith String Bool.
From Inovesa Require Import Model.Wisdom Gen.Gen_Wisdom.
Import ListNotations.
Local Open Scope Z_scope.

Definition table_kinds : list string := flat_map pr_kinds wisdom_table.
Definition key_of (i n : Z) : key := (nth (Z.to_nat i) table_kinds EmptyString, n).
Fixpoint index_in (s : string) (l : list string) (i : Z) : Z :=
  match l with [] => -1 | x :: r => if String.eqb s x then i else index_in s r (i + 1) end.
Definition ikey (k : key) : Z * Z := (index_in (fst k) table_kinds 0, snd k).

Definition mkdir_flag : bool := fspath_ctor_validates && fspath_append_validates && fspath_validate_creates_parent.

Inductive action :=
| ARun (reqs : list (Z * Z))        (* one run of the program preparing these transforms in order *)
| ADelete (i n : Z)                 (* the wisdom file is removed *)
| AGarbage (i n : Z)                (* ... overwritten with something FFTW cannot read *)
| ACopy (i n j m : Z)               (* file (i,n) copied over file (j,m) *)
| ARmDir                            (* the whole data directory removed *)
| AMkDir.                           (* the wisdom directory created (empty) *)

Fixpoint remove_key (k : key) (l : list (key * option (list key))) : list (key * option (list key)) :=
  match l with
  | [] => []
  | (k', v) :: r => if key_eqb k k' then remove_key k r else (k', v) :: remove_key k r
  end.

Record report := mkrep {
  r_planned : list (Z * Z); r_logged : list (Z * Z); r_written : list (Z * Z);
  r_dir : bool; r_files : list (Z * Z * bool) }.     (* files after the run: (kind index, n, readable) *)

Definition report_of (p : pst) : report :=
  mkrep (List.map ikey (p_planned p)) (List.map ikey (p_logged p)) (List.map ikey (p_written p)) (fs_dir (p_fs p))
        (List.map (fun e => let '(i, n) := ikey (fst e) in (i, n, match snd e with Some _ => true | None => false end)) (fs_files (p_fs p))).

Fixpoint model_actions (acts : list action) (fs : fsys) : list report :=
  match acts with
  | [] => []
  | ARun reqs :: r =>
      let p := run mkdir_flag wisdom_table (List.map (fun x => key_of (fst x) (snd x)) reqs) fs in
      report_of p :: model_actions r (p_fs p)
  | ADelete i n :: r => model_actions r (mkfs (fs_dir fs) (remove_key (key_of i n) (fs_files fs)))
  | AGarbage i n :: r => model_actions r (mkfs (fs_dir fs) (store (key_of i n) None (fs_files fs)))
  | ACopy i n j m :: r =>
      model_actions r (match lookup (key_of i n) (fs_files fs) with
                       | Some v => mkfs (fs_dir fs) (store (key_of j m) v (fs_files fs))
                       | None => fs
                       end)
  | ARmDir :: r => model_actions r (mkfs false [])
  | AMkDir :: r => model_actions r (mkfs true (fs_files fs))
  end.

Definition model_history (acts : list action) : list report := model_actions acts (mkfs false []).
Definition n_kinds : Z := Z.of_nat (List.length table_kinds).
