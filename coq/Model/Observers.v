(** Observers.v - what a statement guarded by an OBSERVER option of main() does (C12, C19; seeds F3-I, F6-J).

    An observer option changes what is reported, never what is simulated: verbosity
    (`opts.getVerbosity()`, `const bool verbose`).  translate/mainloop2coq.py finds every `if` of main()
    whose condition reads it and classifies what the guarded statements do to objects that live
    outside the guarded statement:

      OConst obj m      a const member function of [obj] (the implicit object argument is const-qualified)
      OModel c          a call the driver model knows (`grid_t1->updateXProjection()`, `integrate()` ...)
      OGetPast obj      `obj->getPastModulation()`: what it does to the list of pending RF records is read
                        off src/SM/DynamicRFKickMap.cpp by translate/dynqueue2coq.py ([dq_getpast_ops])
      ONonConst obj m   any other non-const member function of an object declared outside
      OAssign v         assignment / increment of a variable declared outside that is not report-only
      OOther what       a loop, return, throw, new/delete, lambda, address-of, a function not known to be pure

    Writing to a log sink (`sstream`, std::cout, Display::printText), block-local variables and
    report-only variables (every use in main() only reports) are no effect at all.

    In the set-up the guarded statements stay in the skeleton of Model/Setup.v ([SIf (COpq n)] with [n] in
    the generated [setup_observer_conds]; the statements the translator found free of effects are the
    [SOpq m] with [m] in [setup_pure_opaque]); in the simulation part they are NOT part of [main_prog]
    (the driver model has no verbosity) and are listed as [loop_observers : list ostmt].
    The semantics below is over the state of Model/Driver.v; what the translator cannot classify is an
    arbitrary function of the environment.  No proofs in this file. *)
From Coq Require Import List ZArith String Bool.
From Inovesa Require Import Model.Driver.
Import ListNotations.
Local Open Scope Z_scope.

Inductive oeff :=
| OConst (obj meth : string)
| OModel (c : call)
| OGetPast (obj : string)
| ONonConst (obj meth : string)
| OAssign (v : string)
| OOther (what : string).

(** one observer-guarded statement of the simulation part: source line, where / condition, effects in source order *)
Record ostmt := mkostmt { o_line : Z; o_what : string; o_effs : list oeff }.

(** the shape of `getPastModulation()` that matters here, independent of Model/DynQueue.v's syntax (so that the
    generated main loop does not depend on the RF family): what happens to the member `_past_modulation` *)
Inductive pastop := PKeep | PMovedFrom | PCleared.

(** the member after the statements in order; [junk]: whatever a moved-from vector holds *)
Fixpoint past_after {A} (junk : list A) (ops : list pastop) (p : list A) : list A :=
  match ops with
  | [] => p
  | PKeep :: r => past_after junk r p
  | PMovedFrom :: r => past_after junk r junk
  | PCleared :: r => past_after junk r []
  end.

Definition pastops_keep (ops : list pastop) : bool :=
  forallb (fun o => match o with PKeep => true | _ => false end) ops.

Section Obs.
  Variable K : kern.
  Notation st := (st K).

  (** effect of one classified item; [unk]: effect of what the translator could not classify (keyed by its text) *)
  Definition oexec (sig : Z -> bool) (cf : cfg) (junk : list (tMd K)) (gp : list pastop) (unk : string -> st -> st)
             (e : oeff) (s : st) : st :=
    match e with
    | OConst _ _ => s
    | OModel c => exec sig cf c s
    | OGetPast _ => set_past (past_after junk gp (past s)) s
    | ONonConst o m => unk (o ++ "." ++ m)%string s
    | OAssign v => unk v s
    | OOther w => unk w s
    end.

  Definition oexec_stmt sig cf junk gp unk (o : ostmt) (s : st) : st :=
    fold_left (fun s e => oexec sig cf junk gp unk e s) (o_effs o) s.
End Obs.

Arguments oexec {K}. Arguments oexec_stmt {K}.

(** the checker: only const member functions - and `getPastModulation()` only if it keeps the member *)
Definition oeff_pure (gp : list pastop) (e : oeff) : bool :=
  match e with
  | OConst _ _ => true
  | OGetPast _ => pastops_keep gp
  | _ => false
  end.
Definition ostmt_pure (gp : list pastop) (o : ostmt) : bool := forallb (oeff_pure gp) (o_effs o).
Definition observers_pure (gp : list pastop) (l : list ostmt) : bool := forallb (ostmt_pure gp) l.
