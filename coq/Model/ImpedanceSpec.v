(** * Specification side of the generated impedance definitions (Gen/Gen_Imp.v), kept apart
      from the generated code (DESIGN 2.1): what the property text and the documentation of
      the classes say the closed-form models, operator+= and the factory compute.  Written over
      the same generic field and the same leaves as the generated file, so that the theorems
      of Proofs/ImpedanceGenP.v compare the two for every field, every interpretation of the
      leaves and every sample count.  No proofs in this file.

      Documented formulas:
      - free-space CSR (Murphy et al., Part. Acc. 57, Eq. 6.18):
          Z(n) = Z0 Gamma(2/3)/3^(1/3) (sqrt 3 + i)/2 n^(1/3) = (306.3 + 176.9 i) n^(1/3),
        n = f/f_rev the harmonic number, sample i at harmonic i * f_max/f_rev/(nfreqs-1);
      - resistive wall: Z(n) = (1 - i) L/(2 b) sqrt(Z0 mu_r f0 n/(pi s c))   (n > 0);
      - collimator: Z = Z0/pi ln(r_outer/r_inner), real, frequency independent;
      - factory: gap < 0 free space, gap > 0 parallel plates (both only with use_csr),
        gap = 0 nothing; wall of radius |gap/2| and length c/f_rev iff s > 0 and xi >= -1;
        collimator from |gap/2| down to r_coll iff 0 < r_coll < |gap/2|; file iff a name is given. *)
From Coq Require Import List ZArith Bool.
From Inovesa Require Import Base.FieldKit Model.Impedance Model.ImpKit.
Import ListNotations.

Section Spec.
  Variable K : Fld.
  Variable E : Leaves K.
  Local Open Scope F_scope.
  Local Open Scope bool_scope.

  (** frequency step in units of the reference frequency *)
  Definition sp_delta (n : Z) (f_ref f_max : K) : K := f_max / f_ref / fz (n - 1).

  (** free space: prefactor 306.3 + 176.9 i, exponent 1/3 *)
  Definition sp_fs_Z0 : cpx K := (fz 3063 / fz 10, fz 1769 / fz 10).
  Definition sp_fs_sample (n : Z) (f_rev f_max : K) (i : Z) : cpx K :=
    cmulr sp_fs_Z0 (l_pw E (fz i * sp_delta n f_rev f_max) (1 / three)).

  (** resistive wall: Z1 (1 - i) sqrt(harmonic) *)
  Definition sp_rw_Z1 (f0 L s xi b : K) : K :=
    l_sq E (l_Z0 E * (1 + xi) * f0 / s / l_pi E / l_c E) * L / two / b.
  Definition sp_rw_sample (n : Z) (f0 f_max L s xi b : K) (i : Z) : cpx K :=
    let a := sp_rw_Z1 f0 L s xi b * l_sq E (fz i * sp_delta n f0 f_max) in (a, - a).

  (** the square of Z1: what the relational validator of the correspondence compares squares with *)
  Definition sp_rw_k (f0 L s xi b : K) : K :=
    l_Z0 E * (1 + xi) * f0 / s / l_pi E / l_c E * (L / two / b) * (L / two / b).

  (** collimator *)
  Definition sp_coll_Z (outer inner : K) : cpx K := (l_Z0 E / l_pi E * l_lg E (outer / inner), 0).

  (** the vectors: samples for 0..n/2, zero above (constant model: below n/2 only, as coded) *)
  Definition sp_fs_vec (n : Z) (f_rev f_max : K) : list (cpx K) := push_loop cpx0 n (sp_fs_sample n f_rev f_max).
  Definition sp_rw_vec (n : Z) (f0 f_max L s xi b : K) : list (cpx K) :=
    push_loop cpx0 n (sp_rw_sample n f0 f_max L s xi b).
  Definition sp_coll_vec (n : Z) (outer inner : K) : list (cpx K) := const_vec cpx0 n (sp_coll_Z outer inner).
  (** parallel plates: the sample value is a leaf (Airy functions); samples 1..n/2 of a zero vector *)
  Definition sp_pp_vec (n : Z) (f0 f_max g : K) : list (cpx K) := pp_vec cpx0 n (l_PPs E n f0 f_max g).

  (** the factory's switches and the arguments it documents *)
  Definition sp_f0 (R_bend : K) : K := l_c E / (two * l_pi E * R_bend).
  Definition sp_radius (gap : K) : K := l_ab E (gap / two).
  Definition g_sel_csr (gap : K) (use_csr : bool) : bool := negb (l_eqb E gap 0) && use_csr.
  Definition g_sel_pp (gap : K) (use_csr : bool) : bool := g_sel_csr gap use_csr && l_ltb E 0 gap.
  Definition g_sel_fs (gap : K) (use_csr : bool) : bool := g_sel_csr gap use_csr && negb (l_ltb E 0 gap).
  Definition g_sel_rw (gap s xi : K) : bool := negb (l_eqb E gap 0) && (l_ltb E 0 s && l_leb E (- (1)) xi).
  Definition g_sel_coll (gap rc : K) : bool :=
    negb (l_eqb E gap 0) && (l_ltb E 0 rc && l_ltb E rc (sp_radius gap)).
  Definition g_any_selected (gap : K) (use_csr : bool) (s xi rc : K) (file : option (list (cpx K))) : bool :=
    g_sel_csr gap use_csr || g_sel_rw gap s xi || g_sel_coll gap rc || file_given file.

  (** the selected contributions in the order the factory adds them; [ppv fsv rwv collv] are the
      four candidate vectors *)
  Definition g_parts (ppv fsv rwv collv : list (cpx K)) (gap : K) (use_csr : bool) (s xi rc : K)
             (file : option (list (cpx K))) : list (list (cpx K)) :=
    (if g_sel_pp gap use_csr then [ppv] else []) ++
    (if g_sel_fs gap use_csr then [fsv] else []) ++
    (if g_sel_rw gap s xi then [rwv] else []) ++
    (if g_sel_coll gap rc then [collv] else []) ++
    (match file with Some d => [d] | None => [] end).

  (** what the factory is documented to return, with arbitrary constructors of the four models *)
  Definition sp_factory_with (PPc : Z -> K -> K -> K -> list (cpx K)) (FSc : Z -> K -> K -> list (cpx K))
             (RWc : Z -> K -> K -> K -> K -> K -> K -> list (cpx K)) (COLLc : Z -> K -> K -> K -> list (cpx K))
             (n : Z) (fmax R_bend frev gap : K) (use_csr : bool) (s xi rc : K)
             (file : option (list (cpx K))) : option (list (cpx K)) :=
    if g_any_selected gap use_csr s xi rc file
    then Some (pointwise_sum cpx0 (l_cadd E) n
                 (g_parts (PPc n (sp_f0 R_bend) fmax gap) (FSc n (sp_f0 R_bend) fmax)
                          (RWc n frev fmax (l_c E / frev) s xi (sp_radius gap))
                          (COLLc n fmax (sp_radius gap) rc) gap use_csr s xi rc file))
    else None.

  (** ... and with the documented closed-form models *)
  Definition sp_factory : Z -> K -> K -> K -> K -> bool -> K -> K -> K -> option (list (cpx K)) -> option (list (cpx K)) :=
    sp_factory_with sp_pp_vec (fun n f_rev f_max => sp_fs_vec n f_rev f_max)
                    (fun n f0 f_max L s xi b => sp_rw_vec n f0 f_max L s xi b)
                    (fun n f_max outer inner => sp_coll_vec n outer inner).
End Spec.

Arguments sp_delta {K}. Arguments sp_fs_Z0 {K}. Arguments sp_fs_sample {K}. Arguments sp_rw_Z1 {K}.
Arguments sp_rw_sample {K}. Arguments sp_rw_k {K}. Arguments sp_coll_Z {K}. Arguments sp_fs_vec {K}. Arguments sp_rw_vec {K}.
Arguments sp_coll_vec {K}. Arguments sp_pp_vec {K}. Arguments sp_f0 {K}. Arguments sp_radius {K}. Arguments g_sel_csr {K}.
Arguments g_sel_pp {K}. Arguments g_sel_fs {K}. Arguments g_sel_rw {K}. Arguments g_sel_coll {K}.
Arguments g_any_selected {K}. Arguments g_parts {K}. Arguments sp_factory_with {K}. Arguments sp_factory {K}.
