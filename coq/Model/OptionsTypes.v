(** Data types of the program-options model (DESIGN 5/C13, C20).  Kept apart from
    Model/Options.v because the generated table (Gen/Gen_Options.v) is a value of these types. *)
From Coq Require Import List String ZArith Bool.
Import ListNotations.

(** Values are opaque tokens.  Whether a token is a well-formed value of a C++ type is an oracle the
    harness supplies (boost::lexical_cast is glue, not model).  Reserved: 0 is the text "0" that
    save() writes for alpha0, 1 is the implicit `true` of a bool switch, negative tokens are the
    defaults of the option table. *)
Definition tok := Z.
Definition tok_zero : tok := 0%Z.
Definition tok_true : tok := 1%Z.

Inductive cty := TFloat | TDouble | TI32 | TU32 | TI64 | TU64 | TBool | TString | TUChar | TVecFloat | TFlag.

Inductive okind :=
| KCanon                    (* current name *)
| KAlias (canon : string)   (* legacy name of [canon]; config file only *)
| KIgnored                  (* accepted for compatibility, bound to a variable nobody reads *)
| KFlag.                    (* untyped switch that stops the program: help, version, ... *)

Record opt := mkOpt {
  o_name : string;            (* long name = key of the variables map *)
  o_short : option string;    (* one-letter name on the command line *)
  o_var : string;             (* bound member of ProgramOptions *)
  o_ty : cty;
  o_cli : bool;               (* in the command-line description *)
  o_file : bool;              (* in the config-file description *)
  o_defcli : option tok;      (* default_value in the command-line description *)
  o_deffile : option tok;     (* default_value in the config-file description *)
  o_implicit : bool;          (* implicit_value(true) on the command line *)
  o_kind : okind }.

(** statements of ProgramOptions::parse that touch the variables map *)
Inductive step :=
| StoreCli | StoreCfg | Notify
| CopyIfPresent (a c : string)                 (* if (_vm.count(a)) _vm.at(c).value() = _vm[a].value(); *)
| FoldAliases (l : list (string * string)).    (* for (a,c): if count(a) { if (_vm[c].defaulted()) _vm.at(c) = _vm.at(a); erase(a) } *)

Record prog := mkProg {
  p_cli : list step;          (* before the tests of the information switches *)
  p_flags : list string;      (* switches whose presence makes parse() return false *)
  p_cfgopt : string;          (* option that names the config file *)
  p_cfg : list step;          (* executed when the config file exists and opens *)
  p_nopos : bool }.           (* the command line is parsed with an (empty) positional_options_description:
                                 a bare word is an error.  false (pinned tree): parse_command_line without
                                 one - bare words are dropped silently *)

(** ProgramOptions::save(std::string) *)
Record wrules := mkW {
  w_skip : list string;       (* names never written *)
  w_alpha_name : string;      (* name written as "<name>=0" ... *)
  w_alpha_var : string;       (* ... depending on this bound variable: *)
  w_alpha_when_zero : bool;   (* true: when the variable is zero (pinned tree); false: when it is non-zero *)
  w_types : list cty;         (* value types with a writer branch *)
  w_precise : bool;           (* floating values written with max_digits10 digits *)
  w_comment : list string }.  (* string options written as a comment *)

Definition cty_eqb (a b : cty) : bool :=
  match a, b with
  | TFloat, TFloat | TDouble, TDouble | TI32, TI32 | TU32, TU32 | TI64, TI64 | TU64, TU64 | TBool, TBool
  | TString, TString | TUChar, TUChar | TVecFloat, TVecFloat | TFlag, TFlag => true
  | _, _ => false
  end.

Lemma cty_eqb_eq a b : cty_eqb a b = true <-> a = b.
Proof. destruct a, b; cbn; split; intro H; try reflexivity; try discriminate. Qed.
