(** * Model of the DFT-based wake potential and CSR spectrum (ElectricField, FFTWWrapper).

    Mirrors src/PS/ElectricField.cpp as it is:
    - [pad]            padBunchProfiles: profile b is copied to [bucket_b*spacing .. +n), in bunch
                       order, on top of whatever the buffer holds (zero in a fresh object);
    - [r2c]            FFTW's real-to-complex transform (definition-level DFT, sign -1), which
                       writes cells 0..N/2 of [_formfactor]; the cells above keep their
                       allocation-time zero ([formfactor]);
    - [wakelosses]     the loop [for i < _nmax/2] (integer division): cells below N/2 get
                       Z_i * F_i, every other cell keeps its buffer content [stale]
                       (zero in a fresh object);
    - [c2r]            FFTW's complex-to-real transform of a half spectrum: reads cells
                       0..N/2, ignores Im L_0 (and Im L_{N/2} for even N);
    - [wake_model]     read back at [bucket_b*spacing + x], times [_wakescaling];
    - [wake_scaling]   the delegating constructor's factor divided by [_nmax];
    - [csr_spectrum], [csr_power]   updateCSR: the profile of ONE bunch at padded offset 0,
                       spectrum_i = renorm_i * Re Z_i * |F_i|^2 for all i < N, power = sum of
                       delta_f * spectrum_i.
    Everything is over a generic field [K] and an abstract twiddle table [cs], [sn]
    (cos and sin of 2 pi m / N in the real instance; a dyadic table supplied by the case file
    in the extracted model).  No proofs here. *)
From Coq Require Import List ZArith Lia Bool FMapPositive.
From Inovesa Require Import Base.FieldKit Base.Sums.
Import ListNotations.

(** list cell with default, total on Z *)
Definition getz {A : Type} (d : A) (l : list A) (i : Z) : A :=
  if (i <? 0)%Z then d else nth (Z.to_nat i) l d.

(** the same through a binary trie built once (O(log) lookups in the extracted model) *)
Fixpoint mk_tbl_from {A : Type} (i : positive) (l : list A) (t : PositiveMap.t A) : PositiveMap.t A :=
  match l with [] => t | x :: r => mk_tbl_from (Pos.succ i) r (PositiveMap.add i x t) end.
Definition mk_tbl {A : Type} (l : list A) : PositiveMap.t A := mk_tbl_from 1%positive l (PositiveMap.empty A).
Definition tget {A : Type} (d : A) (t : PositiveMap.t A) (i : Z) : A :=
  match i with
  | Zneg _ => d
  | _ => match PositiveMap.find (Z.to_pos (i + 1)) t with Some x => x | None => d end
  end.

Section DFT.
  Variable K : Fld.
  Local Open Scope F_scope.

  Variable N : Z.                     (* transform length = _nmax = impedance->nFreqs() *)
  Variables cs sn : Z -> K.           (* twiddle table: cos, sin of 2 pi m / N *)

  Definition nN : nat := Z.to_nat N.

  (** complex numbers as pairs *)
  Definition cplx : Type := (K * K)%type.
  Definition czero : cplx := (0, 0).
  Definition cmul (a b : cplx) : cplx :=
    (fst a * fst b - snd a * snd b, fst a * snd b + snd a * fst b).
  Definition cnorm (a : cplx) : K := fst a * fst a + snd a * snd a.     (* std::norm *)

  (** fftwf_plan_dft_r2c_1d: Y_k = sum_j x_j e^{-2 pi i jk/N} *)
  Definition r2c (x : Z -> K) (k : Z) : cplx :=
    (sumZ 0%Z nN (fun j => x j * cs (j * k)%Z), - sumZ 0%Z nN (fun j => x j * sn (j * k)%Z)).

  (** the buffer [_formfactor]: r2c writes cells 0..N/2 only *)
  Definition formfactor (x : Z -> K) (k : Z) : cplx :=
    if ((0 <=? k)%Z && (k <=? N / 2)%Z)%bool then r2c x k else czero.

  Definition altsign (j : Z) : K := if Z.even j then 1 else fopp 1.

  (** fftwf_plan_dft_c2r_1d on cells 0..N/2 of [L] *)
  Definition c2r (L : Z -> cplx) (j : Z) : K :=
    fst (L 0%Z)
    + two * sumZ 1%Z (Z.to_nat ((N - 1) / 2)%Z)
              (fun k => fst (L k) * cs (j * k)%Z - snd (L k) * sn (j * k)%Z)
    + (if Z.even N then fst (L (N / 2)%Z) * altsign j else 0).

  (** [for (i=0; i<_nmax/2; i++) _wakelosses[i] = Z[i]*_formfactor[i];] *)
  Definition wakelosses (Zi F stale : Z -> cplx) (k : Z) : cplx :=
    if ((0 <=? k)%Z && (k <? N / 2)%Z)%bool then cmul (Zi k) (F k) else stale k.

  (** [_wakepotential_padded] after wakePotential() on padded profile [p] *)
  Definition wake_padded (Zi stale : Z -> cplx) (p : Z -> K) (j : Z) : K :=
    c2r (wakelosses Zi (formfactor p) stale) j.

  (** ** padding and read-back (index logic) *)
  Definition pad_index (s bk x : Z) : Z := (bk * s + x)%Z.      (* _bucket[b]*_spacing_bins+x *)
  Definition inwin (off n u : Z) : bool := ((off <=? u)%Z && (u <? off + n)%Z)%bool.

  (** bunches are (bucket number, profile); std::copy_n in bunch order *)
  Fixpoint pad (n s : Z) (bs : list (Z * (Z -> K))) (init : Z -> K) : Z -> K :=
    match bs with
    | [] => init
    | (bk, pr) :: r =>
        pad n s r (fun u => if inwin (pad_index s bk 0) n u then pr (u - pad_index s bk 0)%Z else init u)
    end.

  (** the part of [_bp_padded] the transform reads *)
  Definition padded (n s : Z) (bs : list (Z * (Z -> K))) (init : Z -> K) (u : Z) : K :=
    if inwin 0 N u then pad n s bs init u else 0.

  (** [_wakepotential[b][x] = _wakescaling * _wakepotential_padded[_bucket[b]*_spacing_bins+x]] *)
  Definition wake_model (n s : Z) (Zi stale : Z -> cplx) (init : Z -> K)
             (bs : list (Z * (Z -> K))) (scale : K) (bk x : Z) : K :=
    scale * wake_padded Zi stale (padded n s bs init) (pad_index s bk x).

  (** delegating constructor: Ib*dt*c/scale(Meter)/(delta_E*sigma_delta*E0), then /_nmax *)
  Definition wake_scaling (Ib dt c sz dE sd E0 : K) : K :=
    Ib * dt * c / sz / (dE * sd * E0) / fz N.

  (** ** updateCSR for one bunch whose profile has been copied to cells 0..n-1 of the buffer *)
  Definition csr_renorm (dq2 : K) (cut : option (Z -> K)) (i : Z) : K :=
    match cut with None => dq2 | Some g => dq2 * g i end.
  Definition csr_spectrum (dq2 : K) (cut : option (Z -> K)) (Zi : Z -> cplx) (p : Z -> K) (i : Z) : K :=
    csr_renorm dq2 cut i * fst (Zi i) * cnorm (formfactor p i).
  Definition csr_power (df dq2 : K) (cut : option (Z -> K)) (Zi : Z -> cplx) (p : Z -> K) : K :=
    sumZ 0%Z nN (fun i => df * csr_spectrum dq2 cut Zi p i).

  (** the buffer the transform of updateCSR sees: profile at offset 0 over [buf] *)
  Definition csr_buffer (n : Z) (pr : Z -> K) (buf : Z -> K) (u : Z) : K :=
    if inwin 0 N u then (if inwin 0 n u then pr u else buf u) else 0.

  (** ** executable front-end on lists (what the extracted driver runs).  The half spectrum is
      computed once and shared by all output cells. *)
  Definition getk (l : list K) : Z -> K := tget 0 (mk_tbl l).
  Definition getc (l : list cplx) : Z -> cplx := tget czero (mk_tbl l).
  Definition tabf (t : list K) : Z -> K := let g := getk t in fun m => g (m mod N)%Z.
End DFT.

Arguments czero {_}. Arguments cmul {_}. Arguments cnorm {_}.
Arguments r2c {_}. Arguments formfactor {_}. Arguments c2r {_}. Arguments wakelosses {_}.
Arguments wake_padded {_}. Arguments pad {_}. Arguments padded {_}. Arguments wake_model {_}.
Arguments wake_scaling {_}. Arguments csr_renorm {_}. Arguments csr_spectrum {_}.
Arguments csr_power {_}. Arguments csr_buffer {_}. Arguments altsign {_}.
Arguments tabf {_}. Arguments getk {_}. Arguments getc {_}.

Section DFTLists.
  Variable K : Fld.
  Local Open Scope F_scope.

  Definition zipc (re im : list K) : list (cplx K) := combine re im.

  (** padded profile, half spectrum, padded wake, per-bunch wake: lists *)
  Definition bunches_of (bks : list Z) (profs : list (list K)) : list (Z * (Z -> K)) :=
    combine bks (map (fun l => getk l) profs).

  Definition padded_list (N n s : Z) (bks : list Z) (profs : list (list K)) (init : list K) : list K :=
    let bs := bunches_of bks profs in let gi := getk init in
    map (padded N n s bs gi) (zrange N).

  Definition formfactor_list (N : Z) (tc ts : list K) (p : list K) : list (cplx K) :=
    let fc := tabf N tc in let fs := tabf N ts in let gp := getk p in
    map (formfactor N fc fs gp) (zrange (N / 2 + 1)).

  Definition wakelosses_list (N : Z) (zi : list (cplx K)) (F : list (cplx K)) (stale : list (cplx K)) : list (cplx K) :=
    let gz := getc zi in let gf := getc F in let gs := getc stale in
    map (wakelosses N gz gf gs) (zrange (N / 2 + 1)).

  (** the half spectrum [_wakelosses] (cells 0..N/2), computed once and shared by all output cells *)
  Definition halfspec_list (N : Z) (tc ts : list K) (zi stale : list (cplx K)) (p : list K) : list (cplx K) :=
    wakelosses_list N zi (formfactor_list N tc ts p) stale.

  (** [_wakepotential_padded] at the given cells *)
  Definition c2r_cells (N : Z) (tc ts : list K) (L : list (cplx K)) (cells : list Z) : list K :=
    let fc := tabf N tc in let fs := tabf N ts in let gl := getc L in
    map (c2r N fc fs gl) cells.

  Definition wake_padded_list (N : Z) (tc ts : list K) (zi stale : list (cplx K)) (p : list K) : list K :=
    c2r_cells N tc ts (halfspec_list N tc ts zi stale p) (zrange N).

  (** read-back [_wakescaling * _wakepotential_padded[_bucket[b]*_spacing_bins+x]] *)
  Definition readback_cells (n s : Z) (bks : list Z) : list (list Z) :=
    map (fun bk => map (fun x => pad_index s bk x) (zrange n)) bks.

  Definition wake_cells (N : Z) (tc ts : list K) (L : list (cplx K)) (scale : K) (cells : list Z) : list K :=
    map (fun w => scale * w) (c2r_cells N tc ts L cells).

  Definition wake_list (N n s : Z) (tc ts : list K) (zi stale : list (cplx K))
             (bks : list Z) (profs : list (list K)) (init : list K) (scale : K) : list (list K) :=
    let p := padded_list N n s bks profs init in
    let L := halfspec_list N tc ts zi stale p in
    map (wake_cells N tc ts L scale) (readback_cells n s bks).

  Definition csr_spectrum_list (N n : Z) (tc ts : list K) (zi : list (cplx K)) (dq2 : K)
             (cut : option (list K)) (prof buf : list K) : list K :=
    let gpr := getk prof in let gb := getk buf in
    let p := map (csr_buffer N n gpr gb) (zrange N) in
    let gF := getc (formfactor_list N tc ts p) in
    let gz := getc zi in
    let cutf := option_map (fun g => getk g) cut in
    map (fun i => csr_renorm dq2 cutf i * fst (gz i) * cnorm (gF i)) (zrange N).

  Definition csr_power_list (df : K) (spec : list K) : K := fsum (map (fun v => df * v) spec).
End DFTLists.

Arguments zipc {_}. Arguments bunches_of {_}. Arguments padded_list {_}. Arguments formfactor_list {_}.
Arguments wakelosses_list {_}. Arguments wake_padded_list {_}. Arguments wake_list {_}. Arguments halfspec_list {_}. Arguments c2r_cells {_}. Arguments wake_cells {_}.
Arguments csr_spectrum_list {_}. Arguments csr_power_list {_}.

(** ** padded length arithmetic of main.cpp (src/main.cpp:303-321, HelperFunctions.cpp:178) *)
Local Open Scope Z_scope.

(** [upper_power_of_two] on uint64_t: the bit-smearing round-up *)
Definition wrap64 (z : Z) : Z := z mod 2 ^ 64.
Definition smear (v sh : Z) : Z := Z.lor v (Z.shiftr v sh).
Definition upper_power_of_two (v0 : Z) : Z :=
  let v := wrap64 (v0 - 1) in
  let v := smear v 1 in let v := smear v 2 in let v := smear v 4 in
  let v := smear v 8 in let v := smear v 16 in let v := smear v 32 in
  wrap64 (v + 1).
