(** * Model of the collective force of one simulation step (C05).

    What is mirrored here (as the code is):
    - WakePotentialMap::update (src/SM/WakePotentialMap.cpp:34-50): the first [nb*n] values
      returned by ElectricField::wakePotential() are copied over the kick map's offset vector,
      then updateSM() turns them into the interpolation table;
    - RFKickMap::_calcKick, linear branch (src/SM/RFKickMap.cpp:60-68) at the synchronous phase
      with unit amplitude: offset[x] = tan(angle)*(xcenter - x), a float product, written for
      x < n only (bunch 0's block; the rest of the vector keeps its initial zeros);
    - the maps of one step in the order main() applies them (Gen/Gen_StepOrder.v).
    The kick maps themselves are Model/Kick.v.  The Fokker-Planck map is not modelled in this
    family: it is a parameter [fp] of the step interpreter (the statements proved about the
    energy kicks hold whatever it computes). *)
From Coq Require Import List ZArith QArith Qcanon Lia Bool.
From Inovesa Require Import Base.FieldKit Base.Float32 Gen.Gen_Coeffs Model.Kick
  Model.StepKinds Gen.Gen_StepOrder.
Import ListNotations.
Local Open Scope Z_scope.

(** ** offsets *)

(** std::copy_n(_field->wakePotential(), PhaseSpace::nb*_xsize, _offset.data()) *)
Definition wake_update (nb n : Z) (wp old : Z -> Qc) (i : Z) : Qc :=
  if ((0 <=? i) && (i <? nb * n))%bool then wp i else old i.

(** _offset[x] = std::tan(_angle)*(xcenter-x)  (+ 0, * 1) for x < _xsize; zero-initialised beyond.
    Two float operations: the difference (exact on an unshifted grid, where xcenter = (n-1)/2; rounded
    when --PhaseSpaceShiftX makes the zero bin a non-dyadic float) and the product. *)
Definition rf_offsets (n : Z) (t xc : Qc) (i : Z) : Qc :=
  if ((0 <=? i) && (i <? n))%bool then rnd32 (t * rnd32 (xc - Qcz i))%Qc else 0%Qc.

(** The displacement a table row written by updateSM realises for the stored offset [o]:
    the code splits the *float* sum n/2 + o, so this is what the stencil's first moment is. *)
Definition eff_off (n : Z) (o : Qc) : Qc := (rnd32 (Qcz (n / 2) + o) - Qcz (n / 2))%Qc.

(** ** one kick of one row: output cells exist for 0 <= y < n only *)
Definition krow (n it : Z) (o : Qc) (r : Z -> Qc) (y : Z) : Qc :=
  if ((0 <=? y) && (y <? n))%bool then row_out n it (sm_entry n it o) r y else 0%Qc.

(** row (b,x) / column (b,y) of a flat bunch-major grid, as functions that vanish outside the
    grid (the flat index of a cell outside 0 <= y < n would alias a neighbouring row) *)
Definition in_range (n i : Z) : bool := ((0 <=? i) && (i <? n))%bool.
Definition rowD (n : Z) (D : Z -> Qc) (b x : Z) (y : Z) : Qc :=
  if in_range n y then D (didx n b x y) else 0%Qc.
Definition colD (n : Z) (D : Z -> Qc) (b y : Z) (x : Z) : Qc :=
  if in_range n x then D (didx n b x y) else 0%Qc.

(** grid-level kicks as total functions (zero outside the nb*n*n cells); the list front-end
    below computes exactly these ([getQ_kick_y_list] in Proofs/ForceP.v) *)
Definition gkick_y (n nb it : Z) (offs D : Z -> Qc) (i : Z) : Qc :=
  if in_range (nb * n * n) i then apply_y n nb it (updateSM n it offs) D i else 0%Qc.
Definition gkick_x (n nb it : Z) (offs D : Z -> Qc) (i : Z) : Qc :=
  if in_range (nb * n * n) i then apply_x n nb it (updateSM n it offs) D i else 0%Qc.

(** the energy kicks at the head of a step order, applied to one row with per-map offsets *)
Fixpoint ykick_prefix (l : list smap) : list smap :=
  match l with
  | m :: r => if is_ykick m then m :: ykick_prefix r else []
  | [] => []
  end.

Definition row_kicks (n it : Z) (off : smap -> Qc) (ks : list smap) (r : Z -> Qc) : Z -> Qc :=
  fold_left (fun acc m => krow n it (off m) acc) ks r.

(** ** whole-grid step interpreter (lists; what the extracted driver runs) *)

Definition apply_map (n nb it : Z) (wo rfo dro : list Qc) (fp : list Qc -> list Qc)
           (m : smap) (data : list Qc) : list Qc :=
  match m with
  | MWake => kick_y_list n nb it wo data
  | MRF => kick_y_list n nb it rfo data
  | MDrift => kick_x_list n nb it dro data
  | MFP => fp data
  end.

(** all intermediate grids, in program order *)
Fixpoint run_maps (n nb it : Z) (wo rfo dro : list Qc) (fp : list Qc -> list Qc)
         (order : list smap) (data : list Qc) : list (list Qc) :=
  match order with
  | [] => []
  | m :: r => let d := apply_map n nb it wo rfo dro fp m data in
              d :: run_maps n nb it wo rfo dro fp r d
  end.

Definition wake_offsets_list (nb n : Z) (wp : list Qc) : list Qc :=
  map (wake_update nb n (getQ wp) (fun _ => 0%Qc)) (zrange (nb * n)).
Definition rf_offsets_list (nb n : Z) (t xc : Qc) : list Qc :=
  map (rf_offsets n t xc) (zrange (nb * n)).

(** one step in the generated order, the Fokker-Planck map left out ([fp] = identity marks the
    place; the driver compares the grids before it) *)
Definition step_grids (n nb it : Z) (wp : list Qc) (t xc : Qc) (dro : list Qc) (data : list Qc)
  : list (list Qc) :=
  run_maps n nb it (wake_offsets_list nb n wp) (rf_offsets_list nb n t xc) dro (fun d => d)
           step_order data.

(** ** row moments and the predicted change of the mean energy index (spec side) *)
Definition rowQ (n : Z) (data : list Qc) (b x : Z) (y : Z) : Qc := getQ data (didx n b x y).
Definition m0_list (n : Z) (r : Z -> Qc) : Qc := qsum (map r (zrange n)).
Definition m1_list (n : Z) (r : Z -> Qc) : Qc := qsum (map (fun y => (Qcz y * r y)%Qc) (zrange n)).

(** per (bunch,row): minus the sum of the effective offsets of the energy kicks *)
Definition predicted_shift (n nb : Z) (wp : list Qc) (t xc : Qc) (i : Z) : Qc :=
  (- (eff_off n (wake_update nb n (getQ wp) (fun _ => 0%Qc) i) + eff_off n (rf_offsets n t xc i)))%Qc.
Definition predicted_list (n nb : Z) (wp : list Qc) (t xc : Qc) : list Qc :=
  map (predicted_shift n nb wp t xc) (zrange (nb * n)).
Definition moments_list (n nb : Z) (data : list Qc) : list (Qc * Qc) :=
  map (fun i => (m0_list n (rowQ n data (i / n) (i mod n)), m1_list n (rowQ n data (i / n) (i mod n))))
      (zrange (nb * n)).
