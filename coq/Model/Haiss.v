(** * Model of the collective force of one simulation step (C05), on the nb-bunch grid.

    What is mirrored here (as the code is):
    - WakePotentialMap::update (src/SM/WakePotentialMap.cpp): the statements of the GENERATED
      program (Gen/Gen_WakeUpdate.v, executed by Model/WakeUpdate.v): the [nb*n] values returned by
      ElectricField::wakePotential() are copied over the kick map's offset vector, then
      KickMap::updateSM turns every entry into its interpolation row ([wake_offsets], [wake_table]);
    - RFKickMap::_calcKick, linear branch (src/SM/RFKickMap.cpp) at the synchronous phase with
      unit amplitude: offset[b*n+x] = tan(angle)*(xcenter - x), two float operations, written
      for the block of EVERY bunch (repo fix 072b56b; the pinned tree filled bunch 0's block only);
      its table is KickMap::updateSM of that vector (the same generated loops);
    - KickMap::apply, kick along y (wake kick and RF kick): the table block bunch [b] reads is
      selected by min(b,_lastbunch); table index, source cell, bound and data index are the
      GENERATED functions of Gen/Gen_KickIndex.v and [_lastbunch] is the GENERATED initialiser of
      the KickMap constructor (Gen/Gen_WakeUpdate.v) - nothing of the block rule is written by hand;
    - the maps of one step in the order main() applies them (Gen/Gen_StepOrder.v).
    The drift is the kick along x of Model/Kick.v.  The Fokker-Planck map is not modelled in this
    family: it is a parameter [fp] of the step interpreter (the statements proved about the
    energy kicks hold whatever it computes). *)
From Coq Require Import List ZArith QArith Qcanon Lia Bool.
From Inovesa Require Import Base.FieldKit Base.Float32 Gen.Gen_Coeffs Model.Kick
  Model.StepKinds Gen.Gen_StepOrder Model.RunKinds Gen.Gen_WakeUpdate Gen.Gen_Identity
  Gen.Gen_KickIndex Model.Copy Model.WakeUpdate.
Import ListNotations.
Local Open Scope Z_scope.

(** ** offsets *)

(** for (n < nb) for (x < _xsize) _offset[n*_xsize+x] = std::tan(_angle)*(xcenter-x)  (+ 0, * 1);
    zero-initialised beyond.  Two float operations: the difference (exact on an unshifted grid,
    where xcenter = (n-1)/2; rounded when --PhaseSpaceShiftX makes the zero bin a non-dyadic
    float) and the product. *)
Definition rf_offsets (nb n : Z) (t xc : Qc) (i : Z) : Qc :=
  if ((0 <=? i) && (i <? nb * n))%bool then rnd32 (t * rnd32 (xc - Qcz (i mod n)))%Qc else 0%Qc.

(** The displacement a table row written by updateSM realises for the stored offset [o]:
    the code splits the *float* sum n/2 + o, so this is what the stencil's first moment is. *)
Definition eff_off (n : Z) (o : Qc) : Qc := (rnd32 (Qcz (n / 2) + o) - Qcz (n / 2))%Qc.

(** ** one kick of one row: output cells exist for 0 <= y < n only *)
Definition krow (n it : Z) (o : Qc) (r : Z -> Qc) (y : Z) : Qc :=
  if ((0 <=? y) && (y <? n))%bool then row_out n it (sm_entry n it o) r y else 0%Qc.

(** row (b,x) / column (b,y) of a flat bunch-major grid, as functions that vanish outside the
    grid (the flat index of a cell outside 0 <= y < n would alias a neighbouring row) *)
Definition in_range (n i : Z) : bool := ((0 <=? i) && (i <? n))%bool.
Definition rowD (n : Z) (D : Z -> Qc) (b x : Z) (y : Z) : Qc :=
  if in_range n y then D (didx n b x y) else 0%Qc.
Definition colD (n : Z) (D : Z -> Qc) (b y : Z) (x : Z) : Qc :=
  if in_range n x then D (didx n b x y) else 0%Qc.

(** ** KickMap::apply, y branch, as the source has it now: one output cell.  [H] is the map's
    table [_hinfo]; geometry ([_meshsize_kd], [_meshsize_pd]) and [_lastbunch] from the generated
    constructors; the four index expressions from the generated loop body. *)
Definition ykick_cell (n nb it : Z) (H : Z -> Z * Qc) (D : Z -> Qc) (b x y : Z) : Qc :=
  let kd := wk_kd n nb in let pd := wk_pd n nb in let lb := km_lastbunch nb in
  qsum (map (fun j =>
    let h := H (ky_hinfo kd pd it lb b x y j) in
    let s := wrap32 (ky_src kd pd it lb b x y j (fst h)) in
    if s <? ky_bound kd pd it lb b x y j then (D (ky_read kd pd it lb b x y j s) * snd h)%Qc else 0%Qc)
    (zrange it)).

(** the whole grid: total function of the flat cell index, zero outside the nb*n*n cells *)
Definition gykick (n nb it : Z) (H : Z -> Z * Qc) (D : Z -> Qc) (i : Z) : Qc :=
  if in_range (nb * n * n) i then ykick_cell n nb it H D (cell_b n i) (cell_x n i) (cell_y n i) else 0%Qc.

(** the table of the RF kick map: KickMap::updateSM (generated loops) over its offset vector *)
Definition rf_table (n nb it : Z) (t xc : Qc) : Z -> Z * Qc :=
  updateSM_loop (wk_kd n nb) it (wk_offset_size n nb) (rf_offsets nb n t xc) (km_hinfo km_init).

(** wake kick after WakePotentialMap::update() with the wake potentials [wp]; RF kick *)
Definition gkick_wake (n nb it : Z) (wp : Z -> Qc) : (Z -> Qc) -> Z -> Qc :=
  gykick n nb it (wake_table n nb it wp).
Definition gkick_rf (n nb it : Z) (t xc : Qc) : (Z -> Qc) -> Z -> Qc :=
  gykick n nb it (rf_table n nb it t xc).

(** grid-level kicks for an arbitrary offset vector on the closed-form table of Model/Kick.v
    (drift; energy kicks with offsets given as such); the list front-end below computes exactly
    these ([getQ_kick_y_list] in Proofs/StepP.v) *)
Definition gkick_y (n nb it : Z) (offs D : Z -> Qc) (i : Z) : Qc :=
  if in_range (nb * n * n) i then apply_y n nb it (updateSM n it offs) D i else 0%Qc.
Definition gkick_x (n nb it : Z) (offs D : Z -> Qc) (i : Z) : Qc :=
  if in_range (nb * n * n) i then apply_x n nb it (updateSM n it offs) D i else 0%Qc.

(** the energy kicks at the head of a step order *)
Fixpoint ykick_prefix (l : list smap) : list smap :=
  match l with
  | m :: r => if is_ykick m then m :: ykick_prefix r else []
  | [] => []
  end.

(** ... applied to one row with per-map offsets *)
Definition row_kicks (n it : Z) (off : smap -> Qc) (ks : list smap) (r : Z -> Qc) : Z -> Qc :=
  fold_left (fun acc m => krow n it (off m) acc) ks r.

(** ... applied to the grid as the code applies them *)
Definition energy_kick (n nb it : Z) (wp : Z -> Qc) (t xc : Qc) (m : smap) (D : Z -> Qc) : Z -> Qc :=
  match m with
  | MWake => gkick_wake n nb it wp D
  | MRF => gkick_rf n nb it t xc D
  | _ => D
  end.
Definition energy_kicks (n nb it : Z) (wp : Z -> Qc) (t xc : Qc) (ks : list smap) (D : Z -> Qc) : Z -> Qc :=
  fold_left (fun acc m => energy_kick n nb it wp t xc m acc) ks D.

(** ** whole-grid step interpreters (lists; what the extracted driver runs) *)

(** (a) offsets given as such, closed-form tables of Model/Kick.v *)
Definition apply_map (n nb it : Z) (wo rfo dro : list Qc) (fp : list Qc -> list Qc)
           (m : smap) (data : list Qc) : list Qc :=
  match m with
  | MWake => kick_y_list n nb it wo data
  | MRF => kick_y_list n nb it rfo data
  | MDrift => kick_x_list n nb it dro data
  | MFP => fp data
  end.

(** all intermediate grids, in program order *)
Fixpoint run_maps (n nb it : Z) (wo rfo dro : list Qc) (fp : list Qc -> list Qc)
         (order : list smap) (data : list Qc) : list (list Qc) :=
  match order with
  | [] => []
  | m :: r => let d := apply_map n nb it wo rfo dro fp m data in
              d :: run_maps n nb it wo rfo dro fp r d
  end.

(** (b) the step as the code runs it: wake potentials in, tables from the generated update()
    and updateSM loops, block selection of the generated apply().  The tables are built once per
    map application (as update() does), not once per cell. *)
Definition ykick_list (n nb it : Z) (H : Z -> Z * Qc) (data : list Qc) : list Qc :=
  map (gykick n nb it H (getQ data)) (zrange (nb * n * n)).

Definition apply_map_code (n nb it : Z) (wp : list Qc) (t xc : Qc) (dro : list Qc)
           (fp : list Qc -> list Qc) (m : smap) (data : list Qc) : list Qc :=
  match m with
  | MWake => let H := wake_table n nb it (getQ wp) in ykick_list n nb it H data
  | MRF => let H := rf_table n nb it t xc in ykick_list n nb it H data
  | MDrift => kick_x_list n nb it dro data
  | MFP => fp data
  end.

Fixpoint run_maps_code (n nb it : Z) (wp : list Qc) (t xc : Qc) (dro : list Qc)
         (fp : list Qc -> list Qc) (order : list smap) (data : list Qc) : list (list Qc) :=
  match order with
  | [] => []
  | m :: r => let d := apply_map_code n nb it wp t xc dro fp m data in
              d :: run_maps_code n nb it wp t xc dro fp r d
  end.

(** the offset vectors and the table indices the two energy kick maps hold (all nb blocks) *)
Definition wake_offsets_list (nb n it : Z) (wp : list Qc) : list Qc :=
  let o := wake_offsets n nb it (getQ wp) in map o (zrange (nb * n)).
Definition rf_offsets_list (nb n : Z) (t xc : Qc) : list Qc :=
  map (rf_offsets nb n t xc) (zrange (nb * n)).
Definition wake_table_idx_list (nb n it : Z) (wp : list Qc) : list Z :=
  let H := wake_table n nb it (getQ wp) in map (fun k => fst (H k)) (zrange (nb * n * it)).
Definition rf_table_idx_list (nb n it : Z) (t xc : Qc) : list Z :=
  let H := rf_table n nb it t xc in map (fun k => fst (H k)) (zrange (nb * n * it)).

(** one step in the generated order, the Fokker-Planck map left out ([fp] = identity marks the
    place; the driver compares the grids before it) *)
Definition step_grids (n nb it : Z) (wp : list Qc) (t xc : Qc) (dro : list Qc) (data : list Qc)
  : list (list Qc) :=
  run_maps_code n nb it wp t xc dro (fun d => d) step_order data.

(** ** row moments and the predicted change of the mean energy index (spec side) *)
Definition rowQ (n : Z) (data : list Qc) (b x : Z) (y : Z) : Qc := getQ data (didx n b x y).
Definition m0_list (n : Z) (r : Z -> Qc) : Qc := qsum (map r (zrange n)).
Definition m1_list (n : Z) (r : Z -> Qc) : Qc := qsum (map (fun y => (Qcz y * r y)%Qc) (zrange n)).

(** per (bunch,row) i = b*n+x: minus the sum of the effective offsets of the energy kicks, the
    wake one from bunch b's own wake potential entry *)
Definition predicted_shift (n nb : Z) (wp : list Qc) (t xc : Qc) (i : Z) : Qc :=
  (- (eff_off n (getQ wp i) + eff_off n (rf_offsets nb n t xc i)))%Qc.
Definition predicted_list (n nb : Z) (wp : list Qc) (t xc : Qc) : list Qc :=
  map (predicted_shift n nb wp t xc) (zrange (nb * n)).
Definition moments_list (n nb : Z) (data : list Qc) : list (Qc * Qc) :=
  map (fun i => (m0_list n (rowQ n data (i / n) (i mod n)), m1_list n (rowQ n data (i / n) (i mod n))))
      (zrange (nb * n)).
