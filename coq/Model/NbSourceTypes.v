(** Vocabulary of translate/nbsource2coq.py (Gen/Gen_NbSource.v): the bound of a loop that indexes
    ElectricField::_bucket.  C17. *)
Inductive bucket_bound :=
| BoundNb        (* for (b = 0; b < PhaseSpace::nb; b++) ... _bucket[b] *)
| BoundOwnSize.  (* for (b = 0; b < _bucket.size(); b++) ... _bucket[b] *)
