(** * The modulation queue of DynamicRFKickMap as the source writes it (C19, seed C19-G)

    Syntax and semantics of what translate/dynqueue2coq.py reads off src/SM/DynamicRFKickMap.cpp
    (Gen/Gen_DynQueue.v): the `for` header of `__calcModulation(steps)`, the pair each iteration emplaces (as
    an expression, generated), the argument the constructors hand to `__calcModulation`, the statements of
    `apply()`, the arguments of `_calcKick()`, the statements of `getPastModulation()`, and every use of the
    member `_next_modulation` in the class.

    The semantics is written over the state of Model/DynRF.v so that Proofs/DynQueueP.v can show: the machine
    assembled from the GENERATED pieces is the hand-written machine of Model/DynRF.v (whose theorems then
    speak about the source of this run), the queue the generated loop builds has exactly `steps` entries,
    entry k is the generated expression at index k itself, and nothing but `pop()` in `apply()` ever
    changes the queue after construction.  No proofs in this file. *)
From Coq Require Import List ZArith String Bool.
From Inovesa Require Import Base.FieldKit Model.DynRF.
Import ListNotations.

(** a loop bound / call argument: a plain parameter of the enclosing function, or anything else (text) *)
Inductive bound := BParam (name : string) | BOther (text : string).

(** `for (T i = init; i < bound; i += inc)` *)
Record forhdr := mkfor { fh_init : Z; fh_lt : bound; fh_inc : Z }.

(** statements of `DynamicRFKickMap::apply()` *)
Inductive aop :=
| ACalcKick          (* _calcKick();  i.e. RFKickMap::_calcKick(front()[a0], front()[a1]) *)
| AKickApply         (* KickMap::apply(); *)
| APushFrontToPast   (* _past_modulation.emplace_back(std::move(_next_modulation.front())); *)
| APop.              (* _next_modulation.pop(); *)

(** statements of `getPastModulation()` *)
Inductive gop :=
| GMoveOut           (* auto rv = std::move(_past_modulation);  the member is left valid but unspecified *)
| GCopyOut           (* auto rv = _past_modulation; *)
| GClear             (* _past_modulation.clear(); *)
| GReturnRv.         (* return rv; *)

Definition bound_is_param (b : bound) (p : string) : bool :=
  match b with BParam n => String.eqb n p | BOther _ => false end.

(** the loop header the theorems need: i = 0; i < steps; i++ *)
Definition hdr_ok (h : forhdr) : bool :=
  Z.eqb (fh_init h) 0 && bound_is_param (fh_lt h) "steps" && Z.eqb (fh_inc h) 1.

(** both constructors build the queue for exactly their parameter `steps` *)
Definition ctor_args_ok (l : list (string * bound)) : bool :=
  negb (Nat.eqb (List.length l) 0) && forallb (fun x => bound_is_param (snd x) "steps") l.

(** uses of `_next_modulation`: (function, use).  After construction the queue is only read (`front`, `empty`,
    `size`) and popped, and popped by `apply` only: it is never refilled, reassigned or swapped. *)
Definition ref_ok (r : string * string) : bool :=
  let '(fn, use) := r in
  String.eqb use "front" || String.eqb use "empty" || String.eqb use "size" ||
  (String.eqb use "init" && String.eqb fn "constructor") ||
  (String.eqb use "pop" && String.eqb fn "apply").
Definition queue_refs_ok (l : list (string * string)) : bool :=
  forallb ref_ok l &&
  existsb (fun r => String.eqb (snd r) "init") l && existsb (fun r => String.eqb (snd r) "pop") l.

Section Q.
  Variable K : Fld.
  Variable sin : K -> K.

  (** the loop of `__calcModulation`: [entry i d0 d1] is the pair emplaced in the iteration with loop variable
      [i] whose two `_dist(_prng)` calls returned [d0], [d1]; [drawn] counts the variates consumed so far.
      (uint32_t arithmetic: with init 0, inc 1 and the test i < steps no operation wraps.) *)
  Fixpoint for_loop (fuel : nat) (i steps inc : Z) (drawn : nat) (noise : nat -> K)
           (entry : Z -> K -> K -> modn K) : list (modn K) :=
    match fuel with
    | O => []
    | S f =>
        if (i <? steps)%Z
        then entry i (noise drawn) (noise (S drawn)) :: for_loop f (i + inc)%Z steps inc (S (S drawn)) noise entry
        else []
    end.

  Definition gen_queue (h : forhdr) (entry : Z -> K -> K -> modn K) (noise : nat -> K) (steps : Z) : list (modn K) :=
    for_loop (Z.to_nat steps) (fh_init h) steps (fh_inc h) O noise entry.

  Variable G : Type.
  Variable kickmap : list K -> G -> G.
  Notation st := (DynRF.st K G).

  Definition sel (e : modn K) (a : Z) : K := if (a =? 0)%Z then fst e else snd e.

  Definition set_ub (s : st) : st :=
    mkSt (offs s) (queue s) (past s) (grid s) (flushed s) (kicks s) (used s) true.

  (** one statement of apply(); `front()` / `pop()` on an empty std::queue is undefined behaviour (flag [ub], as in
      Model/DynRF.v: once set, nothing changes any more).  Every statement reads the queue as it is when the
      statement is reached (a `pop()` placed before the `front()` would hand over the NEXT entry). *)
  Definition exec_aop (m : rfmap K) (args : list Z) (o : aop) (s : st) : st :=
    if ub s then s else
    match o with
    | ACalcKick =>
        match queue s with
        | [] => set_ub s
        | e :: _ =>
            let o' := write_prefix (calc_kick sin m (sel e (nth 0 args 0%Z)) (sel e (nth 1 args 1%Z))) (offs s) in
            mkSt o' (queue s) (past s) (grid s) (flushed s) (kicks s) (used s ++ [e]) false
        end
    | AKickApply =>
        mkSt (offs s) (queue s) (past s) (kickmap (offs s) (grid s)) (flushed s) (kicks s ++ [offs s]) (used s) false
    | APushFrontToPast =>
        match queue s with
        | [] => set_ub s
        | e :: _ => mkSt (offs s) (queue s) (past s ++ [e]) (grid s) (flushed s) (kicks s) (used s) false
        end
    | APop =>
        match queue s with
        | [] => set_ub s
        | _ :: q => mkSt (offs s) q (past s) (grid s) (flushed s) (kicks s) (used s) false
        end
    end.

  Definition gen_apply (m : rfmap K) (args : list Z) (ops : list aop) (s : st) : st :=
    fold_left (fun s o => exec_aop m args o s) ops s.

  (** getPastModulation(): [junk] is whatever a moved-from vector holds; [rv] the local *)
  Definition exec_gop (junk : list (modn K)) (o : gop) (x : st * list (modn K)) : st * list (modn K) :=
    let '(s, rv) := x in
    match o with
    | GMoveOut => (mkSt (offs s) (queue s) junk (grid s) (flushed s) (kicks s) (used s) (ub s), past s)
    | GCopyOut => (s, past s)
    | GClear => (mkSt (offs s) (queue s) [] (grid s) (flushed s) (kicks s) (used s) (ub s), rv)
    | GReturnRv => (mkSt (offs s) (queue s) (past s) (grid s) (flushed s ++ [rv]) (kicks s) (used s) (ub s), rv)
    end.

  Definition gen_flush (junk : list (modn K)) (ops : list gop) (s : st) : st :=
    if ub s then s else fst (fold_left (fun x o => exec_gop junk o x) ops (s, [])).

  Definition gen_exec (m : rfmap K) (args : list Z) (aops : list aop) (gops : list gop)
             (junk : list (modn K)) (o : op) (s : st) : st :=
    match o with Apply => gen_apply m args aops s | Flush => gen_flush junk gops s end.

  Definition gen_run (m : rfmap K) (args : list Z) (aops : list aop) (gops : list gop)
             (junk : list (modn K)) (ops : list op) (s : st) : st :=
    fold_left (fun s o => gen_exec m args aops gops junk o s) ops s.
End Q.

Arguments for_loop {K}. Arguments gen_queue {K}. Arguments gen_apply {K} sin {G}. Arguments gen_flush {K G}.
Arguments gen_exec {K} sin {G}. Arguments gen_run {K} sin {G}. Arguments exec_aop {K} sin {G}. Arguments exec_gop {K G}.
