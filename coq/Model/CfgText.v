(** * The text of a configuration file: what boost::program_options' config-file reader makes of a
      line, and what ProgramOptions::save(std::string) writes for a string option (C13; strengthening
      after seeded change C13-H: values with blanks written in quotes).

    The option model (Model/Options.v) works on opaque value tokens and a file is a list of
    (name, token) items: it says NOTHING about how a value becomes a line of text and a line of text a
    value again.  For numbers that glue is validated per case (the value of every saved line is
    compared bit for bit).  For strings the glue is this file:

    - [read_line] mirrors `common_config_file_iterator::get()` (boost/libs/program_options/src/
      config_file.cpp): everything from the first '#' on is a comment; the rest is trimmed
      (`trim_ws`: blank, tab, CR, LF); empty -> nothing; `[...]` -> section prefix; otherwise the line
      is split at the FIRST '=' and name and value are trimmed again; no '=' -> invalid_config_file_syntax.
      Quotes and backslashes have no meaning.  [getlines] is the `std::getline` loop.
    - [write_pieces] is a `ofs << a << b << ...` chain of save()'s string branch, read from the source
      by translate/options2coq.py ([gen_string_line] in Gen/Gen_Options.v); [quoted] is `std::quoted`.
    No proofs here (Proofs/CfgTextP.v). *)
From Coq Require Import List Ascii String Bool Arith.
Import ListNotations.
Local Open Scope char_scope.

Definition text := list ascii.

Definition nl : ascii := "010".
Definition is_nl (c : ascii) : bool := Ascii.eqb c nl.
Definition is_ws (c : ascii) : bool := Ascii.eqb c " " || Ascii.eqb c "009" || Ascii.eqb c "013" || Ascii.eqb c "010".
Definition is_hash (c : ascii) : bool := Ascii.eqb c "#".
Definition is_eq (c : ascii) : bool := Ascii.eqb c "=".

Fixpoint drop_ws (s : text) : text :=
  match s with
  | c :: r => if is_ws c then drop_ws r else s
  | [] => []
  end.

Definition trim_ws (s : text) : text := rev (drop_ws (rev (drop_ws s))).

(** the part before the first character satisfying [p] (everything if there is none) *)
Fixpoint cut_at (p : ascii -> bool) (s : text) : text :=
  match s with
  | [] => []
  | c :: r => if p c then [] else c :: cut_at p r
  end.

(** the part after the first character satisfying [p] *)
Fixpoint after (p : ascii -> bool) (s : text) : option text :=
  match s with
  | [] => None
  | c :: r => if p c then Some r else after p r
  end.

(** `while (getline(in, s))`: lines end at LF; a last line without LF counts when it is not empty *)
Fixpoint getlines (s : text) (cur : text) : list text :=
  match s with
  | [] => match cur with [] => [] | _ => [rev cur] end
  | c :: r => if is_nl c then rev cur :: getlines r [] else getlines r (c :: cur)
  end.

Inductive line := LBlank | LSection (prefix : text) | LOption (name value : text) | LError.

Definition read_line (raw : text) : line :=
  let s := trim_ws (cut_at is_hash raw) in
  match s with
  | [] => LBlank
  | c :: _ =>
    if Ascii.eqb c "[" && Ascii.eqb (last s c) "]" then LSection (removelast (tl s))
    else match after is_eq s with
         | Some v => LOption (trim_ws (cut_at is_eq s)) (trim_ws v)
         | None => LError
         end
  end.

Definition read_text (t : text) : list line := map read_line (getlines t []).

(** the (name, value) pairs the reader hands to store(), with the section prefix; None = the reader throws *)
Fixpoint file_options (prefix : text) (ls : list line) : option (list (text * text)) :=
  match ls with
  | [] => Some []
  | LBlank :: r => file_options prefix r
  | LSection p :: r => file_options (match rev p with "." :: _ => p | _ => p ++ ["."] end) r
  | LOption n v :: r => option_map (cons (prefix ++ n, v)) (file_options prefix r)
  | LError :: _ => None
  end.

(** save(): one `ofs << ...` chain of the string branch *)
Inductive wpiece := WName | WVal | WQuotedVal | WLit (s : text) | WEndl.

Definition quoted (v : text) : text :=
  """" :: flat_map (fun c => if Ascii.eqb c """" || Ascii.eqb c "\" then ["\"; c] else [c]) v ++ [""""].

Definition write_pieces (ps : list wpiece) (name v : text) : text :=
  flat_map (fun p => match p with WName => name | WVal => v | WQuotedVal => quoted v | WLit s => s | WEndl => [nl] end) ps.

(** `ofs << it->first << '=' << val << std::endl` *)
Definition plain_string_line : list wpiece := [WName; WLit ["="]; WVal; WEndl].

(** what `--config <saved file>` reads back for a string option written by the chain [ps] *)
Definition reread (ps : list wpiece) (name v : text) : option (list (text * text)) :=
  file_options [] (read_text (write_pieces ps name v)).

(** option names: letters, digits, underscore; not empty *)
Definition name_char (c : ascii) : bool :=
  let n := nat_of_ascii c in
  (((48 <=? n) && (n <=? 57)) || ((65 <=? n) && (n <=? 90)) || ((97 <=? n) && (n <=? 122)) || (n =? 95))%nat.
Definition name_ok (n : text) : bool := match n with [] => false | _ => forallb name_char n end.

(** the string values a line of a configuration file can hold: no '#', no line feed, no white space at
    either end (inner blanks, tabs, quotes, backslashes and '=' are fine; so is the empty string) *)
Definition edge_ok (v : text) : bool := match v with c :: _ => negb (is_ws c) | [] => true end.
Definition cfg_representable (v : text) : bool :=
  forallb (fun c => negb (is_hash c) && negb (is_nl c)) v && edge_ok v && edge_ok (rev v).

Definition text_of_string (s : string) : text := list_ascii_of_string s.
Definition string_of_text (t : text) : string := string_of_list_ascii t.
