(** * The two loop nests of KickMap::apply as the source has them (Gen/Gen_KickLoop.v), run as programs.

    [Gen_KickLoop] (translate/kickloop2coq.py, regenerated on every run) holds, for the kick along x ([kxl_*], drift) and
    the kick along y ([kyl_*], RF kick and wake kick), the ranges of the four loops, the table index, the source cell and
    its bound, the read and the write index; the translator has checked that the function body is nothing but
    [data_in = _in->getData(); data_out = _out->getData(); if (_kickdirection == Axis::x) NEST else NEST] without any other
    conditional, [continue], [break], [return] or call, and lists the members the function mentions ([kl_members]).
    Here the nests are interpreted: [kfor lo hi body s] runs [body lo], ..., [body (hi-1)] on the state; the state of the
    three outer loops is the output array [data_out] (a function of the flat index; a cell that is not written keeps what
    the array held before - the earlier content of the target grid), the state of the innermost loop the accumulator
    [value].  No proofs here (Proofs/KickLoopP.v). *)
From Coq Require Import List ZArith QArith Qcanon.
From Inovesa Require Import Base.FieldKit Gen.Gen_KickLoop Model.Kick.
Import ListNotations.
Local Open Scope Z_scope.

Definition kfor {S : Type} (lo hi : Z) (body : Z -> S -> S) (s : S) : S :=
  fold_left (fun t k => body k t) (map (fun k => lo + k) (zrange (hi - lo))) s.

(** [data_out[i] = v] *)
Definition updq (o : Z -> Qc) (i : Z) (v : Qc) : Z -> Qc := fun k => if (k =? i)%Z then v else o k.

(** the accumulator after the loop over the stencil points of output cell (b, x, y) *)
Definition kyl_value (nb kd pd ip lb : Z) (H : Z -> Z * Qc) (D : Z -> Qc) (b x y : Z) : Qc :=
  kfor (kyl_j_lo nb kd pd ip lb b x y) (kyl_j_hi nb kd pd ip lb b x y)
       (fun j value => let h := H (kyl_hinfo nb kd pd ip lb b x y j) in
                       let s := wrap32 (kyl_src nb kd pd ip lb b x y j (fst h)) in
                       if s <? kyl_bound nb kd pd ip lb b x y j
                       then (value + D (kyl_read nb kd pd ip lb b x y j s) * snd h)%Qc else value) 0%Qc.

Definition kxl_value (nb kd pd ip lb : Z) (H : Z -> Z * Qc) (D : Z -> Qc) (b x y : Z) : Qc :=
  kfor (kxl_j_lo nb kd pd ip lb b x y) (kxl_j_hi nb kd pd ip lb b x y)
       (fun j value => let h := H (kxl_hinfo nb kd pd ip lb b x y j) in
                       let s := wrap32 (kxl_src nb kd pd ip lb b x y j (fst h)) in
                       if s <? kxl_bound nb kd pd ip lb b x y j
                       then (value + D (kxl_read nb kd pd ip lb b x y j s) * snd h)%Qc else value) 0%Qc.

(** the whole nests: [out0] is what [data_out] held before the call *)
Definition kick_y_loops (nb kd pd ip lb : Z) (H : Z -> Z * Qc) (D : Z -> Qc) (out0 : Z -> Qc) : Z -> Qc :=
  kfor (kyl_b_lo nb kd pd ip lb) (kyl_b_hi nb kd pd ip lb) (fun b =>
    kfor (kyl_x_lo nb kd pd ip lb b) (kyl_x_hi nb kd pd ip lb b) (fun x =>
      kfor (kyl_y_lo nb kd pd ip lb b x) (kyl_y_hi nb kd pd ip lb b x) (fun y out =>
        updq out (kyl_write nb kd pd ip lb b x y) (kyl_value nb kd pd ip lb H D b x y)))) out0.

Definition kick_x_loops (nb kd pd ip lb : Z) (H : Z -> Z * Qc) (D : Z -> Qc) (out0 : Z -> Qc) : Z -> Qc :=
  kfor (kxl_b_lo nb kd pd ip lb) (kxl_b_hi nb kd pd ip lb) (fun b =>
    kfor (kxl_x_lo nb kd pd ip lb b) (kxl_x_hi nb kd pd ip lb b) (fun x =>
      kfor (kxl_y_lo nb kd pd ip lb b x) (kxl_y_hi nb kd pd ip lb b x) (fun y out =>
        updq out (kxl_write nb kd pd ip lb b x y) (kxl_value nb kd pd ip lb H D b x y)))) out0.
