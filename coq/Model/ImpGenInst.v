(** * Executable instance (canonical rationals) of the generated impedance definitions and of
      their specification, for the correspondence check of C16 (extracted by Extract_imp.v).
      The transcendental leaves are not executable: the factory is run with the constructors
      of the four models replaced by the implementation's own vectors ([makeImpedance_with]),
      which exercises the generated selection logic, argument-independent; sample VALUES are
      validated relationally ([accept_*] of Model/Impedance.v) against the prefactor, the
      frequency step and the squared wall constant of the specification (Model/ImpedanceSpec.v),
      which Proofs/ImpedanceGenP.v proves equal to the generated expressions.  No proofs here. *)
From Coq Require Import List ZArith QArith Qcanon Bool.
From Inovesa Require Import Base.FieldKit Base.Float32 Model.Impedance Model.ImpKit Model.ImpedanceSpec
  Gen.Gen_Imp.
Import ListNotations.

Definition qeqb (a b : Qc) : bool := if Qc_eq_dec a b then true else false.

(** order leaves over Qc (exact on doubles), binary32 complex addition; [piq cvq z0q] are the
    rational values of pi (to 50 digits), physcons::c and Impedance::Z0 used by the validators *)
Definition EQ (piq cvq z0q : Qc) : Leaves QcF :=
  mkLeaves QcF (fun _ _ => 0%Qc) (fun _ => 0%Qc) (fun _ => 0%Qc) qabs piq cvq z0q qlt qle qeqb cq_add
           (fun _ _ _ _ _ => cq0).

Definition gen_sum_q (l r : list cq) : list cq := add_assign QcF (EQ 1 1 1) l r.
Definition gen_const_q (n : Z) (z : cq) : list cq := ConstImpedance_ctor QcF (EQ 1 1 1) n 0%Qc z.

Definition gen_factory_q (n : Z) (gap : Qc) (use_csr : bool) (s xi rc : Qc)
           (ppv fsv rwv collv : list cq) (file : option (list cq)) : option (list cq) :=
  makeImpedance_with QcF (EQ 1 1 1) (fun _ _ _ _ => ppv) (fun _ _ _ => fsv) (fun _ _ _ _ _ _ _ => rwv)
                     (fun _ _ _ _ => collv) n 1%Qc 1%Qc 1%Qc gap use_csr s xi rc file.

(** validators fed by the specification's constants *)
Definition accept_fs_spec (tol : Qc) (n : Z) (f_rev f_max : Qc) (v : list cq) : bool :=
  accept_fs tol (fst (sp_fs_Z0 (K:=QcF))) (snd (sp_fs_Z0 (K:=QcF))) (sp_delta (K:=QcF) n f_rev f_max) n v.

Definition accept_rw_spec (tol piq cvq z0q : Qc) (n : Z) (f0 f_max L s xi b : Qc) (v : list cq) : bool :=
  accept_rw tol (sp_rw_k (EQ piq cvq z0q) f0 L s xi b) (sp_delta (K:=QcF) n f0 f_max) n v.

(** [lnlo <= ln(outer/inner) <= lnhi] certified or computed outside; the factor Z0/pi is the spec's *)
Definition accept_coll_spec (tol piq z0q lnlo lnhi : Qc) (n : Z) (v : list cq) : bool :=
  accept_const (z0q / piq * lnlo * (1 - tol))%Qc (z0q / piq * lnhi * (1 + tol))%Qc n v.
