(** * The analytic sample functions of the impedance models over the real numbers
      (DESIGN 5/C16 item 3).  Mirrors the formulas of FreeSpaceCSR.cpp:36-38,
      ResistiveWall.cpp:42-51 and CollimatorImpedance.cpp:19-20; the sample vectors are the
      loops of Model/Impedance.v with these value functions.  No proofs in this file. *)
From Coq Require Import Reals List ZArith.
From Inovesa Require Import Base.FieldKit Model.Impedance.
Local Open Scope R_scope.

(** [std::pow(x, a)] for [x >= 0], [a > 0]: zero at zero (Coq's [Rpower 0 a] is [1]) *)
Definition rpow (x a : R) : R := if Rle_dec x 0 then 0 else Rpower x a.
Definition cbrt (x : R) : R := rpow x (/ 3).

Definition creal : Type := (R * R)%type.
Definition cr0 : creal := (0, 0).
Definition cr_add (a b : creal) : creal := (fst a + fst b, snd a + snd b).
Definition cr_scale (k : R) (a : creal) : creal := (k * fst a, k * snd a).
Definition passive (z : creal) : Prop := 0 <= fst z.

(** FreeSpaceCSR: [Z0 = impedance_t(306.3,176.9)], sample [Z0 * pow(i*delta, 1/3)] *)
Definition fs_re : R := 3063 / 10.
Definition fs_im : R := 1769 / 10.
Definition fs_sample (x : R) : creal := (fs_re * cbrt x, fs_im * cbrt x).

(** ResistiveWall: [Z1 = sqrt(Z0*mu_r*f0/s/pi/c)*L/2/b * (1,-1)], sample [Z1 * sqrt(i*delta)] *)
Definition rw_Z1 (Z0 mu_r f0 s c L b : R) : R := sqrt (Z0 * mu_r * f0 / s / PI / c) * L / 2 / b.
Definition rw_sample (Z1 x : R) : creal := (Z1 * sqrt x, - (Z1 * sqrt x)).

(** CollimatorImpedance: [(Z0/pi*log(outer/inner), 0)] *)
Definition coll_sample (Z0 ro ri : R) : creal := (Z0 / PI * ln (ro / ri), 0).

(** the vectors *)
Definition fs_vec (n : Z) (delta : R) : list creal :=
  push_loop cr0 n (fun i => fs_sample (IZR i * delta)).
Definition rw_vec (n : Z) (Z1 delta : R) : list creal :=
  push_loop cr0 n (fun i => rw_sample Z1 (IZR i * delta)).
Definition coll_vec (n : Z) (Z0 ro ri : R) : list creal :=
  const_vec cr0 n (coll_sample Z0 ro ri).

(** the factory with the analytic contributions; the parallel-plates samples stay abstract *)
Definition factory_R (pp : Z -> creal) (dfs Z1 drw Z0 ro ri : R) :=
  make_impedance cr0 cr_add pp (fun i => fs_sample (IZR i * dfs))
                 (fun i => rw_sample Z1 (IZR i * drw)) (coll_sample Z0 ro ri).
