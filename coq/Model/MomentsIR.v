(** * Target vocabulary of translate/moments2coq.py (Gen/Gen_Moments.v).

    The translator executes the loops of src/PS/PhaseSpace.cpp symbolically and prints, for every member
    array a function writes, its closed form: a total function of the cell coordinates
    [fun c0 c1 c2 => if <cell in the written region> then <value> else <previous content>], values being
    field expressions with finite sums ([gsum]) and iterated scalar updates ([giter]).  This file only
    fixes the vocabulary those closed forms are written in; it contains no statement about PhaseSpace.
    Proofs/MomentsGenP.v proves the hand-written model (Model/Moments.v) equal to the generated functions. *)
From Coq Require Import List ZArith Bool.
From Inovesa Require Import Base.FieldKit Base.Sums.

Section IR.
  Variable K : Fld.
  Local Open Scope F_scope.

  (** what is constant in an object: global sizes, the two rulers seen through [getDelta]/[_qp],
      [_filling_set], [_ws], and the test [x > 0] *)
  Record env := mkEnv {
    e_nx : Z; e_ny : Z; e_nb : Z;
    e_delta : Z -> K;          (* getDelta(axis) = _axis[axis]->delta() *)
    e_qp : Z -> Z -> K;        (* _qp(axis,i)    = _axis[axis]->at(i) *)
    e_fset : Z -> K;           (* _filling_set[b] *)
    e_ws : Z -> K;             (* _ws[i] *)
    e_pos : K -> bool }.       (* x > 0 *)

  (** the mutable members *)
  Record mst := mkMst {
    m_data : Z -> Z -> Z -> K;     (* _data[b][x][y] *)
    m_proj : Z -> Z -> Z -> K;     (* _projection[axis][b][i] *)
    m_fill : Z -> K;               (* _filling[b] *)
    m_int : K;                     (* _integral *)
    m_mom : Z -> Z -> Z -> K }.    (* _moment[axis][order][b] *)

  Definition set_data f (s : mst) := mkMst f (m_proj s) (m_fill s) (m_int s) (m_mom s).
  Definition set_proj f (s : mst) := mkMst (m_data s) f (m_fill s) (m_int s) (m_mom s).
  Definition set_fill f (s : mst) := mkMst (m_data s) (m_proj s) f (m_int s) (m_mom s).
  Definition set_int f (s : mst) := mkMst (m_data s) (m_proj s) (m_fill s) f (m_mom s).
  Definition set_mom f (s : mst) := mkMst (m_data s) (m_proj s) (m_fill s) (m_int s) f.

  (** [for (i = lo; i < hi; i++) acc += f i] *)
  Definition gsum (lo hi : Z) (f : Z -> K) : K := sumZ lo (Z.to_nat (hi - lo)) f.
  (** value of a scalar after k rounds of [s = F s] *)
  Definition giter (k : Z) (F : K -> K) (x : K) : K := Nat.iter (Z.to_nat k) F x.
  (** lo <= i < hi *)
  Definition inr (lo hi i : Z) : bool := ((lo <=? i)%Z && (i <? hi)%Z)%bool.
End IR.

Arguments e_nx {_}. Arguments e_ny {_}. Arguments e_nb {_}. Arguments e_delta {_}. Arguments e_qp {_}.
Arguments e_fset {_}. Arguments e_ws {_}. Arguments e_pos {_}.
Arguments m_data {_}. Arguments m_proj {_}. Arguments m_fill {_}. Arguments m_int {_}. Arguments m_mom {_}.
Arguments inr lo hi i : simpl never.
