(** * Vocabulary of the generated files Gen_Scaling.v / Gen_ScalingZ.v (translate/scaling2coq.py, scalingz2coq.py).

    Gen_Scaling.v states main()'s derived quantities in exact arithmetic over a generic field.  What is not a field
    operation in the C++ - comparisons ([>], [std::max], [fpclassify(x) == FP_ZERO]), [std::sqrt], [boost::math::sign],
    [std::ceil] ... - appears through the abstract operations of an [Ops K]: the theorems hold for *every*
    interpretation of them, in particular for the real ones.  No proofs here.

    Gen_ScalingZ.v states the integer sizes with the code's own arithmetic (binary64 rounding after every double
    operation, unsigned wrap-around, float -> unsigned conversions with their undefined domain); it uses the
    definitions of Model/Bounds.v ([conv], [f2u], [rnd53], [Qcround], [Qcceil], [upper_power_of_two], [w64]) and the
    comparison helpers below. *)
From Coq Require Import List ZArith QArith Qcanon Qround Bool.
From Inovesa Require Import Base.FieldKit Base.Float32.
Import ListNotations.

Record Ops (K : Fld) := mkOps {
  o_lt : K -> K -> bool;        (* a < b  (a > b is o_lt b a; a <= b is negb (o_lt b a)) *)
  o_eq : K -> K -> bool;        (* a == b *)
  o_is0 : K -> bool;            (* std::fpclassify(a) == FP_ZERO *)
  o_isnormal : K -> bool;       (* std::fpclassify(a) == FP_NORMAL *)
  o_sqrt : K -> K; o_pow : K -> K -> K; o_sign : K -> K; o_abs : K -> K;
  o_round : K -> K; o_ceil : K -> K; o_floor : K -> K; o_trunc : K -> K;   (* float -> integer conversion: o_trunc *)
  o_idiv : K -> K -> K;         (* integer division *)
  o_upow2 : K -> K }.           (* upper_power_of_two *)
Arguments o_lt {_}. Arguments o_eq {_}. Arguments o_is0 {_}. Arguments o_isnormal {_}. Arguments o_sqrt {_}.
Arguments o_pow {_}. Arguments o_sign {_}. Arguments o_abs {_}. Arguments o_round {_}. Arguments o_ceil {_}.
Arguments o_floor {_}. Arguments o_trunc {_}. Arguments o_idiv {_}. Arguments o_upow2 {_}.

(** comparisons on exact values of floating variables *)
Definition qlt (a b : Qc) : bool := negb (Qle_bool (this b) (this a)).
Definition qle (a b : Qc) : bool := Qle_bool (this a) (this b).
Definition qeq (a b : Qc) : bool := Qeq_bool (this a) (this b).
Definition Qcmin (a b : Qc) : Qc := if Qle_bool (this b) (this a) then b else a.

(** an executable interpretation over Qc (order and rounding functions are the real ones; [o_sqrt] and [o_pow] are
    not computable exactly and are interpreted as the identity / first argument: used only in non-vacuity examples
    whose branch does not evaluate them) *)
Definition QcOps : Ops QcF :=
  mkOps QcF qlt qeq (fun a => qeq a 0%Qc) (fun a => negb (qeq a 0%Qc))
        (fun a => a) (fun a _ => a)
        (fun a => if qlt a 0%Qc then (- (1))%Qc else if qlt 0%Qc a then 1%Qc else 0%Qc)
        (fun a => if qlt a 0%Qc then (- a)%Qc else a)
        (fun a => Qcz (if Qle_bool 0 (this a) then Qfloor (this a + (1 # 2)) else - Qfloor (- this a + (1 # 2))))
        (fun a => Qcz (Qceiling (this a))) (fun a => Qcz (Qfloor (this a))) (fun a => Qcz (Qctrunc a))
        (fun a b => Qcz (Qctrunc (a / b)%Qc)) (fun a => a).

(** environments for the generated definitions from value lists in the order of the generated [*_index] functions *)
Definition env_of {A I : Type} (index : I -> nat) (d : A) (vals : list A) (i : I) : A := nth (index i) vals d.
