(** * Vocabulary of the generated file Gen/Gen_RFDrift.v (translate/rfdrift2coq.py): the offset fields of
    RFKickMap (src/SM/RFKickMap.cpp: both constructors, [_calcKick], both branches) and of DriftMap
    (src/SM/DriftMap.cpp: the constructor), read from the C++ source on every run.

    What the generated definitions are written in:
      - [axfacts]: what the code asks an axis ([Ruler]) of the *source* grid for: [zerobin()], [delta()], [at(i)],
        [scale(unit)].  [A0] is the axis [in->getAxis(0)] (position), [A1] is [in->getAxis(1)] (energy); a use of
        [_axis[k]] is resolved through SourceMap's own initialiser of [_axis];
      - [rfk_members]: the data members of RFKickMap in their declaration order (which is the order in which the
        mem-initialisers run);
      - the statement kinds whose order is emitted ([rfd_stmt], [rfk_cstmt]);
      - the loop semantics the emitted bounds / index / value functions are run by: [fill2] (two nested counting
        loops writing one cell per iteration), [fill1], [acc_loop] (a counting loop that accumulates into the cell
        being written), element by element in program order.
    No proofs here. *)
From Coq Require Import List ZArith Bool.
From Inovesa Require Import Base.FieldKit.
Import ListNotations.

(** statements of [RFKickMap::_calcKick] and of the DriftMap constructor body: the loop nest that fills [_offset],
    and the call of [updateSM()] *)
Inductive rfd_stmt : Set := RDFill | RDUpdateSM.
(** statements of the RFKickMap constructors' bodies *)
Inductive rfk_cstmt : Set := RCCalcKick.

(** the unit names Ruler::scale(unit) is asked for (an inductive instead of strings keeps the extraction of the rf family
    free of Coq's string type); the translator refuses any other unit *)
Inductive runit : Set := U_Meter | U_ElectronVolt | U_Hertz | U_Seconds.

Record axfacts (K : Fld) := mkAx {
  ax_zerobin : K;             (* Ruler::zerobin() *)
  ax_delta : K;               (* Ruler::delta() *)
  ax_at : Z -> K;             (* Ruler::at(i) *)
  ax_scale : runit -> K }.    (* Ruler::scale(unit) *)
Arguments mkAx {K}. Arguments ax_zerobin {K}. Arguments ax_delta {K}. Arguments ax_at {K}. Arguments ax_scale {K}.

Record rfk_members (K : Fld) := mkRFK {
  m_linear : bool; m_angle : K; m_revolutionpart : K; m_V_RF : K; m_f_RF : K; m_V0 : K;
  m_syncphase : K; m_bl2phase : K }.
Arguments mkRFK {K}. Arguments m_linear {K}. Arguments m_angle {K}. Arguments m_revolutionpart {K}.
Arguments m_V_RF {K}. Arguments m_f_RF {K}. Arguments m_V0 {K}. Arguments m_syncphase {K}. Arguments m_bl2phase {K}.

Section Kit.
  Variable A : Type.
  Local Open Scope Z_scope.

  Definition rfd_upd (f : Z -> A) (k : Z) (v : A) (i : Z) : A := if i =? k then v else f i.

  (** [for (o = 0; o < ob; o++) for (i = 0; i < ib; i++) arr[idx o i] = val o i] *)
  Definition fill2 (ob ib : Z) (idx : Z -> Z -> Z) (val : Z -> Z -> A) (old : Z -> A) : Z -> A :=
    fold_left (fun a o => fold_left (fun a' i => rfd_upd a' (idx o i) (val o i)) (zrange ib) a) (zrange ob) old.

  (** [for (y = 0; y < b; y++) arr[idx y] = val y] *)
  Definition fill1 (b : Z) (idx : Z -> Z) (val : Z -> A) (old : Z -> A) : Z -> A :=
    fold_left (fun a y => rfd_upd a (idx y) (val y)) (zrange b) old.

  (** [for (i = 0; i < bound; i++) cell = f cell i], started from [init] *)
  Definition acc_loop (bound : Z) (f : A -> Z -> A) (init : A) : A := fold_left f (zrange bound) init.
End Kit.
Arguments rfd_upd {A}. Arguments fill2 {A}. Arguments fill1 {A}. Arguments acc_loop {A}.

(** [v[i]] and [v.size()] of a std::vector argument *)
Definition nthK {K : Fld} (l : list K) (i : Z) : K := nth (Z.to_nat i) l f0.
Definition zlen {A : Type} (l : list A) : Z := Z.of_nat (List.length l).
