(** The driver model instantiated with the queue model of the dynamic RF map (Model/DynRF.v):
    the RF table is `_offset`, a modulation record is a (phase, amplitude) pair, and computing the
    table for a step is `_calcKick(record)` (overwrites the first `_xsize` entries).  Everything
    else stays what the kernel record [K0] says.  Used by C19 to state which record the kick of
    step j was computed from, for the program generated from main(). *)
From Coq Require Import List ZArith.
From Inovesa Require Import Base.FieldKit Model.Driver Model.DynRF.
Import ListNotations.

Definition rfK (K0 : kern) (F : Fld) (sin : F -> F) (m : rfmap F)
           (kickmap : list F -> tG K0 -> tG K0)
           (trk : bool -> map -> tW K0 -> list F -> tRng K0 -> tTr K0 -> tTr K0 * tRng K0) : kern :=
  mkkern (tG K0) (tP K0) (tFl K0) (tY K0) (tMo K0) (tCs K0) (tWf K0) (tW K0)
         (list F) (modn F) (tTr K0) (tRng K0)
         (k_projX K0) (k_projY K0) (k_integ K0) (k_norm K0) (k_mom0 K0) (k_mom1 K0)
         (k_wakeOf K0) (k_offsOf K0) (k_csrOf K0) (k_kWake K0) (k_idmap K0)
         (fun o e => write_prefix (calc_kick sin m (fst e) (snd e)) o)
         kickmap (k_kDrift K0) (k_kFP K0) trk (f0, f0).
