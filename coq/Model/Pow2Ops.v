(** * The operations of vfps::upper_power_of_two on one uint64 register.
    [Gen/Gen_Pow2.v] (translate/pow2coq.py) lists the operations the function body performs, in order;
    [run_uops] executes such a list with 64-bit wrap-around written out. *)
From Coq Require Import List ZArith.
Import ListNotations.
Local Open Scope Z_scope.

Inductive uop := UDec | UInc | UOrShr (k : Z).

Definition wrap64 (z : Z) : Z := z mod 2 ^ 64.

Definition run_uop (o : uop) (v : Z) : Z :=
  match o with
  | UDec => wrap64 (v - 1)
  | UInc => wrap64 (v + 1)
  | UOrShr k => Z.lor v (Z.shiftr v k)
  end.

Definition run_uops (l : list uop) (v : Z) : Z := fold_left (fun a o => run_uop o a) l v.

Definition uop_eqb (a b : uop) : bool :=
  match a, b with
  | UDec, UDec | UInc, UInc => true
  | UOrShr j, UOrShr k => Z.eqb j k
  | _, _ => false
  end.

Fixpoint uops_eqb (a b : list uop) : bool :=
  match a, b with
  | [], [] => true
  | x :: a', y :: b' => uop_eqb x y && uops_eqb a' b'
  | _, _ => false
  end.

(** the cascade of the model ([Model/Bounds.v], [Model/DFT.v]) *)
Definition smear_ops : list uop := [UDec; UOrShr 1; UOrShr 2; UOrShr 4; UOrShr 8; UOrShr 16; UOrShr 32; UInc].
