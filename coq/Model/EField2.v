(** EField2 - the extended operation set of C18 (second wave): getters, and two field objects in one
    process.

    What exists in the code (src/PS/ElectricField.cpp, inc/PS/ElectricField.hpp, src/FFTWWrapper.cpp,
    src/main.cpp):
    - the getters (getWakePotentials, getPaddedWakePotential, getPaddedBunchProfiles, getCSRSpectrum,
      getCSRPower, getNMax, getBuckets, getWakeScaling, getFreqRuler ...) are const inline functions
      returning a member or a pointer to a buffer: they change nothing;
    - every ElectricField object owns its buffers (fft_alloc_* in its constructor / _initWakeLossFFT)
      and its two FFTW plans, which are created for those buffers; [fft_execute(plan)] touches the arrays
      the plan was made for and nothing else; FFTWWrapper.cpp has no static buffer or plan; the only
      process-wide state is FFTW's planner wisdom, which decides WHICH algorithm a plan uses (so two
      objects of the same length run the same algorithm) but is not read or written by executing a plan;
    - main() builds two objects on the same PhaseSpace: [rdtn_field] (CSR output; spacing 0; constructed
      without the wake transform) and [wake_field] (beam dynamics), of different transform lengths
      (padded_bins vs spaced_bins for several bunches); both read the projection of the same
      PhaseSpace and neither writes it.
    Hence the model of two objects is the PRODUCT of two buffer machines ([env]s [E1], [E2] of Model/EField.v
    over the same carriers) with a shared read-only input (the profile argument of each call); a call
    on one object leaves the other object's state as it is.  The correspondence run checks exactly this
    on the implementation (interleaved histories on two live objects versus fresh objects, bit for bit,
    lib/hist_cases.py).  No proofs here. *)
From Coq Require Import List ZArith Bool.
From Inovesa Require Import Model.EField.
Import ListNotations.
Local Open Scope Z_scope.

(** getters: which buffer the caller reads *)
Inductive getter := GWake | GWakePadded | GPadded | GSpectrum | GPower.

(** extended operations on one object: a state-changing call or a getter *)
Inductive xop (T : Type) :=
| XCall (o : op T)
| XGet (g : getter).
Arguments XCall {T}. Arguments XGet {T}.

Section One.
  Context {T C : Type} (E : env T C).

  Definition xstep (x : xop T) (s : state T C) : state T C :=
    match x with XCall o => step E o s | XGet _ => s end.

  Definition xrun (h : list (xop T)) (s : state T C) : state T C :=
    fold_left (fun s x => xstep x s) h s.

  (** what a getter returns *)
  Definition gread (g : getter) (s : state T C) : list T :=
    match g with
    | GWake => sample (wake s) (nbun E * nx E)
    | GWakePadded => sample (wp s) (nmax E)
    | GPadded => sample (bp s) (nmax E)
    | GSpectrum => sample (csr s) (nbun E * nmax E)
    | GPower => sample (csri s) (nbun E)
    end.

  (** the calls of a history, getters dropped *)
  Fixpoint calls (h : list (xop T)) : list (op T) :=
    match h with
    | [] => []
    | XCall o :: r => o :: calls r
    | XGet _ :: r => calls r
    end.

  (** the getters whose value the last call of kind [o] determines (the buffers [observe] lists) *)
  Definition reads_of (o : op T) (g : getter) : bool :=
    match o, g with
    | Wake _, (GWake | GWakePadded | GPadded) => true
    | Pad _, GPadded => true
    | CSR _ _, (GSpectrum | GPower) => true
    | _, _ => false
    end.
End One.

(** two objects: operations are tagged with the object they are called on *)
Inductive who := Obj1 | Obj2.

Section Two.
  Context {T C : Type} (E1 E2 : env T C).

  Definition state2 : Type := (state T C * state T C)%type.
  Definition fresh2 : state2 := (fresh E1, fresh E2).

  Definition step2 (wx : who * xop T) (s : state2) : state2 :=
    match fst wx with
    | Obj1 => (xstep E1 (snd wx) (fst s), snd s)
    | Obj2 => (fst s, xstep E2 (snd wx) (snd s))
    end.

  Definition run2 (h : list (who * xop T)) (s : state2) : state2 :=
    fold_left (fun s wx => step2 wx s) h s.

  (** the part of an interleaved history that concerns one object *)
  Definition isobj (w w' : who) : bool :=
    match w, w' with Obj1, Obj1 | Obj2, Obj2 => true | _, _ => false end.
  Fixpoint proj (w : who) (h : list (who * xop T)) : list (xop T) :=
    match h with
    | [] => []
    | (w', x) :: r => if isobj w w' then x :: proj w r else proj w r
    end.

  Definition sel (w : who) (s : state2) : state T C := match w with Obj1 => fst s | Obj2 => snd s end.
  Definition envof (w : who) : env T C := match w with Obj1 => E1 | Obj2 => E2 end.
End Two.
