(** * Lifetimes of the variables of the impedance functions, and what "no state outlives a call" means
      for a process that serves a sequence of requests (C16; strengthening after seeded change C16-H).

    translate/imp2coq.py emits into Gen/Gen_Imp.v the table [imp_decls]: for every function definition of
    the classes Impedance, ConstImpedance, CollimatorImpedance, FreeSpaceCSR, ParallelPlatesCSR,
    ResistiveWall and for vfps::makeImpedance, every variable the body declares (parameters, locals) or
    refers to (variables defined outside the function, static data members) with its [lifetime]:

      - [Automatic]       parameter or local with automatic storage: gone when the call returns;
      - [StaticConstant]  `static const`/`constexpr` local whose initialiser mentions no parameter and no
                          automatic local, or a const-qualified variable defined outside the function
                          (physcons::c, Impedance::Z0): the same value in every call;
      - [Persistent]      `static` / `thread_local` local that is not such a constant, non-const variable
                          defined outside the function, non-const static data member: written by one call
                          and read by a later one (the translator refuses these, so a table that is
                          generated never contains one; the checker below re-decides it in Coq).

    [proc]/[serve] is the reading of one operating-system process that answers requests one after the
    other with a procedure that may carry state from call to call.  No proofs in this file. *)
From Coq Require Import List String Bool.
Import ListNotations.

Inductive lifetime := Automatic | StaticConstant | Persistent.

Record fn_decls := mk_fn { fn_name : string; fn_vars : list (string * lifetime) }.

Definition ends_with_call (l : lifetime) : bool :=
  match l with Persistent => false | _ => true end.

Definition fn_pure (f : fn_decls) : bool := forallb (fun v => ends_with_call (snd v)) (fn_vars f).
Definition all_pure (fs : list fn_decls) : bool := forallb fn_pure fs.

Definition has_fn (fs : list fn_decls) (name : string) : bool :=
  existsb (fun f => String.eqb name (fn_name f)) fs.
Definition covers (required : list string) (fs : list fn_decls) : bool := forallb (has_fn fs) required.

(** the functions whose purity the C16 theorems about the generated definitions rely on: the five
    __calcImpedance / constructor pairs, the base class's constructors, operator+=, the file reader and the
    factory (names as the translator prints them) *)
Definition imp_required : list string :=
  [ "FreeSpaceCSR::__calcImpedance"; "FreeSpaceCSR::FreeSpaceCSR";
    "ResistiveWall::__calcImpedance"; "ResistiveWall::ResistiveWall";
    "ConstImpedance::__calcImpedance"; "ConstImpedance::ConstImpedance";
    "CollimatorImpedance::CollimatorImpedance";
    "ParallelPlatesCSR::__calcImpedance"; "ParallelPlatesCSR::ParallelPlatesCSR";
    "Impedance::Impedance"; "Impedance::operator+="; "Impedance::readData";
    "makeImpedance" ]%string.

(** a procedure with state [S] that outlives the call, served over a list of requests in one process *)
Section Serve.
  Variables (S A B : Type).
  Variable step : S -> A -> S * B.

  Fixpoint serve (s : S) (reqs : list A) : list B :=
    match reqs with
    | [] => []
    | a :: r => let '(s', b) := step s a in b :: serve s' r
    end.

  (** what a fresh process answers to one request *)
  Definition fresh (s0 : S) (a : A) : B := snd (step s0 a).
End Serve.

Arguments serve {S A B}. Arguments fresh {S A B}.

(** the procedure that has no state: the answer is a function of the request *)
Definition stateless {A B : Type} (f : A -> B) : unit -> A -> unit * B := fun _ a => (tt, f a).
