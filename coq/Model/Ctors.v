(** * Constructor forwarding (DESIGN 5/C19 (1), 2.2 `Gen_Ctors`)

    Syntax of what the translator `translate/ctors2coq.py` reads from the mem-initialiser lists
    of `RFKickMap` and `DynamicRFKickMap`, and an executable model of what C++ does with it:
    the base-class initialiser `RFKickMap( a_1, ..., a_k )` selects a constructor of the base by
    overload resolution and binds the arguments to that constructor's parameters *by position*;
    the selected constructor then initialises the members from its own parameters.

    Overload resolution is modelled by arity alone.  That is what decides here: every numeric
    parameter type involved (uint32_t, float, double) converts implicitly to every other, so a
    candidate is viable as soon as the number of arguments fits, and the two `RFKickMap`
    constructors differ in arity.  The translator also records which constructor *clang* selected
    (`dc_clang`); the checker below demands that the model's choice is the compiler's.

    No proofs in this file (models stay runnable when a proof breaks). *)
From Coq Require Import List String Bool Arith ZArith.
Import ListNotations.
Local Open Scope string_scope.

(** right-hand side of one mem-initialiser of a base constructor *)
Inductive init_expr :=
| IParam (p : string)        (* `_angle(angle)`: a parameter of the constructor *)
| IBool (b : bool)           (* `_linear(true)` *)
| INum (z : Z)               (* `_V0(0)` *)
| IOther.                    (* anything computed (`std::asin(_V0/_V_RF)`, `Axis::y`, ...) *)

(** a constructor of the static map: parameter names in order, mem-initialisers in order
    (the arguments handed on to `KickMap(...)` appear as pseudo members "KickMap#i") *)
Record base_ctor := mkBase { bc_params : list string; bc_inits : list (string * init_expr) }.

(** a constructor of the dynamic map: parameter names in order, the arguments of its
    `RFKickMap(...)` initialiser (each one must be a plain parameter; the translator fails
    otherwise), and the index of the base constructor clang resolved the call to *)
Record dyn_ctor := mkDyn { dc_params : list string; dc_base_args : list string; dc_clang : nat }.

(** value of a member after construction, over an arbitrary type of argument values *)
Inductive fval (V : Type) :=
| FV (v : V) | FB (b : bool) | FN (z : Z) | FOther.
Arguments FV {V}. Arguments FB {V}. Arguments FN {V}. Arguments FOther {V}.

Fixpoint indexed_from {A} (i : nat) (l : list A) : list (nat * A) :=
  match l with [] => [] | x :: r => (i, x) :: indexed_from (S i) r end.

(** overload resolution by arity: the unique candidate taking [nargs] arguments *)
Definition resolve (cands : list base_ctor) (nargs : nat) : option (nat * base_ctor) :=
  match filter (fun ic => Nat.eqb (List.length (bc_params (snd ic))) nargs) (indexed_from 0 cands) with
  | [ic] => Some ic
  | _ => None
  end.

Fixpoint lookup {A} (k : string) (l : list (string * A)) : option A :=
  match l with
  | [] => None
  | (k', v) :: r => if String.eqb k k' then Some v else lookup k r
  end.

(** positional binding of arguments to parameters *)
Definition bind {V} (ps : list string) (args : list V) : list (string * V) := combine ps args.

Definition eval_init {V} (b : list (string * V)) (e : init_expr) : option (fval V) :=
  match e with
  | IParam p => option_map FV (lookup p b)
  | IBool x => Some (FB x)
  | INum z => Some (FN z)
  | IOther => Some FOther
  end.

Fixpoint eval_inits {V} (b : list (string * V)) (l : list (string * init_expr))
  : option (list (string * fval V)) :=
  match l with
  | [] => Some []
  | (m, e) :: r =>
    match eval_init b e, eval_inits b r with
    | Some v, Some vr => Some ((m, v) :: vr)
    | _, _ => None
    end
  end.

(** construction of the static map from a list of arguments: which constructor, and the
    members it sets *)
Definition construct {V} (cands : list base_ctor) (args : list V)
  : option (nat * list (string * fval V)) :=
  match resolve cands (List.length args) with
  | Some (i, c) => option_map (fun fs => (i, fs)) (eval_inits (bind (bc_params c) args) (bc_inits c))
  | None => None
  end.

(** the static sub-object of the dynamic map, from the dynamic constructor's own arguments *)
Definition dyn_base {V} (cands : list base_ctor) (d : dyn_ctor) (env : string -> V) :=
  construct cands (map env (dc_base_args d)).

Definition is_linear_ctor (c : base_ctor) : bool :=
  match lookup "_linear" (bc_inits c) with Some (IBool true) => true | _ => false end.
Definition is_sinusoidal_ctor (c : base_ctor) : bool :=
  match lookup "_linear" (bc_inits c) with Some (IBool false) => true | _ => false end.

Fixpoint strs_eqb (a b : list string) : bool :=
  match a, b with
  | [], [] => true
  | x :: r, y :: s => String.eqb x y && strs_eqb r s
  | _, _ => false
  end.

Definition init_eqb (a b : init_expr) : bool :=
  match a, b with
  | IParam p, IParam q => String.eqb p q
  | IBool x, IBool y => Bool.eqb x y
  | INum x, INum y => Z.eqb x y
  | IOther, IOther => true
  | _, _ => false
  end.

(** every (member, initialiser) pair of [want] is what the constructor does *)
Definition inits_ok (c : base_ctor) (want : list (string * init_expr)) : bool :=
  forallb (fun mw => match lookup (fst mw) (bc_inits c) with
                     | Some e => init_eqb e (snd mw)
                     | None => false
                     end) want.

(** The reflection-style checker of one forwarding (DESIGN 2.2): the model's overload
    resolution picks a constructor; it is the one clang picked; it is the constructor of the
    wanted RF model ([lin] = the value of its `_linear` initialiser); its parameter list is
    [names]; the dynamic constructor forwards exactly its own parameters of these names in this
    order; and the constructor stores its parameters in the members [want] says. *)
Definition fwd_ok (cands : list base_ctor) (d : dyn_ctor) (lin : bool) (names : list string)
           (want : list (string * init_expr)) : bool :=
  match resolve cands (List.length (dc_base_args d)) with
  | Some (i, c) =>
    Nat.eqb i (dc_clang d)
    && (if lin then is_linear_ctor c else is_sinusoidal_ctor c)
    && strs_eqb (bc_params c) names
    && strs_eqb (dc_base_args d) names
    && forallb (fun p => existsb (String.eqb p) (dc_params d)) names
    && inits_ok c want
  | None => false
  end.

(** the argument lists of DESIGN 5/C19 (1) (with the objects every map constructor takes) *)
Definition linear_names : list string :=
  ["in"; "out"; "angle"; "f_RF"; "it"; "interpol_clamp"; "oclh"].
Definition sinusoidal_names : list string :=
  ["in"; "out"; "revolutionpart"; "V_RF"; "f_RF"; "V0"; "it"; "interpol_clamp"; "oclh"].
Definition kickmap_want : list (string * init_expr) :=
  [("KickMap#0", IParam "in"); ("KickMap#1", IParam "out"); ("KickMap#2", IParam "it");
   ("KickMap#3", IParam "interpol_clamp"); ("KickMap#5", IParam "oclh")].
Definition linear_want : list (string * init_expr) :=
  [("_linear", IBool true); ("_angle", IParam "angle"); ("_f_RF", IParam "f_RF")] ++ kickmap_want.
Definition sinusoidal_want : list (string * init_expr) :=
  [("_linear", IBool false); ("_revolutionpart", IParam "revolutionpart"); ("_V_RF", IParam "V_RF");
   ("_f_RF", IParam "f_RF"); ("_V0", IParam "V0")] ++ kickmap_want.
