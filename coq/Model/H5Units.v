(** * H5Units: the unit-conversion attributes of the results file (DESIGN 5/C10.6).
    Transcribed from src/main.cpp (derived machine quantities), the HDF5File constructor
    (src/IO/HDF5File.cpp 152-294) and the ElectricField constructors (src/PS/ElectricField.cpp
    14-60, inc/PS/ElectricField.hpp); validated numerically against every file the check
    produces (lib/props/C10.py, "units").  Generic field: square roots and pi are field elements
    constrained by hypotheses in the theorems. *)
From Coq Require Import List ZArith.
From Inovesa Require Import Base.FieldKit.
Local Open Scope F_scope.

Section Units.
  Variable K : Fld.
  (** machine parameters (as stored under /Info/Parameters) and constants *)
  Variables (c E0 sE H frev Veff fs steps Ib : K).
  Variables (deltaE : K)      (* grid spacing of the energy axis, ps->getAxis(1)->delta() *)
            (ohm : K).        (* impedance->factor4Ohms *)

  (** main.cpp *)
  Definition dE : K := sE * E0.                                   (* l.196 *)
  Definition bl : K := c * dE / H / (frev * frev) / Veff * fs.    (* l.245 *)
  Definition Qb : K := Ib / frev.                                 (* l.281 *)
  Definition dt : K := 1 / (fs * steps).                          (* l.296 *)
  Definition revolutionpart : K := frev * dt.                     (* l.297 *)
  Definition t_sync : K := 1 / fs.                                (* l.300 *)

  (** HDF5File constructor: PhaseSpace scales are (Meter -> bl), (ElectronVolt -> dE) *)
  Definition a_Meter : K := bl.                                   (* ax_z_meter *)
  Definition a_Second_z : K := a_Meter / c.                       (* ax_z_seconds *)
  Definition a_ElectronVolt : K := dE.                            (* ax_E_eVolt *)
  Definition a_Second_t : K := t_sync.
  Definition a_Turn : K := t_sync * frev.                         (* axis_t_turns *)
  Definition a_Ampere : K := Ib.                                  (* ps->current *)
  Definition a_Coulomb : K := Qb.                                 (* ps->charge *)
  (** ElectricField *)
  Definition a_Hertz : K := c / a_Meter.                          (* _axis_freq scale *)
  Definition a_Volt : K := deltaE * a_ElectronVolt / revolutionpart.           (* volts *)
  Definition a_WattPerHertz : K := two * ohm * Ib * Ib / frev.    (* factor4WattPerHertz *)
  Definition a_Watt : K := a_WattPerHertz * a_Hertz.              (* factor4Watts *)
  (** wake scaling of the field used for the beam dynamics (ElectricField.hpp, delegating
      constructor): Ib*dt*c/Meter / (deltaE * ElectronVolt) ... recorded through a_Volt only *)
End Units.
