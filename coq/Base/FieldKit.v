(** * Generic field carrier for the exact-arithmetic model (DESIGN 2.1, 3).

    Every piece of pure arithmetic of the model is written once over a [Fld] and
    instantiated twice: [QcF] (canonical rationals: executable, every float and double
    is a dyadic rational and hence represented exactly) and [RF] (real numbers, for the
    few statements that mention transcendental functions). *)
From Coq Require Import List ZArith Ring Field Lia QArith Qcanon.
Import ListNotations.

Record Fld := mkFld {
  car :> Type;
  f0 : car; f1 : car;
  fadd : car -> car -> car; fmul : car -> car -> car; fsub : car -> car -> car;
  fopp : car -> car; fdiv : car -> car -> car; finv : car -> car;
  Fth : field_theory f0 f1 fadd fmul fsub fopp fdiv finv (@eq car);
  nz2 : fadd f1 f1 <> f0;
  nz3 : fadd f1 (fadd f1 f1) <> f0 }.

Arguments f0 {_}. Arguments f1 {_}. Arguments fadd {_}. Arguments fmul {_}.
Arguments fsub {_}. Arguments fopp {_}. Arguments fdiv {_}. Arguments finv {_}.
(* keep the operations opaque to [cbn]/[simpl]: ring and field must see them as they are *)
Arguments car : simpl never. Arguments f0 : simpl never. Arguments f1 : simpl never.
Arguments fadd : simpl never. Arguments fmul : simpl never. Arguments fsub : simpl never.
Arguments fopp : simpl never. Arguments fdiv : simpl never. Arguments finv : simpl never.

Declare Scope F_scope.
Delimit Scope F_scope with F.
Notation "0" := f0 : F_scope.
Notation "1" := f1 : F_scope.
Infix "+" := fadd : F_scope.
Infix "*" := fmul : F_scope.
Infix "-" := fsub : F_scope.
Infix "/" := fdiv : F_scope.
Notation "- x" := (fopp x) : F_scope.

(** index utilities shared by all models *)
Definition zrange (n : Z) : list Z := map Z.of_nat (seq 0 (Z.to_nat n)).
Definition centre (it : Z) : Z := ((it - 1) / 2)%Z.

Section Kit.
  Variable K : Fld.
  Add Field KF : (@Fth K).
  Local Open Scope F_scope.

  Definition two : K := 1 + 1.
  Definition three : K := 1 + (1 + 1).

  (** injection of integers, by binary recursion (used for grid indices) *)
  Fixpoint fpos (p : positive) : K :=
    match p with
    | xH => 1
    | xO q => two * fpos q
    | xI q => 1 + two * fpos q
    end.
  Definition fz (z : Z) : K :=
    match z with Z0 => 0 | Zpos p => fpos p | Zneg p => - fpos p end.

  Fixpoint fsum (l : list K) : K :=
    match l with [] => 0 | x :: r => x + fsum r end.

  Fixpoint fdot (a b : list K) : K :=
    match a, b with
    | x :: r, y :: s => x * y + fdot r s
    | _, _ => 0
    end.

  Lemma mul_nz (a b : K) : a <> 0 -> b <> 0 -> a * b <> 0.
  Proof.
    intros Ha Hb H. apply Hb.
    assert (E : b = (1 / a) * (a * b)) by (field; exact Ha).
    rewrite E, H. ring.
  Qed.

  Lemma fpos_succ p : fpos (Pos.succ p) = 1 + fpos p.
  Proof. induction p as [q IH|q IH|]; cbn [fpos Pos.succ]; unfold two in *; try rewrite IH; ring. Qed.

  Lemma fpos_add p q : fpos (p + q) = fpos p + fpos q.
  Proof.
    revert q. induction p as [|p IH] using Pos.peano_ind; intros q.
    - rewrite Pos.add_1_l, fpos_succ. reflexivity.
    - rewrite Pos.add_succ_l, !fpos_succ, IH. ring.
  Qed.

  Lemma fpos_mul p q : fpos (p * q) = fpos p * fpos q.
  Proof.
    revert q. induction p as [|p IH] using Pos.peano_ind; intros q.
    - rewrite Pos.mul_1_l. cbn [fpos]. ring.
    - rewrite Pos.mul_succ_l, fpos_add, fpos_succ, IH. ring.
  Qed.

  Lemma fz_add a b : fz (a + b) = fz a + fz b.
  Proof.
    destruct a as [|p|p], b as [|q|q]; cbn [Z.add fz]; try ring;
      try (rewrite fpos_add; ring).
    - rewrite Z.pos_sub_spec. destruct (Pos.compare_spec p q) as [E|L|L]; cbn [fz].
      + subst; ring.
      + replace (fpos q) with (fpos (p + (q - p))) by (f_equal; lia). rewrite fpos_add; ring.
      + replace (fpos p) with (fpos (q + (p - q))) by (f_equal; lia). rewrite fpos_add; ring.
    - rewrite Z.pos_sub_spec. destruct (Pos.compare_spec q p) as [E|L|L]; cbn [fz].
      + subst; ring.
      + replace (fpos p) with (fpos (q + (p - q))) by (f_equal; lia). rewrite fpos_add; ring.
      + replace (fpos q) with (fpos (p + (q - p))) by (f_equal; lia). rewrite fpos_add; ring.
  Qed.

  Lemma fz_opp a : fz (- a) = - fz a.
  Proof. destruct a; cbn [Z.opp fz]; ring. Qed.

  Lemma fz_sub a b : fz (a - b) = fz a - fz b.
  Proof. unfold Z.sub. rewrite fz_add, fz_opp. ring. Qed.

  Lemma fz_mul a b : fz (a * b) = fz a * fz b.
  Proof. destruct a, b; cbn [Z.mul fz]; try ring; rewrite fpos_mul; ring. Qed.

  Lemma fz_1 : fz 1 = 1. Proof. reflexivity. Qed.
  Lemma fz_0 : fz 0 = 0. Proof. reflexivity. Qed.
End Kit.

Arguments two {_}. Arguments three {_}. Arguments fz {_}. Arguments fpos {_}.
Arguments fsum {_}. Arguments fdot {_}.

(** Side conditions left by [field]: products and small sums of ones.  [field] prints them
    with the record projections unfolded, so they are matched up to conversion, not by shape. *)
Ltac fld_nz1 K :=
  first [ exact (@nz2 K) | exact (@nz3 K)
        | apply (mul_nz K); fld_nz1 K
        | let H := fresh in intro H; apply (@nz3 K); rewrite <- H; ring
        | let H := fresh in intro H; apply (@nz2 K); rewrite <- H; ring ].
Ltac fld_nz K := repeat split; fld_nz1 K.

(** ** The two instances *)

Lemma Qc_nz2 : Qcplus 1 1 <> 0%Qc.  Proof. intro H; discriminate H. Qed.
Lemma Qc_nz3 : Qcplus 1 (Qcplus 1 1) <> 0%Qc.  Proof. intro H; discriminate H. Qed.

Definition QcF : Fld :=
  mkFld Qc 0%Qc 1%Qc Qcplus Qcmult Qcminus Qcopp Qcdiv Qcinv Qcft Qc_nz2 Qc_nz3.
