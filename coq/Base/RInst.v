(** The real-number instance of [Fld] (axioms: the standard library's real numbers). *)
From Coq Require Import Reals RealField Lra.
From Inovesa Require Import Base.FieldKit.

Lemma R_nz2 : (1 + 1 <> 0)%R.  Proof. lra. Qed.
Lemma R_nz3 : (1 + (1 + 1) <> 0)%R.  Proof. lra. Qed.

Definition RF : Fld :=
  mkFld R 0%R 1%R Rplus Rmult Rminus Ropp Rdiv Rinv Rfield R_nz2 R_nz3.
