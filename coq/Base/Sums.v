(** * Finite sums over integer ranges in a generic field (re-indexing, windows, linearity). *)
From Coq Require Import List ZArith Ring Field Lia.
From Inovesa Require Import Base.FieldKit.
Import ListNotations.

Section Sums.
  Variable K : Fld.
  Add Field KFs : (@Fth K).
  Local Open Scope F_scope.

  (** [sumZ lo len g] = g lo + g (lo+1) + ... + g (lo+len-1) *)
  Fixpoint sumZ (lo : Z) (len : nat) (g : Z -> K) : K :=
    match len with O => 0 | S k => g lo + sumZ (lo + 1) k g end.

  Lemma sumZ_ext lo len g h :
    (forall i, (lo <= i < lo + Z.of_nat len)%Z -> g i = h i) -> sumZ lo len g = sumZ lo len h.
  Proof.
    revert lo; induction len as [|k IH]; intros lo H; cbn [sumZ]; [reflexivity|].
    rewrite H by lia. rewrite (IH (lo + 1)%Z); [reflexivity|]. intros i Hi; apply H; lia.
  Qed.

  Lemma sumZ_shift lo len g s : sumZ lo len (fun i => g (i + s)%Z) = sumZ (lo + s) len g.
  Proof.
    revert lo; induction len as [|k IH]; intros lo; cbn [sumZ]; [reflexivity|].
    rewrite IH. replace (lo + 1 + s)%Z with (lo + s + 1)%Z by lia. reflexivity.
  Qed.

  Lemma sumZ_scale lo len g c : sumZ lo len (fun i => c * g i) = c * sumZ lo len g.
  Proof. revert lo; induction len as [|k IH]; intros lo; cbn [sumZ]; [ring|]. rewrite IH; ring. Qed.

  Lemma sumZ_add lo len g h :
    sumZ lo len (fun i => g i + h i) = sumZ lo len g + sumZ lo len h.
  Proof. revert lo; induction len as [|k IH]; intros lo; cbn [sumZ]; [ring|]. rewrite IH; ring. Qed.

  Lemma sumZ_zero lo len g :
    (forall i, (lo <= i < lo + Z.of_nat len)%Z -> g i = 0) -> sumZ lo len g = 0.
  Proof.
    revert lo; induction len as [|k IH]; intros lo H; cbn [sumZ]; [reflexivity|].
    rewrite H by lia. rewrite IH; [ring|]. intros i Hi; apply H; lia.
  Qed.

  Lemma sumZ_app lo a b g :
    sumZ lo (a + b) g = sumZ lo a g + sumZ (lo + Z.of_nat a) b g.
  Proof.
    revert lo; induction a as [|k IH]; intros lo; cbn [sumZ Nat.add].
    - replace (lo + Z.of_nat 0)%Z with lo by lia. ring.
    - rewrite IH. replace (lo + 1 + Z.of_nat k)%Z with (lo + Z.of_nat (S k))%Z by lia. ring.
  Qed.

  Lemma sumZ_fsum_map lo len g :
    sumZ lo len g = fsum (map g (map (fun k => (lo + Z.of_nat k)%Z) (seq 0 len))).
  Proof.
    revert lo; induction len as [|k IH]; intros lo; cbn [sumZ seq map fsum]; [reflexivity|].
    replace (lo + Z.of_nat 0)%Z with lo by lia. f_equal.
    rewrite IH, <- seq_shift, !map_map. f_equal. apply map_ext. intros a. f_equal. lia.
  Qed.

  (** finite double sums commute *)
  Lemma sumZ_swap lo1 n1 lo2 n2 (g : Z -> Z -> K) :
    sumZ lo1 n1 (fun i => sumZ lo2 n2 (fun j => g i j)) =
    sumZ lo2 n2 (fun j => sumZ lo1 n1 (fun i => g i j)).
  Proof.
    revert lo1; induction n1 as [|k IH]; intros lo1; cbn [sumZ].
    - symmetry; apply sumZ_zero; reflexivity.
    - rewrite IH, <- sumZ_add. reflexivity.
  Qed.

  (** support of a row, as a total function on Z *)
  Definition supp (r : Z -> K) (a b : Z) : Prop := forall i, (i < a \/ b <= i)%Z -> r i = 0.

  Lemma sum_window r a b lo len :
    supp r a b -> (lo <= a)%Z -> (b <= lo + Z.of_nat len)%Z -> (a <= b)%Z ->
    sumZ lo len r = sumZ a (Z.to_nat (b - a)) r.
  Proof.
    intros Hs H1 H2 H3.
    replace len with (Z.to_nat (a - lo) + (Z.to_nat (b - a) + Z.to_nat (lo + Z.of_nat len - b)))%nat by lia.
    rewrite !sumZ_app.
    rewrite (sumZ_zero lo) by (intros i Hi; apply Hs; lia).
    rewrite (sumZ_zero (lo + Z.of_nat (Z.to_nat (a - lo)) + Z.of_nat (Z.to_nat (b - a)))%Z)
      by (intros i Hi; apply Hs; lia).
    replace (lo + Z.of_nat (Z.to_nat (a - lo)))%Z with a by lia. ring.
  Qed.

  (** One stencil term of a kick as the code applies it: weight [w] times the cell at [x+s],
      dropped when [x+s] is outside [0,n). *)
  Definition term (n : Z) (r : Z -> K) (w : K) (s : Z) (x : Z) : K :=
    if ((0 <=? x + s)%Z && (x + s <? n)%Z)%bool then w * r (x + s)%Z else 0.

  Lemma term_sum n r w s a b :
    (0 <= n)%Z -> supp r a b -> (0 <= a)%Z -> (b <= n)%Z -> (a <= b)%Z ->
    (0 <= a - s)%Z -> (b - s <= n)%Z ->
    sumZ 0 (Z.to_nat n) (term n r w s) = w * sumZ 0 (Z.to_nat n) r.
  Proof.
    intros Hn Hs Ha Hb Hab Has Hbs.
    rewrite (sumZ_ext _ _ _ (fun x => w * r (x + s)%Z)).
    2:{ intros i Hi. unfold term.
        destruct ((0 <=? i + s)%Z && (i + s <? n)%Z)%bool eqn:E; [reflexivity|].
        rewrite Hs; [ring|]. apply Bool.andb_false_iff in E. destruct E as [E|E]; lia. }
    rewrite sumZ_scale. f_equal.
    rewrite (sumZ_shift 0 (Z.to_nat n) r s).
    rewrite (sum_window r a b (0 + s) (Z.to_nat n)) by (auto; lia).
    rewrite (sum_window r a b 0 (Z.to_nat n)) by (auto; lia).
    reflexivity.
  Qed.

  (** weighted version: sum of x^k-like weights handled through a generic multiplier [m] *)
  Lemma term_sum_weighted n r w s a b (m : Z -> K) :
    (0 <= n)%Z -> supp r a b -> (0 <= a)%Z -> (b <= n)%Z -> (a <= b)%Z ->
    (0 <= a - s)%Z -> (b - s <= n)%Z ->
    sumZ 0 (Z.to_nat n) (fun x => m x * term n r w s x) =
    w * sumZ 0 (Z.to_nat n) (fun u => m (u - s)%Z * r u).
  Proof.
    intros Hn Hs Ha Hb Hab Has Hbs.
    rewrite (sumZ_ext _ _ _ (fun x => w * (m (x + s - s)%Z * r (x + s)%Z))).
    2:{ intros i Hi. unfold term. replace (i + s - s)%Z with i by lia.
        destruct ((0 <=? i + s)%Z && (i + s <? n)%Z)%bool eqn:E; [ring|].
        rewrite Hs; [ring|]. apply Bool.andb_false_iff in E. destruct E as [E|E]; lia. }
    rewrite sumZ_scale. f_equal.
    rewrite (sumZ_shift 0 (Z.to_nat n) (fun u => m (u - s)%Z * r u) s).
    assert (Hs' : supp (fun u => m (u - s)%Z * r u) a b).
    { intros i Hi. rewrite Hs by exact Hi. ring. }
    rewrite (sum_window _ a b (0 + s) (Z.to_nat n)) by (auto; lia).
    rewrite (sum_window _ a b 0 (Z.to_nat n)) by (auto; lia).
    reflexivity.
  Qed.
End Sums.

Arguments sumZ {_}. Arguments supp {_}. Arguments term {_}.
