(** * Computable binary32 rounding on rationals.

    [rnd32 q] is the IEEE-754 single-precision value nearest to [q] (ties to even,
    subnormals below 2^-126, no overflow handling: callers stay far below 2^128).
    The model uses it only where the C++ first rounds a sum to [float] and then takes a
    discontinuous decision on the result (integer/fraction split in KickMap::updateSM).
    It is validated by the correspondence stream itself (DESIGN 3); its agreement with
    Flocq's [round radix2 (FLT_exp (-149) 24) ZnearestE] is not proved here, so [rnd32] is part
    of the trusted base. *)
From Coq Require Import ZArith QArith Qcanon Qround Lia.

Definition Qpow2 (e : Z) : Q :=
  if (0 <=? e)%Z then inject_Z (2 ^ e) else 1 # (Z.to_pos (2 ^ (- e))).

(** floor of log2 for a positive rational *)
Definition Qlog2 (q : Q) : Z :=
  let a := (Z.log2 (Qnum q) - Z.log2 (Zpos (Qden q)))%Z in
  if Qle_bool (Qpow2 a) q then a else (a - 1)%Z.

(** round half to even *)
Definition Qrne (x : Q) : Z :=
  let f := Qfloor x in
  let r := (x - inject_Z f)%Q in
  match (r ?= 1 # 2)%Q with
  | Lt => f
  | Gt => (f + 1)%Z
  | Eq => if Z.even f then f else (f + 1)%Z
  end.

Definition Qabs' (q : Q) : Q := if Qle_bool 0 q then q else Qopp q.

Definition rnd32Q (q : Q) : Q :=
  if Qeq_bool q 0 then 0%Q else
  let a := Qabs' q in
  let e := Z.max (Qlog2 a) (-126) in
  let m := Qrne (a * Qpow2 (23 - e)) in
  let v := (inject_Z m * Qpow2 (e - 23))%Q in
  if Qle_bool 0 q then v else Qopp v.

Definition rnd32 (q : Qc) : Qc := Q2Qc (rnd32Q (this q)).

(** truncation toward zero and the matching fraction, as [std::modf] *)
Definition Qctrunc (q : Qc) : Z := Z.quot (Qnum (this q)) (Zpos (Qden (this q))).
Definition Qcfrac (q : Qc) : Qc := (q - Q2Qc (inject_Z (Qctrunc q)))%Qc.
Definition Qcfloor (q : Qc) : Z := Qfloor (this q).
Definition Qcz (z : Z) : Qc := Q2Qc (inject_Z z).

Example rnd32_third : this (rnd32 (Q2Qc (1 # 3))) = (11184811 # 33554432)%Q.
Proof. vm_compute. reflexivity. Qed.
Example rnd32_tie : this (rnd32 (Q2Qc (16777217 # 1))) = (16777216 # 1)%Q.
Proof. vm_compute. reflexivity. Qed.
Example rnd32_tie2 : this (rnd32 (Q2Qc (16777219 # 1))) = (16777220 # 1)%Q.
Proof. vm_compute. reflexivity. Qed.
Example rnd32_neg : this (rnd32 (Q2Qc (-1 # 10))) = (-13421773 # 134217728)%Q.
Proof. vm_compute. reflexivity. Qed.
Example trunc_neg : Qctrunc (Q2Qc (-7 # 2)) = (-3)%Z /\ this (Qcfrac (Q2Qc (-7 # 2))) = (-1 # 2)%Q.
Proof. vm_compute. split; reflexivity. Qed.
