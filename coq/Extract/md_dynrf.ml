(* dynrf family (C19), model side: parsing and printing only *)
let rec nat_of_int (i : int) : nat = if i <= 0 then O else S (nat_of_int (i - 1))
let rec int_of_nat (n : nat) : int = match n with O -> 0 | S m -> 1 + int_of_nat m

let print_pairs tag (l : (qc * qc) list) =
  print_string tag;
  List.iter (fun (a, b) -> print_char ' '; print_string (tok_of_q a); print_char ' '; print_string (tok_of_q b)) l;
  print_newline ()

let rec pairs n = if n <= 0 then [] else let a = nextq () in let b = nextq () in (a, b) :: pairs (n - 1)

(* calcmod <id> <steps> sync phasenoise amplnoise modampl modtimedelta ; noise(2*steps) ; sin(steps) *)
let do_calcmod () =
  let id = next () in
  let steps = nexti () in
  let sync = nextq () in let pn = nextq () in let an = nextq () in let ma = nextq () in let mtd = nextq () in
  let noise = nextqs (2 * steps) in
  let sinv = nextqs steps in
  Printf.printf "case %s\n" id;
  print_pairs "mod" (calc_modulation_Q sync pn an ma mtd noise sinv (nat_of_int steps));
  print_qs "args" (mod_args (Obj.magic { phasenoise = Obj.magic pn; amplnoise = Obj.magic an;
                                          modampl = Obj.magic ma; modtimedelta = Obj.magic mtd }) (nat_of_int steps));
  print_string "end\n"

(* calckick <id> <lin:0|1> <n> tana rev vrf v0 sync bl2 xc d0 d1 s1 phase ampl ; axis0(n) ; sin(n) *)
let do_calckick () =
  let id = next () in
  let lin = nexti () = 1 in
  let n = nexti () in
  let tana = nextq () in let rev = nextq () in let vrf = nextq () in let v0 = nextq () in
  let sync = nextq () in let bl2 = nextq () in let xc = nextq () in
  let d0 = nextq () in let d1 = nextq () in let s1 = nextq () in
  let phase = nextq () in let ampl = nextq () in
  let ax = nextqs n in
  let sinv = nextqs n in
  let m = rf_Q lin tana rev vrf v0 sync bl2 (z_of_int n) xc d0 d1 s1 ax in
  Printf.printf "case %s\n" id;
  print_qs "offs" (calc_kick_Q m phase ampl sinv);
  print_qs "args" (kick_args m phase);
  print_string "end\n"

(* sched <id> <nq> q0(2*nq) <ops over A,F> *)
let do_sched () =
  let id = next () in
  let nq = nexti () in
  let q0 = pairs nq in
  let ops = next () in
  let bl = List.init (String.length ops) (fun i -> ops.[i] = 'A') in
  let s = sched_Q q0 bl in
  Printf.printf "case %s\n" id;
  List.iter (fun c -> print_pairs "F" (Obj.magic c)) (Obj.magic (flushed qcF s));
  print_pairs "past" (Obj.magic (past qcF s));
  print_pairs "left" (Obj.magic (queue qcF s));
  print_pairs "used" (Obj.magic (used qcF s));
  Printf.printf "ub %d\n" (if ub qcF s then 1 else 0);
  Printf.printf "grid %d\n" (int_of_nat (grid qcF s));
  print_string "end\n"

(* mainsched <id> <outstep> <n>  -> the op string of main() *)
let do_mainsched () =
  let id = next () in
  let outstep = nexti () in
  let n = nexti () in
  Printf.printf "case %s\nops " id;
  List.iter (fun b -> print_char (if b then 'A' else 'F')) (main_sched (nat_of_int outstep) (nat_of_int n));
  print_string "\nend\n"

let () = run_main ["calcmod", do_calcmod; "calckick", do_calckick; "sched", do_sched; "mainsched", do_mainsched]
