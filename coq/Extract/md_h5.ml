(* C10/C11 model driver: schedule, dataset shapes, hyperslab read, time values, axes. *)
let nextz () = z_of_hex (next ())
let nextb () = (next ()) = "1"

let print_zs tag l = print_string tag; List.iter (fun z -> print_char ' '; print_string (hex_of_z z)) l; print_newline ()

(* sched <id> outstep save haswake stop   (hex integers) *)
let do_sched () =
  let id = next () in
  let o = nextz () in let s = nextz () in let w = nextb () in let stop = nextz () in
  let c = { outstep = o; save = s; haswake = w } in
  let l = run c stop in
  Printf.printf "case %s\n" id;
  List.iter (fun d -> print_zs ("tags " ^ hex_of_z (dset_id d)) (records d l)) all_dsets;
  print_string "end\n"

(* dims <id> nb n nmax imp np *)
let do_dims () =
  let id = next () in
  let nb = nextz () in let n = nextz () in let nmax = nextz () in let imp = nextz () in let np = nextz () in
  let z = { s_nb = nb; s_n = n; s_nmax = nmax; s_imp = imp; s_np = np } in
  Printf.printf "case %s\n" id;
  List.iter (fun d -> print_zs ("inner " ^ hex_of_z (dset_id d)) (file_inner z d);
                      print_string ("rowsok " ^ hex_of_z (dset_id d) ^ (if rows_ok (file_inner z d) (mem_inner z d) then " 1\n" else " 0\n")))
    all_dsets;
  print_string "end\n"

(* read <id> kind step rank dims... ntok toks...     kind: missing | nothdf | nops | ps *)
let do_read () =
  let id = next () in
  let kind = next () in
  let step = nextz () in
  let f = match kind with
    | "missing" -> NoFile
    | "nothdf" -> NotHDF5
    | "nops" -> NoPhaseSpace
    | _ ->
      let rank = nexti () in
      let dims = List.init rank (fun _ -> nextz ()) in
      let nt = nexti () in
      let data = List.init nt (fun _ -> next ()) in
      PSset (dims, data) in
  Printf.printf "case %s\n" id;
  (match read_ps "?" f step with
   | None -> print_string "refused 1\n"
   | Some (n, g) ->
     print_string "refused 0\n";
     print_zs "n" [n];
     print_string "grid"; List.iter (fun t -> print_char ' '; print_string t) g; print_newline ());
  print_string "end\n"

(* usestep <id> len step *)
let do_usestep () =
  let id = next () in
  let len = nextz () in let step = nextz () in
  Printf.printf "case %s\n" id;
  print_zs "r" [use_step len step];
  print_string "end\n"

(* tvals <id> steps(q) cnt k... *)
let do_tvals () =
  let id = next () in
  let steps = nextq () in
  let cnt = nexti () in
  let ks = List.init cnt (fun _ -> nextz ()) in
  Printf.printf "case %s\n" id;
  print_qs "t" (List.map (tval steps) ks);
  print_string "end\n"

(* laststep <id> steps(q) rotations(q) *)
let do_laststep () =
  let id = next () in
  let steps = nextq () in let rot = nextq () in
  Printf.printf "case %s\n" id;
  print_zs "laststep" [laststep steps rot];
  print_string "end\n"

(* axis <id> n pqsize(q) shift(q) *)
let do_axis () =
  let id = next () in
  let n = nextz () in let pq = nextq () in let sh = nextq () in
  Printf.printf "case %s\n" id;
  print_qs "axis" (gridAxisQ n pq sh);
  print_string "end\n"

(* gather <id> nb S W ntok toks... : the record appended for the CSR spectrum *)
let do_gather () =
  let id = next () in
  let nb = nextz () in let s = nextz () in let w = nextz () in
  let nt = nexti () in
  let src = List.init nt (fun _ -> next ()) in
  Printf.printf "case %s\n" id;
  print_string "record"; List.iter (fun t -> print_char ' '; print_string t)
    (append_data [nb; w] [] (gather_rows nb s w src)); print_newline ();
  print_string "end\n"

let () = run_main ["sched", do_sched; "dims", do_dims; "read", do_read; "usestep", do_usestep;
                   "tvals", do_tvals; "laststep", do_laststep; "axis", do_axis; "gather", do_gather]
