(* C17 model driver: parsing and printing only *)
let nextz () = z_of_hex (next ())          (* hex token, may be negative *)
let zi () = z_of_int (nexti ())
let pz z = print_char ' '; print_string (hex_of_z z)
let pzs tag l = print_string tag; List.iter pz l; print_newline ()

let do_upt () =
  let id = next () in
  let cnt = nexti () in
  Printf.printf "case %s\n" id;
  pzs "r" (List.init cnt (fun _ -> upper_power_of_two (nextz ())));
  print_string "end\n"

(* sizes <id> <n> <nbuckets> <sps q> <padding q> <roundp> *)
let do_sizes () =
  let id = next () in
  let n = zi () in let nbk = zi () in
  let sps = nextq () in let padding = nextq () in
  let rp = nexti () <> 0 in
  Printf.printf "case %s\n" id;
  pzs "sizes" (sizes_list n nbk sps padding rp);
  print_string "end\n"

(* gsizes <id> <nz> z... <nq> q... <nb> b... : the sizes GENERATED from main() (Gen_ScalingZ.gen_sizes_list); values in
   the order of the generated *_index functions (Gen_ScalingZ.info.json lists the names) *)
let do_gsizes () =
  let id = next () in
  let nz = nexti () in let zs = List.init nz (fun _ -> nextz ()) in
  let nq = nexti () in let qs = nextqs nq in
  let nb = nexti () in let bs = List.init nb (fun _ -> nexti () <> 0) in
  Printf.printf "case %s\n" id;
  pzs "sizes" (gen_sizes_list zs qs bs);
  print_string "end\n"

(* pad <id> <n> <nb> <nmax> <spacing> <run> buckets... *)
let do_pad () =
  let id = next () in
  let n = zi () in let nb = nexti () in
  let nmax = zi () in let sp = zi () in let _ = nexti () in
  let bk = List.init nb (fun _ -> zi ()) in
  Printf.printf "case %s\n" id;
  pzs "pad" (pad_list n sp bk);
  Printf.printf "ok %d\n" (if pad_ok n nmax sp bk then 1 else 0);
  pzs "maxlast" [pad_max_last n sp bk];
  print_string "end\n"

(* fp <id> <n> <dt> <zerobin q> <damping> *)
let do_fp () =
  let id = next () in
  let n = zi () in let dt = zi () in
  let zb = nextq () in
  let d = nexti () <> 0 in
  Printf.printf "case %s\n" id;
  Printf.printf "ok %d %d\n" (if fp_all_ok n dt zb d then 1 else 0) (if fp_access_ok n dt zb d then 1 else 0);
  Printf.printf "guard %d\n" (if fp_guard n zb then 1 else 0);
  (match fp_table n dt zb d with
   | Some t -> pzs "table" t
   | None -> print_string "table UB\n");
  print_string "end\n"

(* f2u <id> <bits> <count> q... *)
let do_f2u () =
  let id = next () in
  let bits = zi () in
  let cnt = nexti () in
  Printf.printf "case %s\n" id;
  pzs "r" (List.init cnt (fun _ -> f2u_code bits (nextq ())));
  print_string "end\n"

(* kick <id> <n> <nb> <it> offs(n*nb)... : table indices, -1 where the conversion is undefined *)
let do_kick () =
  let id = next () in
  let n = nexti () in let nb = nexti () in let it = nexti () in
  let offs = nextqs (n * nb) in
  Printf.printf "case %s\n" id;
  print_string "table";
  List.iter (fun o -> for j = 0 to it - 1 do pz (sm_index_code (z_of_int n) (z_of_int it) o (z_of_int j)) done) offs;
  print_newline ();
  print_string "end\n"

(* src <id> <n> <count> (t h)... *)
let do_src () =
  let id = next () in
  let n = zi () in
  let cnt = nexti () in
  Printf.printf "case %s\n" id;
  pzs "r" (List.init cnt (fun _ -> let t = zi () in let h = zi () in kick_src_code n t h));
  print_string "end\n"

(* imp <id> <lhs> <rhs> *)
let do_imp () =
  let id = next () in
  let l = zi () in let r = zi () in
  Printf.printf "case %s\nok %d\n" id (if imp_sum_ok l r then 1 else 0);
  pzs "nreads" [z_of_int (List.length (imp_sum_reads l r))];
  print_string "end\n"

(* track <id> <n> <count> q... *)
let do_track () =
  let id = next () in
  let n = zi () in
  let cnt = nexti () in
  Printf.printf "case %s\n" id;
  print_string "r";
  for _ = 1 to cnt do
    let q = nextq () in
    Printf.printf " %d:%s" (if track_ok n q then 1 else 0) (hex_of_z (f2u_code (z_of_int 32) q))
  done;
  print_newline ();
  print_string "end\n"

let () = run_main ["upt", do_upt; "sizes", do_sizes; "gsizes", do_gsizes; "pad", do_pad; "fp", do_fp; "f2u", do_f2u;
                   "kick", do_kick; "src", do_src; "imp", do_imp; "track", do_track]
