(** Extraction of the executable model (ExtrOcamlBasic only; numbers stay Coq's
    positive/Z/Q - no OCaml int or float).  Compiled from inside coq/Extract by bin/setup
    (Coq 8.16 writes extracted files to the current directory). *)
From Coq Require Import Extraction ExtrOcamlBasic.
From Coq Require Import List ZArith QArith Qcanon.
From Inovesa Require Import Base.FieldKit Base.Float32 Gen.Gen_Coeffs Model.Kick Model.Rotation.

Extraction Language OCaml.

Definition coeffsQ (it : Z) (f : Qc) : list Qc := coeffs (K:=QcF) it f.

Extraction "model_kick.ml"
  Q2Qc this rnd32 Qctrunc Qcfrac
  coeffsQ kick_y_list kick_x_list table_list defined_list
  rot_table_list rot_defined_list rot_apply_list.
