(* hist <id> <n> <nb> <N> <sp> b_0..b_{nb-1} <fixed 0|1> <L>  L x ( W|P|C <cutoff> p[nb*n] )
   per operation: the model's verdict "result equals that of a fresh object" (under the driver's
   toy transforms), the padded buffer after the call (exact), the footprint masks
   bp ff wl wp wake csr csri from the proved-sound writes_* functions. *)
let do_hist () =
  let id = next () in
  let n = nexti () in let nb = nexti () in let nn = nexti () in let sp = nexti () in
  let bks = List.init nb (fun _ -> z_of_int (nexti ())) in
  let fixed = nexti () <> 0 in
  let l = nexti () in
  let e = toyQ (z_of_int n) (z_of_int nn) (z_of_int sp) bks fixed in
  let s = ref (fresh e) in
  Printf.printf "case %s\n" id;
  for k = 0 to l - 1 do
    let kind = next () in
    let cut = nextq () in
    let p = lfun (q_of_tok "0") (nextqs (nb * n)) in
    let o = match kind with "W" -> Wake p | "P" -> Pad p | _ -> CSR (cut, p) in
    s := step e o !s;
    let same = (observe e o !s = observe e o (step e o (fresh e))) in
    Printf.printf "op %d %s same %d\n" k kind (if same then 1 else 0);
    print_qs "bp" (h_bp e !s);
    print_string "fp";
    List.iter (fun m -> print_char ' ';
                if m = [] then print_char '-' else
                List.iter (fun b -> print_char (if b then '1' else '0')) m) (h_masks e o);
    print_newline ()
  done;
  print_string "end\n"

let () = run_main ["hist", do_hist]
