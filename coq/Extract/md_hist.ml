(* hist <id> <n> <nb> <N> <sp> b_0..b_{nb-1} <fixed 0|1> <L>  L x ( W|P|C <cutoff> p[nb*n] )
   per operation: the model's verdict "result equals that of a fresh object" (under the driver's
   toy transforms), the padded buffer after the call (exact), the footprint masks
   bp ff wl wp wake csr csri from the proved-sound writes_* functions. *)
let do_hist () =
  let id = next () in
  let n = nexti () in let nb = nexti () in let nn = nexti () in let sp = nexti () in
  let bks = List.init nb (fun _ -> z_of_int (nexti ())) in
  let flags = nexti () in
  let fixed = flags land 1 <> 0 in
  let withgen = flags land 2 <> 0 in
  let l = nexti () in
  let e = toyQ (z_of_int n) (z_of_int nn) (z_of_int sp) bks fixed in
  let s = ref (fresh e) in
  let sg = ref (fresh e) in
  Printf.printf "case %s\n" id;
  for k = 0 to l - 1 do
    let kind = next () in
    let cut = nextq () in
    let p = lfun (q_of_tok "0") (nextqs (nb * n)) in
    let o = match kind with "W" -> Wake p | "P" -> Pad p | _ -> CSR (cut, p) in
    s := step e o !s;
    if withgen then sg := gstep e o !sg;
    let same = (observe e o !s = observe e o (step e o (fresh e))) in
    Printf.printf "op %d %s same %d\n" k kind (if same then 1 else 0);
    (* the programs generated from the current source give the same state (all seven buffers) *)
    if withgen then Printf.printf "gen %d\n" (if h_all e !s = h_all e !sg then 1 else 0);
    print_qs "bp" (h_bp e !s);
    print_string "fp";
    List.iter (fun m -> print_char ' ';
                if m = [] then print_char '-' else
                List.iter (fun b -> print_char (if b then '1' else '0')) m) (h_masks e o);
    print_newline ()
  done;
  print_string "end\n"

(* hist2 <id> <n> <nb> b.. <N1> <sp1> <N2> <sp2> <L>  L x ( <obj> W|P|C <cutoff> p[nb*n] | <obj> G <getter> ) *)
let getter_of = function 0 -> GWake | 1 -> GWakePadded | 2 -> GPadded | 3 -> GSpectrum | _ -> GPower

let do_hist2 () =
  let id = next () in
  let n = nexti () in let nb = nexti () in
  let bks = List.init nb (fun _ -> z_of_int (nexti ())) in
  let n1 = nexti () in let sp1 = nexti () in
  let n2 = nexti () in let sp2 = nexti () in
  let l = nexti () in
  let e1 = toyQ (z_of_int n) (z_of_int n1) (z_of_int sp1) bks true in
  let e2 = toyQ (z_of_int n) (z_of_int n2) (z_of_int sp2) bks true in
  let s = ref (h_fresh2 e1 e2) in
  let last = [| None; None |] in
  Printf.printf "case %s\n" id;
  for k = 0 to l - 1 do
    let wi = nexti () in
    let w = if wi = 1 then Obj1 else Obj2 in
    let e = if wi = 1 then e1 else e2 in
    let kind = next () in
    let before_other = h_sel (if wi = 1 then Obj2 else Obj1) !s in
    if kind = "G" then begin
      let g = getter_of (nexti ()) in
      let before = h_sel w !s in
      s := h_step2 e1 e2 w (XGet g) !s;
      let fr = match last.(wi - 1) with None -> fresh e | Some o -> step e o (fresh e) in
      let det = match last.(wi - 1) with None -> true | Some o -> h_reads o g in
      let same = (not det) || (h_gread e g (h_sel w !s) = h_gread e g fr) in
      Printf.printf "op %d %d G same %d\nself %d\n" k wi (if same then 1 else 0)
        (if h_all e before = h_all e (h_sel w !s) then 1 else 0)
    end else begin
      let cut = nextq () in
      let p = lfun (q_of_tok "0") (nextqs (nb * n)) in
      let o = match kind with "W" -> Wake p | "P" -> Pad p | _ -> CSR (cut, p) in
      s := h_step2 e1 e2 w (XCall o) !s;
      last.(wi - 1) <- Some o;
      let same = (observe e o (h_sel w !s) = observe e o (step e o (fresh e))) in
      Printf.printf "op %d %d %s same %d\n" k wi kind (if same then 1 else 0)
    end;
    let eo = if wi = 1 then e2 else e1 in
    Printf.printf "other %d\n" (if h_all eo before_other = h_all eo (h_sel (if wi = 1 then Obj2 else Obj1) !s) then 1 else 0);
    print_qs "bp" (h_bp e (h_sel w !s))
  done;
  print_string "end\n"

let () = run_main ["hist", do_hist; "hist2", do_hist2]
