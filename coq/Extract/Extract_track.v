(** Extraction of the tracking model (ExtrOcamlBasic only; numbers stay Coq's positive/Z/Q). *)
From Coq Require Import Extraction ExtrOcamlBasic.
From Coq Require Import List ZArith QArith Qcanon.
From Inovesa Require Import Base.FieldKit Base.Float32 Gen.Gen_Coeffs Model.Kick Model.Tracking
  Model.TrackX Gen.Gen_Track Model.DynRF Model.TrackGen.

Extraction Language OCaml.

Definition blob_moments (n : Z) (out : list Qc) : Qc * (Qc * Qc) :=
  let g := getQ out in
  (qsum out,
   (qsum (map (fun i => (Qcz (cell_x n i) * g i)%Qc) (zrange (n * n))),
    qsum (map (fun i => (Qcz (cell_y n i) * g i)%Qc) (zrange (n * n))))).

Extraction "model_track.ml"
  Q2Qc this run_list fp_table_list lookup_list blob_list blob_moments kick_x_list kick_y_list
  kick_applyTo gen_run_list linear_rf dyn_step_list gen_load_list gen_append_list.
