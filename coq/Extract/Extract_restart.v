(** Extraction of the start-up model of C17's restart sub-check (Model/NbSource.v over Gen_NbSource, Gen_H5Index):
    ExtrOcamlBasic only. *)
From Coq Require Import Extraction ExtrOcamlBasic.
From Coq Require Import List ZArith QArith Qcanon.
From Inovesa Require Import Model.NbSource.

Extraction Language OCaml.

(* [Q2Qc], [this]: the number helpers of mdcommon.ml (shared driver prelude) refer to their types *)
Extraction "model_restart.ml" Q2Qc this start_nb bucketnumbers.
