(** Extraction of the executable Fokker-Planck model (ExtrOcamlBasic only; numbers stay Coq's
    positive/Z/Q). *)
From Coq Require Import Extraction ExtrOcamlBasic.
From Coq Require Import List ZArith QArith Qcanon.
From Inovesa Require Import Base.FieldKit Base.Float32 Gen.Gen_FPStencil Model.FokkerPlanck Model.Moments2 Model.Moments2Fix.

Extraction Language OCaml.

Extraction "model_fp.ml"
  Q2Qc this fp_switch fp_table_list fp_apply_list fp_iter_list
  smq_step smq_J smq_fix smq_rho smq_N.
