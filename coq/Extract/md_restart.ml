(* restart <id> <gridsize> <k> <dims (k)> <step> <m> <signs of the bunch currents (m)>
   a run started from an HDF5 results file whose /PhaseSpace/data has the given extents:
   `nb none` (main() quits before the field objects exist) or `nb <PhaseSpace::nb>`, `buckets <main()'s bucketnumbers>` *)
let zi (n : int) = z_of_int n
let rec int_of_pos p = match p with XH -> 1 | XO q -> 2 * int_of_pos q | XI q -> 2 * int_of_pos q + 1
let int_of_z z = match z with Z0 -> 0 | Zpos p -> int_of_pos p | Zneg p -> - (int_of_pos p)

let do_restart () =
  let id = next () in
  let gs = nexti () in
  let k = nexti () in
  let dims = List.init k (fun _ -> zi (nexti ())) in
  let step = nexti () in
  let m = nexti () in
  let filling = List.init m (fun _ -> zi (nexti ())) in
  Printf.printf "case %s\n" id;
  (match start_nb (H5File (dims, zi step)) (zi gs) filling with
   | None -> print_string "nb none\n"
   | Some nb -> Printf.printf "nb %d\n" (int_of_z nb));
  print_string "buckets";
  List.iter (fun b -> Printf.printf " %d" (int_of_z b)) (bucketnumbers filling);
  print_string "\nend\n"

let () = run_main ["restart", do_restart]
