(** Extraction of the RotationMap models: the map assembled from the GENERATED definitions (Model/RotationGen.v over
    Gen/Gen_Rotation.v) and the hand-written model with rectangular sizes and the clamp (Model/Rotation.v).
    A family of its own so that the kick family (C01, C08, C15, C17) does not depend on the RotationMap translator. *)
From Coq Require Import Extraction ExtrOcamlBasic.
From Coq Require Import List ZArith QArith Qcanon.
From Inovesa Require Import Base.FieldKit Base.Float32 Gen.Gen_Coeffs Model.Kick Model.Rotation Model.RotationGen.

Extraction Language OCaml.

Extraction "model_rot.ml"
  Q2Qc this rnd32 Qctrunc Qcfrac
  rot_table_rect rot_defined_rect rot_apply_rect rg_table_list rg_apply_list rg_members.
