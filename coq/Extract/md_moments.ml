(* moments <id> <n> <nb> min0 d0 min1 d1 fs[nb]  min0' d0' min1' d1' fs'[nb]  <nops> ops..  data[nb*n*n] data2[nb*n*n]
   prints the geometry block and the dumps of: s (object after the operation history), c (its copy),
   cv (copy after variance on both axes), t (second object after t = s), tv (t after variance). *)
let do_moments () =
  let id = next () in
  let n = nexti () in let nb = nexti () in
  let min0 = nextq () in let d0 = nextq () in let min1 = nextq () in let d1 = nextq () in
  let fs = nextqs nb in
  let min0' = nextq () in let d0' = nextq () in let min1' = nextq () in let d1' = nextq () in
  let fs' = nextqs nb in
  let nops = nexti () in
  let ops = List.init nops (fun _ -> z_of_int (nexti ())) in
  let data = nextqs (nb * n * n) in
  let data2 = nextqs (nb * n * n) in
  let r = moments_case (z_of_int n) (z_of_int nb) min0 d0 min1 d1 fs min0' d0' min1' d1' fs' ops data data2 in
  Printf.printf "case %s\n" id;
  let tags_state = ["data"; "px"; "py"; "fill"; "int"; "m00"; "m01"; "m10"; "m11"] in
  let names = ["geo", ["ws"; "q"; "p"]; "s", tags_state; "c", tags_state; "cv", tags_state;
               "t", tags_state; "tv", tags_state] in
  List.iter2 (fun (nm, tags) blk ->
      List.iter2 (fun tag l -> print_qs (nm ^ "." ^ tag) l) tags blk) names r;
  print_string "end\n"

let () = run_main ["moments", do_moments]
