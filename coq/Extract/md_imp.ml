(* C16 driver: samples are (re, im) pairs of exact rationals *)
let nextcs n = List.init n (fun _ -> let a = nextq () in let b = nextq () in (a, b))
let print_cs tag l =
  print_string tag;
  List.iter (fun (a, b) -> print_char ' '; print_string (tok_of_q a); print_char ' '; print_string (tok_of_q b)) l;
  print_newline ()
let pb tag b = Printf.printf "%s %d\n" tag (if b then 1 else 0)

(* shape <id> push|pp n m v(2m)   |  shape <id> const n re im *)
let do_shape () =
  let id = next () in
  let kind = next () in
  let n = nexti () in
  Printf.printf "case %s\n" id;
  (match kind with
   | "push" -> let m = nexti () in let v = nextcs m in print_cs "vec" (shape_push (z_of_int n) v)
   | "pp" -> let m = nexti () in let v = nextcs m in print_cs "vec" (shape_pp (z_of_int n) v)
   | "const" -> let a = nextq () in let b = nextq () in
     print_cs "vec" (shape_const (z_of_int n) (a, b));
     (* the generated ConstImpedance::__calcImpedance (Gen_Imp.v) on the same constant *)
     print_cs "gvec" (gen_const_q (z_of_int n) (a, b))
   | _ -> failwith "shape kind");
  print_string "end\n"

(* sum <id> n m l(2n) r(2m) *)
let do_sum () =
  let id = next () in
  let n = nexti () in let m = nexti () in
  let l = nextcs n in let r = nextcs m in
  Printf.printf "case %s\n" id;
  print_cs "out" (sum_q l r);
  print_cs "gout" (gen_sum_q l r);       (* the generated Impedance::operator+= *)
  print_string "end\n"

(* factory <id> n gap use_csr s xi rc ; pp m v ; fs m v ; rw m v ; coll re im ; file -1 | m v *)
let do_factory () =
  let id = next () in
  let n = nexti () in
  let gap = nextq () in let use_csr = nexti () <> 0 in
  let s = nextq () in let xi = nextq () in let rc = nextq () in
  let rdv () = let m = nexti () in nextcs m in
  let ppv = rdv () in let fsv = rdv () in let rwv = rdv () in
  let ca = nextq () in let cb = nextq () in
  let fm = nexti () in
  let file = if fm < 0 then None else Some (nextcs fm) in
  Printf.printf "case %s\n" id;
  (match factory_q (z_of_int n) gap use_csr s xi rc ppv fsv rwv (ca, cb) file with
   | None -> print_string "null\n"
   | Some v -> print_cs "out" v);
  (* the generated vfps::makeImpedance with the implementation's own contribution vectors; the
     collimator's vector is its constant on the generated ConstImpedance loop *)
  (match gen_factory_q (z_of_int n) gap use_csr s xi rc ppv fsv rwv (gen_const_q (z_of_int n) (ca, cb)) file with
   | None -> print_string "gnull\n"
   | Some v -> print_cs "gout" v);
  print_string "end\n"

(* accept <id> fs tol cre cim delta n m v | rw tol k delta n m v | const lo hi n m v *)
let do_accept () =
  let id = next () in
  let kind = next () in
  Printf.printf "case %s\n" id;
  (match kind with
   | "fs" -> let tol = nextq () in let cre = nextq () in let cim = nextq () in let d = nextq () in
     let n = nexti () in let m = nexti () in let v = nextcs m in
     pb "ok" (accept_fs tol cre cim d (z_of_int n) v)
   | "rw" -> let tol = nextq () in let k = nextq () in let d = nextq () in
     let n = nexti () in let m = nexti () in let v = nextcs m in
     pb "ok" (accept_rw tol k d (z_of_int n) v)
   | "const" -> let lo = nextq () in let hi = nextq () in
     let n = nexti () in let m = nexti () in let v = nextcs m in
     pb "ok" (accept_const lo hi (z_of_int n) v)
   (* validators fed by the constants of Model/ImpedanceSpec.v (proved equal to the generated expressions):
      fss tol n f_rev f_max m v | rws tol pi c Z0 n f0 f_max L s xi b m v | colls tol pi Z0 lnlo lnhi n m v *)
   | "fss" -> let tol = nextq () in let n = nexti () in let fr = nextq () in let fm = nextq () in
     let m = nexti () in let v = nextcs m in
     pb "ok" (accept_fs_spec tol (z_of_int n) fr fm v)
   | "rws" -> let tol = nextq () in let pi = nextq () in let c = nextq () in let z0 = nextq () in
     let n = nexti () in let f0 = nextq () in let fm = nextq () in let l = nextq () in let s = nextq () in
     let xi = nextq () in let b = nextq () in let m = nexti () in let v = nextcs m in
     pb "ok" (accept_rw_spec tol pi c z0 (z_of_int n) f0 fm l s xi b v)
   | "colls" -> let tol = nextq () in let pi = nextq () in let z0 = nextq () in let lo = nextq () in let hi = nextq () in
     let n = nexti () in let m = nexti () in let v = nextcs m in
     pb "ok" (accept_coll_spec tol pi z0 lo hi (z_of_int n) v)
   | _ -> failwith "accept kind");
  print_string "end\n"

let () = run_main ["shape", do_shape; "sum", do_sum; "factory", do_factory; "accept", do_accept]
