(* options family: parsing and printing only.
   opt <id>
     <ncli> { L|S|B <name> <ntok> tok* }          (B: a bare word, name ignored)
     dflt  none | file <nitems> { <name> <ntok> tok* }
     cfg   none | <tok> devnull | <tok> missing | <tok> file <nitems> { <name> <ntok> tok* }
     <nbad> { <ty> <tok> }   <nzero> { tok }   <nround> { <ty> <tok> <tok'> }   <reloadtok>
     <nx> { L|S|B <name> <ntok> tok* }            (extra command-line options of a second reload; 0 = none)
   tokens are decimal integers.  Output additionally: `law <bool>` = the hypotheses of save_reload_roundtrip on the
   case's token oracle: reparse_lawb, and the name of the saved file is a string (C13).  With nx > 0:
   `xstatus`/`xvar` = parse of `<extra options> --config <reloadtok>` on the saved file. *)
let cs_of_string (s : string) : char list = List.init (String.length s) (String.get s)
let coqstr (s : string) : char list = cs_of_string s
let ocstr (l : char list) : string = String.init (List.length l) (List.nth l)
let rec int_of_pos p = match p with XH -> 1 | XO q -> 2 * int_of_pos q | XI q -> 2 * int_of_pos q + 1
let int_of_z x = match x with Z0 -> 0 | Zpos p -> int_of_pos p | Zneg p -> - (int_of_pos p)
let nextz () = z_of_int (nexti ())
let ty_of_string s = match s with
  | "TFloat" -> TFloat | "TDouble" -> TDouble | "TI32" -> TI32 | "TU32" -> TU32 | "TI64" -> TI64 | "TU64" -> TU64
  | "TBool" -> TBool | "TString" -> TString | "TUChar" -> TUChar | "TVecFloat" -> TVecFloat | "TFlag" -> TFlag
  | _ -> failwith ("type " ^ s)
let next_items () =
  let n = nexti () in
  List.init n (fun _ -> let nm = next () in let k = nexti () in let ts = List.init k (fun _ -> nextz ()) in (nm, ts))

let print_state tag (s : st) =
  let seen = Hashtbl.create 64 in
  List.iter (fun o ->
      let v = ocstr o.o_var in
      if o.o_ty <> TFlag && not (Hashtbl.mem seen v) then begin
        Hashtbl.add seen v ();
        match s.s_vars o.o_var with
        | None -> Printf.printf "%svar %s none\n" tag v
        | Some l -> Printf.printf "%svar %s toks" tag v; List.iter (fun t -> Printf.printf " %d" (int_of_z t)) l; print_newline ()
      end) gen_table

let do_opt () =
  let id = next () in
  let ncli = nexti () in
  let next_cli n = List.init n (fun _ ->
      let k = next () in let nm = coqstr (next ()) in let n = nexti () in
      let ts = List.init n (fun _ -> nextz ()) in
      ((if k = "L" then Long nm else if k = "S" then Short nm else Bare), ts)) in
  let cli = next_cli ncli in
  let conv l = List.map (fun (nm, ts) -> (coqstr nm, ts)) l in
  let _ = next () in
  let dflt = match next () with
    | "none" -> FNoFile
    | _ -> FFile (conv (next_items ())) in
  let _ = next () in
  let cfgtok, cfgent = match next () with
    | "none" -> (None, FNoFile)
    | t -> let tk = int_of_string t in
      (Some tk, match next () with
        | "devnull" -> FDevNull
        | "missing" -> FNoFile
        | _ -> FFile (conv (next_items ()))) in
  let nbad = nexti () in
  let bad = List.init nbad (fun _ -> let ty = ty_of_string (next ()) in let t = nexti () in (ty, t)) in
  let nz = nexti () in
  let zeros = List.init nz (fun _ -> nexti ()) in
  let nr = nexti () in
  let rounds = List.init nr (fun _ -> let ty = ty_of_string (next ()) in let a = nexti () in let b = nexti () in ((ty, a), b)) in
  let reloadtok = nextz () in
  let nx = nexti () in
  let xcli = next_cli nx in
  let wf ty t = not (List.mem (ty, int_of_z t) bad) in
  let zerotok t = List.mem (int_of_z t) zeros in
  let round6 ty t = match List.assoc_opt (ty, int_of_z t) rounds with Some b -> z_of_int b | None -> t in
  let fs t = match cfgtok with Some c when c = int_of_z t -> cfgent | _ -> FNoFile in
  Printf.printf "case %s\n" id;
  Printf.printf "law %b\n" (reparse_lawb gen_table wf gen_wrules && wf TString reloadtok);
  (match parse gen_table wf gen_prog cli fs dflt with
   | Fail -> print_string "status fail\n"
   | Stop -> print_string "status stop\n"
   | Run s ->
     print_string "status run\n";
     print_state "" s;
     List.iter (fun (n, t) -> Printf.printf "saved %s %d\n" (ocstr n) (int_of_z t)) (save gen_table gen_wrules zerotok round6 s);
     (match reload gen_table wf gen_wrules zerotok round6 gen_prog s reloadtok with
      | Fail -> print_string "rstatus fail\n"
      | Stop -> print_string "rstatus stop\n"
      | Run r -> print_string "rstatus run\n"; print_state "r" r);
     if nx > 0 then
       (match reload_with gen_table wf gen_wrules zerotok round6 gen_prog s reloadtok xcli with
        | Fail -> print_string "xstatus fail\n"
        | Stop -> print_string "xstatus stop\n"
        | Run r -> print_string "xstatus run\n"; print_state "x" r));
  print_string "end\n"

let do_table () =
  Printf.printf "case table\nsorted %b\nend\n" (sorted_names gen_table)

let () = run_main ["opt", do_opt; "table", do_table]
