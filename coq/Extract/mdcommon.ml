(* Correspondence harness, model side (DESIGN 2.3): parsing and printing only.
   Numbers are Coq's positive/Z/Q as extracted; tokens are [-]HEX/HEX rationals. *)

let rec pos_of_bits (bits : bool list) : positive =
  (* bits: most significant first, first bit is true *)
  match bits with
  | [] -> XH
  | _ -> List.fold_left (fun acc b -> if b then XI acc else XO acc) XH (List.tl bits)

let hexval c = match c with
  | '0'..'9' -> Char.code c - 48
  | 'a'..'f' -> Char.code c - 87
  | 'A'..'F' -> Char.code c - 55
  | _ -> failwith "hex"

let pos_of_hex (s : string) : positive option =
  let bits = ref [] in
  String.iter (fun c -> let v = hexval c in
    bits := !bits @ [v land 8 <> 0; v land 4 <> 0; v land 2 <> 0; v land 1 <> 0]) s;
  let rec strip l = match l with false :: r -> strip r | _ -> l in
  match strip !bits with [] -> None | l -> Some (pos_of_bits l)

let z_of_hex (s : string) : z =
  let neg = String.length s > 0 && s.[0] = '-' in
  let body = if neg then String.sub s 1 (String.length s - 1) else s in
  match pos_of_hex body with
  | None -> Z0
  | Some p -> if neg then Zneg p else Zpos p

let z_of_int (i : int) : z = z_of_hex (Printf.sprintf "%s%x" (if i < 0 then "-" else "") (abs i))

let hex_of_pos (p : positive) : string =
  let rec bits p acc = match p with
    | XH -> true :: acc
    | XO q -> bits q (false :: acc)
    | XI q -> bits q (true :: acc) in
  let b = bits p [] in
  let n = List.length b in
  let pad = (4 - n mod 4) mod 4 in
  let b = (List.init pad (fun _ -> false)) @ b in
  let buf = Buffer.create 16 in
  let rec go l = match l with
    | a :: b' :: c :: d :: r ->
      let v = (if a then 8 else 0) + (if b' then 4 else 0) + (if c then 2 else 0) + (if d then 1 else 0) in
      Buffer.add_char buf "0123456789abcdef".[v]; go r
    | _ -> () in
  go b; Buffer.contents buf

let hex_of_z (x : z) : string = match x with
  | Z0 -> "0" | Zpos p -> hex_of_pos p | Zneg p -> "-" ^ hex_of_pos p

let q_of_tok (s : string) : qc =
  match String.index_opt s '/' with
  | None -> q2Qc { qnum = z_of_hex s; qden = XH }
  | Some i ->
    let n = z_of_hex (String.sub s 0 i) in
    let d = String.sub s (i + 1) (String.length s - i - 1) in
    (match pos_of_hex d with
     | None -> failwith "zero denominator"
     | Some p -> q2Qc { qnum = n; qden = p })

let tok_of_q (q : qc) : string =
  let r = this q in hex_of_z r.qnum ^ "/" ^ hex_of_pos r.qden

(* token stream *)
let toks : string array ref = ref [||]
let tp = ref 0
let more () = !tp < Array.length !toks
let next () = let t = !toks.(!tp) in incr tp; t
let nexti () = int_of_string (next ())
let nextq () = q_of_tok (next ())
let nextqs n = List.init n (fun _ -> nextq ())

let print_qs tag l = print_string tag; List.iter (fun q -> print_char ' '; print_string (tok_of_q q)) l; print_newline ()


let run_main (tbl : (string * (unit -> unit)) list) =
  let ic = if Array.length Sys.argv > 1 then open_in Sys.argv.(1) else stdin in
  let buf = Buffer.create 65536 in
  (try while true do Buffer.add_channel buf ic 1 done with End_of_file -> ());
  let s = Buffer.contents buf in
  toks := Array.of_list (List.filter (fun t -> t <> "") (String.split_on_char ' '
            (String.map (fun c -> if c = '\n' || c = '\t' || c = '\r' then ' ' else c) s)));
  while more () do
    let k = next () in
    match List.assoc_opt k tbl with
    | Some f -> f (); flush stdout
    | None -> prerr_endline ("unknown case kind " ^ k); exit 3
  done
