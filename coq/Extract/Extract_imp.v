(** Extraction of the executable impedance model (ExtrOcamlBasic only). *)
From Coq Require Import Extraction ExtrOcamlBasic.
From Coq Require Import List ZArith QArith Qcanon.
From Inovesa Require Import Base.FieldKit Base.Float32 Model.Impedance Model.ImpKit Model.ImpedanceSpec Model.ImpGenInst.

Extraction Language OCaml.

Extraction "model_imp.ml"
  Q2Qc this rnd32 Qcz
  shape_push shape_const shape_pp sum_q factory_q
  accept_fs accept_rw accept_const cube_ok sqrt_ok
  gen_sum_q gen_const_q gen_factory_q accept_fs_spec accept_rw_spec accept_coll_spec.
