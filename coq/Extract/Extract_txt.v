(** Extraction of the text start-distribution reader model (ExtrOcamlBasic only; numbers stay Coq's). *)
From Coq Require Import Extraction ExtrOcamlBasic.
From Coq Require Import List ZArith QArith Qcanon.
From Inovesa Require Import Base.Float32 Model.TxtReader Gen.Gen_TxtReader.

Extraction Language OCaml.

(** the reader with the generated declared types, guard and subscripts *)
Definition txt_cells_gen (n : Z) (qmax pmax : Qc) (ps : list (Qc * Qc)) : list (option (Z * Z * Z)) :=
  txt_cells txt_x_kind txt_y_kind txt_guard txt_index n qmax pmax ps.
Definition txt_cell_ok (n : Z) (c : option (Z * Z * Z)) : bool :=
  match c with Some i => in_array_b 1 n i | None => true end.

Extraction "model_txt.ml" Q2Qc this txt_cells_gen txt_cell_ok txt_coord.
