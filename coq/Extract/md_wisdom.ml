(* wisdom family: `hist id nacts act..` with act one of
     R m i1 n1 .. im nm     run preparing m transforms (kind index, length)
     D i n                  delete the file          G i n   garbage in the file
     C i n j m              copy file (i,n) over (j,m)
     X                      remove the directory     M       create the (empty) wisdom directory
   output per run: `run planned: i:n ..| logged: ..| written: ..| dir d| files: i:n:r ..` *)
let int_of_z (x : z) : int =
  let s = hex_of_z x in
  if String.length s > 0 && s.[0] = '-' then - (int_of_string ("0x" ^ String.sub s 1 (String.length s - 1)))
  else int_of_string ("0x" ^ s)

let do_hist () =
  let id = next () in
  let na = nexti () in
  let rec rd i = if i = 0 then [] else
    let t = next () in
    let a = (match t with
      | "R" -> let m = nexti () in
               let rec rq j = if j = 0 then [] else let i = nexti () in let n = nexti () in (z_of_int i, z_of_int n) :: rq (j - 1) in
               ARun (rq m)
      | "D" -> let i = nexti () in let n = nexti () in ADelete (z_of_int i, z_of_int n)
      | "G" -> let i = nexti () in let n = nexti () in AGarbage (z_of_int i, z_of_int n)
      | "C" -> let i = nexti () in let n = nexti () in let j = nexti () in let m = nexti () in
               ACopy (z_of_int i, z_of_int n, z_of_int j, z_of_int m)
      | "X" -> ARmDir
      | "M" -> AMkDir
      | _ -> failwith ("unknown action " ^ t)) in
    a :: rd (i - 1) in
  let acts = rd na in
  let reps = model_history acts in
  Printf.printf "case %s\n" id;
  Printf.printf "kinds %d mkdir %d\n" (int_of_z n_kinds) (if mkdir_flag then 1 else 0);
  let pl l = String.concat " " (List.map (fun (i, n) -> Printf.sprintf "%d:%d" (int_of_z i) (int_of_z n)) l) in
  List.iter (fun r ->
    Printf.printf "run planned %s | logged %s | written %s | dir %d | files %s\n" (pl r.r_planned) (pl r.r_logged) (pl r.r_written)
      (if r.r_dir then 1 else 0)
      (String.concat " " (List.map (fun ((i, n), rd) -> Printf.sprintf "%d:%d:%d" (int_of_z i) (int_of_z n) (if rd then 1 else 0)) r.r_files))) reps;
  print_string "end\n"

let () = run_main ["hist", do_hist]
