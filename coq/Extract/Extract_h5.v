(** Extraction of the record-schedule / file-layer model (ExtrOcamlBasic only). *)
From Coq Require Import Extraction ExtrOcamlBasic.
From Coq Require Import List ZArith QArith Qcanon.
From Inovesa Require Import Base.FieldKit Model.Records.

Extraction Language OCaml.

Definition gridAxisQ (n : Z) (pq shift : Qc) : list Qc := grid_axis QcF n pq shift.

Extraction "model_h5.ml"
  Q2Qc this run records all_dsets dset_id file_inner mem_inner rows_ok tval laststep
  read_ps use_step append_data gather_rows gridAxisQ is_out is_ps_out.
