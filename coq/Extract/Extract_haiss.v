(** Extraction of the executable model of one step's collective force (family haiss, C05).
    ExtrOcamlBasic only; numbers stay Coq's positive/Z/Q. *)
From Coq Require Import Extraction ExtrOcamlBasic.
From Coq Require Import List ZArith QArith Qcanon.
From Inovesa Require Import Base.FieldKit Base.Float32 Gen.Gen_Coeffs Gen.Gen_StepOrder Gen.Gen_WakeScale
  Model.Kick Model.StepKinds Model.RunKinds Gen.Gen_WakeUpdate Gen.Gen_Identity Gen.Gen_KickIndex Model.Copy
  Model.WakeUpdate Model.Haiss.

Extraction Language OCaml.

Definition wake_scalingQ (ib dt c sz de sd e0 nm : Qc) : Qc := wake_scaling (K:=QcF) ib dt c sz de sd e0 nm.

Extraction "model_haiss.ml"
  Q2Qc this step_order step_grids wake_offsets_list rf_offsets_list wake_table_idx_list rf_table_idx_list
  predicted_list moments_list wake_scalingQ.
