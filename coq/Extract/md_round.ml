(* family round: the proved rounding bounds of the interpolation weights and the executable binary32
   evaluation of the typed trees.  Parsing and printing only. *)

let tok_of_Q (r : q) : string = hex_of_z r.qnum ^ "/" ^ hex_of_pos r.qden

(* errtab <id> <it> <k> : one line per cell, the bounds in units of 2^-64 (hex integers) *)
let do_errtab () =
  let id = next () in
  let it = nexti () in
  let k = nexti () in
  Printf.printf "case %s\n" id;
  List.iter (fun row ->
      print_string "row";
      (match row with
       | None -> print_string " none"
       | Some l -> List.iter (fun e -> print_char ' '; print_string (hex_of_z e)) l);
      print_newline ())
    (coeff_errtab (z_of_int it) (z_of_int k));
  print_string "end\n"

(* consts <id> *)
let do_consts () =
  let id = next () in
  Printf.printf "case %s\n" id;
  List.iter2 (fun tag l ->
      print_string tag; List.iter (fun q -> print_char ' '; print_string (tok_of_Q q)) l; print_newline ())
    ["bsum"; "bone"; "lsum"; "crow"] round_consts;
  Printf.printf "kc %s\n" (hex_of_z round_kc);
  print_string "end\n"

(* flw <id> <it> <cnt> f... : binary32 weights, unfused (w) and contracted (wc) *)
let do_flw () =
  let id = next () in
  let it = nexti () in
  let cnt = nexti () in
  Printf.printf "case %s\n" id;
  for _ = 1 to cnt do
    let f = this (nextq ()) in
    print_string "w"; List.iter (fun q -> print_char ' '; print_string (tok_of_Q q)) (coeff_fl false (z_of_int it) f); print_newline ();
    print_string "wc"; List.iter (fun q -> print_char ' '; print_string (tok_of_Q q)) (coeff_fl true (z_of_int it) f); print_newline ()
  done;
  print_string "end\n"

let () = run_main ["errtab", do_errtab; "consts", do_consts; "flw", do_flw]
