(** Extraction of the ElectricField buffer machine (family hist, C18).  ExtrOcamlBasic only;
    numbers stay Coq's positive/Z/Q.  The carrier is instantiated with Qc (profiles are dyadic
    rationals, so the padded buffer is represented exactly) and the abstract transforms with
    simple functions that mix all cells: the padded-buffer contents and the footprints the
    driver prints do not depend on them; the "same as fresh" verdict does (it is the model's
    prediction of history (in)dependence for injective-enough transforms). *)
From Coq Require Import Extraction ExtrOcamlBasic.
From Coq Require Import List ZArith QArith Qcanon.
From Inovesa Require Import Model.EField Model.EField2 Model.EFieldProg Gen.Gen_EField.
Import ListNotations.

Extraction Language OCaml.
Local Open Scope Z_scope.

Definition qz (z : Z) : Qc := Q2Qc (inject_Z z).
Definition qsum (l : list Qc) : Qc := fold_left Qcplus l (qz 0).

(** sum_j l_j (j+1)^k *)
Definition qmom (k : nat) (l : list Qc) : Qc :=
  qsum (map (fun jx => (snd jx * qz (Z.pow (fst jx + 1) (Z.of_nat k)))%Qc) (combine (cells (Z.of_nat (length l))) l)).

Definition toyQ (n N sp : Z) (bks : list Z) (fixed : bool) : env Qc (Qc * Qc) :=
  Env Qc (Qc * Qc) (qz 0) (qz 0, qz 0) n N sp bks fixed
      (fun l => let m1 := qmom 1 l in let m2 := qmom 2 l in
                map (fun i => (m1 + qz i, m2 + nthZ l (qz 0) i)%Qc) (cells (N / 2 + 1)))
      (fun l => let m := (qmom 1 (map fst l) + qz 2 * qmom 2 (map snd l))%Qc in
                map (fun i => (m + qz i)%Qc) (cells N))
      (fun l => l)
      (fun i c => (fst c * qz (i + 1), snd c + qz i)%Qc) (fun t => (qz 3 * t)%Qc)
      (fun cut i c => (cut + fst c * fst c + snd c * snd c + qz i)%Qc)
      (fun a x => (a + qz 2 * x)%Qc).

Definition h_bp (E : env Qc (Qc * Qc)) (s : state Qc (Qc * Qc)) : list Qc := sample (bp s) (nmax E).

Definition h_masks (E : env Qc (Qc * Qc)) (o : op Qc) : list (list bool) :=
  [ map (writes_bp E o) (cells (nmax E)); map (writes_ff E o) (cells (nmax E));
    map (writes_wl E o) (cells (nmax E)); map (writes_wp E o) (cells (nmax E));
    map (writes_wake E o) (cells (nbun E * nx E)); map (writes_csr E o) (cells (nbun E * nmax E));
    map (writes_csri E o) (cells (nbun E)) ].

(** the same operation through the programs GENERATED from the current source (Gen/Gen_EField.v); the
    driver runs both and reports whether they agree (Proofs/EFieldGenP.v proves they do) *)
Definition gstep (E : env Qc (Qc * Qc)) (o : op Qc) (s : state Qc (Qc * Qc)) : state Qc (Qc * Qc) :=
  prog_step E (fun cut _ zi x => csrcell E cut zi x) gen_pad_prog gen_wake_prog gen_csr_prog o s.

Definition h_all (E : env Qc (Qc * Qc)) (s : state Qc (Qc * Qc)) : list (list Qc) :=
  [ sample (bp s) (nmax E); sample (wake s) (nbun E * nx E); sample (wp s) (nmax E);
    sample (csr s) (nbun E * nmax E); sample (csri s) (nbun E);
    map fst (sample (ff s) (nmax E)); map snd (sample (ff s) (nmax E));
    map fst (sample (wl s) (nmax E)); map snd (sample (wl s) (nmax E)) ].

(** two objects (Model/EField2.v) *)
Definition h_step2 (E1 E2 : env Qc (Qc * Qc)) (w : who) (x : xop Qc)
           (s : state Qc (Qc * Qc) * state Qc (Qc * Qc)) := step2 E1 E2 (w, x) s.
Definition h_fresh2 (E1 E2 : env Qc (Qc * Qc)) := fresh2 E1 E2.
Definition h_sel (w : who) (s : state Qc (Qc * Qc) * state Qc (Qc * Qc)) := sel w s.
Definition h_gread (E : env Qc (Qc * Qc)) (g : getter) (s : state Qc (Qc * Qc)) : list Qc := gread E g s.
Definition h_reads (o : op Qc) (g : getter) : bool := reads_of o g.

Extraction "model_hist.ml"
  Q2Qc this toyQ fresh step observe h_bp h_masks lfun gstep h_all h_step2 h_fresh2 h_sel h_gread h_reads.
