(** Extraction of the configuration-file text model (C13): ExtrOcamlBasic plus ExtrOcamlString (ascii -> char,
    as the options family), no Extract Constant of our own. *)
From Coq Require Import Extraction ExtrOcamlBasic ExtrOcamlString.
From Coq Require Import List String Ascii ZArith QArith Qcanon.
From Inovesa Require Import Model.CfgText Gen.Gen_Options.

Extraction Language OCaml.

(** what `--config <saved file>` reads back for a string option, with the chain save() uses (generated) *)
Definition gen_reread (name v : text) : option (list (text * text)) := reread gen_string_line name v.
Definition gen_written (name v : text) : text := write_pieces gen_string_line name v.

(* [Q2Qc], [this]: the number helpers of mdcommon.ml (shared driver prelude) refer to their types *)
Extraction "model_cfgtext.ml" Q2Qc this gen_reread gen_written read_text file_options cfg_representable name_ok.
