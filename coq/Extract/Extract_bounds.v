(** Extraction of the C17 size/index model (ExtrOcamlBasic only; numbers stay Coq's). *)
From Coq Require Import Extraction ExtrOcamlBasic.
From Coq Require Import List ZArith QArith Qcanon.
From Inovesa Require Import Base.FieldKit Base.Float32 Model.Kick Model.Bounds Model.ScalingOps Gen.Gen_ScalingZ.

Extraction Language OCaml.

Definition f2u_code (bits : Z) (q : Qc) : Z := conv_code (f2u bits q).
Definition kick_src_code (n t h : Z) : Z := match kick_src n t h with Some s => s | None => (-1)%Z end.
Definition sm_index_code (n it : Z) (o : Qc) (j1 : Z) : Z := fst (sm_entry_g n it o j1).
Definition sm_pinned_defined (n : Z) (o : Qc) : bool := sm_defined n o.

Extraction "model_bounds.ml"
  Q2Qc this
  upper_power_of_two sizes_list sizes_pinned_list gen_sizes_list fp_guard bucket_numbers pad_list pad_ok pad_max_last
  fp_events_list fp_table fp_all_ok fp_access_ok
  f2u_code kick_src_code sm_index_code sm_pinned_defined imp_sum_reads imp_sum_ok track_ok fptrack1_row conv_code.
