(* rotg <id> <xs> <ys> <it> <rotmapsize> <clamp> <ndata> cos sin d0 d1 z0 z1 ; ax (xs) ; ay (ys) ; data (ndata)
   the map assembled from the GENERATED definitions (Model/RotationGen.v) next to the hand-written model *)
let do_rotg () =
  let id = next () in
  let xs = nexti () in let ys = nexti () in let it = nexti () in
  let rms = nexti () in let clamp = nexti () in let nd = nexti () in
  let c = nextq () in let s = nextq () in let d0 = nextq () in let d1 = nextq () in
  let z0 = nextq () in let z1 = nextq () in
  let par = { rp_cos = c; rp_sin = s; rp_d0 = d0; rp_d1 = d1; rp_z0 = z0; rp_z1 = z1 } in
  let ax = nextqs xs in let ay = nextqs ys in
  let data = nextqs nd in
  let a = { ra_xs = z_of_int xs; ra_ys = z_of_int ys; ra_it = z_of_int it; ra_rotmapsize = z_of_int rms; ra_clamp = (clamp <> 0) } in
  Printf.printf "case %s\n" id;
  print_string "members";
  List.iter (fun z -> Printf.printf " %s" (hex_of_z z)) (rg_members a);
  print_newline ();
  print_string "defined";
  List.iter (fun b -> print_string (if b then " 1" else " 0")) (rot_defined_rect (z_of_int xs) (z_of_int ys) par ax ay);
  print_newline ();
  print_string "table";
  List.iter (fun (i, w) -> Printf.printf " %s %s" (hex_of_z i) (tok_of_q w)) (rg_table_list a par ax ay);
  print_newline ();
  print_string "out";
  List.iter (fun (i, v) -> Printf.printf " %s %s" (hex_of_z i) (tok_of_q v)) (rg_apply_list a par ax ay data);
  print_newline ();
  print_string "htable";
  List.iter (fun (i, w) -> Printf.printf " %s %s" (hex_of_z i) (tok_of_q w)) (rot_table_rect (z_of_int xs) (z_of_int ys) (z_of_int it) par ax ay);
  print_newline ();
  print_qs "hout" (rot_apply_rect (z_of_int xs) (z_of_int ys) (z_of_int it) (clamp <> 0) par ax ay data);
  print_string "end\n"

let () = run_main ["rotg", do_rotg]
