(* txt <id> <n> <qmax> <pmax> <k> x1 y1 ... xk yk     (rational tokens)
   prints per particle `p <j> - ` (skipped by the guard) or `p <j> b x y inside?` and the lround results *)
let do_txt () =
  let id = next () in
  let n = nexti () in
  let qmax = nextq () in let pmax = nextq () in
  let k = nexti () in
  let ps = List.init k (fun _ -> let x = nextq () in let y = nextq () in (x, y)) in
  let z = z_of_int in
  Printf.printf "case %s\n" id;
  let cells = txt_cells_gen (z n) qmax pmax ps in
  List.iteri (fun j (c, (x, y)) ->
      let vx = txt_coord (z n) x qmax and vy = txt_coord (z n) y pmax in
      (match c with
       | None -> Printf.printf "p %d - %s %s\n" j (hex_of_z vx) (hex_of_z vy)
       | Some ((b, cx), cy) ->
         Printf.printf "p %d %s %s %s %s %s %s\n" j (hex_of_z b) (hex_of_z cx) (hex_of_z cy)
           (if txt_cell_ok (z n) c then "1" else "0") (hex_of_z vx) (hex_of_z vy)))
    (List.combine cells ps);
  print_string "end\n"

let () = run_main ["txt", do_txt]
