(** Extraction of the executable rf model (ExtrOcamlBasic only; numbers stay Coq's
    positive/Z/Q - no OCaml int or float). *)
From Coq Require Import Extraction ExtrOcamlBasic.
From Coq Require Import List ZArith QArith Qcanon.
From Inovesa Require Import Base.FieldKit Model.RF Model.RFDriftGen.

Extraction Language OCaml.

Extraction "model_rf.ml"
  Q2Qc this ruler_list rf_lin_list rf_sin_list drift_list zmoments zorbit_listZ gen_offs_run.
