(** Extraction of the executable dynrf model (C19): ExtrOcamlBasic only; numbers stay Coq's
    inductive types.  The constructor-forwarding model (strings) is not extracted: the check
    evaluates it with vm_compute (DESIGN 2.3, `cases.v` path). *)
From Coq Require Import Extraction ExtrOcamlBasic.
From Coq Require Import List ZArith QArith Qcanon Bool.
From Inovesa Require Import Base.FieldKit Base.Float32 Model.Ctors Gen.Gen_Ctors Model.DynRF.
Import ListNotations.

Extraction Language OCaml.

(** a function given by a finite table (the libm sine values the implementation side reports,
    keyed by the *model's own* exact arguments); 0 outside the table *)
Fixpoint tabfun (args vals : list Qc) (x : Qc) : Qc :=
  match args, vals with
  | a :: ar, v :: vr => if Qc_eq_dec a x then v else tabfun ar vr x
  | _, _ => 0%Qc
  end.

Definition noise_of (l : list Qc) (i : nat) : Qc := nth i l 0%Qc.

(** __calcModulation: the model's definition, its sine arguments, and the run with the sine table *)
Definition mod_args (d : dyncfg QcF) (steps : nat) : list Qc :=
  map (fun i => Qcmult (modtimedelta d) (fz (K:=QcF) (Z.of_nat i))) (seq 0 steps).
Definition calc_modulation_Q (sync pn an ma mtd : Qc) (noise sinvals : list Qc) (steps : nat) : list (Qc * Qc) :=
  let d := mkDC (K:=QcF) pn an ma mtd in
  calc_modulation (K:=QcF) (tabfun (mod_args d steps) sinvals) sync d (noise_of noise) steps.

(** _calcKick *)
Definition rf_Q (lin : bool) (tana rev vrf v0 sync bl2 : Qc) (xs : Z) (xc d0 d1 s1 : Qc) (ax : list Qc) : rfmap QcF :=
  mkRF (K:=QcF) lin tana rev vrf v0 sync bl2 xs xc d0 d1 s1 (fun x => nth (Z.to_nat x) ax 0%Qc).
Definition kick_args (m : rfmap QcF) (phase : Qc) : list Qc :=
  map (fun x => Qcplus (Qcmult (axis0 QcF m x) (bl2phase QcF m)) phase) (zrange (xsize m)).
Definition calc_kick_Q (m : rfmap QcF) (phase ampl : Qc) (sinvals : list Qc) : list Qc :=
  calc_kick (K:=QcF) (tabfun (kick_args m phase) sinvals) m phase ampl.
Definition static_offsets_Q (m : rfmap QcF) (len : nat) (sinvals : list Qc) : list Qc :=
  static_offsets (K:=QcF) (tabfun (kick_args m (syncphase m)) sinvals) m len.

(** the queue machine on a given initial queue (offsets are not the subject here: a map that
    writes nothing, the grid counts the kicks) *)
Definition null_rf : rfmap QcF :=
  mkRF (K:=QcF) true 0%Qc 0%Qc 0%Qc 0%Qc 0%Qc 1%Qc 0 0%Qc 1%Qc 1%Qc 1%Qc (fun _ => 0%Qc).
Definition sched_Q (q0 : list (Qc * Qc)) (ops : list bool) : st QcF nat :=
  run (K:=QcF) (fun x => x) (fun _ g => S g) null_rf
      (map (fun b : bool => if b then Apply else Flush) ops)
      (init (K:=QcF) (fun x => x) null_rf 0 q0 0%nat).
Definition main_sched (outstep n : nat) : list bool :=
  map (fun o => match o with Apply => true | Flush => false end) (main_ops outstep n).

Extraction "model_dynrf.ml"
  Q2Qc this calc_modulation_Q mod_args rf_Q kick_args calc_kick_Q static_offsets_Q
  sched_Q main_sched
  flushed past queue used ub grid mkDC.
