(* run <id> <n> <nb> <it> <steps> <ip> ; rf (n) ; dr (n) ; fptab (n*ip pairs idx w; ip = 0: Identity in the
   Fokker-Planck slot) ; <wmode: none | some> ; [some: steps * (nb*n) wake potentials] ; data (nb*n*n)
   prints: woff k (offset vector after update(), nb*n) and wtab 0 (table after the first update, nb*n*it pairs) for
   wmode some; g <steps-1> (grid after the last step, computed by the extracted run_driver) *)
let do_run () =
  let id = next () in
  let n = nexti () in let nb = nexti () in let it = nexti () in let steps = nexti () in let ip = nexti () in
  let rf = nextqs n in
  let dr = nextqs n in
  let tbl = List.init (n * ip) (fun _ -> let i = z_of_hex (next ()) in let w = nextq () in (i, w)) in
  let wmode = next () in
  let z = z_of_int in
  let wks = List.init steps (fun _ -> if wmode = "some" then Some (nextqs (nb * n)) else None) in
  let data = nextqs (nb * n * n) in
  Printf.printf "case %s\n" id;
  List.iteri (fun k w -> match w with
    | Some wp ->
      print_qs (Printf.sprintf "woff %d" k) (wake_offsets_list (z n) (z nb) (z it) wp);
      if k = 0 then begin
        print_string "wtab 0";
        List.iter (fun (i, w) -> Printf.printf " %s %s" (hex_of_z i) (tok_of_q w)) (wake_table_list (z n) (z nb) (z it) wp);
        print_newline ()
      end
    | None -> ()) wks;
  let fp = if ip = 0 then None else Some (z ip, tbl) in
  print_qs (Printf.sprintf "g %d" (steps - 1)) (run_driver (z n) (z nb) (z it) rf dr fp wks data);
  print_string "end\n"

(* ident <id> <n> <nb> ; in (nb*n*n) ; old (nb*n*n)  -> out (nb*n*n) *)
let do_ident () =
  let id = next () in
  let n = nexti () in let nb = nexti () in
  let inp = nextqs (nb * n * n) in
  let old = nextqs (nb * n * n) in
  Printf.printf "case %s\n" id;
  print_qs "out" (ident_list (z_of_int nb) (z_of_int n) inp old);
  print_string "end\n"

let () = run_main ["run", do_run; "ident", do_ident]
