(** Extraction of the executable driver model (unit instance) for the C12/C14 correspondence. *)
From Coq Require Import Extraction ExtrOcamlBasic.
From Coq Require Import List ZArith QArith Qcanon.
From Inovesa Require Import Model.Driver Gen.Gen_MainLoop Model.DriverInst.

Extraction Language OCaml.
Extraction "model_driver.ml" Q2Qc this model_run model_run_full mkcfg.
