(** Extraction of the program-options model.  ExtrOcamlBasic plus ExtrOcamlString (DESIGN 4: option
    names only; string -> char list, ascii -> char), no Extract Constant of our own. *)
From Coq Require Import Extraction ExtrOcamlBasic ExtrOcamlString.
From Coq Require Import List String ZArith QArith Qcanon.
From Inovesa Require Import Model.OptionsTypes Model.Options Gen.Gen_Options Proofs.OptionsRT Proofs.OptionsRT2 Proofs.OptionsRT3.

Extraction Language OCaml.

Extraction "model_options.ml"
  Q2Qc this
  gen_table gen_prog gen_wrules parse save saved_items reload reload_with sorted_names st0 reparse_lawb.
