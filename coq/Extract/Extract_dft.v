(** Extraction of the executable DFT / wake / CSR model (ExtrOcamlBasic only; numbers stay
    Coq's positive/Z/Q).  The twiddle table comes from the case file. *)
From Coq Require Import Extraction ExtrOcamlBasic.
From Coq Require Import List ZArith QArith Qcanon.
From Inovesa Require Import Base.FieldKit Model.DFT.
Import ListNotations.

Extraction Language OCaml.

Definition paddedQ (N n s : Z) (bks : list Z) (profs : list (list Qc)) : list Qc :=
  padded_list (K:=QcF) N n s bks profs [].
Definition halfspecQ (N : Z) (tc ts zre zim : list Qc) (p : list Qc) : list (Qc * Qc) :=
  halfspec_list (K:=QcF) N tc ts (zipc (K:=QcF) zre zim) [] p.
Definition c2rcellsQ (N : Z) (tc ts : list Qc) (L : list (Qc * Qc)) (cells : list Z) : list Qc :=
  c2r_cells (K:=QcF) N tc ts L cells.
Definition wakecellsQ (N : Z) (tc ts : list Qc) (L : list (Qc * Qc)) (scale : Qc) (cells : list Z) : list Qc :=
  wake_cells (K:=QcF) N tc ts L scale cells.
Definition readbackcellsQ (n s : Z) (bks : list Z) : list (list Z) := readback_cells n s bks.
Definition wakeQ (N n s : Z) (tc ts zre zim : list Qc) (bks : list Z) (profs : list (list Qc)) (scale : Qc)
  : list (list Qc) :=
  wake_list (K:=QcF) N n s tc ts (zipc (K:=QcF) zre zim) [] bks profs [] scale.
Definition scalingQ (N : Z) (Ib dt c sz dE sd E0 : Qc) : Qc :=
  wake_scaling (K:=QcF) N Ib dt c sz dE sd E0.
Definition csrspecQ (N n : Z) (tc ts zre zim : list Qc) (dq2 : Qc) (cut : option (list Qc))
           (prof : list Qc) : list Qc :=
  csr_spectrum_list (K:=QcF) N n tc ts (zipc (K:=QcF) zre zim) dq2 cut prof [].
Definition csrpowerQ (df : Qc) (spec : list Qc) : Qc := csr_power_list (K:=QcF) df spec.

Extraction "model_dft.ml"
  Q2Qc this paddedQ halfspecQ c2rcellsQ readbackcellsQ wakecellsQ wakeQ scalingQ csrspecQ csrpowerQ upper_power_of_two.
