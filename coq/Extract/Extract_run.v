(** Extraction of the executable run model (family `run`: C08 run level, C01 identity map).
    ExtrOcamlBasic only; numbers stay Coq's positive/Z/Q. *)
From Coq Require Import Extraction ExtrOcamlBasic.
From Coq Require Import List ZArith QArith Qcanon.
From Inovesa Require Import Base.FieldKit Base.Float32 Gen.Gen_Coeffs Gen.Gen_FPStencil Model.Kick Model.RF
  Model.FokkerPlanck Model.StepKinds Gen.Gen_StepOrder Model.RunKinds Gen.Gen_WakeUpdate Gen.Gen_Identity
  Model.Copy Model.WakeUpdate Model.Run.

Extraction Language OCaml.

Extraction "model_run.ml"
  Q2Qc this run_driver wake_offsets_list wake_table_list ident_list.
