(* rf family driver: parsing and printing only.

   rfoffs <id> <n> <nb> qmin0 qmax0 qmin1 qmax1 scale1
          lin t phaseoffs bl2phase ampl | sin revpart ampl vrf v0 sn_0 .. sn_{n-1}
          <nslip> slip.. e0
     -> axis  (delta0 zerobin0 delta1 zerobin1), rf (n*nb offsets), drift (n*nb offsets)
        (the offset expressions use the exact delta/zerobin of the model's Ruler)
   rfmom, rforbit: integer (dyadic) evaluation, see below                                  *)

let do_rfoffs () =
  let id = next () in
  let n = nexti () in let nb = nexti () in
  let qmin0 = nextq () in let qmax0 = nextq () in
  let qmin1 = nextq () in let qmax1 = nextq () in
  let scale1 = nextq () in
  let zn = z_of_int n and znb = z_of_int nb in
  let (d0, zb0) = ruler_list zn qmin0 qmax0 in
  let (d1, zb1) = ruler_list zn qmin1 qmax1 in
  let kind = next () in
  let rf =
    if kind = "lin" then begin
      let t = nextq () in let ph = nextq () in let bl = nextq () in let ampl = nextq () in
      rf_lin_list zn znb t zb0 ph bl d0 ampl
    end else begin
      let revpart = nextq () in let ampl = nextq () in let vrf = nextq () in let v0 = nextq () in
      let sn = nextqs n in
      rf_sin_list zn znb revpart ampl vrf v0 d1 scale1 sn
    end in
  let ns = nexti () in
  let slip = nextqs ns in
  let e0 = nextq () in
  let dr = drift_list zn znb slip scale1 e0 d0 qmin1 d1 in
  Printf.printf "case %s\n" id;
  print_qs "axis" [d0; zb0; d1; zb1];
  print_qs "rf" rf;
  print_qs "drift" dr;
  print_string "end\n"

(* genoffs <id> <n> <nb> qmin0 qmax0 qmin1 qmax1 scaleMeter0 scaleEV1 c two_pi
           lin angle fRF | sin revpart vrf frf v0
           t sync sn_0 .. sn_{n-1}  <docalc> [phase ampl]  <nslip> slip.. e0
     -> the run of the GENERATED constructors / _calcKick (Gen/Gen_RFDrift.v through Model/RFDriftGen.v):
        gconst (bl2phase syncphase as the generated member initialisers give them), grf (offsets), gdrift (offsets),
        gbuilt (1 iff the table was built from these offsets: RF map, drift map) *)
let do_genoffs () =
  let id = next () in
  let n = nexti () in let nb = nexti () in
  let qmin0 = nextq () in let qmax0 = nextq () in
  let qmin1 = nextq () in let qmax1 = nextq () in
  let scm = nextq () in let sce = nextq () in
  let c = nextq () in let tp = nextq () in
  let kind = next () in
  let lin = (kind = "lin") in
  let p1 = nextq () in let p2 = nextq () in
  let (p3, p4) = if lin then (p1, p1) else (let a = nextq () in let b = nextq () in (a, b)) in
  let t = nextq () in let sync = nextq () in
  let sn = nextqs n in
  let docalc = (nexti () = 1) in
  let (cph, camp) = if docalc then (let a = nextq () in let b = nextq () in (a, b)) else (sync, sync) in
  let ns = nexti () in
  let slip = nextqs ns in
  let e0 = nextq () in
  let ((bl, sy), ((rf, brf), (dr, bdr))) =
    gen_offs_run (z_of_int n) (z_of_int nb) qmin0 qmax0 qmin1 qmax1 scm sce c tp lin p1 p2 p3 p4 t sync sn docalc cph camp slip e0 in
  Printf.printf "case %s\n" id;
  print_qs "gconst" [bl; sy];
  print_qs "grf" rf;
  print_qs "gdrift" dr;
  Printf.printf "gbuilt %d %d\n" (if brf then 1 else 0) (if bdr then 1 else 0);
  print_string "end\n"

let nextz () = z_of_hex (next ())

(* rfmom <id> <n> <nb> XC YC f  data(nb*n*n integers, hex)  -> m S0 U V per bunch (integers) *)
let do_rfmom () =
  let id = next () in
  let n = nexti () in let nb = nexti () in
  let xc = nextz () in let yc = nextz () in let f = nexti () in
  let data = List.init (nb * n * n) (fun _ -> nextz ()) in
  Printf.printf "case %s\n" id;
  for b = 0 to nb - 1 do
    let (s0, (u, v)) = zmoments (z_of_int n) (z_of_int b) xc yc (z_of_int f) data in
    Printf.printf "m %s %s %s\n" (hex_of_z s0) (hex_of_z u) (hex_of_z v)
  done;
  print_string "end\n"

(* rforbit <id> E T A U V s k  -> o  u_0 v_0 ... u_k v_k   as integers = floor(value*2^64) *)
let do_rforbit () =
  let id = next () in
  let e = nexti () in
  let t = nextz () in let a = nextz () in
  let u = nextz () in let v = nextz () in
  let s = nexti () in
  let k = nexti () in
  Printf.printf "case %s\n" id;
  print_string "o";
  List.iter (fun (x, y) -> Printf.printf " %s %s" (hex_of_z x) (hex_of_z y))
    (zorbit_listZ (z_of_int e) t a u v (z_of_int s) (z_of_int k));
  print_newline ();
  print_string "end\n"

let () = run_main ["rfoffs", do_rfoffs; "genoffs", do_genoffs; "rfmom", do_rfmom; "rforbit", do_rforbit]
