(** Extraction of the rounding-envelope calculator and of the executable IEEE evaluation of the typed
    coefficient trees (family [round]; ExtrOcamlBasic only, numbers stay Coq's positive/Z/Q). *)
From Coq Require Import Extraction ExtrOcamlBasic.
From Coq Require Import List ZArith QArith Qcanon.
From Inovesa Require Import Base.Float32 Model.FExpr Gen.Gen_CoeffsFl Proofs.CoeffsRoundP Proofs.KickRoundP.
Import ListNotations.

Extraction Language OCaml.

(** per cell of [0,1] (2^k cells) the proved bounds on |computed weight - exact weight|, units of 2^-64 *)
Definition coeff_errtab (it k : Z) : list (option (list Z)) := err_table (coeff_trees it) k.
(** binary32 evaluation of calcCoefficiants as the typed trees prescribe, unfused / contracted *)
Definition coeff_fl (contract : bool) (it : Z) (f : Q) : list Q :=
  map (fun e => Qred (fl_evalQ contract e f)) (coeff_trees it).
(** the constants of the theorems: Bsum, Bone, Lsum (Props C02), Crow (Props C01), for it = 1..4 *)
Definition round_consts : list (list Q) :=
  [map Bsum [1; 2; 3; 4]%Z; map Bone [1; 2; 3; 4]%Z; map Lsum [1; 2; 3; 4]%Z; map CrowQ [1; 2; 3; 4]%Z].
Definition round_kc : Z := KC.

Extraction "model_round.ml" Q2Qc this coeff_errtab coeff_fl round_consts round_kc.
