(** Extraction of the executable wisdom model (generated table of prepareFFT bodies) for the C12 correspondence.
    ExtrOcamlBasic plus ExtrOcamlString (as for the options family, DESIGN 4: the kinds of wisdom file are names;
    string -> char list, ascii -> char; the driver passes kinds as indices and never builds a Coq string), no Extract
    Constant of our own. *)
From Coq Require Import Extraction ExtrOcamlBasic ExtrOcamlString.
From Coq Require Import List ZArith QArith Qcanon.
From Inovesa Require Import Model.Wisdom Gen.Gen_Wisdom Model.WisdomInst.

Extraction Language OCaml.
Extraction "model_wisdom.ml" Q2Qc this model_history n_kinds mkdir_flag.
