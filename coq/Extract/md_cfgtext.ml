(* texts are hex-encoded byte strings ("-" = empty)
   reread <id> <name> <value>   what `--config saved` reads back for the line save() writes for a string option:
                                `written <hex>`, `repr <0|1>` (cfg_representable value), `nameok <0|1>`,
                                `back none` (the reader throws) or `back <k> <name> <value> ...`
   file <id> <text>             the (name, value) pairs boost's reader hands to store() for a whole file text *)
let text_of_hex (h : string) : char list =
  if h = "-" then [] else List.init (String.length h / 2) (fun i -> Char.chr (int_of_string ("0x" ^ String.sub h (2 * i) 2)))
let hex_of_text (t : char list) : string =
  if t = [] then "-" else String.concat "" (List.map (fun c -> Printf.sprintf "%02x" (Char.code c)) t)

let print_back tag r =
  match r with
  | None -> Printf.printf "%s none\n" tag
  | Some l ->
    Printf.printf "%s %d" tag (List.length l);
    List.iter (fun (n, v) -> Printf.printf " %s %s" (hex_of_text n) (hex_of_text v)) l;
    print_newline ()

let do_reread () =
  let id = next () in
  let name = text_of_hex (next ()) in
  let v = text_of_hex (next ()) in
  Printf.printf "case %s\n" id;
  Printf.printf "written %s\n" (hex_of_text (gen_written name v));
  Printf.printf "repr %s\n" (if cfg_representable v then "1" else "0");
  Printf.printf "nameok %s\n" (if name_ok name then "1" else "0");
  print_back "back" (gen_reread name v);
  print_string "end\n"

let do_file () =
  let id = next () in
  let t = text_of_hex (next ()) in
  Printf.printf "case %s\n" id;
  print_back "items" (file_options [] (read_text t));
  print_string "end\n"

let () = run_main ["reread", do_reread; "file", do_file]
