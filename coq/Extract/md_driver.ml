(* driver family: `run id laststep outstep h5save renorm hdf wake dynrf at rep pc0` *)
let int_of_z (x : z) : int =
  let s = hex_of_z x in
  if String.length s > 0 && s.[0] = '-' then - (int_of_string ("0x" ^ String.sub s 1 (String.length s - 1)))
  else int_of_string ("0x" ^ s)

let kname k = match k with KPS -> "PS" | KDef -> "Def" | KCsr -> "Csr" | KWake -> "Wake"
  | KTracks -> "Tracks" | KRF -> "RF" | KPadded -> "Padded"
let mname m = match m with MStatus -> "status" | MAborted -> "Aborted." | MFinished -> "Finished."

let print_outcome id o =
  Printf.printf "case %s\n" id;
  print_string "trace";
  List.iter (fun (l, k) -> Printf.printf " %d:%d" (int_of_z l) (int_of_z k)) o.o_trace;
  print_newline ();
  print_string "file";
  List.iter (fun ((kd, st), rows) -> Printf.printf " %s:%d:%d" (kname kd) (int_of_z st) (int_of_z rows)) o.o_file;
  print_newline ();
  print_string "log";
  List.iter (fun m -> Printf.printf " %s" (mname m)) o.o_log;
  print_newline ();
  Printf.printf "status %s\n" (match o.o_status with Some z -> string_of_int (int_of_z z) | None -> "none");
  Printf.printf "k %d\n" (int_of_z o.o_k);
  Printf.printf "abort %d\n" (if o.o_abort then 1 else 0);
  Printf.printf "pc %d\n" (int_of_z o.o_pc);
  print_string "rf";
  List.iter (fun (st, l) -> Printf.printf " %d:%s" (int_of_z st) (String.concat "," (List.map (fun x -> string_of_int (int_of_z x)) l))) o.o_rf;
  print_newline ();
  print_string "pending";
  List.iter (fun x -> Printf.printf " %d" (int_of_z x)) o.o_pending;
  print_newline ()

(* `full id laststep outstep h5save renorm hdf wake dynrf at rep ntrue c1 .. cn nthrow x1 .. xm`: the whole program,
   set-up included; c1..cn are the opaque conditions of the set-up that hold, x1..xm the opaque statements that throw *)
let do_full () =
  let id = next () in
  let last = nexti () in let outs = nexti () in let h5 = nexti () in let rn = nexti () in
  let hdf = nexti () <> 0 in let wake = nexti () <> 0 in let dyn = nexti () <> 0 in
  let at = nexti () in let rep = nexti () <> 0 in
  let n = nexti () in
  let rec rd i = if i = 0 then [] else let x = nexti () in x :: rd (i - 1) in
  let tl = List.map z_of_int (rd n) in
  let m = nexti () in
  let xl = List.map z_of_int (rd m) in
  let c = { laststep = z_of_int last; outstep = z_of_int outs; h5save = z_of_int h5; renorm = z_of_int rn;
            hdf = hdf; wake = wake; dynrf = dyn } in
  let (kind, o) = model_run_full c (z_of_int at) rep tl xl in
  print_outcome id o;
  Printf.printf "kind %d\n" (int_of_z kind);
  print_string "end\n"

let do_run () =
  let id = next () in
  let last = nexti () in let outs = nexti () in let h5 = nexti () in let rn = nexti () in
  let hdf = nexti () <> 0 in let wake = nexti () <> 0 in let dyn = nexti () <> 0 in
  let at = nexti () in let rep = nexti () <> 0 in let pc0 = nexti () in
  let c = { laststep = z_of_int last; outstep = z_of_int outs; h5save = z_of_int h5; renorm = z_of_int rn;
            hdf = hdf; wake = wake; dynrf = dyn } in
  let o = model_run c (z_of_int at) rep (z_of_int pc0) in
  Printf.printf "case %s\n" id;
  print_string "trace";
  List.iter (fun (l, k) -> Printf.printf " %d:%d" (int_of_z l) (int_of_z k)) o.o_trace;
  print_newline ();
  print_string "file";
  List.iter (fun ((kd, st), rows) -> Printf.printf " %s:%d:%d" (kname kd) (int_of_z st) (int_of_z rows)) o.o_file;
  print_newline ();
  print_string "log";
  List.iter (fun m -> Printf.printf " %s" (mname m)) o.o_log;
  print_newline ();
  Printf.printf "status %s\n" (match o.o_status with Some z -> string_of_int (int_of_z z) | None -> "none");
  Printf.printf "k %d\n" (int_of_z o.o_k);
  Printf.printf "abort %d\n" (if o.o_abort then 1 else 0);
  Printf.printf "pc %d\n" (int_of_z o.o_pc);
  print_string "rf";
  List.iter (fun (st, l) -> Printf.printf " %d:%s" (int_of_z st) (String.concat "," (List.map (fun x -> string_of_int (int_of_z x)) l))) o.o_rf;
  print_newline ();
  print_string "pending";
  List.iter (fun x -> Printf.printf " %d" (int_of_z x)) o.o_pending;
  print_newline ();
  print_string "end\n"

let () = run_main ["run", do_run; "full", do_full]
