let do_kick () =
  let id = next () in
  let dir = next () in
  let n = nexti () in let nb = nexti () in let it = nexti () in
  let offs = nextqs (n * nb) in
  let data = nextqs (nb * n * n) in
  let zn = z_of_int n and znb = z_of_int nb and zit = z_of_int it in
  Printf.printf "case %s\n" id;
  print_string "defined";
  List.iter (fun b -> print_string (if b then " 1" else " 0")) (defined_list zn offs);
  print_newline ();
  print_string "table";
  List.iter (fun (i, w) -> Printf.printf " %s %s" (hex_of_z i) (tok_of_q w)) (table_list zn zit offs);
  print_newline ();
  let out = if dir = "x" then kick_x_list zn znb zit offs data else kick_y_list zn znb zit offs data in
  print_qs "out" out;
  print_string "end\n"

let do_coeffs () =
  let id = next () in
  let it = nexti () in
  let cnt = nexti () in
  Printf.printf "case %s\n" id;
  for _ = 1 to cnt do
    print_qs "w" (coeffsQ (z_of_int it) (nextq ()))
  done;
  print_string "end\n"



(* rot <id> <n> <it> cos sin d0 d1 z0 z1 ; ax (n) ; ay (n) ; data (n*n) *)
let do_rot () =
  let id = next () in
  let n = nexti () in let it = nexti () in
  let c = nextq () in let s = nextq () in let d0 = nextq () in let d1 = nextq () in
  let z0 = nextq () in let z1 = nextq () in
  let par = { rp_cos = c; rp_sin = s; rp_d0 = d0; rp_d1 = d1; rp_z0 = z0; rp_z1 = z1 } in
  let ax = nextqs n in let ay = nextqs n in
  let data = nextqs (n * n) in
  let zn = z_of_int n and zit = z_of_int it in
  Printf.printf "case %s\n" id;
  print_string "defined";
  List.iter (fun b -> print_string (if b then " 1" else " 0")) (rot_defined_list zn par ax ay);
  print_newline ();
  print_string "table";
  List.iter (fun (i, w) -> Printf.printf " %s %s" (hex_of_z i) (tok_of_q w)) (rot_table_list zn zit par ax ay);
  print_newline ();
  print_qs "out" (rot_apply_list zn zit par ax ay data);
  print_string "end\n"

let () = run_main ["kick", do_kick; "coeffs", do_coeffs; "rot", do_rot]
