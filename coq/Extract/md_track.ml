let nextpos () = let x = nextq () in let y = nextq () in { px = x; py = y }

let next_table cnt =
  List.init cnt (fun _ -> let i = nexti () in let w = nextq () in (z_of_int i, w))

let print_pos tag ps =
  print_string tag;
  List.iter (fun p -> Printf.printf " %s %s" (tok_of_q p.px) (tok_of_q p.py)) ps;
  print_newline ()

(* track <id> <n> <np> <nops> ; np*(x y) ; ops *)
let do_track () =
  let id = next () in
  let n = nexti () in let np = nexti () in let nops = nexti () in
  let ps = List.init np (fun _ -> nextpos ()) in
  let ops = List.init nops (fun _ ->
    match next () with
    | "kick" -> let d = next () in let offs = nextqs n in LKick ((d = "x"), offs)
    | "ident" -> LIdent
    | "fpnone" -> LFPNone
    | "fp1" -> let ip = nexti () in let h = next_table (n * ip) in LFP1 (z_of_int ip, h)
    | "fp2" -> let ip = nexti () in let h = next_table (n * ip) in let d = nextqs (n * n) in
               LFP2 (z_of_int ip, h, d)
    | "fps" -> let e1 = nextq () in let yc = nextq () in let noise = nextqs np in LFPStoch (e1, yc, noise)
    | s -> failwith ("unknown op " ^ s)) in
  let zn = z_of_int n in
  let res = run_list zn ops ps in
  Printf.printf "case %s\n" id;
  List.iter (print_pos "pos") res;
  let last = match List.rev res with [] -> ps | l :: _ -> l in
  print_string "idx";
  List.iter (fun (d, (ix, iy)) -> Printf.printf " %s %s %s" (if d then "1" else "0") (hex_of_z ix) (hex_of_z iy))
    (lookup_list zn last);
  print_newline ();
  print_string "end\n"

(* fptab <id> <n> <dt> <fptype> <e1> <d> <yc> <pmin> *)
let do_fptab () =
  let id = next () in
  let n = nexti () in let dt = nexti () in let fptype = nexti () in
  let e1 = nextq () in let d = nextq () in let yc = nextq () in let pmin = nextq () in
  Printf.printf "case %s\ntab" id;
  List.iter (fun (i, w) -> Printf.printf " %s %s" (hex_of_z i) (tok_of_q w))
    (fp_table_list (z_of_int n) (z_of_int dt) (z_of_int fptype) e1 d yc pmin);
  print_newline ();
  print_string "end\n"

(* blob <id> <x|y> <n> <it> <X> <Y> offs(n) *)
let do_blob () =
  let id = next () in
  let dir = next () in
  let n = nexti () in let it = nexti () in
  let p = nextpos () in
  let offs = nextqs n in
  let zn = z_of_int n and zit = z_of_int it in
  let data = blob_list zn p in
  let out = if dir = "x" then kick_x_list zn (z_of_int 1) zit offs data
            else kick_y_list zn (z_of_int 1) zit offs data in
  let (s, (sx, sy)) = blob_moments zn out in
  let p' = match run_list zn [LKick ((dir = "x"), offs)] [p] with [[q]] -> q | _ -> p in
  Printf.printf "case %s\n" id;
  print_pos "part" [p'];
  print_qs "mom" [s; sx; sy];
  print_qs "out" out;
  print_string "end\n"

let () = run_main ["track", do_track; "fptab", do_fptab; "blob", do_blob]
