let nextpos () = let x = nextq () in let y = nextq () in { px = x; py = y }

let next_table cnt =
  List.init cnt (fun _ -> let i = nexti () in let w = nextq () in (z_of_int i, w))

let print_pos tag ps =
  print_string tag;
  List.iter (fun p -> Printf.printf " %s %s" (tok_of_q p.px) (tok_of_q p.py)) ps;
  print_newline ()

let tok_of_x v = match v with
  | XF q -> tok_of_q q | XPInf -> "inf" | XMInf -> "-inf" | XNaN -> "nan"

let print_xpos tag ps =
  print_string tag;
  List.iter (fun (x, y) -> Printf.printf " %s %s" (tok_of_x x) (tok_of_x y)) ps;
  print_newline ()

(* track <id> <n> <np> <nops> ; np*(x y) ; ops
   ops: kick <x|y> offs(n) | ident | fpnone | fp1 ip tab | fp2 ip tab data | fps e1 yc noise(np)     (hand-written model only)
        gfp <fptrack> <ip> <e1> <zb0> <zb1> <hasdata> tab(n*ip) [data(n*n)] noise(np)                (both models)
   prints "pos" (hand-written model) and "gpos" (the model assembled from Gen_Track.v) per op *)
let do_track () =
  let id = next () in
  let n = nexti () in let np = nexti () in let nops = nexti () in
  let ps = List.init np (fun _ -> nextpos ()) in
  let ops = List.init nops (fun _ ->
    match next () with
    | "kick" -> let d = next () in let offs = nextqs n in (LKick ((d = "x"), offs), GLKick ((d = "x"), offs))
    | "ident" -> (LIdent, GLIdent)
    | "fpnone" -> (LFPNone, GLFP (z_of_int 0, z_of_int 0, [], [], q_of_tok "0", q_of_tok "0", q_of_tok "0", []))
    | "fp1" -> let ip = nexti () in let h = next_table (n * ip) in
               (LFP1 (z_of_int ip, h), GLFP (z_of_int 1, z_of_int ip, h, [], q_of_tok "0", q_of_tok "0", q_of_tok "0", []))
    | "fp2" -> let ip = nexti () in let h = next_table (n * ip) in let d = nextqs (n * n) in
               (LFP2 (z_of_int ip, h, d), GLFP (z_of_int 2, z_of_int ip, h, d, q_of_tok "0", q_of_tok "0", q_of_tok "0", []))
    | "fps" -> let e1 = nextq () in let yc = nextq () in let noise = nextqs np in
               (LFPStoch (e1, yc, noise), GLFP (z_of_int 3, z_of_int 0, [], [], e1, q_of_tok "0", yc, noise))
    | "gfp" ->
        let ft = nexti () in let ip = nexti () in
        let e1 = nextq () in let zb0 = nextq () in let zb1 = nextq () in
        let hasdata = nexti () in
        let h = next_table (n * ip) in
        let d = if hasdata = 1 then nextqs (n * n) else [] in
        let noise = nextqs np in
        let g = GLFP (z_of_int ft, z_of_int ip, h, d, e1, zb0, zb1, noise) in
        ((match ft with
          | 1 -> LFP1 (z_of_int ip, h)
          | 2 -> LFP2 (z_of_int ip, h, d)
          | 3 -> LFPStoch (e1, zb1, noise)
          | _ -> LFPNone), g)
    | s -> failwith ("unknown op " ^ s)) in
  let zn = z_of_int n in
  let res = run_list zn (List.map fst ops) ps in
  let gres = gen_run_list zn (List.map snd ops) ps in
  Printf.printf "case %s\n" id;
  List.iter (print_pos "pos") res;
  List.iter (print_xpos "gpos") gres;
  let last = match List.rev res with [] -> ps | l :: _ -> l in
  print_string "idx";
  List.iter (fun (d, (ix, iy)) -> Printf.printf " %s %s %s" (if d then "1" else "0") (hex_of_z ix) (hex_of_z iy))
    (lookup_list zn last);
  print_newline ();
  print_string "end\n"

(* dyntrack <id> <n> <tan> <syncphase> <bl2phase> <xcenter> <delta0> <steps> <np> offs0(n) queue(steps*(phase ampl))
            then per step np*(x y): the particles before `rfm->applyToAll`
   one step = DynamicRFKickMap::apply as generated (statement order of the source) followed by KickMap::applyTo
   reading `_offset`; offsets and queue are threaded by the model.  prints per step "offs" and "pos" *)
let do_dyntrack () =
  let id = next () in
  let n = nexti () in
  let tanq = nextq () in let sync = nextq () in let bl2 = nextq () in let xc = nextq () in let d0 = nextq () in
  let steps = nexti () in let np = nexti () in
  let offs0 = nextqs n in
  let queue = List.init steps (fun _ -> let a = nextq () in let b = nextq () in (a, b)) in
  let zn = z_of_int n in
  let m = linear_rf tanq sync bl2 xc d0 zn in
  Printf.printf "case %s\n" id;
  let o = ref offs0 and q = ref queue in
  for _k = 1 to steps do
    let ps = List.init np (fun _ -> nextpos ()) in
    let ((o', q'), ps') = dyn_step_list m zn !o !q ps in
    o := o'; q := q';
    print_qs "offs" o';
    print_pos "pos" ps'
  done;
  print_string "end\n"

(* load <id> <n> <amin0> <adelta0> <amin1> <adelta1> <np> np*(q p) : main()'s loading through the generated PhaseSpace::x / y
   append <id> <n> <np> ax0(n) ax1(n) np*(x y)                     : HDF5File::appendTracks through the generated pieces *)
let do_load () =
  let id = next () in
  let n = nexti () in
  let a0 = nextq () in let d0 = nextq () in let a1 = nextq () in let d1 = nextq () in
  let np = nexti () in
  let cs = List.init np (fun _ -> let a = nextq () in let b = nextq () in (a, b)) in
  Printf.printf "case %s\n" id;
  print_xpos "pos" (gen_load_list (z_of_int n) a0 d0 a1 d1 cs);
  print_string "end\n"

let do_append () =
  let id = next () in
  let n = nexti () in let np = nexti () in
  let ax0 = nextqs n in let ax1 = nextqs n in
  let ps = List.init np (fun _ -> nextpos ()) in
  Printf.printf "case %s\nrec" id;
  List.iter (fun (a, b) -> Printf.printf " %s %s" (tok_of_q a) (tok_of_q b)) (gen_append_list ax0 ax1 ps);
  print_newline ();
  print_string "end\n"

(* fptab <id> <n> <dt> <fptype> <e1> <d> <yc> <pmin> *)
let do_fptab () =
  let id = next () in
  let n = nexti () in let dt = nexti () in let fptype = nexti () in
  let e1 = nextq () in let d = nextq () in let yc = nextq () in let pmin = nextq () in
  Printf.printf "case %s\ntab" id;
  List.iter (fun (i, w) -> Printf.printf " %s %s" (hex_of_z i) (tok_of_q w))
    (fp_table_list (z_of_int n) (z_of_int dt) (z_of_int fptype) e1 d yc pmin);
  print_newline ();
  print_string "end\n"

(* blob <id> <x|y> <n> <it> <X> <Y> offs(n) *)
let do_blob () =
  let id = next () in
  let dir = next () in
  let n = nexti () in let it = nexti () in
  let p = nextpos () in
  let offs = nextqs n in
  let zn = z_of_int n and zit = z_of_int it in
  let data = blob_list zn p in
  let out = if dir = "x" then kick_x_list zn (z_of_int 1) zit offs data
            else kick_y_list zn (z_of_int 1) zit offs data in
  let (s, (sx, sy)) = blob_moments zn out in
  let p' = match run_list zn [LKick ((dir = "x"), offs)] [p] with [[q]] -> q | _ -> p in
  Printf.printf "case %s\n" id;
  print_pos "part" [p'];
  print_qs "mom" [s; sx; sy];
  print_qs "out" out;
  print_string "end\n"

let () = run_main ["track", do_track; "fptab", do_fptab; "blob", do_blob; "dyntrack", do_dyntrack;
                    "load", do_load; "append", do_append]
