(* fp <id> <dt> <v> <n> <xs> <nb> <steps> ; yc e1 delta ; axis (n) ; data (nb*xs*n)
   prints: switch lo_end hi_start ; table (n*dt entries idx w) ; out (nb*xs*n) after <steps> applications *)
let do_fp () =
  let id = next () in
  let dt = nexti () in let v = nexti () in let n = nexti () in let xs = nexti () in
  let nb = nexti () in let steps = nexti () in
  let yc = nextq () in let e1 = nextq () in let delta = nextq () in
  let axis = nextqs n in
  let data = nextqs (nb * xs * n) in
  let z = z_of_int in
  Printf.printf "case %s\n" id;
  let (le, hs) = fp_switch yc in
  Printf.printf "switch %s %s\n" (hex_of_z le) (hex_of_z hs);
  print_string "table";
  List.iter (fun (i, w) -> Printf.printf " %s %s" (hex_of_z i) (tok_of_q w))
    (fp_table_list (z dt) (z v) (z n) yc e1 delta axis);
  print_newline ();
  let rec nat_of k = if k <= 0 then O else S (nat_of (k - 1)) in
  print_qs "out" (fp_iter_list (nat_of steps) (z dt) (z v) (z n) (z xs) (z nb) yc e1 delta axis data);
  print_string "end\n"

(* mom <id> <v> <steps> <every> ; a t e1 delta ; muu muv mvv m0
   iterates the exact second-moment recurrence of one full step (RF kick, drift, 3-point FP);
   prints one line `m k muu muv mvv m0 J` every <every> steps *)
let do_mom () =
  let id = next () in
  let v = nexti () in let steps = nexti () in let every = nexti () in
  let a = nextq () in let t = nextq () in let e1 = nextq () in let delta = nextq () in
  let m = ref (nextqs 4) in
  let z = z_of_int in
  Printf.printf "case %s\n" id;
  let pr k = Printf.printf "m %d" k; List.iter (fun q -> print_char ' '; print_string (tok_of_q q)) !m;
    Printf.printf " %s\n" (tok_of_q (smq_J a t !m)) in
  pr 0;
  for k = 1 to steps do
    m := smq_step (z v) a t e1 delta !m;
    if k mod every = 0 || k = steps then pr k
  done;
  print_string "end\n"

(* fixpt <id> <v> <k> ; a t e1 delta ; k triples x y z
   prints the proved closed-form fixed point of the recurrence per unit charge (Model/Moments2Fix.v: smq_fix),
   the proved contraction factor rho (smq_rho) and N(x,y,z) (smq_N) for each triple *)
let do_fixpt () =
  let id = next () in
  let v = nexti () in let k = nexti () in
  let a = nextq () in let t = nextq () in let e1 = nextq () in let delta = nextq () in
  let z = z_of_int in
  Printf.printf "case %s\n" id;
  print_qs "fix" (smq_fix (z v) a t e1 delta);
  Printf.printf "rho %s\n" (tok_of_q (smq_rho a t e1));
  for i = 1 to k do
    let m = nextqs 3 in
    Printf.printf "N %d %s\n" i (tok_of_q (smq_N a t e1 m))
  done;
  print_string "end\n"

let () = run_main ["fp", do_fp; "mom", do_mom; "fixpt", do_fixpt]
