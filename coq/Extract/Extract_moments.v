(** Extraction of the executable PhaseSpace-moments model (ExtrOcamlBasic only; numbers stay
    Coq's positive/Z/Q). *)
From Coq Require Import Extraction ExtrOcamlBasic.
From Coq Require Import List ZArith QArith Qcanon.
From Inovesa Require Import Base.FieldKit Base.Sums Model.Moments.

Extraction Language OCaml.

Extraction "model_moments.ml" Q2Qc this moments_case.
