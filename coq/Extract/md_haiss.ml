let tok_of_map m = match m with MWake -> "W" | MRF -> "R" | MDrift -> "D" | MFP -> "F"

(* step <id> <n> <it> ; wp (n) ; t ; xc ; dro (n) ; data (n*n)      (single bunch) *)
let do_step () =
  let id = next () in
  let n = nexti () in let it = nexti () in
  let wp = nextqs n in
  let t = nextq () in let xc = nextq () in
  let dro = nextqs n in
  let data = nextqs (n * n) in
  let zn = z_of_int n and zit = z_of_int it and one = z_of_int 1 in
  Printf.printf "case %s\n" id;
  print_string "order"; List.iter (fun m -> print_char ' '; print_string (tok_of_map m)) step_order; print_newline ();
  let wo = wake_offsets_list one zn wp in
  let ro = rf_offsets_list one zn t xc in
  print_qs "woff" wo;
  print_qs "rfoff" ro;
  print_string "wtab"; List.iter (fun (i, _) -> Printf.printf " %s" (hex_of_z i)) (table_list zn zit wo); print_newline ();
  print_string "rtab"; List.iter (fun (i, _) -> Printf.printf " %s" (hex_of_z i)) (table_list zn zit ro); print_newline ();
  print_qs "pred" (predicted_list zn one wp t xc);
  print_string "mom"; List.iter (fun (a, b) -> Printf.printf " %s %s" (tok_of_q a) (tok_of_q b)) (moments_list zn one data); print_newline ();
  List.iter2 (fun m g -> print_qs ("g" ^ tok_of_map m) g) step_order (step_grids zn one zit wp t xc dro data);
  print_string "end\n"

(* scaling <id> Ib dt c sigma_z delta_E sigma_delta E0 nmax  -> the generated expression, exactly *)
let do_scaling () =
  let id = next () in
  let a = nextqs 8 in
  Printf.printf "case %s\n" id;
  (match a with
   | [ib; dt; c; sz; de; sd; e0; nm] -> print_qs "scaling" [wake_scalingQ ib dt c sz de sd e0 nm]
   | _ -> ());
  print_string "end\n"

let () = run_main ["step", do_step; "scaling", do_scaling]
