let tok_of_map m = match m with MWake -> "W" | MRF -> "R" | MDrift -> "D" | MFP -> "F"

(* step <id> <n> <nb> <it> ; wp (nb*n) ; t ; xc ; dro (n) ; data (nb*n*n)      (nb bunches, bunch-major) *)
let do_step () =
  let id = next () in
  let n = nexti () in let nb = nexti () in let it = nexti () in
  let wp = nextqs (nb * n) in
  let t = nextq () in let xc = nextq () in
  let dro = nextqs n in
  let data = nextqs (nb * n * n) in
  let zn = z_of_int n and zit = z_of_int it and znb = z_of_int nb in
  Printf.printf "case %s\n" id;
  print_string "order"; List.iter (fun m -> print_char ' '; print_string (tok_of_map m)) step_order; print_newline ();
  print_qs "woff" (wake_offsets_list znb zn zit wp);
  print_qs "rfoff" (rf_offsets_list znb zn t xc);
  print_string "wtab"; List.iter (fun i -> Printf.printf " %s" (hex_of_z i)) (wake_table_idx_list znb zn zit wp); print_newline ();
  print_string "rtab"; List.iter (fun i -> Printf.printf " %s" (hex_of_z i)) (rf_table_idx_list znb zn zit t xc); print_newline ();
  print_qs "pred" (predicted_list zn znb wp t xc);
  print_string "mom"; List.iter (fun (a, b) -> Printf.printf " %s %s" (tok_of_q a) (tok_of_q b)) (moments_list zn znb data); print_newline ();
  List.iter2 (fun m g -> print_qs ("g" ^ tok_of_map m) g) step_order (step_grids zn znb zit wp t xc dro data);
  print_string "end\n"

(* scaling <id> Ib dt c sigma_z delta_E sigma_delta E0 nmax  -> the generated expression, exactly *)
let do_scaling () =
  let id = next () in
  let a = nextqs 8 in
  Printf.printf "case %s\n" id;
  (match a with
   | [ib; dt; c; sz; de; sd; e0; nm] -> print_qs "scaling" [wake_scalingQ ib dt c sz de sd e0 nm]
   | _ -> ());
  print_string "end\n"

let () = run_main ["step", do_step; "scaling", do_scaling]
