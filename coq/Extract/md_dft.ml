(* DFT family driver: wake / csr / pow2 cases (parsing and printing only) *)
let nextz () = z_of_int (nexti ())

(* wake <id> <N> <n> <s> <nb> ; buckets ; Ib dt c sz dE sd E0 ; tc ts (N each) ; zre zim (N each) ;
   profiles (nb*n) ; <ncells> cells...   (extra cells of the padded wake to print) *)
let do_wake () =
  let id = next () in
  let nn = nexti () in let n = nexti () in let s = nexti () in let nb = nexti () in
  let bks = List.init nb (fun _ -> nextz ()) in
  let ph = Array.of_list (nextqs 7) in
  let tc = nextqs nn in let ts = nextqs nn in
  let zre = nextqs nn in let zim = nextqs nn in
  let profs = List.init nb (fun _ -> nextqs n) in
  let nc = nexti () in
  let cells = List.init nc (fun _ -> nextz ()) in
  let zN = z_of_int nn and zn = z_of_int n and zs = z_of_int s in
  Printf.printf "case %s\n" id;
  let scale = scalingQ zN ph.(0) ph.(1) ph.(2) ph.(3) ph.(4) ph.(5) ph.(6) in
  print_qs "scaling" [scale];
  let p = paddedQ zN zn zs bks profs in
  print_qs "padded" p;
  let l = halfspecQ zN tc ts zre zim p in
  print_qs "wakepad" (c2rcellsQ zN tc ts l cells);
  (* wake_list = map (wake_cells .. L scale) (readback_cells ..): composed here from the same
     extracted functions so that the half spectrum L is computed once *)
  let rb = readbackcellsQ zn zs bks in
  print_string "readback"; List.iter (fun c -> Printf.printf " %s" (hex_of_z c)) (List.concat rb); print_newline ();
  print_qs "wake" (List.concat (List.map (wakecellsQ zN tc ts l scale) rb));
  print_string "end\n"

(* csr <id> <N> <n> <cut:0|1> ; dq2 df ; tc ts ; zre zim ; [g (N)] ; profile (n) *)
let do_csr () =
  let id = next () in
  let nn = nexti () in let n = nexti () in let cut = nexti () in
  let dq2 = nextq () in let df = nextq () in
  let tc = nextqs nn in let ts = nextqs nn in
  let zre = nextqs nn in let zim = nextqs nn in
  let g = if cut = 1 then Some (nextqs nn) else None in
  let prof = nextqs n in
  Printf.printf "case %s\n" id;
  let sp = csrspecQ (z_of_int nn) (z_of_int n) tc ts zre zim dq2 g prof in
  print_qs "spectrum" sp;
  print_qs "power" [csrpowerQ df sp];
  print_string "end\n"

(* pow2 <id> <count> v(hex)... *)
let do_pow2 () =
  let id = next () in
  let cnt = nexti () in
  Printf.printf "case %s\nout" id;
  for _ = 1 to cnt do
    Printf.printf " %s" (hex_of_z (upper_power_of_two (z_of_hex (next ()))))
  done;
  print_string "\nend\n"

let () = run_main ["wake", do_wake; "csr", do_csr; "pow2", do_pow2]
