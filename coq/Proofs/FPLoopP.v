(** * The loop nest of FokkerPlanckMap::apply (Gen/Gen_FPLoop.v, Model/FPLoop.v) writes EVERY cell of EVERY column of
    EVERY bunch with the stencil sum over the input column, and nothing else.

    [fp_apply_loops] runs the nest as the source has it now (ranges and index expressions generated on every run; the
    translator refuses any statement that is not part of the idiom, in particular conditionals, [continue], [break]
    and calls).  The theorems: after the nest the output array holds [fp_apply n xs ip H D i] - the function all
    Fokker-Planck theorems of C01 and C04 are about and the one the extracted model ([fp_apply_list]) maps over the
    grid - at every index [0 <= i < nb*xs*n], whatever it held before, and is untouched elsewhere.  In particular the
    output column (b, x) is [fp_col_out] of the input column (b, x): it does not depend on any other data (no cached
    profile, no other column), and no column is skipped.  A changed loop range, a skipped column, a stride or index
    slip breaks these proofs. *)
From Coq Require Import List ZArith Lia.
From Inovesa Require Import Base.FieldKit Gen.Gen_FPLoop Gen.Gen_FPStencil Model.FokkerPlanck Model.FPLoop.
Import ListNotations.
Local Open Scope Z_scope.

(** ** loops *)
Lemma zfor_nat {St : Type} (P : Z -> St -> Prop) lo (body : Z -> St -> St) :
  forall (m : nat) s,
    P lo s ->
    (forall k t, lo <= k < lo + Z.of_nat m -> P k t -> P (k + 1) (body k t)) ->
    P (lo + Z.of_nat m) (fold_left (fun t k => body k t) (map (fun k => lo + k) (map Z.of_nat (seq 0 m))) s).
Proof.
  induction m as [|m IH]; intros s H0 Hstep.
  - cbn. replace (lo + 0) with lo by lia. exact H0.
  - rewrite seq_S, !map_app, fold_left_app. cbn [map fold_left seq Nat.add].
    replace (lo + Z.of_nat (S m)) with (lo + Z.of_nat m + 1) by lia.
    apply Hstep; [lia|]. apply IH; [exact H0|]. intros k t Hk. apply Hstep. lia.
Qed.

(** loop invariant rule: [P lo] before, [P k -> P (k+1)] across iteration [k], hence [P hi] after *)
Lemma zfor_inv {St : Type} (P : Z -> St -> Prop) lo hi (body : Z -> St -> St) s :
  lo <= hi -> P lo s ->
  (forall k t, lo <= k < hi -> P k t -> P (k + 1) (body k t)) ->
  P hi (zfor lo hi body s).
Proof.
  intros Hle H0 Hstep. unfold zfor, zrange.
  replace hi with (lo + Z.of_nat (Z.to_nat (hi - lo))) at 1 by lia.
  apply zfor_nat; [exact H0|]. intros k t Hk. apply Hstep. lia.
Qed.

Section FP.
  Variable K : Fld.
  Add Field KFfpl : (@Fth K).
  Local Open Scope F_scope.

  (** the accumulation [value += term j] from [value = 0] is the sum of the terms *)
  Lemma fold_add_fsum (f : Z -> K) (l : list Z) (a : K) :
    fold_left (fun v j => v + f j) l a = a + fsum (map f l).
  Proof.
    revert a. induction l as [|j l IH]; intros a; cbn [fold_left map fsum].
    - ring.
    - rewrite IH. ring.
  Qed.

  (** the generated ranges and index expressions in canonical form ([ring] / [lia] absorb re-associated products, hoisted
      sub-expressions and renamed locals of the source) *)
  Lemma fpl_ranges nb xs n ip b x y :
    (fpl_b_lo nb xs n ip = 0 /\ fpl_b_hi nb xs n ip = nb /\ fpl_x_lo nb xs n ip b = 0 /\ fpl_x_hi nb xs n ip b = xs /\
     fpl_y_lo nb xs n ip b x = 0 /\ fpl_y_hi nb xs n ip b x = n /\ fpl_j_lo nb xs n ip b x y = 0 /\ fpl_j_hi nb xs n ip b x y = ip)%Z.
  Proof.
    unfold fpl_b_lo, fpl_b_hi, fpl_x_lo, fpl_x_hi, fpl_y_lo, fpl_y_hi, fpl_j_lo, fpl_j_hi. repeat split; ring.
  Qed.
  Lemma fpl_hinfo_eq nb xs n ip b x y j : (fpl_hinfo nb xs n ip b x y j = y * ip + j)%Z.
  Proof. unfold fpl_hinfo. ring. Qed.
  Lemma fpl_read_eq nb xs n ip b x y j h : (fpl_read nb xs n ip b x y j h = b * xs * n + x * n + h)%Z.
  Proof. unfold fpl_read. ring. Qed.
  Lemma fpl_write_eq nb xs n ip b x y : (fpl_write nb xs n ip b x y = b * xs * n + x * n + y)%Z.
  Proof. unfold fpl_write. ring. Qed.

  (** the accumulator of cell (b, x, y): the generated ranges of the j loop are [0, ip), its terms read the input
      column (b, x) at the table's source rows: it is [fp_apply] at the flat index the cell is written to *)
  Lemma fpl_value_is_fp_apply nb xs n ip H D b x y :
    (0 < n)%Z -> (0 < xs)%Z -> (0 <= b)%Z -> (0 <= x < xs)%Z -> (0 <= y < n)%Z ->
    fpl_value (K:=K) nb xs n ip H D b x y = fp_apply (K:=K) n xs ip H D (fpl_write nb xs n ip b x y).
  Proof.
    intros Hn Hxs Hb Hx Hy.
    destruct (fpl_ranges nb xs n ip b x y) as (_ & _ & _ & _ & _ & _ & Ejl & Ejh).
    unfold fpl_value, zfor. rewrite Ejl, Ejh, fpl_write_eq.
    unfold fp_apply, fp_col_out.
    set (i := (b * xs * n + x * n + y)%Z).
    assert (Ei : i = ((b * xs + x) * n + y)%Z) by (unfold i; ring).
    assert (E1 : (i / n = b * xs + x)%Z).
    { rewrite Ei. rewrite Z.add_comm, Z.div_add by lia. rewrite Z.div_small by lia. lia. }
    assert (E2 : (i mod n = y)%Z).
    { rewrite Ei. rewrite Z.add_comm, Z.mod_add by lia. apply Z.mod_small; lia. }
    assert (E3 : (i / (xs * n) = b)%Z).
    { replace (xs * n)%Z with (n * xs)%Z by ring. rewrite <- Z.div_div by lia. rewrite E1.
      rewrite Z.add_comm, Z.div_add by lia. rewrite Z.div_small by lia. lia. }
    assert (E4 : ((i / n) mod xs = x)%Z).
    { rewrite E1. rewrite Z.add_comm, Z.mod_add by lia. apply Z.mod_small; lia. }
    cbv zeta. rewrite E2, E3, E4.
    replace (ip - 0)%Z with ip by lia.
    rewrite map_ext with (g := fun k : Z => k) by (intros; lia). rewrite map_id.
    change (fold_left (fun (t : K) (k : Z) => t + D (fpl_read nb xs n ip b x y k (fst (H (fpl_hinfo nb xs n ip b x y k)))) *
                                              snd (H (fpl_hinfo nb xs n ip b x y k))) (zrange ip) 0 =
            fsum (map (fun j : Z => D (b * xs * n + x * n + fst (H (y * ip + j)))%Z * snd (H (y * ip + j)%Z)) (zrange ip))).
    rewrite (fold_add_fsum (fun k => D (fpl_read nb xs n ip b x y k (fst (H (fpl_hinfo nb xs n ip b x y k)))) *
                                     snd (H (fpl_hinfo nb xs n ip b x y k)))).
    rewrite (map_ext _ (fun j : Z => D (b * xs * n + x * n + fst (H (y * ip + j)))%Z * snd (H (y * ip + j)%Z)))
      by (intros j; rewrite fpl_hinfo_eq, fpl_read_eq; reflexivity).
    ring.
  Qed.

  (** the flat index written by iteration (b, x, y) and the state of the sweep: the nest walks the output array in
      index order *)
  Definition swept (F : Z -> K) (out0 : Z -> K) (pos : Z) (out : Z -> K) : Prop :=
    forall i, out i = if ((0 <=? i) && (i <? pos))%bool then F i else out0 i.

  Lemma swept_step F out0 pos out v :
    (0 <= pos)%Z -> swept F out0 pos out -> v = F pos -> swept F out0 (pos + 1) (upd out pos v).
  Proof.
    intros Hp Hs Hv i. unfold upd. destruct (Z.eqb_spec i pos) as [->|Hne].
    - rewrite Hv. replace ((0 <=? pos) && (pos <? pos + 1))%bool with true; [reflexivity|].
      symmetry. apply andb_true_intro. split; [apply Z.leb_le | apply Z.ltb_lt]; lia.
    - rewrite Hs. replace (i <? pos + 1) with (i <? pos); [reflexivity|].
      destruct (Z.ltb_spec i pos), (Z.ltb_spec i (pos + 1)); try reflexivity; lia.
  Qed.

  Theorem fp_apply_loops_sweep nb xs n ip H D out0 :
    (0 < n)%Z -> (0 < xs)%Z -> (0 <= nb)%Z ->
    swept (fp_apply (K:=K) n xs ip H D) out0 (nb * xs * n) (fp_apply_loops (K:=K) nb xs n ip H D out0).
  Proof.
    intros Hn Hxs Hnb. set (F := fp_apply (K:=K) n xs ip H D).
    unfold fp_apply_loops.
    (* bunch loop: after b bunches the first b*xs*n cells are done *)
    pose (Pb := fun (b : Z) (out : Z -> K) => swept F out0 (b * xs * n) out).
    assert (Gb : Pb nb (zfor (fpl_b_lo nb xs n ip) (fpl_b_hi nb xs n ip) (fun b =>
      zfor (fpl_x_lo nb xs n ip b) (fpl_x_hi nb xs n ip b) (fun x =>
        zfor (fpl_y_lo nb xs n ip b x) (fpl_y_hi nb xs n ip b x) (fun y out =>
          upd out (fpl_write nb xs n ip b x y) (fpl_value (K:=K) nb xs n ip H D b x y)))) out0)).
    { destruct (fpl_ranges nb xs n ip 0 0 0) as (Ebl & Ebh & _).
      rewrite <- Ebh at 1. apply zfor_inv.
      - rewrite Ebl, Ebh. lia.
      - unfold Pb. rewrite Ebl. intros i. replace (0 * xs * n)%Z with 0%Z by ring.
        replace ((0 <=? i) && (i <? 0))%bool with false; [reflexivity|].
        destruct (Z.leb_spec 0 i), (Z.ltb_spec i 0); try reflexivity; lia.
      - intros b out Hb Hout. rewrite Ebl, Ebh in Hb. unfold Pb in *.
        destruct (fpl_ranges nb xs n ip b 0 0) as (_ & _ & Exl & Exh & _).
        (* column loop *)
        pose (Px := fun (x : Z) (o : Z -> K) => swept F out0 (b * xs * n + x * n) o).
        assert (Gx : Px xs (zfor (fpl_x_lo nb xs n ip b) (fpl_x_hi nb xs n ip b) (fun x =>
          zfor (fpl_y_lo nb xs n ip b x) (fpl_y_hi nb xs n ip b x) (fun y o =>
            upd o (fpl_write nb xs n ip b x y) (fpl_value (K:=K) nb xs n ip H D b x y))) out)).
        { rewrite <- Exh at 1. apply zfor_inv.
          - rewrite Exl, Exh. lia.
          - unfold Px. rewrite Exl. replace (b * xs * n + 0 * n)%Z with (b * xs * n)%Z by ring. exact Hout.
          - intros x o Hx Ho. rewrite Exl, Exh in Hx. unfold Px in *.
            destruct (fpl_ranges nb xs n ip b x 0) as (_ & _ & _ & _ & Eyl & Eyh & _).
            (* row loop *)
            pose (Py := fun (y : Z) (q : Z -> K) => swept F out0 (b * xs * n + x * n + y) q).
            assert (Gy : Py n (zfor (fpl_y_lo nb xs n ip b x) (fpl_y_hi nb xs n ip b x) (fun y q =>
              upd q (fpl_write nb xs n ip b x y) (fpl_value (K:=K) nb xs n ip H D b x y)) o)).
            { rewrite <- Eyh at 1. apply zfor_inv.
              - rewrite Eyl, Eyh. lia.
              - unfold Py. rewrite Eyl. replace (b * xs * n + x * n + 0)%Z with (b * xs * n + x * n)%Z by ring. exact Ho.
              - intros y q Hy Hq. rewrite Eyl, Eyh in Hy. unfold Py in *.
                replace (b * xs * n + x * n + (y + 1))%Z with (b * xs * n + x * n + y + 1)%Z by ring.
                assert (Ew : fpl_write nb xs n ip b x y = (b * xs * n + x * n + y)%Z) by apply fpl_write_eq.
                rewrite Ew. apply swept_step; [nia | exact Hq |].
                rewrite <- Ew. unfold F. apply fpl_value_is_fp_apply; lia. }
            unfold Py in Gy. replace (b * xs * n + (x + 1) * n)%Z with (b * xs * n + x * n + n)%Z by ring. exact Gy. }
        unfold Px in Gx. replace ((b + 1) * xs * n)%Z with (b * xs * n + xs * n)%Z by ring. exact Gx. }
    exact Gb.
  Qed.

  (** every cell of the grid holds the stencil sum, whatever the output array held before ... *)
  Theorem fp_apply_loops_is_fp_apply nb xs n ip H D out0 i :
    (0 < n)%Z -> (0 < xs)%Z -> (0 <= nb)%Z -> (0 <= i < nb * xs * n)%Z ->
    fp_apply_loops (K:=K) nb xs n ip H D out0 i = fp_apply (K:=K) n xs ip H D i.
  Proof.
    intros Hn Hxs Hnb Hi. rewrite (fp_apply_loops_sweep nb xs n ip H D out0 Hn Hxs Hnb i).
    replace ((0 <=? i) && (i <? nb * xs * n))%bool with true; [reflexivity|].
    symmetry. apply andb_true_intro. split; [apply Z.leb_le | apply Z.ltb_lt]; lia.
  Qed.

  (** ... and nothing outside the grid is written *)
  Theorem fp_apply_loops_elsewhere nb xs n ip H D out0 i :
    (0 < n)%Z -> (0 < xs)%Z -> (0 <= nb)%Z -> ~ (0 <= i < nb * xs * n)%Z ->
    fp_apply_loops (K:=K) nb xs n ip H D out0 i = out0 i.
  Proof.
    intros Hn Hxs Hnb Hi. rewrite (fp_apply_loops_sweep nb xs n ip H D out0 Hn Hxs Hnb i).
    replace ((0 <=? i) && (i <? nb * xs * n))%bool with false; [reflexivity|].
    destruct (Z.leb_spec 0 i), (Z.ltb_spec i (nb * xs * n)); try reflexivity; lia.
  Qed.

  (** EVERY COLUMN of EVERY BUNCH: output column (b, x) is the stencil applied to input column (b, x) - a function of
      that column and the table alone; no column is skipped, zero-filled or copied *)
  Theorem fp_apply_loops_every_column nb xs n ip H D out0 b x y :
    (0 < n)%Z -> (0 < xs)%Z -> (0 <= b < nb)%Z -> (0 <= x < xs)%Z -> (0 <= y < n)%Z ->
    fp_apply_loops (K:=K) nb xs n ip H D out0 (b * xs * n + x * n + y) =
    fp_col_out ip H (fun s => D (b * xs * n + x * n + s)%Z) y.
  Proof.
    intros Hn Hxs Hb Hx Hy.
    assert (Hr : (0 <= b * xs * n + x * n + y < nb * xs * n)%Z).
    { assert (A1 : (0 <= b * xs)%Z) by (apply Z.mul_nonneg_nonneg; lia).
      assert (A2 : (b * xs + x + 1 <= nb * xs)%Z) by (replace (nb * xs)%Z with (b * xs + (nb - b) * xs)%Z by ring; nia).
      replace (b * xs * n + x * n + y)%Z with ((b * xs + x) * n + y)%Z by ring.
      replace (nb * xs * n)%Z with ((nb * xs) * n)%Z by ring.
      assert (A3 : ((b * xs + x + 1) * n <= nb * xs * n)%Z) by (apply Z.mul_le_mono_nonneg_r; lia).
      assert (A4 : (0 <= (b * xs + x) * n)%Z) by (apply Z.mul_nonneg_nonneg; lia).
      replace ((b * xs + x + 1) * n)%Z with ((b * xs + x) * n + n)%Z in A3 by ring. lia. }
    rewrite fp_apply_loops_is_fp_apply by lia.
    unfold fp_apply.
    set (i := (b * xs * n + x * n + y)%Z).
    assert (Ei : i = ((b * xs + x) * n + y)%Z) by (unfold i; ring).
    assert (E1 : (i / n = b * xs + x)%Z).
    { rewrite Ei. rewrite Z.add_comm, Z.div_add by lia. rewrite Z.div_small by lia. lia. }
    assert (E2 : (i mod n = y)%Z).
    { rewrite Ei. rewrite Z.add_comm, Z.mod_add by lia. apply Z.mod_small; lia. }
    assert (E3 : (i / (xs * n) = b)%Z).
    { replace (xs * n)%Z with (n * xs)%Z by ring. rewrite <- Z.div_div by lia. rewrite E1.
      rewrite Z.add_comm, Z.div_add by lia. rewrite Z.div_small by lia. lia. }
    assert (E4 : ((i / n) mod xs = x)%Z).
    { rewrite E1. rewrite Z.add_comm, Z.mod_add by lia. apply Z.mod_small; lia. }
    cbv zeta. rewrite E2, E3, E4. reflexivity.
  Qed.

  (** two input grids that agree on column (b, x) give the same output column (b, x): the step has no other input *)
  Theorem fp_apply_loops_column_local nb xs n ip H D D' out0 out0' b x y :
    (0 < n)%Z -> (0 < xs)%Z -> (0 <= b < nb)%Z -> (0 <= x < xs)%Z -> (0 <= y < n)%Z ->
    (forall s, D (b * xs * n + x * n + s)%Z = D' (b * xs * n + x * n + s)%Z) ->
    fp_apply_loops (K:=K) nb xs n ip H D out0 (b * xs * n + x * n + y) =
    fp_apply_loops (K:=K) nb xs n ip H D' out0' (b * xs * n + x * n + y).
  Proof.
    intros Hn Hxs Hb Hx Hy Hcol. rewrite !fp_apply_loops_every_column by assumption.
    unfold fp_col_out. apply (f_equal (@fsum K)). apply map_ext. intros j. cbv zeta. rewrite Hcol. reflexivity.
  Qed.
End FP.

(** ** the executable model the correspondence runs ([fp_apply_list], extracted) is the loop nest *)
Theorem fp_apply_list_is_loops dt v n xs nb (yc e1 delta : Qcanon.Qc) (axis data : list Qcanon.Qc) (out0 : Z -> Qcanon.Qc) :
  0 < n -> 0 < xs -> 0 <= nb ->
  fp_apply_list dt v n xs nb yc e1 delta axis data =
  map (fp_apply_loops (K:=QcF) nb xs n dt (hget (fp_table_list dt v n yc e1 delta axis)) (lget data) out0)
      (zrange (nb * xs * n)).
Proof.
  intros Hn Hxs Hnb. unfold fp_apply_list. apply map_ext_in. intros i Hi.
  unfold zrange in Hi. apply in_map_iff in Hi. destruct Hi as (k & <- & Hk). apply in_seq in Hk.
  symmetry. apply fp_apply_loops_is_fp_apply; lia.
Qed.
