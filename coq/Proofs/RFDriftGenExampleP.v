(** * A concrete instance of every hypothesis of [centroid_step_generated] (non-vacuity): the 8 x 8 grid, one bunch,
      linear interpolation of Proofs/RFExampleP.v, with the offsets taken from the GENERATED constructors:
      axes Ruler(8, -7/2, 7/2) (generated zero bin 7/2, spacing 1), main()'s angle two_pi/StepsPerTs with
      two_pi := 8, StepsPerTs := 32 (angle 1/4, dyadic so that the float sum n/2 + offset is exact),
      alpha1 = alpha2 = 0, tan := the constant 1/4. *)
From Coq Require Import List ZArith QArith Qcanon Lia Bool String.
From Inovesa Require Import Base.FieldKit Base.Sums Base.Float32 Gen.Gen_Coeffs Model.Kick Model.RF
  Proofs.WeightsP Proofs.KickP Proofs.KickGridP Proofs.RFP Proofs.RFGridP Proofs.RFExampleP
  Model.RFDriftKit Gen.Gen_RFDrift Gen.Gen_Ruler Model.RFDriftGen Model.ScalingOps Gen.Gen_Scaling Proofs.RFDriftGenP.
Import ListNotations.
Local Open Scope Z_scope.

Definition exg_L (l : leaf) : Qc :=
  match l with
  | O_getStepsPerTsync => Q2Qc 32 | C_two_pi => Q2Qc 8 | O_getStepsPerTrev => 0%Qc
  | O_getAlpha1 => 0%Qc | O_getAlpha2 => 0%Qc | _ => 1%Qc
  end.
Definition exg_B (b : bleaf) : bool := false.
Definition exg_tan (_ : Qc) : Qc := ex_t.
Definition exg_id (q : Qc) : Qc := q.
Definition exg_sc (_ : runit) : Qc := 1%Qc.
Definition exg_A : axfacts QcF := gen_axis (K:=QcF) 8 (Q2Qc (-7 # 2)) (Q2Qc (7 # 2)) exg_sc.
Definition exg_orf : Z -> Qc :=
  rs_built (gen_rfk_lin_ctor (K:=QcF) exg_tan exg_id exg_id 1 8 8 exg_A exg_A 1%Qc 1%Qc
              (gen_angle QcF QcOps exg_L exg_B) (gen_linrf_f_RF QcF QcOps exg_L exg_B)).
Definition exg_odr : Z -> Qc :=
  rs_built (gen_drift_ctor (K:=QcF) exg_tan exg_id exg_id 1 8 8 exg_A exg_A
              (gen_slip QcF QcOps exg_L exg_B) (gen_drift_E0 QcF QcOps exg_L exg_B)).

Lemma exg_rf_exact b x : 0 <= b < 1 -> 0 <= x < 8 ->
  eff_off 8 (exg_orf (Z.min b (1 - 1) * 8 + x)) = exg_orf (Z.min b (1 - 1) * 8 + x).
Proof.
  intros Hb Hx. replace b with 0 by lia. cases8 x Hx; apply Qc_is_canon; vm_compute; reflexivity.
Qed.

Lemma exg_drift_exact y : 0 <= y < 8 -> eff_off 8 (exg_odr y) = exg_odr y.
Proof. intros Hy. cases8 y Hy; apply Qc_is_canon; vm_compute; reflexivity. Qed.

Lemma exg_step_ok : step_ok 8 1 2 exg_orf exg_odr ex_D 0.
Proof.
  split.
  - intros x Hx. change (Z.min 0 (1 - 1) * 8 + x) with (0 * 8 + x). rewrite Z.mul_0_l, Z.add_0_l.
    assert (S : suppQ (rowY 8 ex_D 0 x) 3 5).
    { intros i Hi. unfold rowY, clip. destruct ((0 <=? i) && (i <? 8))%bool eqn:E; [|reflexivity].
      cases8 x Hx; outside i Hi E. }
    cases8 x Hx;
      (eapply ex_row_ok; [vm_compute; reflexivity | lia | exact S]).
  - intros y Hy.
    assert (S : suppQ (colX 8 (rf_apply 8 1 2 exg_orf ex_D) 0 y) 3 5).
    { intros i Hi. unfold colX, clip. destruct ((0 <=? i) && (i <? 8))%bool eqn:E; [|reflexivity].
      cases8 y Hy; outside i Hi E. }
    cases8 y Hy;
      (eapply ex_row_ok; [vm_compute; reflexivity | lia | exact S]).
Qed.

Lemma exg_values :
  map (fun x => this (exg_orf x)) [0; 3; 4; 7] = [7 # 8; 1 # 8; -1 # 8; -7 # 8]%Q /\
  map (fun y => this (exg_odr y)) [0; 3; 4; 7; 8] = [-7 # 8; -1 # 8; 1 # 8; 7 # 8; 0]%Q /\
  this (gen_angle QcF QcOps exg_L exg_B) = (1 # 4)%Q /\
  this (ax_zerobin exg_A) = (7 # 2)%Q /\ this (ax_delta exg_A) = 1%Q.
Proof. vm_compute. repeat split; reflexivity. Qed.

(** the instance of the conclusion *)
Lemma exg_centroid_step :
  centre_of_charge 8 (ax_zerobin exg_A) (ax_zerobin exg_A) (rf_drift_step 8 1 2 exg_orf exg_odr ex_D) 0 =
  mat_apply (K:=QcF) (Mstep (K:=QcF) (exg_tan (gen_angle QcF QcOps exg_L exg_B))
                       (gen_angle QcF QcOps exg_L exg_B * (ax_delta exg_A / ax_delta exg_A))%Qc)
            (centre_of_charge 8 (ax_zerobin exg_A) (ax_zerobin exg_A) ex_D 0).
Proof.
  apply (centroid_step_generated exg_tan exg_id exg_id 8 1 2); try lia.
  - right; left; reflexivity.
  - intro H. apply (f_equal this) in H. vm_compute in H. discriminate H.
  - intro H. apply (f_equal this) in H. vm_compute in H. discriminate H.
  - reflexivity.
  - reflexivity.
  - intro H. apply (f_equal this) in H. vm_compute in H. discriminate H.
  - exact exg_rf_exact.
  - exact exg_drift_exact.
  - exact exg_step_ok.
  - exact ex_charge.
Qed.
