(** What main() passes to the DynamicRFKickMap constructors as modulation amplitude and as
    modulation "time step" (Gen/Gen_ModStep.v, regenerated from src/main.cpp), over the reals:
      modampl           = max(0, RFPhaseModAmplitude/360 * 2 pi)            (degree -> rad)
      modtimeincrement  = RFPhaseModFrequency * dt
    with dt the duration of one simulation step as the command line defines it:
      dt = 1/(f_rev * StepsPerRevolution)        if StepsPerRevolution > 0 (it overrides StepsPerTs)
      dt = 1/(f_s * max(StepsPerTs, 1))          otherwise.
    Hence (C19 (4)): without noise the phase recorded for step k is
    syncphase + A sin(2 pi f_mod (k dt)) with the configured amplitude and frequency. *)
From Coq Require Import List String Reals Lra Bool.
From Inovesa Require Import Base.FieldKit Base.RInst Model.Ctors Gen.Gen_Ctors Model.DynRF Gen.Gen_ModStep
  Proofs.DynRFP Proofs.DynRFGenP.
Import ListNotations.
Local Open Scope R_scope.
Local Open Scope string_scope.

Definition rgtb (a b : R) : bool := if Rgt_dec a b then true else false.

(** duration of one simulation step, from the options alone ([env]: getter name -> value;
    "fs" is the synchrotron frequency main() works with) *)
Definition dt_spec (env : string -> R) : R :=
  if Rgt_dec (env "getStepsPerTrev") 0
  then / (env "getRevolutionFrequency" * env "getStepsPerTrev")
  else / (env "fs" * Rmax (env "getStepsPerTsync") 1).

(** configured modulation amplitude in rad *)
Definition ampl_spec (env : string -> R) : R := Rmax 0 (env "getRFPhaseModAmplitude" / 360 * (2 * PI)).

Definition main_modtimeincrement (lin : bool) (env : string -> R) : R :=
  if lin then main_lin_modtimeincrement RF Rmax rgtb env else main_sin_modtimeincrement RF Rmax rgtb env.
Definition main_modampl (lin : bool) (env : string -> R) : R :=
  if lin then main_lin_modampl RF (2 * PI) Rmax env else main_sin_modampl RF (2 * PI) Rmax env.

Lemma main_modstep_is_fmod_dt (lin : bool) (env : string -> R) :
  env "fs" <> 0 -> env "getRevolutionFrequency" <> 0 ->
  main_modtimeincrement lin env = env "getRFPhaseModFrequency" * dt_spec env.
Proof.
  intros Hfs Hrev. unfold main_modtimeincrement, main_lin_modtimeincrement, main_sin_modtimeincrement, dt_spec, rgtb.
  assert (Hm : Rmax (env "getStepsPerTsync") 1 <> 0) by (pose proof (Rmax_r (env "getStepsPerTsync") 1); lra).
  destruct lin; cbv [fmul fadd fsub fopp fdiv finv f0 f1 car RF];
    destruct (Rgt_dec (env "getStepsPerTrev") 0) as [Hp|Hp]; field; auto; repeat split; auto; lra.
Qed.

Lemma main_modampl_is_configured (lin : bool) (env : string -> R) :
  main_modampl lin env = ampl_spec env.
Proof.
  unfold main_modampl, main_lin_modampl, main_sin_modampl, ampl_spec.
  destruct lin; cbv [fmul fadd fsub fopp fdiv finv f0 f1 car RF]; f_equal; field.
Qed.

(** C19 (4), end to end: constructor arguments as main() computes them, generated member
    initialisers of either constructor, `__calcModulation` without noise *)
Theorem modulation_as_configured (lin : bool) (fsqrt : R -> R) (sync : R) (opt cenv : string -> R)
        (noise : nat -> R) (steps k : nat) :
  cenv "phasespread" = 0 -> cenv "amplspread" = 0 ->
  cenv "modampl" = main_modampl lin opt -> cenv "modtimeincrement" = main_modtimeincrement lin opt ->
  opt "fs" <> 0 -> opt "getRevolutionFrequency" <> 0 -> (k < steps)%nat ->
  let d := if lin then dyncfg_linear RF fsqrt (2 * PI) cenv else dyncfg_sinusoidal RF fsqrt (2 * PI) cenv in
  nth_error (calc_modulation (K:=RF) sin sync d noise steps) k =
  Some (sync + ampl_spec opt * sin (2 * PI * opt "getRFPhaseModFrequency" * (INR k * dt_spec opt)), 1).
Proof.
  intros H1 H2 Ha Hi Hfs Hrev Hk d.
  pose proof (sinusoidal_modulation_R lin fsqrt sync cenv noise steps k H1 H2 Hk) as X. cbn zeta in X. fold d in X.
  rewrite X, Ha, Hi, main_modampl_is_configured, main_modstep_is_fmod_dt by auto.
  do 2 f_equal. f_equal. f_equal. f_equal. ring.
Qed.

Lemma main_steps_arg_checked : main_dyn_steps_arg_is_loop_bound = true.
Proof. vm_compute. reflexivity. Qed.

(** non-vacuity: 9 MHz revolution frequency, f_s = 9 kHz, 0.02 steps per revolution *)
Definition ex_opt : string -> R :=
  fun s => if String.eqb s "getStepsPerTrev" then (2 / 100) else
           if String.eqb s "getRevolutionFrequency" then 9000000 else
           if String.eqb s "fs" then 9000 else
           if String.eqb s "getStepsPerTsync" then 1000 else 0.
Lemma dt_example : ex_opt "fs" <> 0 /\ ex_opt "getRevolutionFrequency" <> 0 /\ dt_spec ex_opt = / 180000.
Proof.
  unfold dt_spec, ex_opt. cbn [String.eqb Ascii.eqb Bool.eqb].
  repeat split; try lra. destruct (Rgt_dec (2 / 100) 0); [field | lra].
Qed.
