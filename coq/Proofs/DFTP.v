(** * Proofs about the DFT model: convolution theorem (C06) and Parseval (C07) over an abstract
    twiddle table.  Only the algebraic laws of the table are used (unit, angle addition, parity,
    period), no analysis. *)
From Coq Require Import List ZArith Ring Field Lia Bool.
From Inovesa Require Import Base.FieldKit Base.Sums Model.DFT.
Import ListNotations.

Section SumsMore.
  Variable K : Fld.
  Add Field KFm : (@Fth K).
  Local Open Scope F_scope.

  Lemma sumZ_opp lo len (g : Z -> K) : sumZ lo len (fun i => - g i) = - sumZ lo len g.
  Proof. revert lo; induction len as [|k IH]; intros lo; cbn [sumZ]; [ring|]. rewrite IH; ring. Qed.

  Lemma sumZ_scale_r lo len (g : Z -> K) c : sumZ lo len (fun i => g i * c) = sumZ lo len g * c.
  Proof. revert lo; induction len as [|k IH]; intros lo; cbn [sumZ]; [ring|]. rewrite IH; ring. Qed.

  Lemma sumZ_const0 lo len : sumZ lo len (fun _ => 0 : K) = 0.
  Proof. apply sumZ_zero. reflexivity. Qed.

  Lemma sumZ_snoc lo len (g : Z -> K) :
    sumZ lo (S len) g = sumZ lo len g + g (lo + Z.of_nat len)%Z.
  Proof.
    replace (S len) with (len + 1)%nat by lia. rewrite sumZ_app. cbn [sumZ]. ring.
  Qed.

  (** cyclic re-indexing of a full-period sum *)
  Lemma sumZ_cyclic (N d : Z) (g : Z -> K) :
    (0 < N)%Z ->
    sumZ 0 (Z.to_nat N) (fun u => g ((u + d) mod N)%Z) = sumZ 0 (Z.to_nat N) g.
  Proof.
    intros HN.
    set (e := (d mod N)%Z).
    assert (He : (0 <= e < N)%Z) by (apply Z.mod_pos_bound; lia).
    rewrite (sumZ_ext K _ _ _ (fun u => g ((u + e) mod N)%Z)).
    2:{ intros i _. f_equal. unfold e. rewrite Zplus_mod_idemp_r. reflexivity. }
    assert (Hs1 : forall f : Z -> K, sumZ 0 (Z.to_nat N) f
                   = sumZ 0 (Z.to_nat (N - e)) f + sumZ (N - e) (Z.to_nat e) f).
    { intros f. replace (Z.to_nat N) with (Z.to_nat (N - e) + Z.to_nat e)%nat by lia.
      rewrite sumZ_app. do 2 f_equal. lia. }
    assert (Hs2 : forall f : Z -> K, sumZ 0 (Z.to_nat N) f
                   = sumZ 0 (Z.to_nat e) f + sumZ e (Z.to_nat (N - e)) f).
    { intros f. replace (Z.to_nat N) with (Z.to_nat e + Z.to_nat (N - e))%nat by lia.
      rewrite sumZ_app. do 2 f_equal. lia. }
    rewrite (Hs1 (fun u => g ((u + e) mod N)%Z)), (Hs2 g).
    rewrite (sumZ_ext K 0 (Z.to_nat (N - e)) _ (fun u => g (u + e)%Z)).
    2:{ intros i Hi. f_equal. apply Z.mod_small. lia. }
    rewrite (sumZ_ext K (N - e) (Z.to_nat e) _ (fun u => g (u + (e - N))%Z)).
    2:{ intros i Hi. f_equal.
        replace (i + e)%Z with ((i + e - N) + 1 * N)%Z by lia.
        rewrite Z_mod_plus_full. rewrite Z.mod_small by lia. lia. }
    rewrite (sumZ_shift K 0 _ g e), (sumZ_shift K _ _ g (e - N)).
    replace (N - e + (e - N))%Z with 0%Z by lia.
    replace (0 + e)%Z with e by lia.
    ring.
  Qed.
End SumsMore.

(** ** padBunchProfiles: with pairwise disjoint windows on a zeroed buffer the padded train is the
    sum of the bunch windows; nothing else is written *)
Section PadP.
  Variable K : Fld.
  Add Field KFp : (@Fth K).
  Local Open Scope F_scope.

  Definition win (n s : Z) (b : Z * (Z -> K)) (u : Z) : K :=
    if inwin (fst b * s) n u then snd b (u - fst b * s)%Z else 0.

  Definition apart (n s : Z) (b b' : Z * (Z -> K)) : Prop :=
    (fst b * s + n <= fst b' * s \/ fst b' * s + n <= fst b * s)%Z.

  Fixpoint disjoint_wins (n s : Z) (bs : list (Z * (Z -> K))) : Prop :=
    match bs with
    | [] => True
    | b :: r => Forall (apart n s b) r /\ disjoint_wins n s r
    end.

  Lemma inwin_true off n u : inwin off n u = true <-> (off <= u < off + n)%Z.
  Proof. unfold inwin. rewrite andb_true_iff, Z.leb_le, Z.ltb_lt. tauto. Qed.

  Lemma win_outside n s b u : inwin (fst b * s) n u = false -> win n s b u = 0.
  Proof. intros H. unfold win. rewrite H. reflexivity. Qed.

  Lemma pad_sum n s bs : forall init u,
    disjoint_wins n s bs ->
    (forall b, In b bs -> inwin (fst b * s) n u = true -> init u = 0) ->
    pad n s bs init u = init u + fsum (map (fun b => win n s b u) bs).
  Proof.
    induction bs as [|[bk pr] r IH]; intros init u Hd Hz; cbn [pad map fsum].
    - ring.
    - destruct Hd as [Ha Hd].
      rewrite IH; [|exact Hd|].
      + unfold win at 2, pad_index. cbn [fst snd]. replace (bk * s + 0)%Z with (bk * s)%Z by lia.
        destruct (inwin (bk * s) n u) eqn:E.
        * rewrite (Hz (bk, pr)) by (try (left; reflexivity); exact E). ring.
        * ring.
      + intros b Hb Hin. unfold pad_index. replace (bk * s + 0)%Z with (bk * s)%Z by lia.
        destruct (inwin (bk * s) n u) eqn:E.
        * exfalso. rewrite Forall_forall in Ha. specialize (Ha b Hb). unfold apart in Ha. cbn [fst] in Ha.
          apply inwin_true in E. apply inwin_true in Hin. lia.
        * apply (Hz b); [right; exact Hb|exact Hin].
  Qed.

  Lemma pad_fresh n s bs u :
    disjoint_wins n s bs -> pad n s bs (fun _ => 0) u = fsum (map (fun b => win n s b u) bs).
  Proof. intros Hd. rewrite pad_sum; [ring|exact Hd|reflexivity]. Qed.

  (** empty buckets: a cell outside every window stays zero *)
  Lemma pad_outside n s bs u :
    disjoint_wins n s bs -> (forall b, In b bs -> inwin (fst b * s) n u = false) ->
    pad n s bs (fun _ => 0) u = 0.
  Proof.
    intros Hd Ho. rewrite pad_fresh by exact Hd.
    induction bs as [|b r IH]; cbn [map fsum]; [reflexivity|].
    rewrite win_outside by (apply Ho; left; reflexivity).
    destruct Hd as [_ Hd]. rewrite IH; [ring|exact Hd|]. intros b' Hb'. apply Ho. right. exact Hb'.
  Qed.

  (** bunch [b] sits at [bucket_b * spacing] *)
  Lemma pad_inside n s bs b x :
    disjoint_wins n s bs -> In b bs -> (0 <= x < n)%Z ->
    pad n s bs (fun _ => 0) (fst b * s + x)%Z = snd b x.
  Proof.
    intros Hd Hb Hx. rewrite pad_fresh by exact Hd.
    induction bs as [|b' r IH]; [destruct Hb|].
    cbn [map fsum]. destruct Hd as [Ha Hd]. destruct Hb as [Hb|Hb].
    - subst b'. unfold win at 1.
      assert (E : inwin (fst b * s) n (fst b * s + x) = true) by (apply inwin_true; lia).
      rewrite E. replace (fst b * s + x - fst b * s)%Z with x by lia.
      assert (Z0 : fsum (map (fun b0 => win n s b0 (fst b * s + x)%Z) r) = 0).
      { clear IH Hd. induction r as [|c r IHr]; cbn [map fsum]; [reflexivity|].
        inversion Ha as [|? ? Hc Hr]; subst. rewrite IHr by exact Hr.
        rewrite win_outside; [ring|]. unfold apart in Hc.
        destruct (inwin (fst c * s) n (fst b * s + x)) eqn:E2; [|reflexivity].
        apply inwin_true in E2. lia. }
      rewrite Z0. ring.
    - rewrite IH by assumption. rewrite win_outside; [ring|].
      rewrite Forall_forall in Ha. specialize (Ha b Hb). unfold apart in Ha.
      destruct (inwin (fst b' * s) n (fst b * s + x)) eqn:E2; [|reflexivity].
      apply inwin_true in E2. lia.
  Qed.

  Lemma sumZ_fsum_swap lo len (A : Type) (l : list A) (g : A -> Z -> K) :
    sumZ lo len (fun u => fsum (map (fun a => g a u) l)) = fsum (map (fun a => sumZ lo len (g a)) l).
  Proof.
    induction l as [|a r IH]; cbn [map fsum].
    - apply sumZ_zero. reflexivity.
    - rewrite sumZ_add, IH. reflexivity.
  Qed.
End PadP.
Arguments win {_}. Arguments apart {_}. Arguments disjoint_wins {_}.

Section DFTP.
  Variable K : Fld.
  Add Field KFd : (@Fth K).
  Local Open Scope F_scope.

  Variable N : Z.
  Variables cs sn : Z -> K.
  Hypothesis N2 : (2 <= N)%Z.
  Hypothesis cs_0 : cs 0%Z = 1.
  Hypothesis sn_0 : sn 0%Z = 0.
  Hypothesis cs_add : forall a b, cs (a + b)%Z = cs a * cs b - sn a * sn b.
  Hypothesis sn_add : forall a b, sn (a + b)%Z = sn a * cs b + cs a * sn b.
  Hypothesis cs_neg : forall a, cs (- a)%Z = cs a.
  Hypothesis sn_neg : forall a, sn (- a)%Z = - sn a.

  Notation nN := (nN N).
  Notation r2c := (r2c N cs sn).
  Notation formfactor := (formfactor N cs sn).
  Notation c2r := (c2r N cs sn).
  Notation wakelosses := (wakelosses N).
  Notation wake_padded := (wake_padded N cs sn).

  Lemma cs_sub a b : cs (a - b)%Z = cs a * cs b + sn a * sn b.
  Proof. unfold Z.sub. rewrite cs_add, cs_neg, sn_neg. ring. Qed.
  Lemma sn_sub a b : sn (a - b)%Z = sn a * cs b - cs a * sn b.
  Proof. unfold Z.sub. rewrite sn_add, cs_neg, sn_neg. ring. Qed.

  (** one frequency of the convolution kernel: Re (Z_k w^{mk}) *)
  Definition kern_term (Zi : Z -> cplx K) (k m : Z) : K :=
    fst (Zi k) * cs (m * k)%Z - snd (Zi k) * sn (m * k)%Z.

  (** kappa(m) = Re Z_0 + 2 sum_{0<k<N/2} Re (Z_k w^{mk})   (N/2 = integer division) *)
  Definition kernel (Zi : Z -> cplx K) (m : Z) : K :=
    fst (Zi 0%Z) + two * sumZ 1 (Z.to_nat (N / 2 - 1)) (fun k => kern_term Zi k m).

  (** Fubini + angle addition for one frequency *)
  Lemma c2r_term (p : Z -> K) (z : cplx K) k j :
    fst (cmul z (r2c p k)) * cs (j * k)%Z - snd (cmul z (r2c p k)) * sn (j * k)%Z
    = sumZ 0 nN (fun u => p u * (fst z * cs ((j - u) * k)%Z - snd z * sn ((j - u) * k)%Z)).
  Proof.
    assert (R : sumZ 0 nN (fun u => p u * (fst z * cs ((j - u) * k)%Z - snd z * sn ((j - u) * k)%Z))
              = (fst z * cs (j * k)%Z - snd z * sn (j * k)%Z) * sumZ 0 nN (fun u => p u * cs (u * k)%Z)
              + (fst z * sn (j * k)%Z + snd z * cs (j * k)%Z) * sumZ 0 nN (fun u => p u * sn (u * k)%Z)).
    { rewrite <- !sumZ_scale, <- sumZ_add. apply sumZ_ext. intros u _.
      replace ((j - u) * k)%Z with (j * k - u * k)%Z by lia.
      rewrite cs_sub, sn_sub. ring. }
    rewrite R. unfold DFT.r2c, cmul. cbn [fst snd]. ring.
  Qed.

  Lemma kern_term_0 Zi m : kern_term Zi 0 m = fst (Zi 0%Z).
  Proof. unfold kern_term. rewrite Z.mul_0_r, cs_0, sn_0. ring. Qed.

  (** the c2r frequency range = the written cells 1..N/2-1, plus cell N/2 when N is odd *)
  Lemma half_range_split (g : Z -> K) :
    sumZ 1 (Z.to_nat ((N - 1) / 2)) g
    = sumZ 1 (Z.to_nat (N / 2 - 1)) g + (if Z.even N then 0 else g (N / 2)%Z).
  Proof.
    destruct (Z.even N) eqn:E.
    - apply Z.even_spec in E. destruct E as [h Hh].
      replace ((N - 1) / 2)%Z with (N / 2 - 1)%Z by (subst N; Z.div_mod_to_equations; lia). ring.
    - assert (O : Z.odd N = true) by (rewrite <- Z.negb_even, E; reflexivity).
      apply Z.odd_spec in O. destruct O as [h Hh].
      assert (H1 : ((N - 1) / 2 = h)%Z) by (subst N; Z.div_mod_to_equations; lia).
      assert (H2 : (N / 2 = h)%Z) by (subst N; Z.div_mod_to_equations; lia).
      rewrite H1, H2.
      replace (Z.to_nat h) with (S (Z.to_nat (h - 1))) by lia.
      rewrite sumZ_snoc. f_equal. f_equal. lia.
  Qed.

  Definition conv_term (Zi : Z -> cplx K) (p : Z -> K) (j k : Z) : K :=
    sumZ 0 nN (fun u => p u * kern_term Zi k (j - u)).

  Lemma wl_low (Zi F stale : Z -> cplx K) k : (0 <= k < N / 2)%Z -> wakelosses Zi F stale k = cmul (Zi k) (F k).
  Proof.
    intros Hk. unfold DFT.wakelosses.
    destruct ((0 <=? k)%Z && (k <? N / 2)%Z)%bool eqn:E; [reflexivity|].
    apply andb_false_iff in E. destruct E as [E|E]; lia.
  Qed.
  Lemma wl_top (Zi F stale : Z -> cplx K) : wakelosses Zi F stale (N / 2)%Z = stale (N / 2)%Z.
  Proof.
    unfold DFT.wakelosses.
    destruct ((0 <=? N / 2)%Z && (N / 2 <? N / 2)%Z)%bool eqn:E; [|reflexivity].
    apply andb_true_iff in E. destruct E as [_ E]. lia.
  Qed.
  Lemma ff_low p k : (0 <= k <= N / 2)%Z -> formfactor p k = r2c p k.
  Proof.
    intros Hk. unfold DFT.formfactor.
    destruct ((0 <=? k)%Z && (k <=? N / 2)%Z)%bool eqn:E; [reflexivity|].
    apply andb_false_iff in E. destruct E as [E|E]; lia.
  Qed.
  Lemma ff_high p k : (N / 2 < k)%Z -> formfactor p k = czero.
  Proof.
    intros Hk. unfold DFT.formfactor.
    destruct ((0 <=? k)%Z && (k <=? N / 2)%Z)%bool eqn:E; [|reflexivity].
    apply andb_true_iff in E. destruct E as [_ E]. lia.
  Qed.

  Lemma half_pos : (1 <= N / 2)%Z.
  Proof. Z.div_mod_to_equations; lia. Qed.

  (** the padded wake, frequency by frequency (fresh top cell) *)
  Lemma wake_padded_terms (Zi stale : Z -> cplx K) (p : Z -> K) j :
    stale (N / 2)%Z = czero ->
    wake_padded Zi stale p j
    = conv_term Zi p j 0 + two * sumZ 1 (Z.to_nat (N / 2 - 1)) (conv_term Zi p j).
  Proof.
    intros Hst. pose proof half_pos as Hh.
    unfold DFT.wake_padded, DFT.c2r. rewrite half_range_split.
    rewrite !wl_top, Hst. cbn [fst snd czero].
    rewrite (wl_low _ _ _ 0%Z) by lia. rewrite (ff_low p 0%Z) by lia.
    assert (E0 : fst (cmul (Zi 0%Z) (r2c p 0%Z)) = conv_term Zi p j 0).
    { pose proof (c2r_term p (Zi 0%Z) 0%Z j) as T. rewrite Z.mul_0_r, cs_0, sn_0 in T.
      unfold conv_term, kern_term. rewrite <- T. ring. }
    rewrite E0.
    rewrite (sumZ_ext K 1 (Z.to_nat (N / 2 - 1)) _ (conv_term Zi p j)).
    2:{ intros k Hk. rewrite wl_low by lia. rewrite ff_low by lia.
        rewrite c2r_term. reflexivity. }
    destruct (Z.even N); ring.
  Qed.

  Lemma conv_kernel_terms (Zi : Z -> cplx K) (p : Z -> K) j :
    sumZ 0 nN (fun u => p u * kernel Zi (j - u))
    = conv_term Zi p j 0 + two * sumZ 1 (Z.to_nat (N / 2 - 1)) (conv_term Zi p j).
  Proof.
    unfold conv_term. rewrite <- sumZ_swap, <- sumZ_scale, <- sumZ_add.
    apply sumZ_ext. intros u _. unfold kernel. rewrite kern_term_0, sumZ_scale. ring.
  Qed.

  (** ** C06: the padded wake is the circular convolution of the padded profile with kappa *)
  Theorem wake_padded_convolution (Zi stale : Z -> cplx K) (p : Z -> K) j :
    stale (N / 2)%Z = czero ->
    wake_padded Zi stale p j = sumZ 0 nN (fun u => p u * kernel Zi (j - u)).
  Proof. intros Hst. rewrite wake_padded_terms by exact Hst. symmetry. apply conv_kernel_terms. Qed.

  (** ** linearity *)
  Theorem wake_padded_linear (Zi stale : Z -> cplx K) (p q : Z -> K) (a : K) j :
    stale (N / 2)%Z = czero ->
    wake_padded Zi stale (fun u => a * p u + q u) j
    = a * wake_padded Zi stale p j + wake_padded Zi stale q j.
  Proof.
    intros Hst. rewrite !wake_padded_convolution by exact Hst.
    rewrite <- sumZ_scale, <- sumZ_add. apply sumZ_ext. intros u _. ring.
  Qed.

  (** ** only Re Z_0 and Z_k, 0 < k < N/2, are seen *)
  Theorem wake_padded_half_spectrum (Zi Zi' stale : Z -> cplx K) (p : Z -> K) j :
    stale (N / 2)%Z = czero ->
    fst (Zi 0%Z) = fst (Zi' 0%Z) ->
    (forall k, (0 < k < N / 2)%Z -> Zi k = Zi' k) ->
    wake_padded Zi stale p j = wake_padded Zi' stale p j.
  Proof.
    intros Hst H0 Hk. rewrite !wake_padded_convolution by exact Hst.
    apply sumZ_ext. intros u _. f_equal. unfold kernel. rewrite H0. do 2 f_equal.
    apply sumZ_ext. intros k Hr. unfold kern_term. rewrite Hk by lia. reflexivity.
  Qed.

  (** ** the per-bunch wake: bunches at [bucket*spacing], empty buckets contribute nothing *)
  Definition in_buffer (n s : Z) (bs : list (Z * (Z -> K))) : Prop :=
    Forall (fun b => (0 <= fst b * s)%Z /\ (fst b * s + n <= N)%Z) bs.

  Lemma win_conv (Zi : Z -> cplx K) n s b j :
    (0 <= n)%Z -> (0 <= fst b * s)%Z -> (fst b * s + n <= N)%Z ->
    sumZ 0 nN (fun u => win n s b u * kernel Zi (j - u))
    = sumZ 0 (Z.to_nat n) (fun x => snd b x * kernel Zi (j - fst b * s - x)).
  Proof.
    intros Hn H0 H1. set (off := (fst b * s)%Z) in *.
    assert (Hs : supp (fun u => win n s b u * kernel Zi (j - u)) off (off + n)).
    { intros u Hu. rewrite win_outside; [ring|]. fold off.
      destruct (inwin off n u) eqn:E; [|reflexivity]. apply inwin_true in E. lia. }
    unfold DFT.nN. rewrite (sum_window K _ off (off + n)%Z 0 (Z.to_nat N) Hs) by lia.
    replace (off + n - off)%Z with n by lia.
    rewrite <- (sumZ_shift K 0 (Z.to_nat n) _ off).
    apply sumZ_ext. intros x Hx. unfold win. fold off.
    assert (E : inwin off n (x + off) = true) by (apply inwin_true; lia).
    rewrite E. replace (x + off - off)%Z with x by lia. f_equal. f_equal. lia.
  Qed.

  Theorem wake_model_train (Zi stale : Z -> cplx K) n s bs scale bk x :
    stale (N / 2)%Z = czero -> (0 <= n)%Z -> disjoint_wins n s bs -> in_buffer n s bs ->
    wake_model N cs sn n s Zi stale (fun _ => 0) bs scale bk x
    = scale * fsum (map (fun b => sumZ 0 (Z.to_nat n)
                                   (fun x' => snd b x' * kernel Zi ((bk - fst b) * s + x - x'))) bs).
  Proof.
    intros Hst Hn Hd Hb. unfold wake_model. f_equal.
    rewrite wake_padded_convolution by exact Hst.
    rewrite (sumZ_ext K _ _ _ (fun u => fsum (map (fun b => win n s b u * kernel Zi (pad_index s bk x - u)) bs))).
    2:{ intros u Hu. unfold padded.
        assert (E : inwin 0 N u = true) by (apply inwin_true; unfold DFT.nN in Hu; lia).
        rewrite E, pad_fresh by exact Hd.
        clear. induction bs as [|b r IH]; cbn [map fsum]; [ring|]. rewrite <- IH. ring. }
    rewrite (sumZ_fsum_swap K 0 nN _ bs (fun b u => win n s b u * kernel Zi (pad_index s bk x - u))).
    f_equal. apply map_ext_in. intros b Hin.
    unfold in_buffer in Hb. rewrite Forall_forall in Hb. destruct (Hb b Hin) as [B0 B1].
    rewrite win_conv by assumption. apply sumZ_ext. intros x' _. f_equal. f_equal.
    unfold pad_index. ring.
  Qed.

  (** ** the scaling factor of the delegating constructor *)
  Theorem wake_scaling_formula (Ib dt c sz dE sd E0 : K) :
    sz <> 0 -> dE <> 0 -> sd <> 0 -> E0 <> 0 -> @fz K N <> 0 ->
    wake_scaling N Ib dt c sz dE sd E0 = Ib * dt * c / (sz * (dE * sd * E0)) / fz N.
  Proof. intros H1 H2 H3 H4 H5. unfold wake_scaling. field. repeat split; assumption. Qed.

  (** ** C07: Parseval *)
  Lemma parseval_term (p : Z -> K) (z : cplx K) k :
    sumZ 0 nN (fun j => p j * (fst (cmul z (r2c p k)) * cs (j * k)%Z - snd (cmul z (r2c p k)) * sn (j * k)%Z))
    = fst z * cnorm (r2c p k).
  Proof.
    set (L := cmul z (r2c p k)).
    rewrite (sumZ_ext K _ _ _ (fun j => fst L * (p j * cs (j * k)%Z) + (- snd L) * (p j * sn (j * k)%Z)))
      by (intros; ring).
    rewrite sumZ_add, !sumZ_scale. unfold L, DFT.r2c, cmul, cnorm. cbn [fst snd]. ring.
  Qed.

  Definition wake_loss (Zi stale : Z -> cplx K) (p : Z -> K) : K :=
    sumZ 0 nN (fun j => p j * wake_padded Zi stale p j).

  Theorem parseval_wake2 (Zi stale : Z -> cplx K) (p : Z -> K) :
    stale (N / 2)%Z = czero ->
    wake_loss Zi stale p
    = fst (Zi 0%Z) * cnorm (r2c p 0%Z)
      + two * sumZ 1 (Z.to_nat (N / 2 - 1)) (fun k => fst (Zi k) * cnorm (r2c p k)).
  Proof.
    intros Hst. unfold wake_loss.
    rewrite (sumZ_ext K _ _ _ (fun j => p j * conv_term Zi p j 0
                 + two * sumZ 1 (Z.to_nat (N / 2 - 1)) (fun k => p j * conv_term Zi p j k))).
    2:{ intros j _. rewrite wake_padded_terms by exact Hst. rewrite sumZ_scale. ring. }
    rewrite sumZ_add, sumZ_scale, sumZ_swap.
    assert (T : forall k, sumZ 0 nN (fun j => p j * conv_term Zi p j k) = fst (Zi k) * cnorm (r2c p k)).
    { intros k. rewrite <- parseval_term. apply sumZ_ext. intros j _. f_equal.
      unfold conv_term, kern_term. rewrite c2r_term. reflexivity. }
    rewrite T. f_equal. f_equal. apply sumZ_ext. intros k _. apply T.
  Qed.

  (** the form of the property: one half of sum rho*W = sum_{0<k<N/2} Re Z_k |F_k|^2 + Re Z_0 |F_0|^2 / 2 *)
  Theorem parseval_wake (Zi stale : Z -> cplx K) (p : Z -> K) :
    stale (N / 2)%Z = czero ->
    wake_loss Zi stale p / two
    = sumZ 1 (Z.to_nat (N / 2 - 1)) (fun k => fst (Zi k) * cnorm (formfactor p k))
      + fst (Zi 0%Z) * cnorm (formfactor p 0%Z) / two.
  Proof.
    intros Hst. pose proof half_pos as Hh. rewrite parseval_wake2 by exact Hst.
    rewrite (ff_low p 0%Z) by lia.
    rewrite (sumZ_ext K 1 _ (fun k => fst (Zi k) * cnorm (formfactor p k)) (fun k => fst (Zi k) * cnorm (r2c p k)))
      by (intros k Hk; rewrite ff_low by lia; reflexivity).
    unfold two. field. exact (@nz2 K).
  Qed.

  (** ** C07: the CSR power as updateCSR computes it *)
  Lemma cnorm_zero : cnorm (@czero K) = 0.
  Proof. unfold cnorm, czero. cbn [fst snd]. ring. Qed.

  Lemma sum_to_half (g : Z -> K) :
    (forall i, (N / 2 < i)%Z -> g i = 0) ->
    sumZ 0 nN g = g 0%Z + sumZ 1 (Z.to_nat (N / 2 - 1)) g + g (N / 2)%Z.
  Proof.
    intros Hz. pose proof half_pos as Hh.
    assert (HN : (N / 2 < N)%Z) by (Z.div_mod_to_equations; lia).
    unfold DFT.nN.
    replace (Z.to_nat N) with (1 + (Z.to_nat (N / 2 - 1) + (1 + Z.to_nat (N - N / 2 - 1))))%nat by lia.
    rewrite !sumZ_app. cbn [sumZ].
    rewrite (sumZ_zero K _ (Z.to_nat (N - N / 2 - 1))) by (intros i Hi; apply Hz; lia).
    replace (0 + Z.of_nat 1 + Z.of_nat (Z.to_nat (N / 2 - 1)))%Z with (N / 2)%Z by lia.
    replace (0 + Z.of_nat 1)%Z with 1%Z by lia. ring.
  Qed.

  Theorem csr_power_formula (df dq2 : K) (cut : option (Z -> K)) (Zi : Z -> cplx K) (p : Z -> K) :
    csr_power N cs sn df dq2 cut Zi p
    = df * (csr_renorm dq2 cut 0%Z * fst (Zi 0%Z) * cnorm (r2c p 0%Z)
            + sumZ 1 (Z.to_nat (N / 2 - 1)) (fun i => csr_renorm dq2 cut i * fst (Zi i) * cnorm (r2c p i))
            + csr_renorm dq2 cut (N / 2)%Z * fst (Zi (N / 2)%Z) * cnorm (r2c p (N / 2)%Z)).
  Proof.
    pose proof half_pos as Hh. unfold csr_power. rewrite sumZ_scale. f_equal.
    rewrite sum_to_half.
    2:{ intros i Hi. unfold csr_spectrum. rewrite ff_high by exact Hi. rewrite cnorm_zero. ring. }
    unfold csr_spectrum. rewrite (ff_low p 0%Z), (ff_low p (N / 2)%Z) by lia.
    f_equal. f_equal. apply sumZ_ext. intros i Hi. rewrite ff_low by lia. reflexivity.
  Qed.

  (** cutoff off: twice the power equals df*dq^2 times (sum rho W + Re Z_0 |F_0|^2 + 2 Re Z_h |F_h|^2),
      h = N/2: exactly the zero-frequency term and the top cell the wake loop leaves out *)
  Theorem csr_equals_wake_loss2 (df dq2 : K) (Zi stale : Z -> cplx K) (p : Z -> K) :
    stale (N / 2)%Z = czero ->
    two * csr_power N cs sn df dq2 None Zi p
    = df * dq2 * (wake_loss Zi stale p + fst (Zi 0%Z) * cnorm (r2c p 0%Z)
                  + two * (fst (Zi (N / 2)%Z) * cnorm (r2c p (N / 2)%Z))).
  Proof.
    intros Hst. rewrite csr_power_formula, parseval_wake2 by exact Hst. cbn [csr_renorm].
    rewrite (sumZ_ext K 1 _ (fun i => dq2 * fst (Zi i) * cnorm (r2c p i)) (fun i => dq2 * (fst (Zi i) * cnorm (r2c p i))))
      by (intros; ring).
    rewrite sumZ_scale. unfold two. ring.
  Qed.

  Theorem csr_equals_wake_loss (df dq2 : K) (Zi stale : Z -> cplx K) (p : Z -> K) :
    stale (N / 2)%Z = czero -> df <> 0 -> dq2 <> 0 ->
    csr_power N cs sn df dq2 None Zi p / (df * dq2) - wake_loss Zi stale p / two
    = fst (Zi 0%Z) * cnorm (formfactor p 0%Z) / two
      + fst (Zi (N / 2)%Z) * cnorm (formfactor p (N / 2)%Z).
  Proof.
    intros Hst Hdf Hdq. pose proof half_pos as Hh.
    rewrite (ff_low p 0%Z), (ff_low p (N / 2)%Z) by lia.
    assert (E : csr_power N cs sn df dq2 None Zi p
                = (df * dq2 * (wake_loss Zi stale p + fst (Zi 0%Z) * cnorm (r2c p 0%Z)
                  + two * (fst (Zi (N / 2)%Z) * cnorm (r2c p (N / 2)%Z)))) / two).
    { rewrite <- (csr_equals_wake_loss2 df dq2 Zi stale p Hst). unfold two. field. exact (@nz2 K). }
    rewrite E. unfold two. field. repeat split; try assumption; exact (@nz2 K).
  Qed.

  (** ** periodicity and cyclic shifts *)
  Hypothesis cs_per : forall a, cs (a + N)%Z = cs a.
  Hypothesis sn_per : forall a, sn (a + N)%Z = sn a.

  Lemma per_nat a (t : nat) : cs (a + N * Z.of_nat t)%Z = cs a /\ sn (a + N * Z.of_nat t)%Z = sn a.
  Proof.
    induction t as [|t IH].
    - replace (a + N * Z.of_nat 0)%Z with a by lia. split; reflexivity.
    - replace (a + N * Z.of_nat (S t))%Z with (a + N * Z.of_nat t + N)%Z by lia.
      rewrite cs_per, sn_per. exact IH.
  Qed.
  Lemma per_Z a t : cs (a + N * t)%Z = cs a /\ sn (a + N * t)%Z = sn a.
  Proof.
    destruct (Z_le_gt_dec 0 t) as [H|H].
    - replace t with (Z.of_nat (Z.to_nat t)) by lia. apply per_nat.
    - destruct (per_nat (a + N * t)%Z (Z.to_nat (- t))) as [A B].
      replace (a + N * t + N * Z.of_nat (Z.to_nat (- t)))%Z with a in A, B by lia.
      split; symmetry; assumption.
  Qed.

  Lemma kernel_periodic Zi m t : kernel Zi (m + N * t)%Z = kernel Zi m.
  Proof.
    unfold kernel. do 2 f_equal. apply sumZ_ext. intros k _. unfold kern_term.
    replace ((m + N * t) * k)%Z with (m * k + N * (t * k))%Z by ring.
    destruct (per_Z (m * k)%Z (t * k)%Z) as [A B]. rewrite A, B. reflexivity.
  Qed.

  Lemma kernel_mod Zi m : kernel Zi (m mod N)%Z = kernel Zi m.
  Proof.
    rewrite (Z.div_mod m N) at 2 by lia.
    replace (N * (m / N) + m mod N)%Z with (m mod N + N * (m / N))%Z by lia.
    rewrite kernel_periodic. reflexivity.
  Qed.

  (** DESIGN 5/C06.1: the (mod N) form of the convolution *)
  Theorem wake_is_convolution (Zi stale : Z -> cplx K) (p : Z -> K) j :
    stale (N / 2)%Z = czero ->
    wake_padded Zi stale p j = sumZ 0 nN (fun u => p u * kernel Zi ((j - u) mod N)%Z).
  Proof.
    intros Hst. rewrite wake_padded_convolution by exact Hst.
    apply sumZ_ext. intros u _. rewrite kernel_mod. reflexivity.
  Qed.

  Theorem wake_padded_periodic (Zi stale : Z -> cplx K) (p : Z -> K) j t :
    stale (N / 2)%Z = czero ->
    wake_padded Zi stale p (j + N * t)%Z = wake_padded Zi stale p j.
  Proof.
    intros Hst. rewrite !wake_padded_convolution by exact Hst.
    apply sumZ_ext. intros u _. f_equal.
    replace (j + N * t - u)%Z with (j - u + N * t)%Z by lia. apply kernel_periodic.
  Qed.

  (** moving the padded profile cyclically by [d] cells moves the padded wake by [d] cells *)
  Theorem wake_padded_shift (Zi stale : Z -> cplx K) (p : Z -> K) d j :
    stale (N / 2)%Z = czero ->
    wake_padded Zi stale (fun u => p ((u - d) mod N)%Z) j = wake_padded Zi stale p (j - d)%Z.
  Proof.
    intros Hst. rewrite !wake_padded_convolution by exact Hst.
    unfold DFT.nN. rewrite <- (sumZ_cyclic K N (- d) (fun u => p u * kernel Zi (j - d - u))) by lia.
    apply sumZ_ext. intros u _.
    replace (u + - d)%Z with (u - d)%Z by lia. f_equal.
    rewrite <- (kernel_mod Zi (j - u)), <- (kernel_mod Zi (j - d - (u - d) mod N)).
    f_equal. rewrite Zminus_mod_idemp_r. f_equal. lia.
  Qed.

End DFTP.
