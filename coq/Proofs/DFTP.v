(** * Proofs about the DFT model: convolution theorem (C06) and Parseval (C07) over an abstract
    twiddle table.  Only the algebraic laws of the table are used (unit, angle addition, parity,
    period), no analysis. *)
From Coq Require Import List ZArith Ring Field Lia Bool.
From Inovesa Require Import Base.FieldKit Base.Sums Model.DFT.
Import ListNotations.

Section SumsMore.
  Variable K : Fld.
  Add Field KFm : (@Fth K).
  Local Open Scope F_scope.

  Lemma sumZ_opp lo len (g : Z -> K) : sumZ lo len (fun i => - g i) = - sumZ lo len g.
  Proof. revert lo; induction len as [|k IH]; intros lo; cbn [sumZ]; [ring|]. rewrite IH; ring. Qed.

  Lemma sumZ_scale_r lo len (g : Z -> K) c : sumZ lo len (fun i => g i * c) = sumZ lo len g * c.
  Proof. revert lo; induction len as [|k IH]; intros lo; cbn [sumZ]; [ring|]. rewrite IH; ring. Qed.

  Lemma sumZ_const0 lo len : sumZ lo len (fun _ => 0 : K) = 0.
  Proof. apply sumZ_zero. reflexivity. Qed.

  Lemma sumZ_snoc lo len (g : Z -> K) :
    sumZ lo (S len) g = sumZ lo len g + g (lo + Z.of_nat len)%Z.
  Proof.
    replace (S len) with (len + 1)%nat by lia. rewrite sumZ_app. cbn [sumZ]. ring.
  Qed.

  (** cyclic re-indexing of a full-period sum *)
  Lemma sumZ_cyclic (N d : Z) (g : Z -> K) :
    (0 < N)%Z ->
    sumZ 0 (Z.to_nat N) (fun u => g ((u + d) mod N)%Z) = sumZ 0 (Z.to_nat N) g.
  Proof.
    intros HN.
    set (e := (d mod N)%Z).
    assert (He : (0 <= e < N)%Z) by (apply Z.mod_pos_bound; lia).
    rewrite (sumZ_ext K _ _ _ (fun u => g ((u + e) mod N)%Z)).
    2:{ intros i _. f_equal. unfold e. rewrite Zplus_mod_idemp_r. reflexivity. }
    assert (Hs1 : forall f : Z -> K, sumZ 0 (Z.to_nat N) f
                   = sumZ 0 (Z.to_nat (N - e)) f + sumZ (N - e) (Z.to_nat e) f).
    { intros f. replace (Z.to_nat N) with (Z.to_nat (N - e) + Z.to_nat e)%nat by lia.
      rewrite sumZ_app. do 2 f_equal. lia. }
    assert (Hs2 : forall f : Z -> K, sumZ 0 (Z.to_nat N) f
                   = sumZ 0 (Z.to_nat e) f + sumZ e (Z.to_nat (N - e)) f).
    { intros f. replace (Z.to_nat N) with (Z.to_nat e + Z.to_nat (N - e))%nat by lia.
      rewrite sumZ_app. do 2 f_equal. lia. }
    rewrite (Hs1 (fun u => g ((u + e) mod N)%Z)), (Hs2 g).
    rewrite (sumZ_ext K 0 (Z.to_nat (N - e)) _ (fun u => g (u + e)%Z)).
    2:{ intros i Hi. f_equal. apply Z.mod_small. lia. }
    rewrite (sumZ_ext K (N - e) (Z.to_nat e) _ (fun u => g (u + (e - N))%Z)).
    2:{ intros i Hi. f_equal.
        replace (i + e)%Z with ((i + e - N) + 1 * N)%Z by lia.
        rewrite Z_mod_plus_full. rewrite Z.mod_small by lia. lia. }
    rewrite (sumZ_shift K 0 _ g e), (sumZ_shift K _ _ g (e - N)).
    replace (N - e + (e - N))%Z with 0%Z by lia.
    replace (0 + e)%Z with e by lia.
    ring.
  Qed.
End SumsMore.

Section DFTP.
  Variable K : Fld.
  Add Field KFd : (@Fth K).
  Local Open Scope F_scope.

  Variable N : Z.
  Variables cs sn : Z -> K.
  Hypothesis N2 : (2 <= N)%Z.
  Hypothesis cs_0 : cs 0%Z = 1.
  Hypothesis sn_0 : sn 0%Z = 0.
  Hypothesis cs_add : forall a b, cs (a + b)%Z = cs a * cs b - sn a * sn b.
  Hypothesis sn_add : forall a b, sn (a + b)%Z = sn a * cs b + cs a * sn b.
  Hypothesis cs_neg : forall a, cs (- a)%Z = cs a.
  Hypothesis sn_neg : forall a, sn (- a)%Z = - sn a.

  Notation nN := (nN N).
  Notation r2c := (r2c N cs sn).
  Notation formfactor := (formfactor N cs sn).
  Notation c2r := (c2r N cs sn).
  Notation wakelosses := (wakelosses N).
  Notation wake_padded := (wake_padded N cs sn).

  Lemma cs_sub a b : cs (a - b)%Z = cs a * cs b + sn a * sn b.
  Proof. unfold Z.sub. rewrite cs_add, cs_neg, sn_neg. ring. Qed.
  Lemma sn_sub a b : sn (a - b)%Z = sn a * cs b - cs a * sn b.
  Proof. unfold Z.sub. rewrite sn_add, cs_neg, sn_neg. ring. Qed.

  (** one frequency of the convolution kernel: Re (Z_k w^{mk}) *)
  Definition kern_term (Zi : Z -> cplx K) (k m : Z) : K :=
    fst (Zi k) * cs (m * k)%Z - snd (Zi k) * sn (m * k)%Z.

  (** kappa(m) = Re Z_0 + 2 sum_{0<k<N/2} Re (Z_k w^{mk})   (N/2 = integer division) *)
  Definition kernel (Zi : Z -> cplx K) (m : Z) : K :=
    fst (Zi 0%Z) + two * sumZ 1 (Z.to_nat (N / 2 - 1)) (fun k => kern_term Zi k m).

  (** Fubini + angle addition for one frequency *)
  Lemma c2r_term (p : Z -> K) (z : cplx K) k j :
    fst (cmul z (r2c p k)) * cs (j * k)%Z - snd (cmul z (r2c p k)) * sn (j * k)%Z
    = sumZ 0 nN (fun u => p u * (fst z * cs ((j - u) * k)%Z - snd z * sn ((j - u) * k)%Z)).
  Proof.
    assert (R : sumZ 0 nN (fun u => p u * (fst z * cs ((j - u) * k)%Z - snd z * sn ((j - u) * k)%Z))
              = (fst z * cs (j * k)%Z - snd z * sn (j * k)%Z) * sumZ 0 nN (fun u => p u * cs (u * k)%Z)
              + (fst z * sn (j * k)%Z + snd z * cs (j * k)%Z) * sumZ 0 nN (fun u => p u * sn (u * k)%Z)).
    { rewrite <- !sumZ_scale, <- sumZ_add. apply sumZ_ext. intros u _.
      replace ((j - u) * k)%Z with (j * k - u * k)%Z by lia.
      rewrite cs_sub, sn_sub. ring. }
    rewrite R. unfold DFT.r2c, cmul. cbn [fst snd]. ring.
  Qed.

  Lemma kern_term_0 Zi m : kern_term Zi 0 m = fst (Zi 0%Z).
  Proof. unfold kern_term. rewrite Z.mul_0_r, cs_0, sn_0. ring. Qed.

  (** the c2r frequency range = the written cells 1..N/2-1, plus cell N/2 when N is odd *)
  Lemma half_range_split (g : Z -> K) :
    sumZ 1 (Z.to_nat ((N - 1) / 2)) g
    = sumZ 1 (Z.to_nat (N / 2 - 1)) g + (if Z.even N then 0 else g (N / 2)%Z).
  Proof.
    destruct (Z.even N) eqn:E.
    - apply Z.even_spec in E. destruct E as [h Hh].
      replace ((N - 1) / 2)%Z with (N / 2 - 1)%Z by (subst N; Z.div_mod_to_equations; lia). ring.
    - assert (O : Z.odd N = true) by (rewrite <- Z.negb_even, E; reflexivity).
      apply Z.odd_spec in O. destruct O as [h Hh].
      assert (H1 : ((N - 1) / 2 = h)%Z) by (subst N; Z.div_mod_to_equations; lia).
      assert (H2 : (N / 2 = h)%Z) by (subst N; Z.div_mod_to_equations; lia).
      rewrite H1, H2.
      replace (Z.to_nat h) with (S (Z.to_nat (h - 1))) by lia.
      rewrite sumZ_snoc. f_equal. f_equal. lia.
  Qed.

  Definition conv_term (Zi : Z -> cplx K) (p : Z -> K) (j k : Z) : K :=
    sumZ 0 nN (fun u => p u * kern_term Zi k (j - u)).

  Lemma wl_low (Zi F stale : Z -> cplx K) k : (0 <= k < N / 2)%Z -> wakelosses Zi F stale k = cmul (Zi k) (F k).
  Proof.
    intros Hk. unfold DFT.wakelosses.
    destruct ((0 <=? k)%Z && (k <? N / 2)%Z)%bool eqn:E; [reflexivity|].
    apply andb_false_iff in E. destruct E as [E|E]; lia.
  Qed.
  Lemma wl_top (Zi F stale : Z -> cplx K) : wakelosses Zi F stale (N / 2)%Z = stale (N / 2)%Z.
  Proof.
    unfold DFT.wakelosses.
    destruct ((0 <=? N / 2)%Z && (N / 2 <? N / 2)%Z)%bool eqn:E; [|reflexivity].
    apply andb_true_iff in E. destruct E as [_ E]. lia.
  Qed.
  Lemma ff_low p k : (0 <= k <= N / 2)%Z -> formfactor p k = r2c p k.
  Proof.
    intros Hk. unfold DFT.formfactor.
    destruct ((0 <=? k)%Z && (k <=? N / 2)%Z)%bool eqn:E; [reflexivity|].
    apply andb_false_iff in E. destruct E as [E|E]; lia.
  Qed.
  Lemma ff_high p k : (N / 2 < k)%Z -> formfactor p k = czero.
  Proof.
    intros Hk. unfold DFT.formfactor.
    destruct ((0 <=? k)%Z && (k <=? N / 2)%Z)%bool eqn:E; [|reflexivity].
    apply andb_true_iff in E. destruct E as [_ E]. lia.
  Qed.

  Lemma half_pos : (1 <= N / 2)%Z.
  Proof. Z.div_mod_to_equations; lia. Qed.

  (** the padded wake, frequency by frequency (fresh top cell) *)
  Lemma wake_padded_terms (Zi stale : Z -> cplx K) (p : Z -> K) j :
    stale (N / 2)%Z = czero ->
    wake_padded Zi stale p j
    = conv_term Zi p j 0 + two * sumZ 1 (Z.to_nat (N / 2 - 1)) (conv_term Zi p j).
  Proof.
    intros Hst. pose proof half_pos as Hh.
    unfold DFT.wake_padded, DFT.c2r. rewrite half_range_split.
    rewrite !wl_top, Hst. cbn [fst snd czero].
    rewrite (wl_low _ _ _ 0%Z) by lia. rewrite (ff_low p 0%Z) by lia.
    assert (E0 : fst (cmul (Zi 0%Z) (r2c p 0%Z)) = conv_term Zi p j 0).
    { pose proof (c2r_term p (Zi 0%Z) 0%Z j) as T. rewrite Z.mul_0_r, cs_0, sn_0 in T.
      unfold conv_term, kern_term. rewrite <- T. ring. }
    rewrite E0.
    rewrite (sumZ_ext K 1 (Z.to_nat (N / 2 - 1)) _ (conv_term Zi p j)).
    2:{ intros k Hk. rewrite wl_low by lia. rewrite ff_low by lia.
        rewrite c2r_term. reflexivity. }
    destruct (Z.even N); ring.
  Qed.

  Lemma conv_kernel_terms (Zi : Z -> cplx K) (p : Z -> K) j :
    sumZ 0 nN (fun u => p u * kernel Zi (j - u))
    = conv_term Zi p j 0 + two * sumZ 1 (Z.to_nat (N / 2 - 1)) (conv_term Zi p j).
  Proof.
    unfold conv_term. rewrite <- sumZ_swap, <- sumZ_scale, <- sumZ_add.
    apply sumZ_ext. intros u _. unfold kernel. rewrite kern_term_0, sumZ_scale. ring.
  Qed.

  (** ** C06: the padded wake is the circular convolution of the padded profile with kappa *)
  Theorem wake_padded_convolution (Zi stale : Z -> cplx K) (p : Z -> K) j :
    stale (N / 2)%Z = czero ->
    wake_padded Zi stale p j = sumZ 0 nN (fun u => p u * kernel Zi (j - u)).
  Proof. intros Hst. rewrite wake_padded_terms by exact Hst. symmetry. apply conv_kernel_terms. Qed.
End DFTP.
