(** * The copies of Model/WakeUpdate.v in closed form, over the GENERATED index functions.

    [copy_loop] with the generated indices is "first [cnt] cells from the source, the rest untouched";
    hence Identity::apply is the copy of all [nb*nx*ny] cells, and WakePotentialMap::update leaves, in
    the generated program order, the offset vector [wp] on [0, nb*n) and the table [updateSM n it wp]
    on [0, nb*n*it).  The lemmas about the generated functions are proved by [ring]/[lia]/computation
    only: a re-associated product survives, a changed count, stride, order or direction does not. *)
From Coq Require Import List ZArith QArith Qcanon Lia Bool.
From Inovesa Require Import Base.FieldKit Base.Float32 Gen.Gen_Coeffs Model.Kick Model.RunKinds
  Gen.Gen_WakeUpdate Gen.Gen_Identity Gen.Gen_KickIndex Model.Copy Model.WakeUpdate Proofs.WeightsP Proofs.KickP Proofs.KickGridP
  Proofs.CopyP.
Import ListNotations.
Local Open Scope Z_scope.

(** ** the generated geometry of the wake kick map *)
Lemma wk_kd_model n nb : wk_kd n nb = n.
Proof. reflexivity. Qed.
Lemma wk_pd_model n nb : wk_pd n nb = n.
Proof. reflexivity. Qed.
Lemma wk_xsize_model n nb : wk_xsize n nb = n.
Proof. reflexivity. Qed.
Lemma wk_offset_size_model n nb : wk_offset_size n nb = nb * n.
Proof. unfold wk_offset_size. rewrite wk_kd_model, wk_pd_model. unfold km_offset_size. ring. Qed.
Lemma wu_count_model nb n : wu_count nb n = nb * n.
Proof. unfold wu_count. ring. Qed.
Lemma wu_src_model nb n i : wu_src_idx nb n i = i.
Proof. unfold wu_src_idx. ring. Qed.
Lemma wu_dst_model nb n i : wu_dst_idx nb n i = i.
Proof. unfold wu_dst_idx. ring. Qed.
Lemma usm_bound_model size it : usm_bound size it it = size.
Proof. unfold usm_bound. ring. Qed.
Lemma usm_read_model it i : usm_offset_read it it i = i.
Proof. unfold usm_offset_read. ring. Qed.
Lemma usm_write_model it i j1 : usm_hinfo_write it it i j1 = i * it + j1.
Proof. unfold usm_hinfo_write. ring. Qed.
(** the bunch whose table block bunch [b] reads: [_lastbunch] is the last bunch, so every bunch
    reads its own block *)
Lemma km_lastbunch_model nb b : 0 <= b < nb -> Z.min b (km_lastbunch nb) = b.
Proof. intros H. unfold km_lastbunch. lia. Qed.
(** the program order: first the copy, then the table *)
Lemma wu_prog_model : wu_prog = [WUCopy; WUUpdateSM].
Proof. reflexivity. Qed.
(** [_wakepotential] has one row per bunch and one column per position; the read-back loops visit all
    of it; C order *)
Lemma wp_flat_model nb nx b x : wp_flat nb nx b x = b * nx + x.
Proof. unfold wp_flat, wp_row, wp_col, wp_extent1. ring. Qed.
Lemma wp_extents_model nb nx :
  wp_extent0 nb nx = nb /\ wp_extent1 nb nx = nx /\ wp_bound_b nb nx = nb /\ wp_bound_x nb nx = nx.
Proof. unfold wp_extent0, wp_extent1, wp_bound_b, wp_bound_x. repeat split; ring. Qed.

(** ** KickMap::updateSM as loops = [updateSM] of Model/Kick.v on the entries it writes *)
Lemma inner_loop_nat (kd it : Z) (o : Qc) (i : Z) (m : nat) (h : Z -> Z * Qc) k :
  fold_left (fun h' j1 => upd h' (i * it + j1) (sm_entry kd it o j1)) (zrange (Z.of_nat m)) h k =
  if in_rng (Z.of_nat m) (k - i * it) then sm_entry kd it o (k - i * it) else h k.
Proof.
  induction m as [|m IH].
  - cbn. rewrite in_rng_false by lia. reflexivity.
  - rewrite zrange_S, fold_left_app. cbn [fold_left]. unfold upd at 1.
    destruct (Z.eqb_spec k (i * it + Z.of_nat m)) as [->|Ne].
    + rewrite in_rng_true by lia. f_equal. lia.
    + rewrite IH. destruct (in_rng (Z.of_nat m) (k - i * it)) eqn:E.
      * apply in_rng_spec in E. rewrite in_rng_true by lia. reflexivity.
      * destruct (in_rng (Z.of_nat (S m)) (k - i * it)) eqn:E'; [|reflexivity].
        apply in_rng_spec in E'. rewrite in_rng_true in E by lia. discriminate.
Qed.

Lemma inner_loop_Z (kd it : Z) (o : Qc) (i cnt : Z) (h : Z -> Z * Qc) k :
  0 <= cnt ->
  fold_left (fun h' j1 => upd h' (i * it + j1) (sm_entry kd it o j1)) (zrange cnt) h k =
  if in_rng cnt (k - i * it) then sm_entry kd it o (k - i * it) else h k.
Proof. intros Hc. rewrite <- (Z2Nat.id cnt) by exact Hc. apply inner_loop_nat. Qed.

Lemma outer_loop_nat (kd it : Z) (offs : Z -> Qc) (m : nat) (H : Z -> Z * Qc) k :
  0 < it ->
  fold_left (fun h i => fold_left (fun h' j1 => upd h' (i * it + j1) (sm_entry kd it (offs i) j1)) (zrange it) h)
            (zrange (Z.of_nat m)) H k =
  if in_rng (Z.of_nat m * it) k then updateSM kd it offs k else H k.
Proof.
  intros Hit. induction m as [|m IH].
  - cbn. rewrite in_rng_false by lia. reflexivity.
  - rewrite zrange_S, fold_left_app. cbn [fold_left].
    rewrite inner_loop_Z by lia.
    destruct (in_rng it (k - Z.of_nat m * it)) eqn:E.
    + apply in_rng_spec in E. rewrite in_rng_true by nia.
      unfold updateSM. replace k with (Z.of_nat m * it + (k - Z.of_nat m * it)) at 2 3 by ring.
      rewrite div_lin, mod_lin by lia. reflexivity.
    + rewrite IH. destruct (in_rng (Z.of_nat m * it) k) eqn:E1.
      * apply in_rng_spec in E1. rewrite in_rng_true by nia. reflexivity.
      * destruct (in_rng (Z.of_nat (S m) * it) k) eqn:E2; [|reflexivity].
        apply in_rng_spec in E2. exfalso.
        assert (~ (0 <= k < Z.of_nat m * it)) by (intros C; rewrite in_rng_true in E1 by exact C; discriminate).
        assert (~ (0 <= k - Z.of_nat m * it < it)) by (intros C; rewrite in_rng_true in E by exact C; discriminate).
        nia.
Qed.

Theorem updateSM_loop_spec kd it size offs H k :
  0 < it -> 0 <= size ->
  updateSM_loop kd it size offs H k = if in_rng (size * it) k then updateSM kd it offs k else H k.
Proof.
  intros Hit Hs. unfold updateSM_loop. rewrite usm_bound_model.
  rewrite (fold_left_ext _ (fun h i => fold_left (fun h' j1 => upd h' (i * it + j1) (sm_entry kd it (offs i) j1)) (zrange it) h)).
  - rewrite <- (Z2Nat.id size) by exact Hs. apply outer_loop_nat. exact Hit.
  - intros h i. apply fold_left_ext. intros h' j1. rewrite usm_write_model, usm_read_model. reflexivity.
Qed.

(** ** WakePotentialMap::update in closed form *)
Theorem wake_offsets_spec n nb it wp i :
  wake_offsets n nb it wp i = if in_rng (nb * n) i then wp i else 0%Qc.
Proof.
  unfold wake_offsets, wake_update. rewrite wu_prog_model. cbn [fold_left wu_exec km_offset km_init].
  rewrite wk_xsize_model.
  rewrite copy_loop_id by (intros j; first [apply wu_src_model | apply wu_dst_model]).
  rewrite wu_count_model. reflexivity.
Qed.

Theorem wake_table_spec n nb it wp k :
  0 < it -> 0 <= n -> 0 <= nb -> 0 <= k < nb * n * it ->
  wake_table n nb it wp k = updateSM n it wp k.
Proof.
  intros Hit Hn Hnb Hk. unfold wake_table, wake_update. rewrite wu_prog_model.
  cbn [fold_left wu_exec km_offset km_hinfo km_init].
  rewrite wk_kd_model, wk_offset_size_model, wk_xsize_model.
  rewrite updateSM_loop_spec by nia. rewrite in_rng_true by lia.
  unfold updateSM.
  rewrite copy_loop_id by (intros j; first [apply wu_src_model | apply wu_dst_model]).
  rewrite wu_count_model. rewrite in_rng_true; [reflexivity|].
  split; [apply Z.div_pos; lia|]. apply Z.div_lt_upper_bound; lia.
Qed.

(** ** what the wake kick reads for bunch [b] (C08 item 3): the offset-vector entry and the table
    row that KickMap::apply's y branch (GENERATED index [ky_hinfo], sharing rule
    [min(b,_lastbunch)] with the GENERATED [_lastbunch]) reads for bunch [b], row [x], stencil point
    [j], hold the wake potential [_wakepotential[b][x]] and the interpolation row built from it *)
Theorem wake_kick_reads_own_potential n nb it wp b x y j :
  valid_it it -> 0 < n -> 0 <= b < nb -> 0 <= x < n -> 0 <= j < it ->
  let r := Z.min b (km_lastbunch nb) * wk_pd n nb + x in
  wake_offsets n nb it wp r = wp (wp_flat nb n b x) /\
  wake_table n nb it wp (ky_hinfo (wk_kd n nb) (wk_pd n nb) it (km_lastbunch nb) b x y j) =
  sm_entry n it (wp (wp_flat nb n b x)) j.
Proof.
  intros Hv Hn Hb Hx Hj r. destruct (valid_it_range it Hv) as [Hi _].
  assert (Er : r = b * n + x) by (unfold r; rewrite km_lastbunch_model, wk_pd_model by lia; reflexivity).
  assert (Hr : 0 <= b * n + x < nb * n) by nia.
  assert (Hk : 0 <= (b * n + x) * it + j < nb * n * it) by nia.
  rewrite wp_flat_model. split.
  - rewrite wake_offsets_spec, Er. rewrite in_rng_true by exact Hr. reflexivity.
  - (* shape-independent: the generated index is normalised by [ring], whatever its association *)
    assert (Eh : ky_hinfo (wk_kd n nb) (wk_pd n nb) it (km_lastbunch nb) b x y j = (b * n + x) * it + j).
    { unfold ky_hinfo. rewrite km_lastbunch_model by lia. rewrite wk_pd_model, ?wk_kd_model. ring. }
    rewrite Eh.
    rewrite wake_table_spec by (try exact Hk; lia).
    unfold updateSM. rewrite div_lin, mod_lin by lia. reflexivity.
Qed.
