(** * First and second energy moments under the 3-point Fokker-Planck step (C04.1). *)
From Coq Require Import List ZArith Lia Bool Ring Field.
From Inovesa Require Import Base.FieldKit Base.Sums Gen.Gen_FPStencil Model.FokkerPlanck Proofs.FPGridP
  Proofs.FokkerPlanckP.
Import ListNotations.
Local Open Scope Z_scope.

Section Moments.
  Variable K : Fld.
  Add Field KFmo : (@Fth K).
  Local Open Scope F_scope.
  Variables (e1 delta : K) (p : Z -> K).
  Variables (v n lo_end m : Z).
  Notation dmp := (has_damp v).
  Notation dif := (has_diff v).
  Notation H3 := (H3 K e1 delta p v n lo_end m).
  Notation cw3 := (cw3 K e1 delta p v).
  Notation uniform := (uniform K delta p).
  Notation S0 := (S0 K n). Notation S1 := (S1 K p n). Notation S2 := (S2 K p n).

  Lemma cw3_p k : uniform -> delta <> 0 -> cw3 p k = (1 - opt dmp e1) * p k.
  Proof.
    intros Hax Hd. unfold cw3, w3, row3. cbn [nth snd]. cbv beta. rewrite (Hax k), (p_pred K delta p Hax k).
    unfold opt, e1_2d, e1_d2. destruct (has_damp v), (has_diff v); field; repeat split; (exact Hd || fld_nz1 K).
  Qed.

  Lemma cw3_p2 k : uniform -> delta <> 0 ->
    cw3 (fun j => p j * p j) k =
    (1 - two * opt dmp e1) * (p k * p k) + (opt dif (two * e1) - opt dmp (e1 * (delta * delta))).
  Proof.
    intros Hax Hd. unfold cw3, w3, row3. cbn [nth snd]. cbv beta. rewrite (Hax k), (p_pred K delta p Hax k).
    unfold opt, e1_2d, e1_d2, two. destruct (has_damp v), (has_diff v); field; repeat split; (exact Hd || fld_nz1 K).
  Qed.

  Lemma fp3_moment1 (r : Z -> K) : (2 <= n < 2 ^ 32)%Z -> supp r 2 (n - 2) -> uniform -> delta <> 0 ->
    S1 (fp_col_out 3 H3 r) = (1 - opt dmp e1) * S1 r.
  Proof.
    intros Hn Hs Hax Hd. unfold S1.
    rewrite (fp3_weighted K e1 delta p v n lo_end m) by assumption. rewrite <- sumZ_scale.
    apply sumZ_ext; intros k Hk. rewrite cw3_p by assumption. ring.
  Qed.

  Lemma fp3_moment2 (r : Z -> K) : (2 <= n < 2 ^ 32)%Z -> supp r 2 (n - 2) -> uniform -> delta <> 0 ->
    S2 (fp_col_out 3 H3 r) =
    (1 - two * opt dmp e1) * S2 r + (opt dif (two * e1) - opt dmp (e1 * (delta * delta))) * S0 r.
  Proof.
    intros Hn Hs Hax Hd. unfold S2, S0.
    pose proof (fp3_weighted K e1 delta p v n lo_end m r (fun j => p j * p j) Hn Hs) as W. cbv beta in W. rewrite W.
    rewrite <- !sumZ_scale, <- sumZ_add.
    apply sumZ_ext; intros k Hk. rewrite cw3_p2 by assumption. ring.
  Qed.

End Moments.
