(** The set-up of main() and the abort flag (C14): lemmas about Model/Setup.v for every kernel
    record, every environment of opaque statements, every signal schedule.

    What the checker [su_ok] demands of a set-up skeleton: no condition reads the flag; the only
    driver calls are hook points and the two PhaseSpace calls of the initial renormalisation;
    `Display::abort = true` occurs in exception handlers only.  (That the flag is not accessed in
    any other way is what the translator guarantees: it refuses every other reference.) *)
From Coq Require Import List ZArith Bool Lia.
From Inovesa Require Import Model.Driver Model.Setup Proofs.DriverP.
Import ListNotations.
Local Open Scope Z_scope.

Definition su_call_ok (c : call) : bool :=
  match c with Point _ | UpdateXProj | Normalize => true | _ => false end.

Definition cond_ok (c : scond) : bool :=
  match c with CGuard g => negb (is_abort g) | COpq _ => true end.

(** [inh]: inside an exception handler *)
Fixpoint su_chk (inh : bool) (b : sblk) : bool :=
  match b with
  | SDone => true
  | SCall c r => su_call_ok c && su_chk inh r
  | SSetAbort r => inh && su_chk inh r
  | SReturn _ => true
  | SOpq _ r => su_chk inh r
  | SIf c t e r => cond_ok c && su_chk inh t && su_chk inh e && su_chk inh r
  | STry t h r => su_chk inh t && su_chk true h && su_chk inh r
  end.
Definition su_ok (b : sblk) : bool := su_chk false b.

(** exit statuses a skeleton can return *)
Fixpoint returns (b : sblk) : list Z :=
  match b with
  | SDone => []
  | SCall _ r | SSetAbort r | SOpq _ r => returns r
  | SReturn z => [z]
  | SIf _ t e r => returns t ++ returns e ++ returns r
  | STry t h r => returns t ++ returns h ++ returns r
  end.

(** guards the skeleton evaluates *)
Fixpoint su_guards (b : sblk) : list guard :=
  match b with
  | SDone | SReturn _ => []
  | SCall _ r | SSetAbort r | SOpq _ r => su_guards r
  | SIf c t e r => (match c with CGuard g => [g] | COpq _ => [] end) ++ su_guards t ++ su_guards e ++ su_guards r
  | STry t h r => su_guards t ++ su_guards h ++ su_guards r
  end.

Section SU.
  Variable K : kern.
  Notation st := (st K).

  (** the set-up reads of the configuration only what its guards read *)
  Lemma sexec_cfg sig ev c1 c2 b : forall inh, su_chk inh b = true ->
    (forall g (s : st), In g (su_guards b) -> gval c1 s g = gval c2 s g) ->
    forall (s : st), sexec sig ev c1 b s = sexec sig ev c2 b s.
  Proof.
    assert (Hc : forall c (s : st), su_call_ok c = true -> exec sig c1 c s = exec sig c2 c s)
      by (intros c s H; destruct c; try discriminate H; reflexivity).
    induction b as [|c r IH|r IH|z|n r IH|c t IHt e IHe r IHr|t IHt h IHh r IHr]; intros inh Hk Hg s; cbn [sexec su_chk su_guards] in *; auto.
    - apply andb_true_iff in Hk. destruct Hk as [H1 H2]. rewrite (Hc c s H1). eapply IH; eauto.
    - apply andb_true_iff in Hk. destruct Hk as [H1 H2]. eapply IH; eauto.
    - destruct (thr ev n); auto. eapply IH; eauto.
    - repeat (apply andb_true_iff in Hk; destruct Hk as [Hk ?]).
      assert (Gt : forall s, sexec sig ev c1 t s = sexec sig ev c2 t s)
        by (intros s0; eapply IHt; eauto; intros g s1 Hi; apply Hg; rewrite !in_app_iff; auto).
      assert (Ge : forall s, sexec sig ev c1 e s = sexec sig ev c2 e s)
        by (intros s0; eapply IHe; eauto; intros g s1 Hi; apply Hg; rewrite !in_app_iff; auto).
      assert (Gr : forall s, sexec sig ev c1 r s = sexec sig ev c2 r s)
        by (intros s0; eapply IHr; eauto; intros g s1 Hi; apply Hg; rewrite !in_app_iff; auto).
      destruct c as [g|n].
      + rewrite (Hg g s) by (left; reflexivity). destruct (gval c2 s g); [rewrite Gt | rewrite Ge];
          match goal with |- context [match ?x with _ => _ end] => destruct x end; auto.
      + destruct (thr ev n); auto. destruct (cnd ev n); [rewrite Gt | rewrite Ge];
          match goal with |- context [match ?x with _ => _ end] => destruct x end; auto.
    - repeat (apply andb_true_iff in Hk; destruct Hk as [Hk ?]).
      assert (Gt : forall s, sexec sig ev c1 t s = sexec sig ev c2 t s)
        by (intros s0; eapply IHt; eauto; intros g s1 Hi; apply Hg; rewrite !in_app_iff; auto).
      assert (Gh : forall s, sexec sig ev c1 h s = sexec sig ev c2 h s)
        by (intros s0; eapply IHh; eauto; intros g s1 Hi; apply Hg; rewrite !in_app_iff; auto).
      assert (Gr : forall s, sexec sig ev c1 r s = sexec sig ev c2 r s)
        by (intros s0; eapply IHr; eauto; intros g s1 Hi; apply Hg; rewrite !in_app_iff; auto).
      rewrite Gt. destruct (sexec sig ev c2 t s); auto. rewrite Gh. destruct (sexec sig ev c2 h s0); auto.
  Qed.

  (** the flag is never cleared: set before or signalled at a point passed => set afterwards *)
  Definition flagmono (sig : Z -> bool) (s s' : st) : Prop :=
    pc s <= pc s' /\ (abort s = true \/ sig_between sig (pc s) (pc s') -> abort s' = true).

  Lemma flagrel_mono sig (s s' : st) : flagrel K sig s s' -> flagmono sig s s'.
  Proof. intros (L & E). split; auto. intros H. apply E. exact H. Qed.

  Lemma flagmono_refl sig (s : st) : flagmono sig s s.
  Proof. apply flagrel_mono, flagrel_refl. Qed.

  Lemma flagmono_trans sig (a b c : st) : flagmono sig a b -> flagmono sig b c -> flagmono sig a c.
  Proof.
    unfold flagmono, sig_between. intros (L1 & E1) (L2 & E2). split; [lia|].
    intros [H|(i & Hi & Hs)]; apply E2.
    - left. apply E1. auto.
    - destruct (Z_lt_dec i (pc b)).
      + left. apply E1. right. exists i. split; auto; lia.
      + right. exists i. split; auto; lia.
  Qed.

  (** opaque statements do not read the flag: their effect commutes with setting it *)
  Definition flagblind (ev : senv K) : Prop :=
    forall n b (s : st), eff ev n (set_abort b s) = set_abort b (eff ev n s).

  Lemma frame_fields (ev : senv K) n (s : st) : frame ev ->
    abort (eff ev n s) = abort s /\ pc (eff ev n s) = pc s /\ status (eff ev n s) = status s /\
    file (eff ev n s) = file s /\ k (eff ev n s) = k s /\ trace (eff ev n s) = trace s.
  Proof. intros F. specialize (F n s). unfold ctl in F. inversion F. repeat split; auto. Qed.

  (** ** a relation that every statement of the skeleton respects is respected by the skeleton *)
  Lemma sexec_inv (P : st -> st -> Prop) sig ev cf :
    (forall s, P s s) -> (forall a b c, P a b -> P b c -> P a c) ->
    (forall c s, su_call_ok c = true -> P s (exec sig cf c s)) ->
    (forall s, P s (set_abort true s)) ->
    (forall z s, P s (set_status (Some z) s)) ->
    (forall n s, P s (eff ev n s)) ->
    forall b inh, su_chk inh b = true -> forall s, P s (rstate (sexec sig ev cf b s)).
  Proof.
    intros Hr Ht Hc Ha Hs He.
    induction b as [|c r IH|r IH|z|n r IH|c t IHt e IHe r IHr|t IHt h IHh r IHr]; intros inh Hk s; cbn [sexec su_chk] in *.
    - apply Hr.
    - apply andb_true_iff in Hk. destruct Hk as [H1 H2]. eapply Ht; [apply Hc; exact H1 | eapply IH; eauto].
    - apply andb_true_iff in Hk. destruct Hk as [H1 H2]. eapply Ht; [apply Ha | eapply IH; eauto].
    - apply Hs.
    - destruct (thr ev n); cbn [rstate]; [apply He|]. eapply Ht; [apply He | eapply IH; eauto].
    - repeat (apply andb_true_iff in Hk; destruct Hk as [Hk ?]).
      assert (G : forall (b0 : bool) (s1 : st), P s1 (rstate (match (if b0 then sexec sig ev cf t s1 else sexec sig ev cf e s1) with
                                               | Norm s2 => sexec sig ev cf r s2 | x => x end))).
      { intros b0 s1. destruct b0.
        - specialize (IHt inh ltac:(assumption) s1). destruct (sexec sig ev cf t s1); cbn [rstate] in *; auto.
          eapply Ht; [exact IHt | eapply IHr; eauto].
        - specialize (IHe inh ltac:(assumption) s1). destruct (sexec sig ev cf e s1); cbn [rstate] in *; auto.
          eapply Ht; [exact IHe | eapply IHr; eauto]. }
      destruct c as [g|n].
      + apply G.
      + destruct (thr ev n); cbn [rstate]; [apply He|]. eapply Ht; [apply He | apply G].
    - repeat (apply andb_true_iff in Hk; destruct Hk as [Hk ?]).
      specialize (IHt inh ltac:(assumption) s). destruct (sexec sig ev cf t s) as [s1|s1|s1]; cbn [rstate] in *; auto.
      + eapply Ht; [exact IHt | eapply IHr; eauto].
      + specialize (IHh true ltac:(assumption) s1). destruct (sexec sig ev cf h s1) as [s2|s2|s2]; cbn [rstate] in *.
        * eapply Ht; [exact IHt|]. eapply Ht; [exact IHh | eapply IHr; eauto].
        * eapply Ht; eauto.
        * eapply Ht; eauto.
  Qed.

  Lemma su_call_flagrel sig cf c (s : st) : flagrel K sig s (exec sig cf c s).
  Proof. apply flagrel_exec. Qed.

  (** C14 (set-up): whatever the opaque statements do, whichever path is taken, however the
      set-up is left - a flag that is set stays set, and a signal at any hook point of the
      set-up sets it *)
  Theorem setup_never_clears_flag sig ev cf b (s : st) : frame ev -> su_ok b = true ->
    flagmono sig s (rstate (sexec sig ev cf b s)).
  Proof.
    intros F Hk. apply (sexec_inv (flagmono sig) sig ev cf) with (inh := false).
    - apply flagmono_refl.
    - apply flagmono_trans.
    - intros c s0 _. apply flagrel_mono, flagrel_exec.
    - intros s0. unfold flagmono. destruct s0; cbn. split; [lia|auto].
    - intros z s0. apply flagrel_mono, flagrel_same; destruct s0; reflexivity.
    - intros n s0. destruct (frame_fields ev n s0 F) as (A & B & _). apply flagrel_mono, flagrel_same; auto.
    - exact Hk.
  Qed.

  (** ... and without an exception the flag is set only by a signal *)
  Lemma sexec_nothrow_inv (P : st -> st -> Prop) sig ev cf :
    (forall n, thr ev n = false) ->
    (forall s, P s s) -> (forall a b c, P a b -> P b c -> P a c) ->
    (forall c s, su_call_ok c = true -> P s (exec sig cf c s)) ->
    (forall z s, P s (set_status (Some z) s)) ->
    (forall n s, P s (eff ev n s)) ->
    forall b, su_chk false b = true -> forall s,
      P s (rstate (sexec sig ev cf b s)) /\ (forall s', sexec sig ev cf b s <> Thr s').
  Proof.
    intros Hn Hr Ht Hc Hs He.
    induction b as [|c r IH|r IH|z|n r IH|c t IHt e IHe r IHr|t IHt h IHh r IHr]; intros Hk s; cbn [sexec su_chk] in *.
    - split; [apply Hr | discriminate].
    - apply andb_true_iff in Hk. destruct Hk as [H1 H2]. destruct (IH H2 (exec sig cf c s)) as [A B].
      split; auto. eapply Ht; [apply Hc; exact H1 | exact A].
    - discriminate.
    - split; [apply Hs | discriminate].
    - rewrite Hn. destruct (IH Hk (eff ev n s)) as [A B]. split; auto. eapply Ht; [apply He | exact A].
    - repeat (apply andb_true_iff in Hk; destruct Hk as [Hk ?]).
      assert (G : forall (b0 : bool) (s1 : st),
                 P s1 (rstate (match (if b0 then sexec sig ev cf t s1 else sexec sig ev cf e s1) with
                               | Norm s2 => sexec sig ev cf r s2 | x => x end)) /\
                 (forall s', match (if b0 then sexec sig ev cf t s1 else sexec sig ev cf e s1) with
                             | Norm s2 => sexec sig ev cf r s2 | x => x end <> Thr s')).
      { intros b0 s1. destruct b0.
        - destruct (IHt ltac:(assumption) s1) as [A B]. destruct (sexec sig ev cf t s1) as [s2|s2|s2]; cbn [rstate] in *.
          + destruct (IHr ltac:(assumption) s2) as [A' B']. split; auto. eapply Ht; eauto.
          + split; auto; discriminate.
          + exfalso. eapply B; eauto.
        - destruct (IHe ltac:(assumption) s1) as [A B]. destruct (sexec sig ev cf e s1) as [s2|s2|s2]; cbn [rstate] in *.
          + destruct (IHr ltac:(assumption) s2) as [A' B']. split; auto. eapply Ht; eauto.
          + split; auto; discriminate.
          + exfalso. eapply B; eauto. }
      destruct c as [g|n].
      + apply G.
      + rewrite Hn. destruct (G (cnd ev n) (eff ev n s)) as [A B]. split; auto. eapply Ht; [apply He | exact A].
    - repeat (apply andb_true_iff in Hk; destruct Hk as [Hk ?]).
      destruct (IHt ltac:(assumption) s) as [A B]. destruct (sexec sig ev cf t s) as [s1|s1|s1]; cbn [rstate] in *.
      + destruct (IHr ltac:(assumption) s1) as [A' B']. split; auto. eapply Ht; eauto.
      + split; auto; discriminate.
      + exfalso. eapply B; eauto.
  Qed.

  Theorem setup_flag_only_by_signal sig ev cf b (s : st) : frame ev -> su_ok b = true ->
    (forall n, thr ev n = false) ->
    flagrel K sig s (rstate (sexec sig ev cf b s)) /\ (forall s', sexec sig ev cf b s <> Thr s').
  Proof.
    intros F Hk Hn. apply (sexec_nothrow_inv (flagrel K sig) sig ev cf).
    - exact Hn.
    - apply flagrel_refl.
    - apply flagrel_trans.
    - intros c s0 _. apply flagrel_exec.
    - intros z s0. apply flagrel_same; destruct s0; reflexivity.
    - intros n s0. destruct (frame_fields ev n s0 F) as (A & B & _). apply flagrel_same; auto.
    - exact Hk.
  Qed.

  (** ** signals do not steer the set-up: same path, same state up to the flag *)
  Definition same_kind (r1 r2 : res K) : Prop :=
    match r1, r2 with
    | Norm a, Norm b | Ret a, Ret b | Thr a, Thr b => clr K a = clr K b
    | _, _ => False
    end.

  Lemma clr_set_abort b (s : st) : clr K (set_abort b s) = clr K s.
  Proof. destruct s; reflexivity. Qed.

  Lemma clr_eq_iff (s1 s2 : st) : clr K s1 = clr K s2 -> s1 = set_abort (abort s1) s2.
  Proof. unfold clr. destruct s1, s2; cbn. intro H; inversion H; subst. reflexivity. Qed.

  Lemma eff_clr ev n (s1 s2 : st) : flagblind ev -> clr K s1 = clr K s2 -> clr K (eff ev n s1) = clr K (eff ev n s2).
  Proof.
    intros B H. rewrite (clr_eq_iff _ _ H). rewrite B. apply clr_set_abort.
  Qed.

  Theorem setup_independent_of_signals sig1 sig2 ev cf b : flagblind ev -> forall inh, su_chk inh b = true ->
    forall (s1 s2 : st), clr K s1 = clr K s2 -> same_kind (sexec sig1 ev cf b s1) (sexec sig2 ev cf b s2).
  Proof.
    intros FB.
    induction b as [|c r IH|r IH|z|n r IH|c t IHt e IHe r IHr|t IHt h IHh r IHr]; intros inh Hk s1 s2 H; cbn [sexec su_chk same_kind] in *.
    - exact H.
    - apply andb_true_iff in Hk. destruct Hk as [H1 H2]. eapply IH; eauto. apply exec_clr; auto.
    - apply andb_true_iff in Hk. destruct Hk as [H1 H2]. eapply IH; eauto; rewrite !clr_set_abort; exact H.
    - destruct s1, s2; unfold clr in *; cbn in *. inversion H; subst. reflexivity.
    - destruct (thr ev n); cbn [same_kind]; [apply eff_clr; auto|]. eapply IH; eauto. apply eff_clr; auto.
    - repeat (apply andb_true_iff in Hk; destruct Hk as [Hk ?]).
      assert (G : forall (b0 : bool) (a1 a2 : st), clr K a1 = clr K a2 ->
                 same_kind (match (if b0 then sexec sig1 ev cf t a1 else sexec sig1 ev cf e a1) with
                            | Norm s2 => sexec sig1 ev cf r s2 | x => x end)
                           (match (if b0 then sexec sig2 ev cf t a2 else sexec sig2 ev cf e a2) with
                            | Norm s2 => sexec sig2 ev cf r s2 | x => x end)).
      { intros b0 a1 a2 Ha. destruct b0.
        - specialize (IHt inh ltac:(assumption) a1 a2 Ha).
          destruct (sexec sig1 ev cf t a1), (sexec sig2 ev cf t a2); cbn [same_kind] in *; try contradiction; auto.
          eapply IHr; eauto.
        - specialize (IHe inh ltac:(assumption) a1 a2 Ha).
          destruct (sexec sig1 ev cf e a1), (sexec sig2 ev cf e a2); cbn [same_kind] in *; try contradiction; auto.
          eapply IHr; eauto. }
      destruct c as [g|n].
      + cbn [cond_ok] in *. rewrite (gval_clr K cf g s1 s2 H) by (apply negb_true_iff; assumption). apply G; auto.
      + destruct (thr ev n); cbn [same_kind]; [apply eff_clr; auto|]. apply G. apply eff_clr; auto.
    - repeat (apply andb_true_iff in Hk; destruct Hk as [Hk ?]).
      specialize (IHt inh ltac:(assumption) s1 s2 H).
      destruct (sexec sig1 ev cf t s1) as [a1|a1|a1], (sexec sig2 ev cf t s2) as [a2|a2|a2]; cbn [same_kind] in *; try contradiction; auto.
      + eapply IHr; eauto.
      + specialize (IHh true ltac:(assumption) a1 a2 IHt).
        destruct (sexec sig1 ev cf h a1) as [b1|b1|b1], (sexec sig2 ev cf h a2) as [b2|b2|b2]; cbn [same_kind] in *; try contradiction; auto.
        eapply IHr; eauto.
  Qed.

  (** ** how the set-up can end *)
  (** the step counters, the file and the free list are untouched; the status is set exactly by a return *)
  Definition quiet (s s' : st) : Prop :=
    file s' = file s /\ k s' = k s /\ (status s' = status s \/ exists z, status s' = Some z).

  Theorem setup_leaves_file_alone sig ev cf b (s : st) : frame ev -> su_ok b = true ->
    file (rstate (sexec sig ev cf b s)) = file s /\ k (rstate (sexec sig ev cf b s)) = k s.
  Proof.
    intros F Hk.
    apply (sexec_inv (fun a b => file b = file a /\ k b = k a) sig ev cf) with (inh := false).
    - intros s0. split; reflexivity.
    - intros a b0 c [A1 A2] [B1 B2]. split; congruence.
    - intros c s0 Hc. destruct c; try discriminate Hc; destruct s0; cbn; auto.
    - intros s0. destruct s0; cbn; auto.
    - intros z s0. destruct s0; cbn; auto.
    - intros n s0. destruct (frame_fields ev n s0 F) as (_ & _ & _ & A & B & _). auto.
    - exact Hk.
  Qed.

  (** a `return` of the set-up sets one of the exit statuses that occur in it; leaving the set-up
      normally leaves the status unset *)
  Lemma sexec_status sig ev cf : frame ev -> forall b inh, su_chk inh b = true -> forall (s : st), status s = None ->
    match sexec sig ev cf b s with
    | Norm s' | Thr s' => status s' = None
    | Ret s' => exists z, status s' = Some z /\ In z (returns b)
    end.
  Proof.
    intros F.
    assert (Hc : forall c (s : st), su_call_ok c = true -> status (exec sig cf c s) = status s)
      by (intros c s H; destruct c; try discriminate H; destruct s; reflexivity).
    assert (He : forall n (s : st), status (eff ev n s) = status s)
      by (intros n s; destruct (frame_fields ev n s F) as (_ & _ & A & _); exact A).
    induction b as [|c r IH|r IH|z|n r IH|c t IHt e IHe r IHr|t IHt h IHh r IHr]; intros inh Hk s Hs; cbn [sexec su_chk returns] in *.
    - exact Hs.
    - apply andb_true_iff in Hk. destruct Hk as [H1 H2]. eapply IH; eauto; rewrite Hc; auto.
    - apply andb_true_iff in Hk. destruct Hk as [H1 H2]. eapply IH; eauto; destruct s; exact Hs.
    - exists z. split; [destruct s; reflexivity | left; reflexivity].
    - destruct (thr ev n); [rewrite He; exact Hs|]. eapply IH; eauto; rewrite He; exact Hs.
    - repeat (apply andb_true_iff in Hk; destruct Hk as [Hk ?]).
      assert (G : forall (b0 : bool) (s1 : st), status s1 = None ->
                 match (match (if b0 then sexec sig ev cf t s1 else sexec sig ev cf e s1) with
                        | Norm s2 => sexec sig ev cf r s2 | x => x end) with
                 | Norm s' | Thr s' => status s' = None
                 | Ret s' => exists z, status s' = Some z /\ In z (returns t ++ returns e ++ returns r)
                 end).
      { intros b0 s1 Hs1. destruct b0.
        - specialize (IHt inh ltac:(assumption) s1 Hs1). destruct (sexec sig ev cf t s1) as [a|a|a]; auto.
          + specialize (IHr inh ltac:(assumption) a IHt). destruct (sexec sig ev cf r a); auto.
            destruct IHr as (z & A & B). exists z. split; auto. rewrite !in_app_iff. auto.
          + destruct IHt as (z & A & B). exists z. split; auto. rewrite !in_app_iff. auto.
        - specialize (IHe inh ltac:(assumption) s1 Hs1). destruct (sexec sig ev cf e s1) as [a|a|a]; auto.
          + specialize (IHr inh ltac:(assumption) a IHe). destruct (sexec sig ev cf r a); auto.
            destruct IHr as (z & A & B). exists z. split; auto. rewrite !in_app_iff. auto.
          + destruct IHe as (z & A & B). exists z. split; auto. rewrite !in_app_iff. auto. }
      destruct c as [g|n].
      + apply G; auto.
      + destruct (thr ev n); [rewrite He; exact Hs|]. apply G. rewrite He; exact Hs.
    - repeat (apply andb_true_iff in Hk; destruct Hk as [Hk ?]).
      specialize (IHt inh ltac:(assumption) s Hs). destruct (sexec sig ev cf t s) as [a|a|a].
      + specialize (IHr inh ltac:(assumption) a IHt). destruct (sexec sig ev cf r a); auto.
        destruct IHr as (z & A & B). exists z. split; auto. rewrite !in_app_iff. auto.
      + destruct IHt as (z & A & B). exists z. split; auto. rewrite !in_app_iff. auto.
      + specialize (IHh true ltac:(assumption) a IHt). destruct (sexec sig ev cf h a) as [b1|b1|b1]; auto.
        * specialize (IHr inh ltac:(assumption) b1 IHh). destruct (sexec sig ev cf r b1); auto.
          destruct IHr as (z & A & B). exists z. split; auto. rewrite !in_app_iff. auto.
        * destruct IHh as (z & A & B). exists z. split; auto. rewrite !in_app_iff. auto.
  Qed.

  (** ** the whole program: an interrupt during the set-up *)
  Lemma nsteps_zero sig cf body fuel (s : st) : abort s = true -> nsteps K sig cf body fuel s = 0%nat.
  Proof. intros H. destruct fuel; cbn; auto. unfold cont. rewrite H, andb_false_r. reflexivity. Qed.

  (** C14 for the extended program: SIGINT at any hook point of the set-up (or a flag already set,
      or the HDF5 error path), the set-up completed: no simulation step is executed, the final
      block runs once on the start state, the file is that of an undisturbed zero-step run, the
      exit status is success and the last message is "Aborted." *)
  Theorem early_signal_shape sig ev cf su p (s s1 : st) :
    frame ev -> su_ok su = true -> abort_checker p = true ->
    sexec sig ev cf su s = Norm s1 -> abort s1 = true ->
    steps_done K sig cf p s1 = 0%nat /\
    exists a t e z,
      split_closing (p_post p) = Some (a, t, e, z) /\
      full_run sig ev cf su p s = Finished (run sig cf p s1) /\
      file (run sig cf p s1) = file (exec_blk nosig cf a (exec_blk nosig cf (p_pre p) (clr K s1))) /\
      k (run sig cf p s1) = k (exec_blk nosig cf a (exec_blk nosig cf (p_pre p) (clr K s1))) /\
      status (run sig cf p s1) = Some 0 /\
      last (log (run sig cf p s1)) MStatus = MAborted.
  Proof.
    intros F Hsu Hp Hx Ha.
    assert (H0 : steps_done K sig cf p s1 = 0%nat).
    { unfold steps_done. apply nsteps_zero.
      destruct (flagrel_blk K sig cf (p_pre p) s1) as (_ & E). apply E. auto. }
    split; [exact H0|].
    destruct (interrupted_run_shape K p Hp sig cf s1) as (a & t & e & z & Hs & _ & _ & _ & Hclr & Hf & Hk & Hst & Hl).
    rewrite H0 in *. exists a, t, e, z. split; [exact Hs|]. split; [unfold full_run; rewrite Hx; reflexivity|].
    unfold heads in *. cbn [iter] in *.
    split; [exact Hf|]. split; [exact Hk|].
    split; [exact Hst|]. rewrite Hl.
      assert (Hab : abort (exec_blk sig cf a (exec_blk sig cf (p_pre p) s1)) = true).
      { destruct (flagrel_blk K sig cf a (exec_blk sig cf (p_pre p) s1)) as (_ & E). apply E. left.
        destruct (flagrel_blk K sig cf (p_pre p) s1) as (_ & E'). apply E'. auto. }
      rewrite Hab. apply last_last.
  Qed.
End SU.

Arguments flagmono {K}. Arguments flagblind {K}. Arguments same_kind {K}.
