(** * Purity of the impedance functions (C16): soundness of the lifetime checker of Model/ImpPure.v and
      history independence of a process that serves requests with stateless procedures. *)
From Coq Require Import List String Bool ZArith.
From Inovesa Require Import Base.FieldKit Model.Impedance Model.ImpKit Model.ImpPure Gen.Gen_Imp.
Import ListNotations.

Lemma all_pure_sound (fs : list fn_decls) :
  all_pure fs = true ->
  forall f v l, In f fs -> In (v, l) (fn_vars f) -> l <> Persistent.
Proof.
  unfold all_pure, fn_pure. intros H f v l Hf Hv.
  rewrite forallb_forall in H. specialize (H f Hf).
  rewrite forallb_forall in H. specialize (H (v, l) Hv).
  cbn in H. intro E. subst l. discriminate H.
Qed.

Lemma covers_sound (req : list string) (fs : list fn_decls) :
  covers req fs = true -> forall name, In name req -> exists f, In f fs /\ fn_name f = name.
Proof.
  unfold covers, has_fn. intros H name Hn.
  rewrite forallb_forall in H. specialize (H name Hn).
  apply existsb_exists in H. destruct H as [f [Hf He]].
  exists f. split; [exact Hf|]. apply String.eqb_eq in He. symmetry. exact He.
Qed.

(** a stateless procedure answers every request of any history as a fresh process would *)
Lemma serve_stateless (A B : Type) (f : A -> B) (reqs : list A) :
  serve (stateless f) tt reqs = map f reqs.
Proof. induction reqs as [|a r IH]; cbn; [reflexivity|]. rewrite IH. reflexivity. Qed.

Lemma history_independent (A B : Type) (f : A -> B) (hist : list A) (a : A) (d : B) :
  last (serve (stateless f) tt (hist ++ [a])) d = fresh (stateless f) tt a.
Proof.
  rewrite serve_stateless, map_app. cbn [map]. rewrite last_last. reflexivity.
Qed.

(** the requests a process can make to the impedance code, answered by the GENERATED definitions *)
Section Requests.
  Variable K : Fld.
  Variable E : Leaves K.

  Inductive request :=
  | RqFreeSpace (n : Z) (f_rev f_max : K)
  | RqWall (n : Z) (f0 f_max L s xi b : K)
  | RqConst (n : Z) (f_max : K) (z : cpx K)
  | RqCollimator (n : Z) (f_max outer inner : K)
  | RqParallelPlates (n : Z) (f0 f_max g : K)
  | RqFactory (n : Z) (fmax R_bend frev gap : K) (use_csr : bool) (s xi r_coll : K) (file : option (list (cpx K))).

  Definition answer (r : request) : option (list (cpx K)) :=
    match r with
    | RqFreeSpace n a b => Some (FreeSpaceCSR_ctor K E n a b)
    | RqWall n f0 fm L s xi b => Some (ResistiveWall_ctor K E n f0 fm L s xi b)
    | RqConst n fm z => Some (ConstImpedance_ctor K E n fm z)
    | RqCollimator n fm o i => Some (CollimatorImpedance_ctor K E n fm o i)
    | RqParallelPlates n f0 fm g => Some (ParallelPlatesCSR_ctor K E n f0 fm g)
    | RqFactory n fm R fr gap csr s xi rc file => makeImpedance K E n fm R fr gap csr s xi rc file
    end.

  (** one process: the generated definitions are functions, i.e. the stateless procedure *)
  Definition serve_requests (reqs : list request) : list (option (list (cpx K))) :=
    serve (stateless answer) tt reqs.
End Requests.

Arguments answer {K}. Arguments serve_requests {K}.

Lemma imp_decls_pure : all_pure imp_decls = true.
Proof. vm_compute. reflexivity. Qed.

Lemma imp_decls_cover : covers imp_required imp_decls = true.
Proof. vm_compute. reflexivity. Qed.

Theorem imp_functions_pure_thm :
  (forall f v l, In f imp_decls -> In (v, l) (fn_vars f) -> l <> Persistent) /\
  (forall name, In name imp_required -> exists f, In f imp_decls /\ fn_name f = name) /\
  (forall (K : Fld) (E : Leaves K) (hist : list (request K)) (r : request K),
     last (serve_requests E (hist ++ [r])) None = answer E r /\
     serve_requests E (hist ++ [r]) = serve_requests E hist ++ serve_requests E [r]).
Proof.
  split; [exact (all_pure_sound imp_decls imp_decls_pure)|].
  split; [exact (covers_sound imp_required imp_decls imp_decls_cover)|].
  intros K E hist r. split.
  - unfold serve_requests. rewrite history_independent. reflexivity.
  - unfold serve_requests. rewrite !serve_stateless, map_app. reflexivity.
Qed.

(** non-vacuity of the checker (used by an Example of Props/Properties_C16.v) *)
Definition cached_example : list fn_decls :=
  [mk_fn "ParallelPlatesCSR::__calcImpedance" [("nfreqs", Automatic); ("last_rv", Persistent)]]%string.
