(** Per-run obligations about the wisdom logic of the generated fft::prepareFFT (Gen/Gen_Wisdom.v) - C12, seed F1-I. *)
From Coq Require Import List ZArith String Bool.
From Inovesa Require Import Model.Wisdom Gen.Gen_Wisdom Proofs.WisdomP.
Import ListNotations.
Local Open Scope Z_scope.

(** FSPath's constructor and FSPath::append create the directory of the file (facts read off src/IO/FSPath.cpp) *)
Definition main_mkdir : bool := fspath_ctor_validates && fspath_append_validates && fspath_validate_creates_parent.

(** every definition of prepareFFT builds its path with FSPath::append, imports before the wisdom-only plan, and plans,
    THEN exports, only when that plan was not made *)
Lemma main_wisdom_checked : wis_ok main_mkdir wisdom_table = true.
Proof. vm_compute. reflexivity. Qed.

Lemma main_mkdir_true : main_mkdir = true.
Proof. vm_compute. reflexivity. Qed.

Lemma main_wisdom_after_one_run (fs0 : fsys) (reqs : list key) :
  (forall k, In k reqs -> handled wisdom_table k = true) ->
  let fs1 := p_fs (run main_mkdir wisdom_table reqs fs0) in
  p_planned (run main_mkdir wisdom_table reqs fs1) = [] /\ p_written (run main_mkdir wisdom_table reqs fs1) = [] /\
  p_fs (run main_mkdir wisdom_table reqs fs1) = fs1 /\
  (forall k, In k reqs -> exists w, lookup k (fs_files fs1) = Some (Some w)).
Proof.
  rewrite main_mkdir_true. apply after_one_run_nothing_is_planned.
  pose proof main_wisdom_checked as H. unfold wis_ok in H. apply andb_true_iff in H. tauto.
Qed.

(** the transforms the program prepares are handled by the table: real-to-complex and complex-to-real in single precision
    (ElectricField), of any length *)
Lemma main_handles_the_fields n : handled wisdom_table ("r2c32"%string, n) = true /\ handled wisdom_table ("c2r32"%string, n) = true.
Proof. split; vm_compute; reflexivity. Qed.

(** non-vacuity: from a directory that does not exist the first run plans both transforms and writes both files *)
Lemma main_first_run_plans :
  let r := run main_mkdir wisdom_table [("r2c32"%string, 128); ("c2r32"%string, 128)] (mkfs false []) in
  p_planned r = [("r2c32"%string, 128); ("c2r32"%string, 128)] /\ p_written r = p_planned r /\ p_logged r = p_planned r /\
  fs_dir (p_fs r) = true.
Proof. vm_compute. repeat split; reflexivity. Qed.

(** every planner call measures run times: without stored wisdom the chosen plan is not a function of the problem *)
Lemma main_planner_timed : wisdom_planner_timed = true.
Proof. vm_compute. reflexivity. Qed.
