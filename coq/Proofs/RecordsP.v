(** Lemmas about Model/Records.v (schedule and file layer).  DESIGN 5/C10, C11.1. *)
From Coq Require Import List ZArith Bool Lia QArith Qcanon ZifyBool.
From Inovesa Require Import Base.FieldKit Model.Records.
Import ListNotations.
Local Open Scope Z_scope.

(** ceil-division bookkeeping (before the div/mod hook of lia is switched on) *)
Lemma cdiv_hit x o : 0 < o -> x mod o = 0 ->
  (x + o - 1) / o = x / o /\ (x + 1 + o - 1) / o = x / o + 1.
Proof.
  intros Ho Hm. pose proof (Z.div_mod x o ltac:(lia)) as E. split.
  - symmetry. apply Z.div_unique with (r := o - 1); lia.
  - symmetry. apply Z.div_unique with (r := 0); lia.
Qed.
Lemma cdiv_miss x o : 0 < o -> x mod o <> 0 -> (x + 1 + o - 1) / o = (x + o - 1) / o.
Proof.
  intros Ho Hm. pose proof (Z.div_mod x o ltac:(lia)) as E.
  pose proof (Z.mod_pos_bound x o Ho) as B.
  transitivity (x / o + 1).
  - symmetry. apply Z.div_unique with (r := x mod o); lia.
  - apply Z.div_unique with (r := x mod o - 1); lia.
Qed.

Ltac Zify.zify_post_hook ::= Z.div_mod_to_equations.

(** ** ranges *)
Fixpoint zfrom (k : Z) (m : nat) : list Z :=
  match m with O => [] | S m' => k :: zfrom (k + 1) m' end.

Lemma zfrom_seq k m : zfrom k m = map (fun i => k + Z.of_nat i) (seq 0 m).
Proof.
  revert k. induction m as [|m IH]; intros k; cbn [zfrom seq map]; [reflexivity|].
  rewrite IH, <- seq_shift, map_map. f_equal; [lia|]. apply map_ext. intros a. lia.
Qed.

Lemma zrange_zfrom n : zrange n = zfrom 0 (Z.to_nat n).
Proof. unfold zrange. rewrite zfrom_seq. apply map_ext. intros a. lia. Qed.

Lemma zfrom_snoc k m : zfrom k (S m) = zfrom k m ++ [k + Z.of_nat m].
Proof.
  revert k. induction m as [|m IH]; intros k.
  - cbn. f_equal. lia.
  - change (zfrom k (S (S m))) with (k :: zfrom (k + 1) (S m)). rewrite IH.
    cbn [zfrom app]. replace (k + 1 + Z.of_nat m) with (k + Z.of_nat (S m)) by lia. reflexivity.
Qed.

Lemma zfrom_length k m : length (zfrom k m) = m.
Proof. revert k; induction m; intros; cbn; auto. Qed.

Lemma zrange_length n : length (zrange n) = Z.to_nat n.
Proof. unfold zrange. rewrite map_length, seq_length. reflexivity. Qed.

Lemma zrange_snoc n : 0 <= n -> zrange (n + 1) = zrange n ++ [n].
Proof.
  intros Hn. rewrite !zrange_zfrom. replace (Z.to_nat (n + 1)) with (S (Z.to_nat n)) by lia.
  rewrite zfrom_snoc. do 2 f_equal. lia.
Qed.

Lemma nth_zrange n i : 0 <= i < n -> nth (Z.to_nat i) (zrange n) 0 = i.
Proof.
  intros Hi. unfold zrange.
  rewrite (nth_indep _ 0 (Z.of_nat 0)) by (rewrite map_length, seq_length; lia).
  rewrite map_nth, seq_nth by lia. lia.
Qed.

Lemma in_zrange n i : In i (zrange n) <-> 0 <= i < n.
Proof.
  unfold zrange. rewrite in_map_iff. split.
  - intros [x [E H]]. apply in_seq in H. lia.
  - intros H. exists (Z.to_nat i). split; [lia|]. apply in_seq. lia.
Qed.

(** ** records of a log *)
Lemma records_app d a b : records d (a ++ b) = records d a ++ records d b.
Proof. unfold records. rewrite filter_app, map_app. reflexivity. Qed.

Lemma dset_eqb_eq a b : dset_eqb a b = true <-> a = b.
Proof. unfold dset_eqb. split; [|intros ->; apply Z.eqb_refl]. destruct a, b; cbn; intros H; congruence. Qed.

(** ** the loop as a pure function of (k, nr) *)
Fixpoint blocks (c : cfg) (m : nat) (k nr : Z) : log :=
  match m with
  | O => []
  | S m' => if is_out c k then out_block c k nr ++ blocks c m' (k + 1) (nr + 1)
            else blocks c m' (k + 1) nr
  end.

Lemma loop_blocks c m : forall k nr l,
  exists nr', loop c m k nr l = (k + Z.of_nat m, nr', l ++ blocks c m k nr).
Proof.
  induction m as [|m IH]; intros k nr l; cbn [loop blocks].
  - exists nr. rewrite app_nil_r. f_equal. f_equal. lia.
  - destruct (is_out c k).
    + destruct (IH (k + 1) (nr + 1) (l ++ out_block c k nr)) as [nr' E]. exists nr'.
      rewrite E, <- app_assoc. f_equal. f_equal. lia.
    + destruct (IH (k + 1) nr l) as [nr' E]. exists nr'. rewrite E. f_equal. f_equal. lia.
Qed.

Lemma run_eq c stop : 0 <= stop ->
  run c stop = init_block c ++ blocks c (Z.to_nat stop) 0 0 ++ final_block c stop.
Proof.
  intros Hs. unfold run. destruct (loop_blocks c (Z.to_nat stop) 0 0 (init_block c)) as [nr' E].
  rewrite E. rewrite <- app_assoc. do 3 f_equal. lia.
Qed.

(** records of the elementary appends *)
Definition in_defaults (d : dset) : bool := existsb (dset_eqb d) defaults_group.
Definition is_psd (d : dset) : bool := dset_eqb d DPSAxis || dset_eqb d DPSData.

Lemma records_append_ps d a k :
  records d (append_ps a k) =
  (if is_psd d && match a with AtDefaults => false | _ => true end then [k] else []) ++
  (if in_defaults d && match a with AtPhaseSpace => false | _ => true end then [k] else []).
Proof. destruct d, a; reflexivity. Qed.

(** every dataset appended in an output block other than the phase space carries the same tags *)
Definition same_as_time (c : cfg) (d : dset) : bool :=
  in_defaults d || dset_eqb d DCsrSpectrum || dset_eqb d DCsrIntensity || dset_eqb d DParticles
  || (haswake c && dset_eqb d DWake).

Lemma out_block_time c d k nr : same_as_time c d = true ->
  records d (out_block c k nr) = [k].
Proof.
  unfold out_block, same_as_time, at_of. intros H. rewrite !records_app, records_append_ps.
  destruct ((0 <? save c) && (nr mod save c =? 0)), (haswake c), d; cbn in H; try discriminate H; reflexivity.
Qed.

Lemma final_block_time c d k : same_as_time c d = true -> records d (final_block c k) = [k].
Proof.
  unfold final_block, same_as_time. intros H. rewrite !records_app, records_append_ps.
  destruct (haswake c), d; cbn in H; try discriminate H; reflexivity.
Qed.

Lemma init_block_time c d : same_as_time c d = true -> records d (init_block c) = [].
Proof.
  unfold init_block, same_as_time. intros H. rewrite !records_app.
  destruct (save c =? 0); try rewrite records_append_ps;
    destruct (haswake c), d; cbn in H; try discriminate H; reflexivity.
Qed.

Lemma blocks_time c d : same_as_time c d = true -> forall m k nr,
  records d (blocks c m k nr) = filter (is_out c) (zfrom k m).
Proof.
  intros H. induction m as [|m IH]; intros k nr; cbn [blocks zfrom filter]; [reflexivity|].
  destruct (is_out c k).
  - rewrite records_app, out_block_time, IH by exact H. reflexivity.
  - apply IH.
Qed.

Lemma time_tags c stop d : 0 <= stop -> same_as_time c d = true ->
  records d (run c stop) = out_steps c stop ++ [stop].
Proof.
  intros Hs H. rewrite run_eq by exact Hs. rewrite !records_app.
  rewrite init_block_time, blocks_time, final_block_time by exact H.
  unfold out_steps. rewrite zrange_zfrom. reflexivity.
Qed.

(** the phase-space pair *)
Lemma out_block_ps c d k nr : is_psd d = true ->
  records d (out_block c k nr) = if (0 <? save c) && (nr mod save c =? 0) then [k] else [].
Proof.
  unfold out_block, at_of. intros H. rewrite !records_app, records_append_ps.
  destruct ((0 <? save c) && (nr mod save c =? 0)), (haswake c), d; cbn in H; try discriminate H; reflexivity.
Qed.

Lemma blocks_ps c d : is_psd d = true -> forall m k nr,
  records d (blocks c m k nr) = every (save c) nr (filter (is_out c) (zfrom k m)).
Proof.
  intros H. induction m as [|m IH]; intros k nr; cbn [blocks zfrom filter]; [reflexivity|].
  destruct (is_out c k).
  - rewrite records_app, out_block_ps, IH by exact H. reflexivity.
  - apply IH.
Qed.

Lemma ps_tags c stop d : 0 <= stop -> is_psd d = true ->
  records d (run c stop) =
  (if save c =? 0 then [0] else []) ++ every (save c) 0 (out_steps c stop) ++ [stop].
Proof.
  intros Hs H. rewrite run_eq by exact Hs. rewrite !records_app, blocks_ps by exact H.
  unfold out_steps. rewrite zrange_zfrom. f_equal; [|f_equal].
  - unfold init_block. rewrite records_app. destruct (save c =? 0); try rewrite records_append_ps;
      destruct (haswake c), d; cbn in H; try discriminate H; reflexivity.
  - unfold final_block. rewrite !records_app, records_append_ps.
    destruct (haswake c), d; cbn in H; try discriminate H; reflexivity.
Qed.

(** padded profiles: exactly two records (tags 0 and stop) with a wake, none without *)
Lemma padded_tags c stop d : 0 <= stop -> (d = DPadProfile \/ d = DPadPotential) ->
  records d (run c stop) = if haswake c then [0; stop] else [].
Proof.
  intros Hs Hd. rewrite run_eq by exact Hs. rewrite !records_app.
  assert (B : forall m k nr, records d (blocks c m k nr) = []).
  { induction m as [|m IH]; intros k nr; cbn [blocks]; [reflexivity|].
    destruct (is_out c k); [|apply IH]. rewrite records_app, IH, app_nil_r.
    unfold out_block. rewrite !records_app, records_append_ps.
    destruct Hd as [-> | ->]; destruct (at_of c nr), (haswake c); reflexivity. }
  rewrite B. unfold init_block, final_block. rewrite !records_app, !records_append_ps.
  destruct Hd as [-> | ->]; destruct (haswake c), (save c =? 0); reflexivity.
Qed.

Lemma wake_tags_nowake c stop : 0 <= stop -> haswake c = false -> records DWake (run c stop) = [].
Proof.
  intros Hs Hw. rewrite run_eq by exact Hs. rewrite !records_app.
  assert (B : forall m k nr, records DWake (blocks c m k nr) = []).
  { induction m as [|m IH]; intros k nr; cbn [blocks]; [reflexivity|].
    destruct (is_out c k); [|apply IH]. rewrite records_app, IH, app_nil_r.
    unfold out_block. rewrite !records_app, records_append_ps, Hw. destruct (at_of c nr); reflexivity. }
  rewrite B. unfold init_block, final_block. rewrite !records_app, !records_append_ps, Hw.
  destruct (save c =? 0); reflexivity.
Qed.

(** closed form of the phase-space selection *)
Lemma every_app s nr a b :
  every s nr (a ++ b) = every s nr a ++ every s (nr + Z.of_nat (length a)) b.
Proof.
  revert nr. induction a as [|x a IH]; intros nr; cbn [every app length].
  - f_equal. lia.
  - rewrite IH, <- app_assoc. do 3 f_equal. lia.
Qed.

Lemma out_count c n : 0 <= n -> 0 < outstep c ->
  Z.of_nat (length (out_steps c n)) = (n + outstep c - 1) / outstep c.
Proof.
  intros Hn Ho. pattern n. apply natlike_ind; [| |exact Hn].
  - unfold out_steps. cbn. symmetry. apply Z.div_small. lia.
  - intros x Hx IH. unfold out_steps in *. unfold Z.succ. rewrite zrange_snoc, filter_app, app_length by exact Hx.
    rewrite Nat2Z.inj_add, IH. cbn [filter]. unfold is_out.
    destruct (x mod outstep c =? 0) eqn:E; destruct (0 <? outstep c) eqn:F; cbn [andb length]; try lia.
    + apply Z.eqb_eq in E. destruct (cdiv_hit x (outstep c) Ho E) as [E1 E2]. rewrite E1, E2. reflexivity.
    + apply Z.eqb_neq in E. rewrite (cdiv_miss x (outstep c) Ho E). apply Z.add_0_r.
Qed.

Lemma every_closed c n : 0 <= n ->
  every (save c) 0 (out_steps c n) = filter (is_ps_out c) (zrange n).
Proof.
  intros Hn. pattern n. apply natlike_ind; [reflexivity| |exact Hn].
  intros x Hx IH. unfold out_steps in *. unfold Z.succ.
  rewrite zrange_snoc, !filter_app, every_app, IH by exact Hx. f_equal. cbn [filter].
  unfold is_ps_out. destruct (is_out c x) eqn:E; cbn [every andb]; [|reflexivity].
  unfold is_out in E. assert (Ho : 0 < outstep c) by lia. assert (Hm : x mod outstep c = 0) by lia.
  fold (out_steps c x). rewrite Z.add_0_l, out_count by assumption.
  rewrite (proj1 (cdiv_hit x (outstep c) Ho Hm)).
  destruct ((0 <? save c) && (x / outstep c mod save c =? 0)); reflexivity.
Qed.

(** ** file layer *)
Section FileLayerP.
  Context {A : Type}.

  Lemma nth_firstn (l : list A) d i n : (i < n)%nat -> nth i (firstn n l) d = nth i l d.
  Proof.
    revert i l. induction n as [|n IH]; intros i l Hi; [lia|].
    destruct l as [|x l]; [destruct i; reflexivity|]. destruct i; cbn; [reflexivity|]. apply IH. lia.
  Qed.

  Lemma nth_skipn (l : list A) d i n : nth i (skipn n l) d = nth (n + i) l d.
  Proof.
    revert l. induction n as [|n IH]; intros l; [reflexivity|].
    destruct l as [|x l]; [destruct i; reflexivity|]. cbn. apply IH.
  Qed.

  (** one append: the new record is the head of the source, verbatim *)
  Lemma append_data_new d inner (file src : list A) j :
    0 <= j < prodZ inner ->
    getl d (append_data inner file src) (Z.of_nat (length file) + j) = getl d src j.
  Proof.
    intros Hj. unfold getl, append_data.
    rewrite app_nth2 by lia.
    replace (Z.to_nat (Z.of_nat (length file) + j) - length file)%nat with (Z.to_nat j) by lia.
    apply nth_firstn. lia.
  Qed.

  Lemma append_data_old d inner (file src : list A) j :
    0 <= j < Z.of_nat (length file) ->
    getl d (append_data inner file src) j = getl d file j.
  Proof. intros Hj. unfold getl, append_data. apply app_nth1. lia. Qed.

  (** rows of the record are the bunches when the strides agree (any payload type) *)
  Lemma rows_are_bunches_if d nb W S (file src : list A) r b i :
    (W = S \/ nb <= 1) -> 0 <= r -> Z.of_nat (length file) = r * nb * W ->
    0 <= b < nb -> 0 <= i < W ->
    file_elt d nb W (append_data [nb; W] file src) r b i = mem_elt d S src b i.
  Proof.
    intros HW Hr Hl Hb Hi. unfold file_elt, mem_elt.
    replace ((r * nb + b) * W + i) with (Z.of_nat (length file) + (b * W + i)) by lia.
    rewrite append_data_new by (cbn [prodZ fold_right]; nia).
    f_equal. destruct HW as [-> | H1]; [reflexivity|]. assert (b = 0) by lia. subst b. lia.
  Qed.

  Lemma gather_rows_length nb S W (src : list A) :
    0 <= nb -> 0 <= W <= S -> nb * S <= Z.of_nat (length src) ->
    Z.of_nat (length (gather_rows nb S W src)) = nb * W.
  Proof.
    intros Hnb HW. unfold gather_rows. pattern nb. apply natlike_ind; [reflexivity| |exact Hnb].
    intros x Hx IH Hl. unfold Z.succ. rewrite zrange_snoc, flat_map_app, app_length, Nat2Z.inj_add by exact Hx.
    rewrite IH by nia. cbn [flat_map]. rewrite app_nil_r, firstn_length, skipn_length. nia.
  Qed.

  Lemma gather_rows_get d nb S W (src : list A) b i :
    0 <= W <= S -> nb * S <= Z.of_nat (length src) -> 0 <= b < nb -> 0 <= i < W ->
    getl d (gather_rows nb S W src) (b * W + i) = getl d src (b * S + i).
  Proof.
    intros HW Hl Hb Hi. assert (Hnb : 0 <= nb) by lia. revert Hl Hb. pattern nb.
    apply natlike_ind; [lia| |exact Hnb].
    intros x Hx IH Hl Hb. unfold gather_rows, Z.succ in *. rewrite zrange_snoc, flat_map_app by exact Hx.
    assert (L : Z.of_nat (length (flat_map (fun b0 : Z => firstn (Z.to_nat W) (skipn (Z.to_nat (b0 * S)) src)) (zrange x))) = x * W)
      by (apply gather_rows_length; nia).
    unfold getl. destruct (Z.eq_dec b x) as [->|Hne].
    - rewrite app_nth2 by nia. cbn [flat_map]. rewrite app_nil_r.
      replace (Z.to_nat (x * W + i) - _)%nat with (Z.to_nat i) by nia.
      rewrite nth_firstn by lia. rewrite nth_skipn. f_equal. nia.
    - rewrite app_nth1 by nia. apply IH; nia.
  Qed.

  (** the gathered CSR spectrum: row b of the record is bunch b's spectrum for every stride *)
  Lemma gathered_rows_are_bunches d nb S W (file src : list A) r b i :
    0 <= W <= S -> nb * S <= Z.of_nat (length src) -> 0 <= r ->
    Z.of_nat (length file) = r * nb * W -> 0 <= b < nb -> 0 <= i < W ->
    file_elt d nb W (append_data [nb; W] file (gather_rows nb S W src)) r b i = mem_elt d S src b i.
  Proof.
    intros HW Hl Hr Hf Hb Hi. unfold file_elt, mem_elt.
    replace ((r * nb + b) * W + i) with (Z.of_nat (length file) + (b * W + i)) by lia.
    rewrite append_data_new by (cbn [prodZ fold_right]; nia).
    apply gather_rows_get; assumption.
  Qed.
End FileLayerP.

(** the converse needs distinguishable payloads: over Z, with the index-valued buffer *)
Lemma rows_are_bunches_only_if nb W S :
  0 < W <= S -> 0 <= nb ->
  (forall (file src : list Z) r b i, 0 <= r -> Z.of_nat (length file) = r * nb * W ->
      Z.of_nat (length src) = nb * S -> 0 <= b < nb -> 0 <= i < W ->
      file_elt 0 nb W (append_data [nb; W] file src) r b i = mem_elt 0 S src b i) ->
  W = S \/ nb <= 1.
Proof.
  intros HW Hnb H. destruct (Z_le_gt_dec nb 1) as [|Hn]; [right; assumption|left].
  assert (E : getl 0 (append_data [nb; W] [] (zrange (nb * S))) ((0 * nb + 1) * W + 0)
               = getl 0 (zrange (nb * S)) (1 * S + 0)).
  { apply (H [] (zrange (nb * S)) 0 1 0); try lia; [reflexivity|].
    rewrite zrange_length. nia. }
  replace ((0 * nb + 1) * W + 0) with (Z.of_nat (@length Z []) + W) in E by (cbn [length Z.of_nat]; ring).
  rewrite append_data_new in E by (cbn [prodZ fold_right]; nia).
  unfold getl in E. rewrite !nth_zrange in E by nia. lia.
Qed.

(** ** read-back *)
Lemma zfrom_app k a b : zfrom k (a + b) = zfrom k a ++ zfrom (k + Z.of_nat a) b.
Proof.
  revert k. induction a as [|a IH]; intros k; cbn [zfrom plus app].
  - f_equal. lia.
  - rewrite IH. replace (k + 1 + Z.of_nat a) with (k + Z.of_nat (S a)) by lia. reflexivity.
Qed.

Lemma zfrom_shift k m : zfrom k m = map (fun y => k + y) (zfrom 0 m).
Proof. rewrite !zfrom_seq, map_map. apply map_ext. intros a. lia. Qed.

Lemma zrange_1 : zrange 1 = [0].
Proof. reflexivity. Qed.

Lemma zrange_add a b : 0 <= a -> 0 <= b ->
  zrange (a + b) = zrange a ++ map (fun y => a + y) (zrange b).
Proof.
  intros Ha Hb. rewrite !zrange_zfrom. replace (Z.to_nat (a + b)) with (Z.to_nat a + Z.to_nat b)%nat by lia.
  rewrite zfrom_app, (zfrom_shift (0 + _)). f_equal. apply map_ext. intros y. lia.
Qed.

Lemma flat_map_const_length {A B} (f : B -> list A) (l : list B) n :
  (forall x, In x l -> length (f x) = n) -> length (flat_map f l) = (length l * n)%nat.
Proof.
  induction l as [|x l IH]; intros H; cbn [flat_map length]; [reflexivity|].
  rewrite app_length, H, IH by (try (intros; apply H; right; assumption); left; reflexivity). lia.
Qed.

Section ReadP.
  Context {A : Type}.

  (** a list is its own enumeration *)
  Lemma map_nth_seq d (l : list A) : map (fun i => nth i l d) (seq 0 (length l)) = l.
  Proof.
    induction l as [|x l IH]; [reflexivity|]. cbn [length seq map nth]. f_equal.
    rewrite <- seq_shift, map_map. exact IH.
  Qed.

  Lemma map_get_zrange d (l : list A) n : n = Z.of_nat (length l) -> map (getl d l) (zrange n) = l.
  Proof.
    intros ->. unfold zrange, getl. rewrite map_map, Nat2Z.id.
    transitivity (map (fun i => nth i l d) (seq 0 (length l))); [|apply map_nth_seq].
    apply map_ext. intros a. rewrite Nat2Z.id. reflexivity.
  Qed.

  (** enumerating a block of a flat list by two nested ranges *)
  Lemma flat_map_rows (g : Z -> A) p q :
    0 <= p -> 0 <= q ->
    flat_map (fun x => map (fun y => g (x * q + y)) (zrange q)) (zrange p) = map g (zrange (p * q)).
  Proof.
    intros Hp Hq. pattern p. apply natlike_ind; [reflexivity| |exact Hp].
    intros x Hx IH. unfold Z.succ. rewrite zrange_snoc, flat_map_app, IH by exact Hx. cbn [flat_map].
    rewrite app_nil_r. replace ((x + 1) * q) with (x * q + q) by lia.
    rewrite zrange_add, map_app, map_map by nia. reflexivity.
  Qed.

  Lemma nth_concat d (recs : list (list A)) m : (forall x, In x recs -> length x = m) ->
    forall r j, (r < length recs)%nat -> (j < m)%nat ->
    nth (r * m + j) (concat recs) d = nth j (nth r recs []) d.
  Proof.
    intros Hl. induction recs as [|x t IH]; intros r j Hr Hj; [cbn in Hr; lia|].
    cbn [concat]. assert (Lx : length x = m) by (apply Hl; left; reflexivity). destruct r as [|r].
    - cbn [nth]. rewrite app_nth1 by lia. reflexivity.
    - cbn [nth]. rewrite app_nth2 by (rewrite Lx; nia).
      replace (S r * m + j - length x)%nat with (r * m + j)%nat by (rewrite Lx; nia).
      apply IH; [intros y Hy; apply Hl; right; exact Hy|cbn in Hr; lia|exact Hj].
  Qed.

  (** C11.1: after any number of appends of complete single-bunch records the hyperslab read
      of record (len + step) mod len returns that record, values and order unchanged *)
  Lemma read_back d (recs : list (list A)) n step :
    0 < n -> recs <> [] -> (forall x, In x recs -> Z.of_nat (length x) = n * n) ->
    let len := Z.of_nat (length recs) in
    read_ps d (PSset [len; 1; n; n] (concat recs)) step
    = Some (n, nth (Z.to_nat (use_step len step)) recs []).
  Proof.
    intros Hn Hne Hl len. assert (Hlen : 0 < len) by (destruct recs; [congruence|cbn; lia]).
    unfold read_ps. replace ((0 <? len) && (0 <? n) && (n <=? n) && (1 * n * n =? n * n)) with true by lia.
    do 2 f_equal. unfold slab. rewrite zrange_1. cbn [flat_map]. rewrite app_nil_r.
    set (r := use_step len step).
    assert (Hr : 0 <= r < len) by (unfold r, use_step; apply Z.mod_pos_bound; exact Hlen).
    transitivity (map (fun j => getl d (concat recs) (r * (n * n) + j)) (zrange (n * n))).
    { rewrite <- flat_map_rows by lia. apply flat_map_ext. intros x. apply map_ext. intros y.
      cbn beta. f_equal. ring. }
    assert (Hm : forall x, In x recs -> length x = Z.to_nat (n * n)) by (intros x Hx; specialize (Hl x Hx); lia).
    rewrite (map_ext_in _ (getl d (nth (Z.to_nat r) recs []))).
    - apply map_get_zrange. symmetry. apply Hl. apply nth_In. lia.
    - intros j Hj. apply in_zrange in Hj. unfold getl.
      replace (Z.to_nat (r * (n * n) + j)) with (Z.to_nat r * Z.to_nat (n * n) + Z.to_nat j)%nat by nia.
      apply nth_concat; [exact Hm|lia|nia].
  Qed.

  (** the default start step -1 is the last record *)
  Lemma use_step_default len : 0 < len < 2 ^ 64 -> use_step len (-1) = len - 1.
  Proof.
    intros H. unfold use_step. rewrite (Z.mod_small (len + -1)) by lia. apply Z.mod_small. lia.
  Qed.
  Lemma use_step_nonneg len step : 0 <= step < len -> len + step < 2 ^ 64 -> use_step len step = step.
  Proof.
    intros H H2. unfold use_step. rewrite (Z.mod_small (len + step)) by lia.
    replace (len + step) with (step + 1 * len) by lia. rewrite Z.mod_add by lia. apply Z.mod_small. lia.
  Qed.
  Lemma use_step_negative len step : - len <= step < 0 -> len < 2 ^ 64 -> use_step len step = len + step.
  Proof. intros H H2. unfold use_step. rewrite (Z.mod_small (len + step)) by lia. apply Z.mod_small. lia. Qed.

  (** what is refused *)
  Definition unusable (f : startfile A) : Prop :=
    match f with
    | NoFile | NotHDF5 | NoPhaseSpace => True
    | PSset [len; nb; d2; d3] _ => nb <> 1 /\ 0 < d2       (* multi-bunch (or zero-bunch) file *)
    | PSset [len; d1; d2] _ => d2 < d1                    (* hyperslab outside the dataset *)
    | PSset _ _ => True
    end.

  Lemma unusable_refused d f step : unusable f -> read_ps d f step = None.
  Proof.
    destruct f as [| | |dims data]; try reflexivity. cbn [unusable].
    destruct dims as [|a [|b [|c0 [|e [|g t]]]]]; try reflexivity; intros H; cbn [read_ps].
    - replace (b <=? c0) with false by lia. rewrite !andb_false_r. reflexivity.
    - replace (b * c0 * c0 =? c0 * c0) with false by nia. rewrite !andb_false_r. reflexivity.
  Qed.

  (** ... and whatever is accepted is a complete single-bunch square block *)
  Lemma accepted_is_single_bunch d f step n (g : list A) : read_ps d f step = Some (n, g) ->
    exists dims data, f = PSset dims data /\ 0 < n /\ Z.of_nat (length g) = n * n /\
      (dims = [hd 0 dims; n; nth 2 dims 0] \/ dims = [hd 0 dims; 1; n; nth 3 dims 0]).
  Proof.
    destruct f as [| | |dims data]; try discriminate. intros H. exists dims, data. split; [reflexivity|].
    destruct dims as [|a [|b [|c0 [|e [|x t]]]]]; try discriminate; cbn [read_ps] in H.
    - destruct ((0 <? a) && (0 <? b) && (b <=? c0)) eqn:E; [|discriminate]. injection H as <- <-.
      split; [lia|]. split; [|left; reflexivity]. unfold slab.
      rewrite zrange_1. cbn [flat_map]. rewrite app_nil_r.
      rewrite (flat_map_const_length _ _ (Z.to_nat b)) by (intros; rewrite map_length; apply zrange_length).
      rewrite zrange_length. nia.
    - destruct ((0 <? a) && (0 <? c0) && (c0 <=? e) && (b * c0 * c0 =? c0 * c0)) eqn:E; [|discriminate].
      injection H as <- <-. assert (b = 1) by nia. subst b.
      split; [lia|]. split; [|right; reflexivity]. unfold slab.
      rewrite zrange_1. cbn [flat_map]. rewrite app_nil_r.
      rewrite (flat_map_const_length _ _ (Z.to_nat c0)) by (intros; rewrite map_length; apply zrange_length).
      rewrite zrange_length. nia.
  Qed.
End ReadP.
