(** Lemmas about Model/Impedance.v: shape of every sample vector, operator+= is the
    pointwise sum, the factory returns the pointwise sum of the selected contributions,
    closure of "passive" under the sum, soundness of the relational validators' shape part. *)
From Coq Require Import List ZArith QArith Qcanon Lia Bool ZifyBool FinFun.
From Inovesa Require Import Base.FieldKit Base.Float32 Model.Impedance.
Import ListNotations.
Local Open Scope Z_scope.
Ltac Zify.zify_post_hook ::= Z.div_mod_to_equations.

(** ** index utilities *)
Lemma zrange_length n : length (zrange n) = Z.to_nat n.
Proof. unfold zrange. rewrite map_length, seq_length. reflexivity. Qed.

Lemma zrange_in n i : In i (zrange n) <-> 0 <= i < n.
Proof.
  unfold zrange. rewrite in_map_iff. split.
  - intros (k & <- & Hk). apply in_seq in Hk. lia.
  - intros H. exists (Z.to_nat i). split; [lia|]. apply in_seq. lia.
Qed.

Lemma nth_map_zrange {A} (F : Z -> A) n k d :
  (k < Z.to_nat n)%nat -> nth k (map F (zrange n)) d = F (Z.of_nat k).
Proof.
  intros Hk. unfold zrange. rewrite map_map.
  rewrite (nth_indep _ d (F (Z.of_nat 0))) by (rewrite map_length, seq_length; exact Hk).
  rewrite (map_nth (fun j => F (Z.of_nat j)) (seq 0 (Z.to_nat n)) 0%nat k).
  rewrite seq_nth by exact Hk. reflexivity.
Qed.

Section ShapeP.
  Variable C : Type.
  Variable c0 : C.
  Variable cadd : C -> C -> C.
  Notation nthz := (nthz c0).
  Notation fill := (@fill C).

  Lemma zlen_map_zrange (F : Z -> C) n : 0 <= n -> zlen (map F (zrange n)) = n.
  Proof. intros H. unfold zlen. rewrite map_length, zrange_length. lia. Qed.

  Lemma nthz_map_zrange (F : Z -> C) n i : 0 <= i < n -> nthz (map F (zrange n)) i = F i.
  Proof.
    intros H. unfold Impedance.nthz. rewrite nth_map_zrange by lia. f_equal. lia.
  Qed.

  Lemma nthz_beyond (l : list C) i : zlen l <= i -> nthz l i = c0.
  Proof. intros H. unfold Impedance.nthz, zlen in *. apply nth_overflow. lia. Qed.

  Lemma zlen_fill k z : 0 <= k -> zlen (fill k z) = k.
  Proof. intros H. unfold zlen, Impedance.fill. rewrite repeat_length. lia. Qed.

  Lemma zlen_fill' k z : zlen (fill k z) = Z.max 0 k.
  Proof. unfold zlen, Impedance.fill. rewrite repeat_length. lia. Qed.

  Lemma nthz_fill k z i : 0 <= i < k -> nthz (fill k z) i = z.
  Proof.
    intros H. unfold Impedance.nthz, Impedance.fill.
    rewrite (nth_indep _ c0 z) by (rewrite repeat_length; lia). apply nth_repeat.
  Qed.

  (** *** FreeSpaceCSR / ResistiveWall loop *)
  Lemma push_loop_len n f : 1 <= n -> zlen (push_loop c0 n f) = n.
  Proof.
    intros H. unfold push_loop, zlen. rewrite app_length, map_length, zrange_length.
    unfold Impedance.fill. rewrite repeat_length. lia.
  Qed.

  Lemma push_loop_lo n f i : 0 <= i <= n / 2 -> nthz (push_loop c0 n f) i = f i.
  Proof.
    intros H. unfold push_loop, Impedance.nthz. rewrite app_nth1 by (rewrite map_length, zrange_length; lia).
    rewrite nth_map_zrange by lia. f_equal. lia.
  Qed.

  Lemma push_loop_hi n f i : 0 <= n -> n / 2 < i -> nthz (push_loop c0 n f) i = c0.
  Proof.
    intros Hn H. unfold push_loop, Impedance.nthz.
    rewrite app_nth2 by (rewrite map_length, zrange_length; lia).
    rewrite map_length, zrange_length. unfold Impedance.fill.
    apply nth_repeat.
  Qed.

  (** *** ConstImpedance *)
  Lemma const_vec_len n z : 0 <= n -> zlen (const_vec c0 n z) = n.
  Proof.
    intros H. unfold const_vec, zlen. rewrite app_length. unfold Impedance.fill.
    rewrite !repeat_length. lia.
  Qed.

  Lemma const_vec_lo n z i : 0 <= i < n / 2 -> nthz (const_vec c0 n z) i = z.
  Proof.
    intros H. unfold const_vec, Impedance.nthz, Impedance.fill.
    rewrite app_nth1 by (rewrite repeat_length; lia).
    rewrite (nth_indep _ c0 z) by (rewrite repeat_length; lia). apply nth_repeat.
  Qed.

  Lemma const_vec_hi n z i : 0 <= n -> n / 2 <= i -> nthz (const_vec c0 n z) i = c0.
  Proof.
    intros Hn H. unfold const_vec, Impedance.nthz, Impedance.fill.
    rewrite app_nth2 by (rewrite repeat_length; lia). rewrite repeat_length.
    apply nth_repeat.
  Qed.

  (** *** ParallelPlatesCSR: assignments into a zero vector *)
  Lemma upd_length (l : list C) k v : length (upd l k v) = length l.
  Proof. revert k. induction l as [|x r IH]; intros [|k]; cbn [upd length]; auto. Qed.

  Lemma nth_upd (l : list C) k v j d :
    nth j (upd l k v) d = if (Nat.eqb j k && Nat.ltb j (length l))%bool then v else nth j l d.
  Proof.
    revert k j. induction l as [|x r IH]; intros k j.
    - cbn [upd length nth]. destruct j; rewrite andb_false_r; reflexivity.
    - destruct k as [|k], j as [|j]; cbn [upd nth length]; try reflexivity.
      rewrite IH. reflexivity.
  Qed.

  Lemma fold_upd_length (g : Z -> C) idx (l : list C) :
    length (fold_left (fun rv i => upd rv (Z.to_nat i) (g i)) idx l) = length l.
  Proof. revert l. induction idx as [|a r IH]; intros l; cbn [fold_left]; [reflexivity|]. rewrite IH. apply upd_length. Qed.

  Lemma fold_upd_nth (g : Z -> C) idx (l : list C) j :
    (forall a, In a idx -> 0 <= a) -> NoDup idx -> 0 <= j < zlen l ->
    nthz (fold_left (fun rv i => upd rv (Z.to_nat i) (g i)) idx l) j =
    if existsb (Z.eqb j) idx then g j else nthz l j.
  Proof.
    revert l. induction idx as [|a r IH]; intros l Hpos Hnd Hj; cbn [fold_left existsb]; [reflexivity|].
    inversion Hnd as [|? ? Hna Hnd']; subst.
    rewrite IH; [|intros b Hb; apply Hpos; right; exact Hb|exact Hnd'|unfold zlen in *; rewrite upd_length; exact Hj].
    assert (Ha : 0 <= a) by (apply Hpos; left; reflexivity).
    destruct (Z.eqb_spec j a) as [E|NE].
    - subst j. cbn [orb].
      destruct (existsb (Z.eqb a) r) eqn:Ex.
      + exfalso. apply existsb_exists in Ex. destruct Ex as (b & Hb & Eb). apply Z.eqb_eq in Eb. subst b. contradiction.
      + unfold Impedance.nthz. rewrite nth_upd. rewrite Nat.eqb_refl.
        replace (Z.to_nat a <? length l)%nat with true; [reflexivity|].
        symmetry. apply Nat.ltb_lt. unfold zlen in Hj. lia.
    - cbn [orb]. destruct (existsb (Z.eqb j) r); [reflexivity|].
      unfold Impedance.nthz. rewrite nth_upd.
      replace (Z.to_nat j =? Z.to_nat a)%nat with false; [reflexivity|].
      symmetry. apply Nat.eqb_neq. lia.
  Qed.

  Lemma pp_idx_pos n a : In a (map (fun k => k + 1) (zrange (n / 2))) -> 0 <= a.
  Proof. intros H. apply in_map_iff in H. destruct H as (k & <- & Hk). apply zrange_in in Hk. lia. Qed.

  Lemma pp_idx_nodup n : NoDup (map (fun k => k + 1) (zrange (n / 2))).
  Proof.
    unfold zrange. rewrite map_map. apply Injective_map_NoDup; [|apply seq_NoDup].
    intros a b H. lia.
  Qed.

  Lemma pp_idx_mem n j :
    existsb (Z.eqb j) (map (fun k => k + 1) (zrange (n / 2))) = ((1 <=? j) && (j <=? n / 2))%bool.
  Proof.
    apply eq_true_iff_eq. rewrite existsb_exists. split.
    - intros (a & Ha & E). apply Z.eqb_eq in E. subst a. apply in_map_iff in Ha.
      destruct Ha as (k & <- & Hk). apply zrange_in in Hk. lia.
    - intros H. exists j. split; [|apply Z.eqb_refl]. apply in_map_iff. exists (j - 1). split; [lia|].
      apply zrange_in. lia.
  Qed.

  Lemma pp_vec_len n g : 0 <= n -> zlen (pp_vec c0 n g) = n.
  Proof. intros H. unfold pp_vec, zlen. rewrite fold_upd_length. unfold Impedance.fill. rewrite repeat_length. lia. Qed.

  Lemma pp_vec_nth n g i : 0 <= i < n ->
    nthz (pp_vec c0 n g) i = if ((1 <=? i) && (i <=? n / 2))%bool then g i else c0.
  Proof.
    intros H. unfold pp_vec. rewrite fold_upd_nth.
    - rewrite pp_idx_mem. rewrite nthz_fill by lia. reflexivity.
    - apply pp_idx_pos.
    - apply pp_idx_nodup.
    - rewrite zlen_fill by lia. exact H.
  Qed.

  Lemma pp_vec_hi n g i : 0 <= n -> n / 2 < i -> nthz (pp_vec c0 n g) i = c0.
  Proof.
    intros Hn H. destruct (Z_lt_ge_dec i n) as [L|G].
    - rewrite pp_vec_nth by lia. replace (i <=? n / 2) with false by lia. rewrite andb_false_r. reflexivity.
    - apply nthz_beyond. rewrite pp_vec_len by lia. lia.
  Qed.

  (** *** operator+= *)
  Lemma add_into_len l r : zlen (add_into c0 cadd l r) = zlen l.
  Proof. unfold add_into. rewrite zlen_map_zrange; [reflexivity|unfold zlen; lia]. Qed.

  Lemma add_into_nth l r i : 0 <= i < zlen l ->
    nthz (add_into c0 cadd l r) i = if i <? zlen r then cadd (nthz l i) (nthz r i) else nthz l i.
  Proof. intros H. unfold add_into. rewrite nthz_map_zrange by exact H. reflexivity. Qed.

  (** *** pointwise sums *)
  Lemma pointwise_sum_len n ps : 0 <= n -> zlen (pointwise_sum c0 cadd n ps) = n.
  Proof. intros H. unfold pointwise_sum. apply zlen_map_zrange. exact H. Qed.

  Lemma pointwise_sum_nth n ps i : 0 <= i < n ->
    nthz (pointwise_sum c0 cadd n ps) i = fold_left (fun acc p => term c0 cadd p i acc) ps c0.
  Proof. intros H. unfold pointwise_sum. apply nthz_map_zrange. exact H. Qed.

  Lemma zero_vec_sum n : zero_vec c0 n = pointwise_sum c0 cadd n [].
  Proof.
    unfold zero_vec, pointwise_sum, Impedance.fill, zrange. cbn [fold_left]. rewrite map_map.
    generalize (Z.to_nat n) as k. intros k. generalize 0%nat as s.
    induction k as [|k IH]; intros s; cbn [repeat seq map]; [reflexivity|]. rewrite <- IH. reflexivity.
  Qed.

  Lemma add_into_sum n ps p : 0 <= n ->
    add_into c0 cadd (pointwise_sum c0 cadd n ps) p = pointwise_sum c0 cadd n (ps ++ [p]).
  Proof.
    intros Hn. unfold add_into. rewrite pointwise_sum_len by exact Hn.
    transitivity (map (fun i => fold_left (fun acc q => term c0 cadd q i acc) (ps ++ [p]) c0) (zrange n));
      [|reflexivity].
    apply map_ext_in. intros i Hi. apply zrange_in in Hi.
    rewrite !pointwise_sum_nth by exact Hi. rewrite fold_left_app. cbn [fold_left]. reflexivity.
  Qed.

  (** *** the shape statement of the property, all models at once *)
  Definition zero_above (v : list C) (k : Z) : Prop := forall i, k < i -> nthz v i = c0.

  Lemma impedance_shape n (f g : Z -> C) (z : C) : 1 <= n ->
    (zlen (push_loop c0 n f) = n /\ (forall i, 0 <= i <= n / 2 -> nthz (push_loop c0 n f) i = f i)
       /\ zero_above (push_loop c0 n f) (n / 2)) /\
    (zlen (pp_vec c0 n g) = n /\ nthz (pp_vec c0 n g) 0 = c0
       /\ (forall i, 1 <= i <= n / 2 -> nthz (pp_vec c0 n g) i = g i) /\ zero_above (pp_vec c0 n g) (n / 2)) /\
    (zlen (const_vec c0 n z) = n /\ (forall i, 0 <= i < n / 2 -> nthz (const_vec c0 n z) i = z)
       /\ zero_above (const_vec c0 n z) (n / 2 - 1)) /\
    (zlen (zero_vec c0 n) = n /\ zero_above (zero_vec c0 n) (-1)).
  Proof.
    intros Hn. repeat split.
    - apply push_loop_len; lia.
    - intros i Hi. apply push_loop_lo; exact Hi.
    - intros i Hi. apply push_loop_hi; lia.
    - apply pp_vec_len; lia.
    - rewrite pp_vec_nth by lia. reflexivity.
    - intros i Hi. rewrite pp_vec_nth by lia. replace ((1 <=? i) && (i <=? n / 2))%bool with true by lia. reflexivity.
    - intros i Hi. apply pp_vec_hi; lia.
    - apply const_vec_len; lia.
    - intros i Hi. apply const_vec_lo; exact Hi.
    - intros i Hi. apply const_vec_hi; lia.
    - unfold zero_vec. apply zlen_fill; lia.
    - intros i Hi. unfold zero_vec. destruct (Z_lt_ge_dec i n) as [L|G].
      + apply nthz_fill; lia.
      + apply nthz_beyond. rewrite zlen_fill by lia. lia.
  Qed.

  Lemma sum_is_pointwise l r :
    zlen (add_into c0 cadd l r) = zlen l /\
    forall i, 0 <= i < zlen l ->
      nthz (add_into c0 cadd l r) i = if i <? zlen r then cadd (nthz l i) (nthz r i) else nthz l i.
  Proof. split; [apply add_into_len|apply add_into_nth]. Qed.

  (** *** the factory *)
  Section Factory.
    Variable pp fs rw : Z -> C.
    Variable coll : C.
    Notation mk := (make_impedance c0 cadd pp fs rw coll).
    Notation pts := (parts c0 pp fs rw coll).

    Lemma factory_sum n gap use_csr s xi rc file : 0 <= n ->
      mk n gap use_csr s xi rc file =
      if any_selected gap use_csr s xi rc file
      then Some (pointwise_sum c0 cadd n (pts n gap use_csr s xi rc file)) else None.
    Proof.
      intros Hn. unfold make_impedance, any_selected, parts, sel_pp, sel_fs, sel_csr, sel_rw, sel_coll.
      rewrite (zero_vec_sum n).
      destruct (qnz gap); destruct use_csr; destruct (qlt 0 gap);
        destruct (qlt 0 s && qle (- (1)) xi)%bool;
        destruct (qlt 0 rc && qlt rc (qabs (gap / (1 + 1))))%bool;
        destruct file as [d|]; cbn [andb orb negb app];
        rewrite ?add_into_sum by exact Hn; cbn [app]; reflexivity.
    Qed.
  End Factory.

  (** *** a property of samples that zero has and addition keeps is kept by the sum *)
  Section Closed.
    Variable P : C -> Prop.
    Hypothesis P0 : P c0.
    Hypothesis Padd : forall a b, P a -> P b -> P (cadd a b).

    Lemma nthz_P (l : list C) i : Forall P l -> P (nthz l i).
    Proof.
      intros H. unfold Impedance.nthz. destruct (Nat.lt_ge_cases (Z.to_nat i) (length l)) as [L|G].
      - rewrite Forall_forall in H. apply H. apply nth_In. exact L.
      - rewrite nth_overflow by exact G. exact P0.
    Qed.

    Lemma fold_term_P ps i acc : Forall (Forall P) ps -> P acc ->
      P (fold_left (fun acc p => term c0 cadd p i acc) ps acc).
    Proof.
      revert acc. induction ps as [|p r IH]; intros acc H Ha; cbn [fold_left]; [exact Ha|].
      inversion H as [|? ? Hp Hr]; subst. apply IH; [exact Hr|].
      unfold term. destruct (i <? zlen p); [|exact Ha]. apply Padd; [exact Ha|]. apply nthz_P. exact Hp.
    Qed.

    Lemma pointwise_sum_P n ps : Forall (Forall P) ps -> Forall P (pointwise_sum c0 cadd n ps).
    Proof.
      intros H. unfold pointwise_sum. apply Forall_forall. intros x Hx. apply in_map_iff in Hx.
      destruct Hx as (i & <- & _). apply fold_term_P; [exact H|exact P0].
    Qed.

    Lemma push_loop_P n f : (forall i, 0 <= i <= n / 2 -> P (f i)) -> Forall P (push_loop c0 n f).
    Proof.
      intros H. unfold push_loop. apply Forall_app. split.
      - apply Forall_forall. intros x Hx. apply in_map_iff in Hx. destruct Hx as (i & <- & Hi).
        apply zrange_in in Hi. apply H. lia.
      - apply Forall_forall. intros x Hx. apply repeat_spec in Hx. subst x. exact P0.
    Qed.

    Lemma const_vec_P n z : P z -> Forall P (const_vec c0 n z).
    Proof.
      intros H. unfold const_vec. apply Forall_app.
      split; apply Forall_forall; intros x Hx; apply repeat_spec in Hx; subst x; assumption.
    Qed.

    Lemma upd_P (l : list C) k v : Forall P l -> P v -> Forall P (upd l k v).
    Proof.
      revert k. induction l as [|x r IH]; intros k Hl Hv; destruct k; cbn [upd]; try constructor;
        inversion Hl; subst; auto.
    Qed.

    Lemma pp_vec_P n g : (forall i, 1 <= i <= n / 2 -> P (g i)) -> Forall P (pp_vec c0 n g).
    Proof.
      intros H. unfold pp_vec.
      assert (G : forall idx l, (forall a, In a idx -> 1 <= a <= n / 2) -> Forall P l ->
                  Forall P (fold_left (fun rv i => upd rv (Z.to_nat i) (g i)) idx l)).
      { induction idx as [|a r IH]; intros l Hi Hl; cbn [fold_left]; [exact Hl|].
        apply IH; [intros b Hb; apply Hi; right; exact Hb|].
        apply upd_P; [exact Hl|]. apply H. apply Hi. left. reflexivity. }
      apply G.
      - intros a Ha. apply in_map_iff in Ha. destruct Ha as (k & <- & Hk). apply zrange_in in Hk. lia.
      - apply Forall_forall. intros x Hx. apply repeat_spec in Hx. subst x. exact P0.
    Qed.

    Lemma factory_P pp fs rw coll n gap use_csr s xi rc file v : 0 <= n ->
      (forall i, 1 <= i <= n / 2 -> P (pp i)) -> (forall i, 0 <= i <= n / 2 -> P (fs i)) ->
      (forall i, 0 <= i <= n / 2 -> P (rw i)) -> P coll ->
      (forall d, file = Some d -> Forall P d) ->
      make_impedance c0 cadd pp fs rw coll n gap use_csr s xi rc file = Some v -> Forall P v.
    Proof.
      intros Hn Hpp Hfs Hrw Hc Hf E. rewrite factory_sum in E by exact Hn.
      destruct (any_selected gap use_csr s xi rc file); [|discriminate]. injection E as <-.
      apply pointwise_sum_P. unfold parts.
      repeat (apply Forall_app; split).
      - destruct (sel_pp gap use_csr); constructor; [apply pp_vec_P; exact Hpp|constructor].
      - destruct (sel_fs gap use_csr); constructor; [apply push_loop_P; exact Hfs|constructor].
      - destruct (sel_rw gap s xi); constructor; [apply push_loop_P; exact Hrw|constructor].
      - destruct (sel_coll gap rc); constructor; [apply const_vec_P; exact Hc|constructor].
      - destruct file as [d|]; constructor; [apply Hf; reflexivity|constructor].
    Qed.
  End Closed.
End ShapeP.

(** the shape statement does not mention the addition (the section variable is an artefact) *)
Definition impedance_shape_all (C : Type) (c0 : C) := impedance_shape C c0 (fun a _ => a).
Definition pointwise_sum_closed := pointwise_sum_P.
