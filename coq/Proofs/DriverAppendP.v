(** The `Append a` statements of the driver model (Model/Driver.v, C10/C11/C12/C14) against the generated bodies of the
    append overloads (Gen/Gen_H5Append.v): the records the model's [recs] puts into its file stand for exactly the datasets
    the real method extends by one record - for every value of the conditions the translator cannot evaluate (every history
    of the HDF5File object). *)
From Coq Require Import List ZArith String Bool Lia.
From Inovesa Require Import Base.FieldKit Model.Records Model.H5Append Gen.Gen_H5Append Proofs.H5AppendP Proofs.H5AppendMainP.
From Inovesa Require Model.Driver.
Import ListNotations.
Local Open Scope Z_scope.

Section DA.
  Variable K : Driver.kern.

  (** datasets one record of the driver model stands for (header of Model/Driver.v) *)
  Definition kind_fam (r : Driver.payload K) : list dset :=
    match r with
    | Driver.RPS _ => [DPSAxis; DPSData]
    | Driver.RDef _ _ _ _ _ => defaults_group
    | Driver.RCsr _ => fam_ef true
    | Driver.RWake _ => fam_wake
    | Driver.RTracks _ => fam_tracks
    | Driver.RRF _ => []
    | Driver.RPadded _ => fam_padded
    end.

  (** the AppendType value main() passes, from the model's [at_all] *)
  Definition rat (c : Driver.cfg) (s : Driver.st K) (t : Driver.attype) : atype :=
    match Driver.at_all c s t with
    | (true, true) => AtAll
    | (true, false) => AtPhaseSpace
    | _ => AtDefaults
    end.

  (** the call of HDF5File main() makes for [Append a]: AppendType argument, bool argument (append(&rdtn_field) uses the
      default fullspectrum = true), body *)
  Definition call_of (c : Driver.cfg) (s : Driver.st K) (a : Driver.akind) : atype * (Z -> bool) * ablk :=
    match a with
    | Driver.AGrid t => (rat c s t, nopar, gen_body_ps)
    | Driver.ACsr => (AtAll, fun _ => true, gen_body_ef)
    | Driver.AWake => (AtAll, nopar, gen_body_wake)
    | Driver.ATracks => (AtAll, nopar, gen_body_tracks)
    | Driver.ARFKicks => (AtAll, nopar, gen_body_rfkicks)
    | Driver.APadded => (AtAll, nopar, gen_body_padded)
    end.

  Definition model_fam (c : Driver.cfg) (s : Driver.st K) (a : Driver.akind) : list dset :=
    flat_map kind_fam (map (@Driver.rdata K) (Driver.recs c a s)).

  Theorem driver_append_is_generated_append (c : Driver.cfg) (s : Driver.st K) (a : Driver.akind)
          (h : Z -> bool) (len : Z) (t : atarget) :
    let '(av, pv, body) := call_of c s a in
    added len t (fst (arun av pv h body)) =
    expected (model_fam c s a) (match a with Driver.ARFKicks => 1 | _ => 0 end) len t.
  Proof.
    pose proof (appends_ok_sound _ _ _ _ _ _ main_appends_checked h len t) as (Hps & Hef & Hwk & Htr & Hpad & Hrf).
    destruct a as [g| | | | |]; cbn [call_of].
    - rewrite (Hps (rat c s g)). unfold model_fam, rat, Driver.recs.
      destruct g; cbn [Driver.at_all]; try reflexivity.
      destruct ((0 <? Driver.h5save c) && (Driver.onr s mod Driver.h5save c =? 0)); reflexivity.
    - rewrite (Hef true). reflexivity.
    - rewrite Hwk. reflexivity.
    - rewrite Htr. reflexivity.
    - rewrite Hrf. reflexivity.
    - rewrite Hpad. reflexivity.
  Qed.
End DA.
