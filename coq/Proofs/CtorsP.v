(** Soundness of the forwarding checker [fwd_ok] (Model/Ctors.v): proof by reflection
    (DESIGN 2.2) - the general statement is proved once for every constructor table the checker
    accepts; the per-run obligation on the generated table is [fwd_ok ... = true] by vm_compute. *)
From Coq Require Import List String Bool Arith ZArith Lia.
From Inovesa Require Import Model.Ctors.
Import ListNotations.
Local Open Scope string_scope.

Definition fval_of {V} (env : string -> V) (e : init_expr) : fval V :=
  match e with IParam q => FV (env q) | IBool b => FB b | INum z => FN z | IOther => FOther end.

(** What "the dynamic constructor [d] hands [names] to the [lin] constructor of the static
    map" means, in terms of the executable model of Model/Ctors.v *)
Definition forwarding_spec (cands : list base_ctor) (d : dyn_ctor) (lin : bool)
           (names : list string) (want : list (string * init_expr)) : Prop :=
  exists i c,
    nth_error cands i = Some c /\
    (* overload resolution on the number of forwarded arguments selects c ... *)
    resolve cands (List.length (dc_base_args d)) = Some (i, c) /\
    (* ... which is the constructor the compiler selected *)
    i = dc_clang d /\
    (* it is the constructor of the wanted RF model *)
    lookup "_linear" (bc_inits c) = Some (IBool lin) /\
    bc_params c = names /\
    (forall p, In p names -> In p (dc_params d)) /\
    forall (V : Type) (env : string -> V),
      (* every parameter p of c receives the dynamic constructor's own argument named p *)
      (forall p, In p names ->
                 lookup p (bind (bc_params c) (map env (dc_base_args d))) = Some (env p)) /\
      (* and the members of the static sub-object hold what [want] says *)
      exists fs, dyn_base cands d env = Some (i, fs) /\
                 forall m e, In (m, e) want -> lookup m fs = Some (fval_of env e).

Lemma strs_eqb_eq a b : strs_eqb a b = true -> a = b.
Proof.
  revert b. induction a as [|x r IH]; intros [|y s] H; cbn in H; try discriminate; auto.
  apply andb_true_iff in H as [H1 H2]. apply String.eqb_eq in H1. subst. f_equal. auto.
Qed.

Lemma init_eqb_eq a b : init_eqb a b = true -> a = b.
Proof.
  destruct a, b; cbn; intros H; try discriminate; auto.
  - apply String.eqb_eq in H. congruence.
  - apply Bool.eqb_prop in H. congruence.
  - apply Z.eqb_eq in H. congruence.
Qed.

Lemma lookup_bind {V} (env : string -> V) names p :
  In p names -> lookup p (bind names (map env names)) = Some (env p).
Proof.
  unfold bind. induction names as [|x r IH]; intros H; [destruct H|].
  cbn [map combine lookup]. destruct (String.eqb p x) eqn:E.
  - apply String.eqb_eq in E. subst. reflexivity.
  - destruct H as [H|H]; [subst; rewrite String.eqb_refl in E; discriminate|auto].
Qed.

Lemma indexed_from_nth {A} (l : list A) k i c :
  In (i, c) (indexed_from k l) -> (k <= i)%nat /\ nth_error l (i - k) = Some c.
Proof.
  revert k. induction l as [|x r IH]; intros k H; [destruct H|].
  cbn in H. destruct H as [H|H].
  - inversion H; subst. split; [lia|]. replace (i - i)%nat with 0%nat by lia. reflexivity.
  - apply IH in H as [H1 H2]. split; [lia|].
    replace (i - k)%nat with (S (i - S k)) by lia. exact H2.
Qed.

Lemma resolve_spec cands n i c :
  resolve cands n = Some (i, c) -> nth_error cands i = Some c /\ List.length (bc_params c) = n.
Proof.
  unfold resolve. intros H.
  destruct (filter _ _) as [|ic [|? ?]] eqn:F; try discriminate.
  inversion H; subst.
  assert (I : In (i, c) (filter (fun ic => Nat.eqb (List.length (bc_params (snd ic))) n)
                               (indexed_from 0 cands))) by (rewrite F; left; reflexivity).
  apply filter_In in I as [I1 I2]. apply indexed_from_nth in I1 as [_ I1].
  rewrite Nat.sub_0_r in I1. split; [exact I1|]. apply Nat.eqb_eq in I2. exact I2.
Qed.

Definition params_closed (names : list string) (inits : list (string * init_expr)) : bool :=
  forallb (fun me => match snd me with
                     | IParam p => existsb (String.eqb p) names
                     | _ => true
                     end) inits.

Lemma existsb_in p names : existsb (String.eqb p) names = true -> In p names.
Proof.
  intros H. apply existsb_exists in H as [x [H1 H2]]. apply String.eqb_eq in H2. subst. exact H1.
Qed.

Lemma eval_inits_total {V} (env : string -> V) names inits :
  params_closed names inits = true ->
  exists fs, eval_inits (bind names (map env names)) inits = Some fs /\
             forall m e, lookup m inits = Some e -> lookup m fs = Some (fval_of env e).
Proof.
  induction inits as [|[m0 e0] r IH]; intros H.
  - exists []. split; [reflexivity|]. intros m e L. discriminate.
  - cbn in H. apply andb_true_iff in H as [H0 Hr]. destruct (IH Hr) as [fs [E L]].
    assert (E0 : eval_init (bind names (map env names)) e0 = Some (fval_of env e0)).
    { destruct e0; cbn; try reflexivity. apply existsb_in in H0.
      rewrite (lookup_bind env names p H0). reflexivity. }
    exists ((m0, fval_of env e0) :: fs). split.
    + cbn [eval_inits]. rewrite E0, E. reflexivity.
    + intros m e Lm. cbn [lookup] in *. destruct (String.eqb m m0).
      * inversion Lm; subst. reflexivity.
      * auto.
Qed.

(** the checker with the closedness test the soundness proof needs *)
Definition fwd_check (cands : list base_ctor) (d : dyn_ctor) (lin : bool) (names : list string)
           (want : list (string * init_expr)) : bool :=
  fwd_ok cands d lin names want &&
  match resolve cands (List.length (dc_base_args d)) with
  | Some (_, c) => params_closed (bc_params c) (bc_inits c)
  | None => false
  end.

Theorem fwd_check_sound cands d lin names want :
  fwd_check cands d lin names want = true -> forwarding_spec cands d lin names want.
Proof.
  unfold fwd_check, fwd_ok. intros H.
  destruct (resolve cands (List.length (dc_base_args d))) as [[i c]|] eqn:R;
    [|rewrite andb_false_r in H; discriminate].
  apply andb_true_iff in H as [H Hclosed].
  apply andb_true_iff in H as [H Hwant]. apply andb_true_iff in H as [H Hdp].
  apply andb_true_iff in H as [H Hargs]. apply andb_true_iff in H as [H Hps].
  apply andb_true_iff in H as [Hi Hlin].
  apply Nat.eqb_eq in Hi. apply strs_eqb_eq in Hps. apply strs_eqb_eq in Hargs.
  destruct (resolve_spec _ _ _ _ R) as [Hnth Hlen].
  exists i, c. split; [exact Hnth|]. split; [exact R|]. split; [exact Hi|].
  split.
  { unfold is_linear_ctor, is_sinusoidal_ctor in Hlin.
    destruct lin; destruct (lookup "_linear" (bc_inits c)) as [[?|[|]|?|]|]; try discriminate; reflexivity. }
  split; [exact Hps|]. split.
  { intros p Hp. rewrite forallb_forall in Hdp. apply existsb_in. apply Hdp. exact Hp. }
  intros V env. rewrite Hps, Hargs. split.
  { intros p Hp. apply lookup_bind. exact Hp. }
  rewrite Hps in Hclosed.
  destruct (eval_inits_total env names (bc_inits c) Hclosed) as [fs [E L]].
  exists fs. split.
  - unfold dyn_base, construct. rewrite map_length, Hargs.
    rewrite Hargs in R. rewrite R. rewrite Hps, E. reflexivity.
  - intros m e Hin. unfold inits_ok in Hwant. rewrite forallb_forall in Hwant.
    specialize (Hwant _ Hin). cbn [fst snd] in Hwant.
    destruct (lookup m (bc_inits c)) as [e'|] eqn:Lm; [|discriminate].
    apply init_eqb_eq in Hwant. subst e'. apply L. exact Lm.
Qed.
