(** * Which applyTo body moves the tracked particles (C15)

    `<map>->applyToAll(trackme)` (SourceMap::applyToAll) calls the virtual applyTo of the object: the body that runs
    is the one of the nearest class on the way from the object's class up to SourceMap that declares applyTo.
    Gen_Track.gen_applyTo_dispatch is that table as read from the class declarations of inc/SM/*.hpp,
    gen_tracked_classes the classes main() stores in the variables it tracks particles through.  Every theorem
    of C15 about a kick-type map (wake kick, RF kick - static or time-dependent -, drift) is about
    KickMap::applyTo as generated (gen_kick_x / gen_kick_y) reading the map's `_offset`: they are theorems about
    the program only if that body is the one these classes run.  A class that overrides applyTo (a particle
    transport of its own, with parameters of its own - e.g. the construction-time RF phase instead of the
    step's table) changes the table and breaks the statement below (or is refused by the translator). *)
From Coq Require Import List ZArith QArith Qcanon Bool String.
From Inovesa Require Import Base.FieldKit Base.Float32 Model.Kick Model.Tracking Model.StepKinds
  Model.TrackX Model.DynRF Gen.Gen_Track Model.TrackGen.
Import ListNotations.

(** the body a virtual applyTo call on an object of class [c] runs *)
Fixpoint assoc_str (l : list (string * string)) (c : string) : option string :=
  match l with
  | [] => None
  | (a, b) :: r => if String.eqb a c then Some b else assoc_str r c
  end.
Definition dispatch_of (c : string) : option string := assoc_str gen_applyTo_dispatch c.

(** wake kick, RF kick and drift are KickMaps; the Fokker-Planck map has its own applyTo *)
Definition kick_kind (m : smap) : bool := match m with MWake | MRF | MDrift => true | MFP => false end.
Definition body_of_kind (m : smap) : string := if kick_kind m then "KickMap"%string else "FokkerPlanckMap"%string.

(** the checkable form: every tracked class runs the body of its kind (or is the disabled map, Identity), and
    that body is one Gen_Track holds *)
Definition tracked_ok (mc : smap * string) : bool :=
  match dispatch_of (snd mc) with
  | Some b => (String.eqb b (body_of_kind (fst mc)) || (String.eqb (snd mc) "Identity" && String.eqb b "Identity"))
              && existsb (String.eqb b) gen_applyTo_read
  | None => false
  end.

Lemma gen_tracked_all_ok : forallb tracked_ok gen_tracked_classes = true.
Proof. vm_compute. reflexivity. Qed.

Lemma in_read_of_existsb b : existsb (String.eqb b) gen_applyTo_read = true -> In b gen_applyTo_read.
Proof.
  intro H. apply existsb_exists in H. destruct H as (x & Hin & He).
  apply String.eqb_eq in He. subst x. exact Hin.
Qed.

(** every class main() tracks particles through runs the generated body of its kind *)
Theorem tracked_maps_run_the_generated_applyTo :
  forall m c, In (m, c) gen_tracked_classes ->
    (dispatch_of c = Some (body_of_kind m) \/ (c = "Identity"%string /\ dispatch_of c = Some "Identity"%string)) /\
    (forall b, dispatch_of c = Some b -> In b gen_applyTo_read).
Proof.
  intros m c Hin.
  pose proof gen_tracked_all_ok as H. rewrite forallb_forall in H. specialize (H _ Hin).
  unfold tracked_ok in H. cbn [fst snd] in H.
  destruct (dispatch_of c) as [b|] eqn:D; [|discriminate].
  apply andb_true_iff in H. destruct H as [H1 H2].
  split.
  - apply orb_true_iff in H1. destruct H1 as [H1|H1].
    + apply String.eqb_eq in H1. left. rewrite H1. reflexivity.
    + apply andb_true_iff in H1. destruct H1 as [Hc Hb].
      apply String.eqb_eq in Hc. apply String.eqb_eq in Hb. right. split; [exact Hc | rewrite Hb; reflexivity].
  - intros b' E. injection E as <-. apply in_read_of_existsb. exact H2.
Qed.

(** in particular: every kick-type map of main() - WakePotentialMap, RFKickMap, DynamicRFKickMap, DriftMap - is
    tracked by KickMap::applyTo *)
Corollary kick_maps_run_KickMap_applyTo :
  forall m c, In (m, c) gen_tracked_classes -> kick_kind m = true -> c <> "Identity"%string ->
    dispatch_of c = Some "KickMap"%string.
Proof.
  intros m c Hin Hk Hc. destruct (tracked_maps_run_the_generated_applyTo m c Hin) as [[H|[H _]] _].
  - rewrite H. unfold body_of_kind. rewrite Hk. reflexivity.
  - contradiction.
Qed.

Section Same.
  Variable sin : Qc -> Qc.
  Variable G : Type.
  Variable kickmap : list Qc -> G -> G.
  Variable m : rfmap QcF.

  (** ... and for the time-dependent RF map that body reads the table of the SAME step: the state after
      DynamicRFKickMap::apply as generated - whose `_offset` is the one KickMap::apply has just kicked the grid
      with (Proofs/TrackDynP.v: dyn_particles_get_the_grids_kick) - is the state whose `_offset` moves the particles *)
  Theorem dynrf_particles_read_the_applied_table :
    In (MRF, "DynamicRFKickMap"%string) gen_tracked_classes /\
    dispatch_of "DynamicRFKickMap" = Some "KickMap"%string /\
    dispatch_of "RFKickMap" = Some "KickMap"%string /\
    forall n (sp : @st QcF G * list pos),
      let sp' := dyn_track_step sin G kickmap m n gen_dyn_calckick_args gen_dyn_apply sp in
      fst sp' = dyn_apply sin G kickmap m gen_dyn_calckick_args gen_dyn_apply (fst sp) /\
      snd sp' = applyToAll n (OpKick false (getQ (offs (fst sp')))) (snd sp).
  Proof.
    split; [vm_compute; tauto|]. split; [vm_compute; reflexivity|]. split; [vm_compute; reflexivity|].
    intros n sp. split; reflexivity.
  Qed.
End Same.
