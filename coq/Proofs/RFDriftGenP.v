(** * The offset fields of RFKickMap and DriftMap GENERATED from the C++ (Gen/Gen_RFDrift.v, run by Model/RFDriftGen.v)
      are the fields of Model/RF.v, for every argument, grid size, bunch count, field and interpretation of tan/sin/asin;
      the C03 / C08 / C19 statements that consume the offset fields, restated over the generated definitions and
      composed with Gen_Scaling (main()'s angle / slip / f_RF / E0) and Gen_Ruler (zerobin / delta / at). *)
From Coq Require Import List ZArith Lia Bool String Ring Field QArith Qcanon.
From Inovesa Require Import Base.FieldKit Base.Float32 Model.RF Model.RFDriftKit Gen.Gen_RFDrift Gen.Gen_Ruler Model.RFDriftGen
  Proofs.RFP Proofs.RulerGenP.
Import ListNotations.
Local Open Scope Z_scope.

(** ** loops: what a nest of counting loops that writes one element per iteration leaves *)
Lemma rfd_in_zrange n j : In j (zrange n) <-> 0 <= j < n.
Proof.
  unfold zrange. rewrite in_map_iff. split.
  - intros [k [E Hk]]. apply in_seq in Hk. lia.
  - intros H. exists (Z.to_nat j). split; [lia | apply in_seq; lia].
Qed.

Section Loops.
  Variables (X A : Type).
  Variables (idx : X -> Z) (val : X -> A).

  Definition wr (a : Z -> A) (p : X) : Z -> A := rfd_upd a (idx p) (val p).

  (** after the writes of [l], element [k] holds what it held before (no write hit it) or what one of the writes
      that hit it stored *)
  Lemma writes_char (l : list X) : forall (old : Z -> A) (k : Z),
    (fold_left wr l old k = old k /\ forall p, In p l -> idx p <> k) \/
    (exists p, In p l /\ idx p = k /\ fold_left wr l old k = val p).
  Proof.
    induction l as [|h t IH]; intros old k; cbn [fold_left].
    - left. split; [reflexivity | intros p []].
    - destruct (IH (wr old h) k) as [[E N] | [p [Hp [Ek Ev]]]].
      + destruct (Z.eq_dec (idx h) k) as [Eh | Nh].
        * right. exists h. split; [left; reflexivity|]. split; [exact Eh|].
          rewrite E. unfold wr, rfd_upd. rewrite <- Eh, Z.eqb_refl. reflexivity.
        * left. split.
          -- rewrite E. unfold wr, rfd_upd. destruct (k =? idx h) eqn:Q; [apply Z.eqb_eq in Q; congruence | reflexivity].
          -- intros p [<- | Hp]; [exact Nh | apply N; exact Hp].
      + right. exists p. split; [right; exact Hp|]. split; assumption.
  Qed.

  Lemma writes_hit (l : list X) (old : Z -> A) (p : X) :
    In p l -> (forall q, In q l -> idx q = idx p -> val q = val p) ->
    fold_left wr l old (idx p) = val p.
  Proof.
    intros Hp Hc. destruct (writes_char l old (idx p)) as [[_ N] | [q [Hq [Eq Ev]]]].
    - exfalso. exact (N p Hp eq_refl).
    - rewrite Ev. apply Hc; assumption.
  Qed.

  Lemma writes_miss (l : list X) (old : Z -> A) (k : Z) :
    (forall q, In q l -> idx q <> k) -> fold_left wr l old k = old k.
  Proof.
    intros N. destruct (writes_char l old k) as [[E _] | [q [Hq [Eq _]]]]; [exact E | exfalso; exact (N q Hq Eq)].
  Qed.
End Loops.

Section Fill.
  Variable A : Type.

  Lemma fill1_is_writes b (idx : Z -> Z) (val : Z -> A) old :
    fill1 b idx val old = fold_left (wr Z A idx val) (zrange b) old.
  Proof. reflexivity. Qed.

  Definition pairs (ob ib : Z) : list (Z * Z) := flat_map (fun o => map (fun i => (o, i)) (zrange ib)) (zrange ob).

  Lemma in_pairs ob ib o i : In (o, i) (pairs ob ib) <-> 0 <= o < ob /\ 0 <= i < ib.
  Proof.
    unfold pairs. rewrite in_flat_map. split.
    - intros [o' [Ho Hi]]. apply in_map_iff in Hi. destruct Hi as [i' [E Hi]]. inversion E; subst.
      split; apply rfd_in_zrange; assumption.
    - intros [Ho Hi]. exists o. split; [apply rfd_in_zrange; exact Ho|].
      apply in_map_iff. exists i. split; [reflexivity | apply rfd_in_zrange; exact Hi].
  Qed.

  Lemma fill2_is_writes ob ib (idx : Z -> Z -> Z) (val : Z -> Z -> A) old :
    fill2 ob ib idx val old =
    fold_left (wr (Z * Z) A (fun p => idx (fst p) (snd p)) (fun p => val (fst p) (snd p))) (pairs ob ib) old.
  Proof.
    unfold fill2, pairs. generalize (zrange ob) as lo. intros lo. revert old.
    induction lo as [|o lo IH]; intros old; cbn [fold_left flat_map]; [reflexivity|].
    rewrite fold_left_app, <- IH. f_equal.
    generalize (zrange ib) as li. intros li. revert old.
    induction li as [|i li IHi]; intros old; cbn [fold_left map]; [reflexivity|].
    rewrite <- IHi. reflexivity.
  Qed.

  (** the block layout: index [o*n + i], value independent of the block [o] *)
  Lemma fill2_blocks (nb n : Z) (idx : Z -> Z -> Z) (val : Z -> Z -> A) (g : Z -> A) (old : Z -> A) :
    0 < n -> 0 <= nb ->
    (forall o i, idx o i = o * n + i) ->
    (forall o i, 0 <= o < nb -> 0 <= i < n -> val o i = g i) ->
    forall k, fill2 nb n idx val old k = if (0 <=? k) && (k <? n * nb) then g (k mod n) else old k.
  Proof.
    intros Hn Hnb Hidx Hval k. rewrite fill2_is_writes.
    destruct ((0 <=? k) && (k <? n * nb)) eqn:R.
    - apply andb_true_iff in R. destruct R as [R1 R2]. apply Z.leb_le in R1. apply Z.ltb_lt in R2.
      assert (Ho : 0 <= k / n < nb) by (split; [apply Z.div_pos; lia | apply Z.div_lt_upper_bound; lia]).
      assert (Hi : 0 <= k mod n < n) by (apply Z.mod_pos_bound; lia).
      assert (Ek : k = idx (k / n) (k mod n)) by (rewrite Hidx; pose proof (Z.div_mod k n); lia).
      rewrite Ek at 1.
      change (idx (k / n) (k mod n)) with ((fun p : Z * Z => idx (fst p) (snd p)) (k / n, k mod n)).
      rewrite writes_hit.
      + cbn [fst snd]. apply Hval; assumption.
      + apply in_pairs. split; assumption.
      + intros [o i] Hq E. apply in_pairs in Hq. destruct Hq as [Hqo Hqi]. cbn [fst snd] in *.
        rewrite !Hidx in E. rewrite !Hval by assumption.
        assert (Eo : o = k / n) by nia. subst o. f_equal. lia.
    - apply writes_miss. intros [o i] Hq. apply in_pairs in Hq. destruct Hq as [Hqo Hqi]. cbn [fst snd].
      rewrite Hidx. intro E.
      apply andb_false_iff in R. destruct R as [R | R]; [apply Z.leb_gt in R | apply Z.ltb_ge in R]; nia.
  Qed.

  (** one loop writing element [y] in iteration [y] *)
  Lemma fill1_range (b : Z) (idx : Z -> Z) (val : Z -> A) (g : Z -> A) (old : Z -> A) :
    (forall y, idx y = y) -> (forall y, 0 <= y < b -> val y = g y) ->
    forall k, fill1 b idx val old k = if (0 <=? k) && (k <? b) then g k else old k.
  Proof.
    intros Hidx Hval k. rewrite fill1_is_writes.
    destruct ((0 <=? k) && (k <? b)) eqn:R.
    - apply andb_true_iff in R. destruct R as [R1 R2]. apply Z.leb_le in R1. apply Z.ltb_lt in R2.
      rewrite <- (Hidx k) at 1. rewrite writes_hit.
      + apply Hval. lia.
      + apply rfd_in_zrange. lia.
      + intros q Hq E. rewrite !Hidx in E. subst q. reflexivity.
    - apply writes_miss. intros q Hq. apply rfd_in_zrange in Hq. rewrite Hidx. intro E. subst q.
      apply andb_false_iff in R. destruct R as [R | R]; [apply Z.leb_gt in R | apply Z.ltb_ge in R]; lia.
  Qed.
End Fill.

(** ** arithmetic: the generated value expressions are the ones of Model/RF.v *)
Section Arith.
  Variable K : Fld.
  Add Field KFgen : (@Fth K).
  Variables ftan fsin fasin : K -> K.
  Local Open Scope F_scope.

  (** field identities up to the meaning of [/]: every quotient is read as a product with the inverse, so that no
      fact about the denominators is needed (the two sides divide by the same things) *)
  Ltac fring := unfold two; rewrite ?(Fdiv_def (@Fth K)); ring.

  Lemma gen_lin_value_is_model (A0 A1 : axfacts K) (M : rfk_members K) (phase ampl : K) (nb xs ys n x : Z) :
    rfk_lin_value K ftan fsin fasin A0 A1 M phase ampl nb xs ys n x =
    rf_lin (ftan (m_angle M)) (ax_zerobin A0) (m_syncphase M - phase) (m_bl2phase M) (ax_delta A0) ampl x.
  Proof. unfold rfk_lin_value, rf_lin. fring. Qed.

  Lemma gen_sin_arg_is_model (A0 A1 : axfacts K) (M : rfk_members K) (phase ampl : K) (nb xs ys n x : Z) :
    rfk_sin_arg K ftan fsin fasin A0 A1 M phase ampl nb xs ys n x = ax_at A0 x * m_bl2phase M + phase.
  Proof. unfold rfk_sin_arg. fring. Qed.

  Lemma gen_sin_value_is_model (A0 A1 : axfacts K) (M : rfk_members K) (phase ampl : K) (nb xs ys n x : Z) :
    rfk_sin_value K ftan fsin fasin A0 A1 M phase ampl nb xs ys n x =
    rf_sin (m_revolutionpart M) ampl (m_V_RF M) (m_V0 M) (ax_delta A1) (ax_scale A1 U_ElectronVolt)
           (fsin (ax_at A0 x * m_bl2phase M + phase)).
  Proof. unfold rfk_sin_value, rf_sin. rewrite gen_sin_arg_is_model. fring. Qed.

  (** the accumulation loop of the DriftMap constructor is the sum of [drift_sum] *)
  Lemma acc_loop_sum (term : Z -> K) (f : K -> Z -> K) :
    (forall acc i, f acc i = acc + term i) ->
    forall (l : list Z) (init : K), fold_left f l init = init + fsum (map term l).
  Proof.
    intros Hf l. induction l as [|h t IH]; intros init; cbn [fold_left map fsum]; [ring|].
    rewrite IH, Hf. ring.
  Qed.

  Lemma drift_sum_as_fsum (slip : list K) (p r : K) : forall k : nat,
    drift_sum slip p r k =
    fsum (map (fun j => nth j slip 0 * p * kpow r (k + j)) (seq 0 (List.length slip))).
  Proof.
    induction slip as [|s rest IH]; intros k; cbn [drift_sum List.length seq map fsum]; [reflexivity|].
    rewrite Nat.add_0_r. f_equal. rewrite IH, <- seq_shift, map_map.
    f_equal. apply map_ext. intros j. cbn [nth]. rewrite Nat.add_succ_r. reflexivity.
  Qed.

  Lemma gen_dm_value_is_model (A0 A1 : axfacts K) (slip : list K) (E0 : K) (nb xs ys y : Z) :
    dm_value K ftan fsin fasin A0 A1 slip E0 nb xs ys y =
    drift_off slip (ax_scale A1 U_ElectronVolt) E0 (ax_delta A0) (ax_at A1 y).
  Proof.
    unfold dm_value, drift_off, acc_loop.
    rewrite (acc_loop_sum (fun i => nthK slip i * ax_at A1 y *
                                    kpow (ax_at A1 y * ax_scale A1 U_ElectronVolt / E0) (Z.to_nat i))).
    2:{ intros acc i. fring. }
    rewrite drift_sum_as_fsum. unfold zlen, zrange. rewrite Nat2Z.id, map_map.
    replace (map (fun x : nat => nthK slip (Z.of_nat x) * ax_at A1 y *
                   kpow (ax_at A1 y * ax_scale A1 U_ElectronVolt / E0) (Z.to_nat (Z.of_nat x))) (seq 0 (List.length slip)))
      with (map (fun j : nat => nth j slip 0 * ax_at A1 y * kpow (ax_at A1 y * ax_scale A1 U_ElectronVolt / E0) (0 + j))
                (seq 0 (List.length slip))).
    2:{ apply map_ext. intros j. unfold nthK. rewrite Nat2Z.id. reflexivity. }
    fring.
  Qed.
End Arith.

(** ** what _calcKick and the constructors leave in [_offset] (closed form for every index) *)
Section Fields.
  Variable K : Fld.
  Add Field KFgen2 : (@Fth K).
  Variables ftan fsin fasin : K -> K.
  Local Open Scope F_scope.
  Ltac fring := unfold two; rewrite ?(Fdiv_def (@Fth K)); ring.

  Definition in_range (i len : Z) : bool := ((0 <=? i) && (i <? len))%Z%bool.

  (** the field one call of _calcKick(phase, ampl) writes, as a function of the position index *)
  Definition model_kick (A0 A1 : axfacts K) (M : rfk_members K) (phase ampl : K) (x : Z) : K :=
    if m_linear M then
      rf_lin (ftan (m_angle M)) (ax_zerobin A0) (m_syncphase M - phase) (m_bl2phase M) (ax_delta A0) ampl x
    else
      rf_sin (m_revolutionpart M) ampl (m_V_RF M) (m_V0 M) (ax_delta A1) (ax_scale A1 U_ElectronVolt)
             (fsin (ax_at A0 x * m_bl2phase M + phase)).

  (** RFKickMap::_calcKick: every bunch's block of [_offset] receives the field; entries beyond the nb blocks keep
      their content; updateSM() runs after the loops, i.e. the table is built from the new offsets *)
  Theorem gen_calcKick_is_model (nb nx ny : Z) (A0 A1 : axfacts K) (M : rfk_members K) (phase ampl : K) (st : rfd_state K) :
    (0 < nx)%Z -> (0 <= nb)%Z ->
    let st' := gen_calcKick ftan fsin fasin nb nx ny A0 A1 M phase ampl st in
    (forall i, rs_offset st' i =
               if in_range i (nx * nb) then rf_offsets nx (model_kick A0 A1 M phase ampl) i else rs_offset st i) /\
    (forall i, rs_built st' i = rs_offset st' i).
  Proof.
    intros Hn Hnb. unfold gen_calcKick, rfk_calc_prog. cbn [fold_left rfd_exec rs_offset rs_built].
    split; [|intros i; reflexivity].
    intros i. unfold gen_calc_fill, model_kick, rf_offsets, in_range.
    unfold rfd_xsize, rfd_ysize, rfk_kick_is_x. cbn match.
    destruct (m_linear M).
    - unfold rfk_lin_outer, rfk_lin_inner.
      apply (fill2_blocks K nb nx _ _
               (fun x => rf_lin (ftan (m_angle M)) (ax_zerobin A0) (m_syncphase M - phase) (m_bl2phase M) (ax_delta A0) ampl x));
        try assumption.
      + intros o j. unfold rfk_lin_index. lia.
      + intros o j _ _. apply gen_lin_value_is_model.
    - unfold rfk_sin_outer, rfk_sin_inner.
      apply (fill2_blocks K nb nx _ _
               (fun x => rf_sin (m_revolutionpart M) ampl (m_V_RF M) (m_V0 M) (ax_delta A1) (ax_scale A1 U_ElectronVolt)
                                (fsin (ax_at A0 x * m_bl2phase M + phase)))); try assumption.
      + intros o j. unfold rfk_sin_index. lia.
      + intros o j _ _. apply gen_sin_value_is_model.
  Qed.

  (** the entry KickMap::apply reads for bunch b, row x *)
  Corollary gen_calcKick_entry (nb nx ny : Z) (A0 A1 : axfacts K) (M : rfk_members K) (phase ampl : K) (st : rfd_state K) (b x : Z) :
    (0 <= b < nb)%Z -> (0 <= x < nx)%Z ->
    rs_offset (gen_calcKick ftan fsin fasin nb nx ny A0 A1 M phase ampl st) (Z.min b (nb - 1) * nx + x)%Z =
    model_kick A0 A1 M phase ampl x.
  Proof.
    intros Hb Hx.
    destruct (gen_calcKick_is_model nb nx ny A0 A1 M phase ampl st ltac:(lia) ltac:(lia)) as [E _].
    rewrite E. unfold in_range.
    replace ((0 <=? Z.min b (nb - 1) * nx + x) && (Z.min b (nb - 1) * nx + x <? nx * nb))%Z%bool with true.
    2:{ symmetry. apply andb_true_iff. split; [apply Z.leb_le | apply Z.ltb_lt]; nia. }
    apply (rf_offsets_all_bunches K nx _ (Z.min b (nb - 1)) x Hx).
  Qed.

  (** *** the constructors *)
  Definition bl2phase_of (A0 : axfacts K) (c two_pi f_RF : K) : K := ax_scale A0 U_Meter / c * f_RF * two_pi.

  Lemma lin_members (A0 A1 : axfacts K) (c two_pi angle f_RF : K) :
    let M := rfk_ctor_lin_members K ftan fsin fasin A0 A1 c two_pi angle f_RF in
    m_linear M = true /\ m_angle M = angle /\ m_syncphase M = 0 /\ m_bl2phase M = bl2phase_of A0 c two_pi f_RF /\
    rfk_ctor_lin_phase K ftan fsin fasin A0 A1 M angle f_RF = m_syncphase M /\
    rfk_ctor_lin_ampl K ftan fsin fasin A0 A1 M angle f_RF = 1.
  Proof.
    unfold rfk_ctor_lin_members, rfk_ctor_lin_phase, rfk_ctor_lin_ampl, bl2phase_of. cbn [m_linear m_angle m_syncphase m_bl2phase].
    repeat split; first [reflexivity | fring].
  Qed.

  Lemma sin_members (A0 A1 : axfacts K) (c two_pi revolutionpart V_RF f_RF V0 : K) :
    let M := rfk_ctor_sin_members K ftan fsin fasin A0 A1 c two_pi revolutionpart V_RF f_RF V0 in
    m_linear M = false /\ m_revolutionpart M = revolutionpart /\ m_V_RF M = V_RF /\ m_V0 M = V0 /\
    m_syncphase M = fasin (V0 / V_RF) /\ m_bl2phase M = bl2phase_of A0 c two_pi f_RF /\
    rfk_ctor_sin_phase K ftan fsin fasin A0 A1 M revolutionpart V_RF f_RF V0 = m_syncphase M /\
    rfk_ctor_sin_ampl K ftan fsin fasin A0 A1 M revolutionpart V_RF f_RF V0 = 1.
  Proof.
    unfold rfk_ctor_sin_members, rfk_ctor_sin_phase, rfk_ctor_sin_ampl, bl2phase_of.
    cbn [m_linear m_revolutionpart m_V_RF m_V0 m_syncphase m_bl2phase].
    repeat split; first [reflexivity | fring | f_equal; fring].
  Qed.

  (** RFKickMap(in, out, angle, f_RF, ..): the static linear field tan(angle)*(xcenter - x) in every bunch's block *)
  Theorem gen_rfk_lin_ctor_is_model (nb nx ny : Z) (A0 A1 : axfacts K) (c two_pi angle f_RF : K) :
    (0 < nx)%Z -> (0 <= nb)%Z ->
    let st := gen_rfk_lin_ctor ftan fsin fasin nb nx ny A0 A1 c two_pi angle f_RF in
    (forall i, rs_offset st i =
               if in_range i (nx * nb) then rf_offsets nx (fun x => ftan angle * (ax_zerobin A0 - fz x)) i else 0) /\
    (forall i, rs_built st i = rs_offset st i).
  Proof.
    intros Hn Hnb. unfold gen_rfk_lin_ctor, rfk_ctor_lin_body. cbn [fold_left rfk_cexec].
    destruct (lin_members A0 A1 c two_pi angle f_RF) as [El [Ea [Es [Eb [Ep Eam]]]]].
    set (M := rfk_ctor_lin_members K ftan fsin fasin A0 A1 c two_pi angle f_RF) in *.
    destruct (gen_calcKick_is_model nb nx ny A0 A1 M (rfk_ctor_lin_phase K ftan fsin fasin A0 A1 M angle f_RF)
                (rfk_ctor_lin_ampl K ftan fsin fasin A0 A1 M angle f_RF) rfd_init Hn Hnb) as [E B].
    split; [|exact B]. intros i. rewrite E. destruct (in_range i (nx * nb)); [|reflexivity].
    unfold rf_offsets, model_kick. rewrite El, Ep, Eam, Ea. unfold rf_lin. fring.
  Qed.

  (** RFKickMap(in, out, revolutionpart, V_RF, f_RF, V0, ..): the sinusoidal field at the synchronous phase
      asin(V0/V_RF), amplitude 1 *)
  Theorem gen_rfk_sin_ctor_is_model (nb nx ny : Z) (A0 A1 : axfacts K) (c two_pi revolutionpart V_RF f_RF V0 : K) :
    (0 < nx)%Z -> (0 <= nb)%Z ->
    let st := gen_rfk_sin_ctor ftan fsin fasin nb nx ny A0 A1 c two_pi revolutionpart V_RF f_RF V0 in
    (forall i, rs_offset st i =
               if in_range i (nx * nb) then
                 rf_offsets nx (fun x => rf_sin revolutionpart 1 V_RF V0 (ax_delta A1) (ax_scale A1 U_ElectronVolt)
                                            (fsin (ax_at A0 x * bl2phase_of A0 c two_pi f_RF + fasin (V0 / V_RF)))) i
               else 0) /\
    (forall i, rs_built st i = rs_offset st i).
  Proof.
    intros Hn Hnb. unfold gen_rfk_sin_ctor, rfk_ctor_sin_body. cbn [fold_left rfk_cexec].
    destruct (sin_members A0 A1 c two_pi revolutionpart V_RF f_RF V0) as [El [Er [Ev [E0 [Es [Eb [Ep Eam]]]]]]].
    set (M := rfk_ctor_sin_members K ftan fsin fasin A0 A1 c two_pi revolutionpart V_RF f_RF V0) in *.
    destruct (gen_calcKick_is_model nb nx ny A0 A1 M (rfk_ctor_sin_phase K ftan fsin fasin A0 A1 M revolutionpart V_RF f_RF V0)
                (rfk_ctor_sin_ampl K ftan fsin fasin A0 A1 M revolutionpart V_RF f_RF V0) rfd_init Hn Hnb) as [E B].
    split; [|exact B]. intros i. rewrite E. destruct (in_range i (nx * nb)); [|reflexivity].
    unfold rf_offsets, model_kick. rewrite El, Ep, Eam, Er, Ev, E0, Es, Eb. reflexivity.
  Qed.

  (** DriftMap(in, out, slip, E0, ..): block 0 of [_offset] holds the drift field, the other blocks keep KickMap's
      zeros; updateSM() follows the loop *)
  Theorem gen_drift_ctor_is_model (nb nx ny : Z) (A0 A1 : axfacts K) (slip : list K) (E0 : K) :
    let st := gen_drift_ctor ftan fsin fasin nb nx ny A0 A1 slip E0 in
    (forall i, rs_offset st i =
               drift_offsets ny (fun y => drift_off slip (ax_scale A1 U_ElectronVolt) E0 (ax_delta A0) (ax_at A1 y)) i) /\
    (forall i, rs_built st i = rs_offset st i).
  Proof.
    unfold gen_drift_ctor, dm_prog. cbn [fold_left rfd_exec rs_offset rs_built].
    split; [|intros i; reflexivity].
    intros i. unfold gen_drift_fill, drift_offsets, rfd_xsize, rfd_ysize, dm_kick_is_x. cbn match.
    rewrite (fill1_range K _ _ _ (fun y => drift_off slip (ax_scale A1 U_ElectronVolt) E0 (ax_delta A0) (ax_at A1 y))).
    - reflexivity.
    - intros y. unfold dm_index. lia.
    - intros y _. apply gen_dm_value_is_model.
  Qed.
End Fields.

(** ** the statements of C03 / C08 / C19 that consume the offset fields, over the generated definitions *)
From Inovesa Require Import Model.ScalingOps Gen.Gen_Scaling Proofs.ScalingAngleP.

Section Consumers.
  Variable K : Fld.
  Add Field KFgen3 : (@Fth K).
  Variables ftan fsin fasin : K -> K.
  Local Open Scope F_scope.
  Ltac fring := unfold two; rewrite ?(Fdiv_def (@Fth K)); ring.

  Lemma in_range_entry (nb nx b x : Z) :
    (0 <= b < nb)%Z -> (0 <= x < nx)%Z -> in_range (Z.min b (nb - 1) * nx + x) (nx * nb) = true.
  Proof. intros Hb Hx. unfold in_range. apply andb_true_iff. split; [apply Z.leb_le | apply Z.ltb_lt]; nia. Qed.

  (** *** C03.2, linear RF kick: the entry KickMap::apply reads for bunch b, row x, after _calcKick(phase, ampl) *)
  Theorem rf_offsets_linear_generated (nb nx ny : Z) (A0 A1 : axfacts K) (M : rfk_members K) (phase ampl : K)
      (st : rfd_state K) (b x : Z) :
    m_linear M = true -> (0 <= b < nb)%Z -> (0 <= x < nx)%Z -> m_bl2phase M <> 0 -> ax_delta A0 <> 0 ->
    let o := rs_offset (gen_calcKick ftan fsin fasin nb nx ny A0 A1 M phase ampl st) (Z.min b (nb - 1) * nx + x)%Z in
    let t := ftan (m_angle M) in
    o = ampl * (t * (ax_zerobin A0 - fz x)) + ampl * t * ((m_syncphase M - phase) / (m_bl2phase M * ax_delta A0)) /\
    (phase = m_syncphase M -> ampl = 1 -> o = t * (ax_zerobin A0 - fz x)).
  Proof.
    intros Hl Hb Hx Hbl Hd o t. subst o. rewrite gen_calcKick_entry by assumption.
    unfold model_kick. rewrite Hl. split.
    - apply rf_offsets_linear; assumption.
    - intros -> ->. unfold rf_lin. subst t. fring.
  Qed.

  (** ... and after the linear constructor (static map): tan(angle)*(xcenter - x) for every bunch, and the table
      apply() uses was built from exactly these offsets *)
  Theorem rf_ctor_linear_generated (nb nx ny : Z) (A0 A1 : axfacts K) (c two_pi angle f_RF : K) (b x : Z) :
    (0 <= b < nb)%Z -> (0 <= x < nx)%Z ->
    let st := gen_rfk_lin_ctor ftan fsin fasin nb nx ny A0 A1 c two_pi angle f_RF in
    rs_built st (Z.min b (nb - 1) * nx + x)%Z = ftan angle * (ax_zerobin A0 - fz x) /\
    rs_offset st (Z.min b (nb - 1) * nx + x)%Z = ftan angle * (ax_zerobin A0 - fz x).
  Proof.
    intros Hb Hx st.
    destruct (gen_rfk_lin_ctor_is_model K ftan fsin fasin nb nx ny A0 A1 c two_pi angle f_RF ltac:(lia) ltac:(lia)) as [E B].
    fold st in E, B. rewrite B, E, in_range_entry by assumption.
    split; apply (rf_offsets_all_bunches K nx (fun x0 => ftan angle * (ax_zerobin A0 - fz x0)) (Z.min b (nb - 1)) x Hx).
  Qed.

  (** *** C03.2, drift: what the constructor leaves in entry y (the entry apply() reads for every bunch) *)
  Theorem drift_offsets_general_generated (nb nx ny : Z) (A0 A1 : axfacts K) (a a1 a2 E0 : K) (y : Z) :
    (0 <= y < ny)%Z -> E0 <> 0 -> ax_delta A0 <> 0 ->
    let st := gen_drift_ctor ftan fsin fasin nb nx ny A0 A1 [a; a1; a2] E0 in
    let p := ax_at A1 y in let r := p * ax_scale A1 U_ElectronVolt / E0 in
    rs_offset st y = (a * p + a1 * p * r + a2 * p * (r * r)) / ax_delta A0 /\ rs_built st y = rs_offset st y.
  Proof.
    intros Hy He Hd st p r.
    destruct (gen_drift_ctor_is_model K ftan fsin fasin nb nx ny A0 A1 [a; a1; a2] E0) as [E B].
    fold st in E, B. split; [|apply B]. rewrite E.
    destruct (C08_drift_offsets_all_bunches K ny
                (fun y0 => drift_off [a; a1; a2] (ax_scale A1 U_ElectronVolt) E0 (ax_delta A0) (ax_at A1 y0)) y Hy) as [Ey _].
    rewrite Ey. apply drift_offsets_general; assumption.
  Qed.

  (** an axis whose coordinates are delta*(i - zerobin) - what the generated Ruler constructor gives ([gen_axis_at]) *)
  Definition axis_linear (A : axfacts K) : Prop := forall i, ax_at A i = (fz i - ax_zerobin A) * ax_delta A.

  Lemma gen_axis_at (steps : Z) (mn mx : K) (sc : runit -> K) :
    mn <> mx -> fz (K:=K) (steps - 1) <> 0 ->
    axis_linear (gen_axis steps mn mx sc) /\ ax_delta (gen_axis steps mn mx sc) <> 0 /\
    ax_zerobin (gen_axis steps mn mx sc) = ruler_zerobin steps mn mx /\
    ax_delta (gen_axis steps mn mx sc) = ruler_delta steps mn mx.
  Proof.
    intros Hm Hs. unfold gen_axis, axis_linear. cbn [ax_at ax_zerobin ax_delta].
    destruct (gen_ruler_is_model K steps mn mx (ruler_delta steps mn mx) 0 Hs) as [Ed [Ez _]].
    rewrite Ed, Ez. repeat split.
    - intros i. destruct (gen_ruler_is_model K steps mn mx (ruler_delta steps mn mx) i Hs) as [_ [_ Ea]].
      rewrite Ea. apply ruler_at_zerobin; assumption.
    - unfold ruler_delta. intro E.
      assert (E2 : mx - mn = 0).
      { transitivity ((mx - mn) / fz (steps - 1) * fz (steps - 1)); [field; exact Hs | rewrite E; ring]. }
      apply Hm. transitivity (mx - (mx - mn)); [ring | rewrite E2; ring].
  Qed.

  Theorem drift_offsets_linear_generated (nb nx ny : Z) (A0 A1 : axfacts K) (slip : list K) (a E0 : K) (y : Z) :
    (0 <= y < ny)%Z -> E0 <> 0 -> ax_delta A0 <> 0 -> axis_linear A1 ->
    slip = [a; 0; 0] \/ slip = [a] ->
    let st := gen_drift_ctor ftan fsin fasin nb nx ny A0 A1 slip E0 in
    rs_offset st y = a * (ax_delta A1 / ax_delta A0) * (fz y - ax_zerobin A1) /\
    (ax_delta A1 = ax_delta A0 -> rs_offset st y = a * (fz y - ax_zerobin A1)) /\
    rs_built st y = rs_offset st y.
  Proof.
    intros Hy He Hd Hax Hs st.
    destruct (gen_drift_ctor_is_model K ftan fsin fasin nb nx ny A0 A1 slip E0) as [E B].
    fold st in E, B.
    assert (Ev : rs_offset st y = a * (ax_delta A1 / ax_delta A0) * (fz y - ax_zerobin A1)).
    { rewrite E.
      destruct (C08_drift_offsets_all_bunches K ny
                  (fun y0 => drift_off slip (ax_scale A1 U_ElectronVolt) E0 (ax_delta A0) (ax_at A1 y0)) y Hy) as [Ey _].
      rewrite Ey, Hax.
      destruct Hs as [-> | ->]; unfold drift_off; cbn [drift_sum kpow]; field; repeat split; assumption. }
    split; [exact Ev|]. split; [|apply B].
    intros Ed. rewrite Ev, Ed. field. exact Hd.
  Qed.

  (** *** the chain main() -> constructor -> offset field (generic field; the grid-level end is below, over Qc):
      with the angle main() computes (Gen_Scaling) and the axes the Ruler constructor computes (Gen_Ruler),
      the static linear RF map holds tan(angle)*(zerobin_0 - x) in the entry of every bunch and, for
      alpha1 = alpha2 = 0, the drift map holds angle*(delta_1/delta_0)*(y - zerobin_1) *)
  Theorem main_rf_field_generated (O : Ops K) (L : leaf -> K) (B : bleaf -> bool)
      (nb n : Z) (mn0 mx0 mn1 mx1 : K) (sc0 sc1 : runit -> K) (c two_pi : K) (b x : Z) :
    (0 <= b < nb)%Z -> (0 <= x < n)%Z ->
    let A0 := gen_axis n mn0 mx0 sc0 in let A1 := gen_axis n mn1 mx1 sc1 in
    let st := gen_rfk_lin_ctor ftan fsin fasin nb n n A0 A1 c two_pi (gen_angle K O L B) (gen_linrf_f_RF K O L B) in
    rs_built st (Z.min b (nb - 1) * n + x)%Z =
    ftan (gen_angle K O L B) * (gen_ruler_zerobin K (fz n) mn0 mx0 - fz x).
  Proof. intros Hb Hx A0 A1 st. apply (rf_ctor_linear_generated nb n n A0 A1); assumption. Qed.

  Theorem main_drift_field_generated (O : Ops K) (L : leaf -> K) (B : bleaf -> bool)
      (nb n : Z) (mn0 mx0 mn1 mx1 : K) (sc0 sc1 : runit -> K) (y : Z) :
    (0 <= y < n)%Z -> L O_getAlpha1 = 0 -> L O_getAlpha2 = 0 ->
    mn0 <> mx0 -> mn1 <> mx1 -> fz (K:=K) (n - 1) <> 0 -> gen_drift_E0 K O L B <> 0 ->
    let A0 := gen_axis n mn0 mx0 sc0 in let A1 := gen_axis n mn1 mx1 sc1 in
    let st := gen_drift_ctor ftan fsin fasin nb n n A0 A1 (gen_slip K O L B) (gen_drift_E0 K O L B) in
    rs_built st y =
    gen_angle K O L B * (gen_ruler_delta K (fz n) mn1 mx1 / gen_ruler_delta K (fz n) mn0 mx0) *
    (fz y - gen_ruler_zerobin K (fz n) mn1 mx1).
  Proof.
    intros Hy H1 H2 Hm0 Hm1 Hs He A0 A1 st.
    destruct (main_slip K O L B) as [_ [_ [Hsl _]]].
    destruct (gen_axis_at n mn0 mx0 sc0 Hm0 Hs) as [_ [Hd0 _]].
    destruct (gen_axis_at n mn1 mx1 sc1 Hm1 Hs) as [Hl1 _].
    destruct (drift_offsets_linear_generated nb n n A0 A1 (gen_slip K O L B) (gen_angle K O L B) (gen_drift_E0 K O L B) y
                Hy He Hd0 Hl1 (or_introl (Hsl H1 H2))) as [Ev [_ Eb]].
    fold st in Ev, Eb. rewrite Eb, Ev. reflexivity.
  Qed.

  (** *** C08: after _calcKick (either RF model) the entry apply() reads for bunch b of an nb-bunch map is the entry the
      single-bunch map reads, and the drift entries do not depend on the number of bunches *)
  Theorem rf_offsets_all_bunches_generated (nb nx ny : Z) (A0 A1 : axfacts K) (M : rfk_members K) (phase ampl : K)
      (st st1 : rfd_state K) (b x : Z) :
    (0 <= b < nb)%Z -> (0 <= x < nx)%Z ->
    let multi := gen_calcKick ftan fsin fasin nb nx ny A0 A1 M phase ampl st in
    let single := gen_calcKick ftan fsin fasin 1 nx ny A0 A1 M phase ampl st1 in
    rs_offset multi (Z.min b (nb - 1) * nx + x)%Z = model_kick K ftan fsin A0 A1 M phase ampl x /\
    rs_offset multi (Z.min b (nb - 1) * nx + x)%Z = rs_offset single (Z.min 0 (1 - 1) * nx + x)%Z /\
    rs_built multi (Z.min b (nb - 1) * nx + x)%Z = rs_offset multi (Z.min b (nb - 1) * nx + x)%Z.
  Proof.
    intros Hb Hx multi single. subst multi single.
    destruct (gen_calcKick_is_model K ftan fsin fasin nb nx ny A0 A1 M phase ampl st ltac:(lia) ltac:(lia)) as [_ Bm].
    rewrite Bm, !gen_calcKick_entry by (assumption || lia).
    repeat split.
  Qed.

  Theorem drift_offsets_all_bunches_generated (nb nx ny : Z) (A0 A1 : axfacts K) (slip : list K) (E0 : K) (y : Z) :
    (0 <= y < ny)%Z ->
    let multi := gen_drift_ctor ftan fsin fasin nb nx ny A0 A1 slip E0 in
    let single := gen_drift_ctor ftan fsin fasin 1 nx ny A0 A1 slip E0 in
    rs_offset multi y = drift_off slip (ax_scale A1 U_ElectronVolt) E0 (ax_delta A0) (ax_at A1 y) /\
    rs_offset multi y = rs_offset single y /\ rs_built multi y = rs_offset multi y /\
    (forall i, (ny <= i)%Z -> rs_offset multi i = 0).
  Proof.
    intros Hy multi single. subst multi single.
    destruct (gen_drift_ctor_is_model K ftan fsin fasin nb nx ny A0 A1 slip E0) as [Em Bm].
    destruct (gen_drift_ctor_is_model K ftan fsin fasin 1 nx ny A0 A1 slip E0) as [Es _].
    destruct (C08_drift_offsets_all_bunches K ny
                (fun y0 => drift_off slip (ax_scale A1 U_ElectronVolt) E0 (ax_delta A0) (ax_at A1 y0)) y Hy) as [Ey Ez].
    split; [|split; [|split]].
    - rewrite Em. exact Ey.
    - rewrite Em, Es. reflexivity.
    - apply Bm.
    - intros i Hi. rewrite Em. apply Ez. exact Hi.
  Qed.
End Consumers.

(** ** the end of the chain, on the executable grid model of KickMap (Model/Kick.v, over Qc): main()'s angle and slip
    vector (Gen_Scaling) -> the two constructors (Gen_RFDrift) with the axes of the Ruler constructor (Gen_Ruler) -> the
    offsets updateSM() built the tables from -> one RF kick + drift step maps the centre of charge of every bunch by
    M = [[1 - a t, -a], [t, 1]] with t = tan(angle) and a = angle * delta_1 / delta_0 *)
From Inovesa Require Import Model.Kick Proofs.WeightsP Proofs.RFGridP.

Section GridQc.
  Variables ftan fsin fasin : Qc -> Qc.

  Theorem centroid_step_generated :
    forall n nb it, valid_it it -> (2 <= it)%Z -> (1 < n < 2 ^ 30)%Z -> (0 < nb)%Z ->
    forall (O : Ops QcF) (L : leaf -> Qc) (B : bleaf -> bool) (mn0 mx0 mn1 mx1 c two_pi : Qc) (sc0 sc1 : runit -> Qc),
      mn0 <> mx0 -> mn1 <> mx1 -> L O_getAlpha1 = 0%Qc -> L O_getAlpha2 = 0%Qc -> gen_drift_E0 QcF O L B <> 0%Qc ->
      let A0 := gen_axis (K:=QcF) n mn0 mx0 sc0 in
      let A1 := gen_axis (K:=QcF) n mn1 mx1 sc1 in
      let angle := gen_angle QcF O L B in
      let orf := rs_built (gen_rfk_lin_ctor (K:=QcF) ftan fsin fasin nb n n A0 A1 c two_pi angle (gen_linrf_f_RF QcF O L B)) in
      let odr := rs_built (gen_drift_ctor (K:=QcF) ftan fsin fasin nb n n A0 A1 (gen_slip QcF O L B) (gen_drift_E0 QcF O L B)) in
      (forall b x, (0 <= b < nb)%Z -> (0 <= x < n)%Z ->
         eff_off n (orf (Z.min b (nb - 1) * n + x)%Z) = orf (Z.min b (nb - 1) * n + x)%Z) ->
      (forall y, (0 <= y < n)%Z -> eff_off n (odr y) = odr y) ->
      forall D b,
        (0 <= b < nb)%Z -> step_ok n nb it orf odr D b -> M0 n D b <> 0%Qc ->
        centre_of_charge n (ax_zerobin A0) (ax_zerobin A1) (rf_drift_step n nb it orf odr D) b =
        mat_apply (K:=QcF) (Mstep (K:=QcF) (ftan angle) (angle * (ax_delta A1 / ax_delta A0))%Qc)
                  (centre_of_charge n (ax_zerobin A0) (ax_zerobin A1) D b).
  Proof.
    intros n nb it Hv H2 Hn Hnb O L B mn0 mx0 mn1 mx1 c two_pi sc0 sc1 Hm0 Hm1 Ha1 Ha2 He A0 A1 angle orf odr Xrf Xdr D b Hb Hok H0.
    assert (Hs : fz (K:=QcF) (n - 1) <> 0%Qc).
    { change (qz (n - 1) <> 0%Qc). rewrite qz_Qcz. unfold Qcz. intro E. apply Q2Qc_eq_iff in E.
      unfold Qeq in E. cbn in E. lia. }
    apply (centroid_step n nb it Hv H2 ltac:(lia) Hnb (ax_zerobin A0) (ax_zerobin A1) (ftan angle)
             (angle * (ax_delta A1 / ax_delta A0))%Qc orf odr); try assumption.
    - intros b' x Hb' Hx. rewrite Xrf by assumption.
      exact (main_rf_field_generated QcF ftan fsin fasin O L B nb n mn0 mx0 mn1 mx1 sc0 sc1 c two_pi b' x Hb' Hx).
    - intros y Hy. rewrite Xdr by assumption.
      exact (main_drift_field_generated QcF ftan fsin fasin O L B nb n mn0 mx0 mn1 mx1 sc0 sc1 y Hy Ha1 Ha2 Hm0 Hm1 Hs He).
  Qed.
  (** C08: slice b of the nb-bunch RF kick whose table updateSM() built inside the generated _calcKick is the
      single-bunch kick of that slice with the model's field *)
  Theorem rf_kick_slice_generated n nb it (A0 A1 : axfacts QcF) (M : rfk_members QcF) (phase ampl : Qc)
      (st : rfd_state QcF) (D : Z -> Qc) b x y :
    valid_it it -> (0 < n)%Z -> (0 < nb)%Z -> (0 <= b < nb)%Z -> (0 <= x < n)%Z -> (0 <= y < n)%Z ->
    let offs := rs_built (gen_calcKick (K:=QcF) ftan fsin fasin nb n n A0 A1 M phase ampl st) in
    apply_y n nb it (updateSM n it offs) D (didx n b x y) =
    apply_y n 1 it (updateSM n it (rf_offsets (K:=QcF) n (model_kick QcF ftan fsin A0 A1 M phase ampl)))
            (fun i => D (b * n * n + i)%Z) (didx n 0 x y).
  Proof.
    intros Hv Hn Hnb Hb Hx Hy offs. subst offs.
    rewrite !apply_y_row by (assumption || lia).
    destruct (rf_offsets_all_bunches_generated QcF ftan fsin fasin nb n n A0 A1 M phase ampl st st b x Hb Hx) as [E1 [_ E3]].
    rewrite E3, E1.
    destruct (rf_offsets_all_bunches QcF n (model_kick QcF ftan fsin A0 A1 M phase ampl) (Z.min 0 (1 - 1)) x Hx) as [E _].
    rewrite E.
    apply row_out_ext; [exact Hn|]. intros i Hi. unfold rowY. rewrite !clip_in by lia.
    f_equal. unfold didx. ring.
  Qed.
End GridQc.

(** ** C19: the kick DynamicRFKickMap::apply computes from a modulation record (Model/DynRF.v: [kick_entry]) is the
    generated _calcKick, and with zero spreads and zero modulation amplitude it reproduces the offsets (and the table)
    the static constructor left *)
From Inovesa Require Import Model.DynRF.

Section Dyn.
  Variable K : Fld.
  Add Field KFgen4 : (@Fth K).
  Variables ftan fsin fasin : K -> K.
  Local Open Scope F_scope.
  Ltac fring := unfold two; rewrite ?(Fdiv_def (@Fth K)); ring.

  (** the members DynRF's hand-written [_calcKick] reads, taken from the generated records *)
  Definition rfmap_of (nx : Z) (A0 A1 : axfacts K) (M : rfk_members K) : rfmap K :=
    mkRF (m_linear M) (ftan (m_angle M)) (m_revolutionpart M) (m_V_RF M) (m_V0 M) (m_syncphase M) (m_bl2phase M)
         nx (ax_zerobin A0) (ax_delta A0) (ax_delta A1) (ax_scale A1 U_ElectronVolt) (ax_at A0).

  Theorem kick_entry_generated (nb nx ny : Z) (A0 A1 : axfacts K) (M : rfk_members K) (phase ampl : K)
      (st : rfd_state K) (b x : Z) :
    (0 <= b < nb)%Z -> (0 <= x < nx)%Z ->
    rs_offset (gen_calcKick ftan fsin fasin nb nx ny A0 A1 M phase ampl st) (Z.min b (nb - 1) * nx + x)%Z =
    kick_entry fsin (rfmap_of nx A0 A1 M) phase ampl x.
  Proof.
    intros Hb Hx. rewrite gen_calcKick_entry by assumption.
    unfold model_kick, kick_entry, rfmap_of.
    cbn [linear tan_angle revpart V_RF V0 syncphase bl2phase xcenter delta0 delta1 scale1 axis0].
    destruct (m_linear M); [unfold rf_lin | unfold rf_sin]; fring.
  Qed.

  (** calling _calcKick again with the arguments of the previous call changes nothing *)
  Lemma gen_calcKick_idem (nb nx ny : Z) (A0 A1 : axfacts K) (M : rfk_members K) (phase ampl : K) (st0 : rfd_state K) :
    (0 < nx)%Z -> (0 <= nb)%Z ->
    let st := gen_calcKick ftan fsin fasin nb nx ny A0 A1 M phase ampl st0 in
    forall i, rs_offset (gen_calcKick ftan fsin fasin nb nx ny A0 A1 M phase ampl st) i = rs_offset st i /\
              rs_built (gen_calcKick ftan fsin fasin nb nx ny A0 A1 M phase ampl st) i = rs_built st i.
  Proof.
    intros Hn Hnb st i.
    destruct (gen_calcKick_is_model K ftan fsin fasin nb nx ny A0 A1 M phase ampl st Hn Hnb) as [E2 B2].
    destruct (gen_calcKick_is_model K ftan fsin fasin nb nx ny A0 A1 M phase ampl st0 Hn Hnb) as [E1 B1].
    fold st in E1, B1.
    assert (Eo : rs_offset (gen_calcKick ftan fsin fasin nb nx ny A0 A1 M phase ampl st) i = rs_offset st i).
    { rewrite E2, E1. destruct (in_range i (nx * nb)); reflexivity. }
    split; [exact Eo|]. rewrite B2, B1. exact Eo.
  Qed.

  (** the record of a step without noise and without modulation is (synchronous phase, 1) *)
  Lemma unmodulated_entry (sync : K) (d : dyncfg K) (n1 n2 s : K) :
    phasenoise d = 0 -> amplnoise d = 0 -> modampl d = 0 -> mod_entry sync d n1 n2 s = (sync, 1).
  Proof. intros H1 H2 H3. unfold mod_entry. rewrite H1, H2, H3. f_equal; ring. Qed.

  Theorem unmodulated_kick_is_static_generated (nb nx ny : Z) (A0 A1 : axfacts K)
      (c two_pi angle revolutionpart V_RF f_RF V0 : K) (d : dyncfg K) (n1 n2 s : K) :
    phasenoise d = 0 -> amplnoise d = 0 -> modampl d = 0 -> (0 < nx)%Z -> (0 <= nb)%Z ->
    (let M := rfk_ctor_lin_members K ftan fsin fasin A0 A1 c two_pi angle f_RF in
     let st := gen_rfk_lin_ctor ftan fsin fasin nb nx ny A0 A1 c two_pi angle f_RF in
     let e := mod_entry (m_syncphase M) d n1 n2 s in
     forall i, rs_offset (gen_calcKick ftan fsin fasin nb nx ny A0 A1 M (fst e) (snd e) st) i = rs_offset st i /\
               rs_built (gen_calcKick ftan fsin fasin nb nx ny A0 A1 M (fst e) (snd e) st) i = rs_built st i) /\
    (let M := rfk_ctor_sin_members K ftan fsin fasin A0 A1 c two_pi revolutionpart V_RF f_RF V0 in
     let st := gen_rfk_sin_ctor ftan fsin fasin nb nx ny A0 A1 c two_pi revolutionpart V_RF f_RF V0 in
     let e := mod_entry (m_syncphase M) d n1 n2 s in
     forall i, rs_offset (gen_calcKick ftan fsin fasin nb nx ny A0 A1 M (fst e) (snd e) st) i = rs_offset st i /\
               rs_built (gen_calcKick ftan fsin fasin nb nx ny A0 A1 M (fst e) (snd e) st) i = rs_built st i).
  Proof.
    intros H1 H2 H3 Hn Hnb. split.
    - intros M st e i. subst e. rewrite unmodulated_entry by assumption. cbn [fst snd].
      destruct (lin_members K ftan fsin fasin A0 A1 c two_pi angle f_RF) as [_ [_ [_ [_ [Ep Ea]]]]]. fold M in Ep, Ea.
      subst st. unfold gen_rfk_lin_ctor, rfk_ctor_lin_body. cbn [fold_left rfk_cexec]. fold M.
      rewrite Ep, Ea. apply gen_calcKick_idem; assumption.
    - intros M st e i. subst e. rewrite unmodulated_entry by assumption. cbn [fst snd].
      destruct (sin_members K ftan fsin fasin A0 A1 c two_pi revolutionpart V_RF f_RF V0) as [_ [_ [_ [_ [_ [_ [Ep Ea]]]]]]].
      fold M in Ep, Ea.
      subst st. unfold gen_rfk_sin_ctor, rfk_ctor_sin_body. cbn [fold_left rfk_cexec]. fold M.
      rewrite Ep, Ea. apply gen_calcKick_idem; assumption.
  Qed.
End Dyn.
